(* Ext.v — extensions (C30): the Next* chain runners of src/extensions/mod.rs
   as folds over the extension chain, the hook trace of one request
   (Schema::execute + prepare_request of src/schema.rs), and the extension
   branches of field and list resolution (Fields::add_set of
   src/resolver_utils/container.rs, resolve_list of src/resolver_utils/list.rs)
   including the registry lookup keyed by the STATIC type name T::type_name().
   Model, specification and per-case verdict only; proofs are in ExtProofs.v. *)
From AG Require Export Exec ExecCheck.
Open Scope N_scope.

(* ------------------------------------------------------------- events --- *)
(* what a recording extension sees: the hook kind with its arguments *)
Inductive hk :=
| HRequest | HPrepare | HParse | HValidation
| HExecute (op : option name)
| HField (p : path) (parent : name) (ret : ty) (nm : name) (alias : option name)
| HItem (p : path) (parent : ty) (ret : ty) (nm : name) (alias : option name)
| HSubscribe.

Inductive ev :=
| Enter (e : N) (h : hk)
| Exit (e : N) (h : hk) (ok : bool).

Fixpoint ty_eqb (a b : ty) : bool :=
  match a, b with
  | TNamed x, TNamed y => name_eqb x y
  | TList x, TList y => ty_eqb x y
  | TNonNull x, TNonNull y => ty_eqb x y
  | _, _ => false
  end.

Definition hk_eqb (a b : hk) : bool :=
  match a, b with
  | HRequest, HRequest | HPrepare, HPrepare | HParse, HParse
  | HValidation, HValidation | HSubscribe, HSubscribe => true
  | HExecute x, HExecute y => option_eqb name_eqb x y
  | HField p1 a1 r1 n1 l1, HField p2 a2 r2 n2 l2 =>
      path_eqb p1 p2 && name_eqb a1 a2 && ty_eqb r1 r2 && name_eqb n1 n2 && option_eqb name_eqb l1 l2
  | HItem p1 a1 r1 n1 l1, HItem p2 a2 r2 n2 l2 =>
      path_eqb p1 p2 && ty_eqb a1 a2 && ty_eqb r1 r2 && name_eqb n1 n2 && option_eqb name_eqb l1 l2
  | _, _ => false
  end.

Definition ev_eqb (a b : ev) : bool :=
  match a, b with
  | Enter e1 h1, Enter e2 h2 => (e1 =? e2) && hk_eqb h1 h2
  | Exit e1 h1 o1, Exit e2 h2 o2 => (e1 =? e2) && hk_eqb h1 h2 && Bool.eqb o1 o2
  | _, _ => false
  end.

(* ------------------------------------------------------------ runners --- *)
(* A hook receives the rest of the chain as a function ("next.run") and its
   arguments; everything it does is visible in its result and in the events it
   emits.  NextX::run: `if let Some((first, next)) = chain.split_first()
   { first.hook(ctx, args, NextX { chain: next, .. }) } else { base }`. *)
Section Runner.
  Context {A R : Type}.
  Definition M (X : Type) : Type := (X * list ev)%type.
  Definition hook : Type := (A -> M R) -> A -> M R.

  Fixpoint run (chain : list hook) (base : A -> M R) (a : A) : M R :=
    match chain with
    | [] => base a
    | first :: next => first (run next base) a
    end.

  (* a recording pass-through hook: note the call, delegate with the same
     arguments, note the result, return it unchanged *)
  Definition rec_hook (e : N) (kind : A -> hk) (okf : R -> bool) : hook :=
    fun next a =>
      let '(r, t) := next a in
      (r, Enter e (kind a) :: t ++ [Exit e (kind a) (okf r)]).

  Definition rec_chain (ids : list N) (kind : A -> hk) (okf : R -> bool) : list hook :=
    map (fun e => rec_hook e kind okf) ids.

  (* pass-through in general: whatever else the hook does (its events are
     arbitrary), it calls next exactly once with its own arguments and returns
     next's result *)
  Definition passthrough (h : hook) : Prop :=
    exists pre post : A -> R -> list ev,
      forall next a, h next a = (fst (next a), pre a (fst (next a)) ++ snd (next a) ++ post a (fst (next a))).
End Runner.

(* the seven runners (Extensions::{request, subscribe, prepare_request,
   parse_query, validation, execute, resolve}).  For request / parse_query /
   validation / resolve the base is a future fixed before the chain starts (it
   does not see the arguments handed down the chain); for prepare_request and
   subscribe the base returns its argument. *)
Definition next_request {R} (chain : list (@hook unit R)) (request_fut : M R) : M R :=
  run chain (fun _ => request_fut) tt.
Definition next_subscribe {St} (chain : list (@hook St St)) (stream : St) : M St :=
  run chain (fun s => (s, [])) stream.
Definition next_prepare {Rq} (chain : list (@hook Rq (outcome Rq))) (request : Rq) : M (outcome Rq) :=
  run chain (fun r => (Ok r, [])) request.
Definition next_parse {Q D} (chain : list (@hook Q D)) (parse_fut : M D) (query : Q) : M D :=
  run chain (fun _ => parse_fut) query.
Definition next_validation {V} (chain : list (@hook unit V)) (validation_fut : M V) : M V :=
  run chain (fun _ => validation_fut) tt.
Definition next_resolve {I V} (chain : list (@hook I V)) (resolve_fut : M V) (info : I) : M V :=
  run chain (fun _ => resolve_fut) info.

(* NextExecute additionally threads the context data given to run_with_data:
   data of an outer extension is merged with (and overridden by) data of an
   inner one; the factory receives the merged data. *)
Section Execute.
  Context {D R : Type}.
  Variable merge : D -> D -> D.
  Definition merge_opt (a b : option D) : option D :=
    match a, b with
    | Some x, Some y => Some (merge x y)
    | Some x, None => Some x
    | None, y => y
    end.
  (* an execute hook: gets next (taking the operation name and optional data) *)
  Definition xhook : Type := (option name -> option D -> M R) -> option name -> M R.
  Fixpoint run_execute (chain : list xhook) (factory : option D -> M R) (acc : option D)
           (op : option name) (d : option D) : M R :=
    let acc' := merge_opt acc d in
    match chain with
    | [] => factory acc'
    | first :: next => first (run_execute next factory acc') op
    end.
  Definition next_execute (chain : list xhook) (factory : option D -> M R) (op : option name) : M R :=
    run_execute chain factory None op None.
  Definition rec_xhook (e : N) (okf : R -> bool) : xhook :=
    fun next op =>
      let '(r, t) := next op None in          (* next.run(ctx, operation_name) *)
      (r, Enter e (HExecute op) :: t ++ [Exit e (HExecute op) (okf r)]).
End Execute.

(* the events a chain of recording pass-through extensions adds around [inner] *)
Definition wrap (ch : list N) (h : hk) (ok : bool) (inner : list ev) : list ev :=
  map (fun e => Enter e h) ch ++ inner ++ map (fun e => Exit e h ok) (rev ch).

(* --------------------------------------------- execution with extensions --- *)
Record xocc := { xo : occ; xo_st : name; xo_alias : option name; xo_xd : bool }.

(* result of a piece of execution: value (or failure in flight), errors stored
   so far, resolver invocations, hook events, "a registry lookup by static type
   name failed", number of list items handed to the item hook *)
Record xr (V : Type) := mkxr {
  x_v : V; x_es : list path; x_tr : list (N * name); x_ev : list ev; x_lf : bool; x_ni : nat }.
Arguments mkxr {V}.
Arguments x_v {V}. Arguments x_es {V}. Arguments x_tr {V}. Arguments x_ev {V}. Arguments x_lf {V}. Arguments x_ni {V}.

Definition is_nil {A} (l : list A) : bool := match l with [] => true | _ => false end.
Definition ires_ok (v : ires) : bool := match v with IVal _ => true | IFail _ => false end.

Section XImpl.
  Variable q : quirks.
  Variable S : schema.
  Variable w : world.
  Variable frags : list (name * fragment).
  Variable vars : list (name * value).
  Variable vdefs : list vardef.
  Variable ch : list N.               (* identities of the recording extensions, registration order *)

  (* directives left on a field after remove_skipped_selection *)
  Definition extra_dirs (dirs : list directive) : bool :=
    existsb (fun d => negb (name_eqb (d_name d) N_skip || name_eqb (d_name d) N_include)) dirs.

  (* Fields::add_set, flattened; [st] = T::type_name() of the add_set instance *)
  Fixpoint x_collect (n : nat) (st rt : name) (sels : list selection) {struct n} : outcome (list xocc) :=
    match sels with
    | [] => Ok []
    | s :: r =>
      match n with
      | O => OutOfFuel
      | Datatypes.S n' =>
        bindo (match i_skipped q vars vdefs (sel_dirs s) with
               | None => Err 8
               | Some true => Ok []
               | Some false =>
                 match s with
                 | SField al nm _ dirs sub =>
                     Ok [{| xo := {| o_key := key_of al nm; o_name := nm; o_sels := sub;
                                     o_iface := negb (name_eqb st rt) && is_iface S st |};
                            xo_st := st; xo_alias := al; xo_xd := extra_dirs dirs |}]
                 | SSpread nm _ =>
                     match assoc nm frags with
                     | Some fr =>
                         if applies_concrete q S (fr_cond fr) rt then x_collect n' rt rt (fr_sels fr)
                         else if name_eqb (fr_cond fr) st then x_collect n' st rt (fr_sels fr)
                         else Ok []
                     | None => Ok []
                     end
                 | SInline (Some c) _ sub =>
                     if applies_concrete q S c rt then x_collect n' rt rt sub
                     else if name_eqb c st then x_collect n' st rt sub
                     else Ok []
                 | SInline None _ sub => x_collect n' st rt sub
                 end
               end) (fun a => bindo (x_collect n' st rt r) (fun b => Ok (a ++ b)))
      end
    end.

  (* the once-per-key variant (q_per_occurrence off): static type, alias and
     directives of the first occurrence of the key *)
  Definition x_dedup (xs : list xocc) : list xocc :=
    let occs0 := map xo xs in
    map (fun o =>
           let same := filter (fun x => name_eqb (o_key (xo x)) (o_key o)) xs in
           {| xo := {| o_key := o_key o; o_name := o_name o; o_sels := o_sels o;
                       o_iface := existsb (fun o' => name_eqb (o_key o') (o_key o) && o_iface o') occs0 |};
              xo_st := match same with x :: _ => xo_st x | [] => 0 end;
              xo_alias := match same with x :: _ => xo_alias x | [] => None end;
              xo_xd := existsb xo_xd same |})
        (dedup_occs occs0).

  (* the registry lookup of the extension branch:
     registry.types.get(T::type_name()).and_then(|ty| ty.field_by_name(name)).map(|f| &f.ty) *)
  Definition lookup_ret (st nm : name) : option ty :=
    match tdef_of S st with
    | Some (DObject fs _) => assoc nm fs
    | Some (DInterface fs _) => assoc nm fs
    | _ => None
    end.

  (* resolve_list names the element type through `&T`, whose
     qualified_type_name() is the default "<type_name>!": the item hook always
     sees a non-null element type, also for Vec<Option<T>> *)
  Definition item_ret (t : ty) : ty := TNonNull (strip_nn t).

  (* is the ResolveInfo branch of add_set taken for this field *)
  Definition ext_branch (o : xocc) : bool := negb (is_nil ch) || xo_xd o.

  (* extensions.resolve(info, fut): the chain of recording extensions around a
     finished future *)
  Definition resolve_chain : list (@hook hk ires) :=
    rec_chain ch (fun h => h) ires_ok.
  Definition hooked (h : hk) (r : xr ires) : xr ires :=
    let '(v, evs) := next_resolve resolve_chain (x_v r, x_ev r) h in
    mkxr v (x_es r) (x_tr r) evs (x_lf r) (x_ni r).

  Definition xcatch (catch : bool) (r : xr ires) : xr ires :=
    match x_v r with
    | IFail ep => if catch then mkxr (IVal VNull) (x_es r ++ [ep]) (x_tr r) (x_ev r) (x_lf r) (x_ni r) else r
    | IVal _ => r
    end.

  (* one unfolding of each mutually recursive function, the recursive calls
     abstracted (the fixpoints below tie the knot on the fuel) *)
  Definition occs_t := name -> N -> list xocc -> path -> outcome (xr (list (name * value) + path)).
  Definition field_t := name -> N -> xocc -> path -> outcome (xr ires).
  Definition comp_t := bool -> name * option name -> ty -> outv -> list selection -> path -> outcome (xr ires).
  Definition items_t := name * option name -> ty -> list outv -> N -> list selection -> path -> outcome (xr (list value + path)).
  Definition set_t := name -> name -> N -> list selection -> path -> outcome (xr ires).

  Definition set_step (n' : nat) (occs_f : occs_t) : set_t := fun st rt nid sels p =>
    bindo (x_collect n' st rt sels) (fun occs0 =>
    let occs := if q_per_occurrence q then occs0 else x_dedup occs0 in
    bindo (occs_f rt nid occs p) (fun r =>
      Ok (mkxr (match x_v r with
                | inl l => IVal (create_value_object n' l)
                | inr ep => IFail ep
                end) (x_es r) (x_tr r) (x_ev r) (x_lf r) (x_ni r)))).

  Definition occs_step (field_f : field_t) (occs_f : occs_t) (rt : name) (nid : N) (o : xocc) (r : list xocc) (p : path)
    : outcome (xr (list (name * value) + path)) :=
    bindo (field_f rt nid o p) (fun a =>
      match x_v a with
      | IFail ep => Ok (mkxr (inr ep) (x_es a) (x_tr a) (x_ev a) (x_lf a) (x_ni a))   (* try_join_all: the rest is dropped *)
      | IVal v =>
          bindo (occs_f rt nid r p) (fun b =>
            Ok (mkxr (match x_v b with
                      | inl l => inl ((o_key (xo o), v) :: l)
                      | inr ep => inr ep
                      end) (x_es a ++ x_es b) (x_tr a ++ x_tr b) (x_ev a ++ x_ev b)
                     (x_lf a || x_lf b) (x_ni a + x_ni b)%nat))
      end).

  (* root.resolve_field(&ctx_field) of a derive-built object *)
  Definition field_body (comp_f : comp_t) (nid : N) (o : xocc) (p' : path) (t : ty) : outcome (xr ires) :=
    let nm := o_name (xo o) in
    let ov := out w nid nm in
    if resolver_fails S w t ov then
      let ep := if o_iface (xo o) && q_iface_no_path q then [] else p' in
      if q_field_err_parent q || is_nonnull t
      then Ok (mkxr (IFail ep) [] [(nid, nm)] [] false O)
      else Ok (mkxr (IVal VNull) [ep] [(nid, nm)] [] false O)
    else bindo (comp_f true (nm, xo_alias o) t ov (o_sels (xo o)) p') (fun r =>
           Ok (mkxr (x_v r) (x_es r) ((nid, nm) :: x_tr r) (x_ev r) (x_lf r) (x_ni r))).

  (* the field table root.resolve_field dispatches on: the object's own fields,
     or - for an interface / union enum (static type differs from the runtime
     type) - the interface's fields, forwarded to the implementor *)
  Definition declared_ty (rt : name) (o : xocc) : option ty :=
    let nm := o_name (xo o) in
    if name_eqb (xo_st o) rt then obj_field_ty S rt nm
    else match lookup_ret (xo_st o) nm with
         | Some _ => obj_field_ty S rt nm
         | None => None
         end.

  Definition field_step (comp_f : comp_t) : field_t := fun rt nid o p =>
    let nm := o_name (xo o) in
    if name_eqb nm N_typename then Ok (mkxr (IVal (VStr (type_str S rt))) [] [] [] false O)
    else match declared_ty rt o with
         | None =>
             (* a field the object / interface does not define (only reachable when
                validation does not check field names, ValidationMode::Fast):
                resolve_field answers Ok(None), i.e. null, on the fast path; the
                extension branch fails on its registry lookup *)
             if ext_branch o then
               match lookup_ret (xo_st o) nm with
               | None => Ok (mkxr (IFail []) [] [] [] true O)
               | Some _ => Err 7
               end
             else Ok (mkxr (IVal VNull) [] [] [] false O)
         | Some t =>
             let p' := p ++ [PF (o_key (xo o))] in
             if ext_branch o then
               match lookup_ret (xo_st o) nm with
               | None => Ok (mkxr (IFail []) [] [] [] true O)      (* Cannot query field ".." on type ".." *)
               | Some rty =>
                   bindo (field_body comp_f nid o p' t)
                         (fun r => Ok (hooked (HField p' (xo_st o) rty nm (xo_alias o)) r))
               end
             else field_body comp_f nid o p' t
         end.

  Definition comp_step (comp_f : comp_t) (items_f : items_t) (set_f : set_t) : comp_t := fun catch fa t ov sub p =>
    match t with
    | TNonNull t' => comp_f false fa t' ov sub p
    | TList t' =>
        match ov with
        | OList l =>
            bindo (items_f fa t' l 0 sub p) (fun r =>
              Ok (xcatch catch (mkxr (match x_v r with inl l => IVal (VList l) | inr ep => IFail ep end)
                                     (x_es r) (x_tr r) (x_ev r) (x_lf r) (x_ni r))))
        | _ => Ok (mkxr (IVal VNull) [] [] [] false O)
        end
    | TNamed tn =>
        match ov with
        | ORef k =>
            match node_ty w k with
            | Some rt' =>
                let st := match tdef_of S tn with Some (DObject _ _) => rt' | _ => tn end in
                bindo (set_f st rt' k sub p) (fun r => Ok (xcatch catch r))
            | None => Ok (mkxr (IVal VNull) [] [] [] false O)
            end
        | ONull => Ok (mkxr (IVal VNull) [] [] [] false O)
        | _ => Ok (mkxr (IVal (leaf_value (q_nan_null q) ov)) [] [] [] false O)
        end
    end.

  (* resolve_list: the item hook runs only when extensions are attached *)
  Definition item_hooked (fa : name * option name) (t : ty) (p : path) (i : N) (a0 : xr ires) : xr ires :=
    if is_nil ch then a0
    else let r := hooked (HItem (p ++ [PI i]) (TList (item_ret t)) (item_ret t) (fst fa) (snd fa)) a0 in
         mkxr (x_v r) (x_es r) (x_tr r) (x_ev r) (x_lf r) (Datatypes.S (x_ni r)).

  Definition items_step (comp_f : comp_t) (items_f : items_t) (fa : name * option name) (t : ty)
             (ov : outv) (r : list outv) (i : N) (sub : list selection) (p : path)
    : outcome (xr (list value + path)) :=
    bindo (comp_f true fa t ov sub (p ++ [PI i])) (fun a0 =>
      let a := item_hooked fa t p i a0 in
      match x_v a with
      | IFail ep => Ok (mkxr (inr (if q_list_path q then p ++ [PI i] else ep)) (x_es a) (x_tr a) (x_ev a) (x_lf a) (x_ni a))
      | IVal v =>
          bindo (items_f fa t r (i + 1) sub p) (fun b =>
            Ok (mkxr (match x_v b with inl l => inl (v :: l) | inr ep => inr ep end)
                     (x_es a ++ x_es b) (x_tr a ++ x_tr b) (x_ev a ++ x_ev b) (x_lf a || x_lf b) (x_ni a + x_ni b)%nat))
      end).

  Fixpoint x_set (n : nat) : set_t :=
    match n with
    | O => fun _ _ _ _ _ => OutOfFuel
    | Datatypes.S n' => set_step n' (x_occs n')
    end
  with x_occs (n : nat) : occs_t := fun rt nid occs p =>
    match occs with
    | [] => Ok (mkxr (inl []) [] [] [] false O)
    | o :: r =>
      match n with
      | O => OutOfFuel
      | Datatypes.S n' => occs_step (x_field n') (x_occs n') rt nid o r p
      end
    end
  with x_field (n : nat) : field_t :=
    match n with
    | O => fun _ _ _ _ => OutOfFuel
    | Datatypes.S n' => field_step (x_comp n')
    end
  with x_comp (n : nat) : comp_t :=
    match n with
    | O => fun _ _ _ _ _ _ => OutOfFuel
    | Datatypes.S n' => comp_step (x_comp n') (x_items n') (x_set n')
    end
  with x_items (n : nat) : items_t := fun fa t l i sub p =>
    match l with
    | [] => Ok (mkxr (inl []) [] [] [] false O)
    | ov :: r =>
      match n with
      | O => OutOfFuel
      | Datatypes.S n' => items_step (x_comp n') (x_items n') fa t ov r i sub p
      end
    end.
End XImpl.

(* ----------------------------------------------------------- one request --- *)
Record cfg := {
  c_k : N;             (* number of recording extensions attached (ids 0 .. k-1) *)
  c_valid : bool;      (* outcome of the validator on this document (not modelled here) *)
  c_intro : bool;      (* request.only_introspection() *)
  c_empty : name;      (* the name "EmptyMutation" (a type the registry of the family does not contain) *)
  c_fast : bool }.     (* ValidationMode::Fast (field names are not validated) *)

Definition empty_mutation_str : str := [69;109;112;116;121;77;117;116;97;116;105;111;110].

Definition ids (k : N) : list N := map N.of_nat (seq 0 (N.to_nat k)).

(* IntrospectionOnly: QueryRoot::resolve_field and EmptyMutation::resolve_field
   answer Ok(None) for every field other than the introspection fields (which
   the generators do not emit); the mutation root is EmptyMutation, whose
   static type name is not the registered mutation type *)
Section Intro.
  Variable S : schema.
  Variable ch : list N.
  Variable rstr : str.
  Fixpoint x_intro_occs (occs : list xocc) : xr (list (name * value) + path) :=
    match occs with
    | [] => mkxr (inl []) [] [] [] false O
    | o :: r =>
        let nm := o_name (xo o) in
        let a : xr ires :=
          if name_eqb nm N_typename then mkxr (IVal (VStr rstr)) [] [] [] false O
          else
            let body := mkxr (IVal VNull) [] [] [] false O in
            if ext_branch ch o then
              match lookup_ret S (xo_st o) nm with
              | None => mkxr (IFail []) [] [] [] true O
              | Some rty => hooked ch (HField [PF (o_key (xo o))] (xo_st o) rty nm (xo_alias o)) body
              end
            else body in
        match x_v a with
        | IFail ep => mkxr (inr ep) (x_es a) (x_tr a) (x_ev a) (x_lf a) (x_ni a)
        | IVal v =>
            let b := x_intro_occs r in
            mkxr (match x_v b with inl l => inl ((o_key (xo o), v) :: l) | inr ep => inr ep end)
                 (x_es a ++ x_es b) (x_tr a ++ x_tr b) (x_ev a ++ x_ev b) (x_lf a || x_lf b) (x_ni a + x_ni b)%nat
        end
    end.
End Intro.

Definition x_intro (q : quirks) (S : schema) (frags : list (name * fragment)) (vars : list (name * value))
           (vdefs : list vardef) (ch : list N) (n : nat) (root : name) (rstr : str) (sels : list selection)
  : outcome (xr ires) :=
  bindo (x_collect q S frags vars vdefs n root root sels) (fun occs0 =>
    let occs := if q_per_occurrence q then occs0 else x_dedup occs0 in
    let r := x_intro_occs S ch rstr occs in
    Ok (mkxr (match x_v r with inl l => IVal (create_value_object n l) | inr ep => IFail ep end)
             (x_es r) (x_tr r) (x_ev r) (x_lf r) (x_ni r))).

Definition to_response (r : xr ires) : response :=
  match x_v r with
  | IVal x => {| rs_data := x; rs_errors := x_es r; rs_trace := x_tr r |}
  | IFail ep => {| rs_data := VNull; rs_errors := ep :: x_es r; rs_trace := x_tr r |}
  end.

Definition some_ok {A} (o : option A) : bool := match o with Some _ => true | None => false end.
Definition outcome_ok {A} (o : outcome A) : bool := match o with Ok _ => true | _ => false end.
(* what the request / execute hooks note about a Response: no errors *)
Definition resp_ok (r : option response) : bool :=
  match r with Some r => is_nil (rs_errors r) | None => false end.

(* execute_once under the execute hook, for the selected operation *)
Definition x_execute (q : quirks) (S : schema) (w : world) (d : document) (opname : option name)
           (vars : list (name * value)) (cf : cfg) (ch : list N) (n : nat)
  : outcome (option (option name * xr ires)) :=
  match select_op d opname with
  | None => Ok None                 (* "Operation name required" / "Unknown operation named" *)
  | Some o =>
      match root_name S o with
      | None => Err 2
      | Some rt =>
          let env_opname := match opname with Some x => Some x | None => op_name o end in
          bindo (if c_intro cf then
                   match op_ty o with
                   | OpMutation => x_intro q S (doc_frags d) vars (op_vars o) ch n (c_empty cf) empty_mutation_str (op_sels o)
                   | _ => x_intro q S (doc_frags d) vars (op_vars o) ch n rt (type_str S rt) (op_sels o)
                   end
                 else x_set q S w (doc_frags d) vars (op_vars o) ch n rt rt (root_nid o) (op_sels o) [])
                (fun r => Ok (Some (env_opname, r)))
      end
  end.

(* Schema::execute: request( prepare_request( prepare_request hook; parse_query;
   validation; operation selection ); execute ).  [od] = None: the parser (or
   the recursion / directive limit inside the parse future) fails.  The result is
   None when the request is rejected before execution. *)
Definition x_request (q : quirks) (S : schema) (w : world) (od : option document) (opname : option name)
           (vars : list (name * value)) (cf : cfg) (n : nat)
  : outcome (option response * list ev * bool) :=
  let ch := ids (c_k cf) in
  bindo (match od with
         | Some d => if c_valid cf then x_execute q S w d opname vars cf ch n else Ok None
         | None => Ok None
         end) (fun ex =>
    let request_fut : M (option response * bool) :=
      let '(_, e1) := next_prepare (rec_chain ch (fun _ : unit => HPrepare) outcome_ok) tt in
      let '(pd, e2) := next_parse (rec_chain ch (fun _ : unit => HParse) some_ok) (od, []) tt in
      match pd with
      | None => ((None, false), e1 ++ e2)
      | Some _ =>
          let '(v, e3) := next_validation (rec_chain ch (fun _ => HValidation) (fun b : bool => b)) (c_valid cf, []) in
          if negb v then ((None, false), e1 ++ e2 ++ e3)
          else match ex with
               | None => ((None, false), e1 ++ e2 ++ e3)
               | Some (op, r) =>
                   let '(resp, e4) :=
                     next_execute (fun a _ : unit => a)
                                  (map (fun e => rec_xhook e (fun x : option response * bool => resp_ok (fst x))) ch)
                                  (fun _ => ((Some (to_response r), x_lf r), x_ev r)) op in
                   (resp, e1 ++ e2 ++ e3 ++ e4)
               end
      end in
    let '((resp, lf), evs) :=
      next_request (rec_chain ch (fun _ => HRequest) (fun x : option response * bool => resp_ok (fst x))) request_fut in
    Ok (resp, evs, lf)).

(* ------------------------------------------------- specification (checker) --- *)
(* written from the property text: hooks nested in registration order; per
   request prepare, parse, validation, execute once each in that order (cut at
   the first failing phase); resolve hooks only inside execute; one field hook
   per resolver invocation; list items announced contiguously from 0. *)
Inductive tree := Node (h : hk) (ok : bool) (kids : list tree).

Fixpoint eat_enters (l : list N) (h : hk) (evs : list ev) : option (list ev) :=
  match l with
  | [] => Some evs
  | i :: r =>
      match evs with
      | Enter e h' :: evs' => if (e =? i) && hk_eqb h h' then eat_enters r h evs' else None
      | _ => None
      end
  end.
Fixpoint eat_exits (l : list N) (h : hk) (ok : bool) (evs : list ev) : option (list ev) :=
  match l with
  | [] => Some evs
  | i :: r =>
      match evs with
      | Exit e h' ok' :: evs' => if (e =? i) && hk_eqb h h' && Bool.eqb ok ok' then eat_exits r h ok evs' else None
      | _ => None
      end
  end.

Fixpoint parse_forest (fuel : nat) (l : list N) (evs : list ev) : option (list tree * list ev) :=
  match fuel with
  | O => None
  | Datatypes.S f =>
      match evs with
      | Enter _ h :: _ =>
          match l with
          | [] => None
          | _ =>
            match eat_enters l h evs with
            | None => None
            | Some evs1 =>
              match parse_forest f l evs1 with
              | None => None
              | Some (kids, evs2) =>
                match evs2 with
                | Exit _ _ ok :: _ =>
                    match eat_exits (rev l) h ok evs2 with
                    | None => None
                    | Some evs3 =>
                      match parse_forest f l evs3 with
                      | None => None
                      | Some (sibs, evs4) => Some (Node h ok kids :: sibs, evs4)
                      end
                    end
                | _ => None
                end
              end
            end
          end
      | _ => Some ([], evs)
      end
  end.

Definition phase_no (h : hk) : N :=
  match h with HPrepare => 1 | HParse => 2 | HValidation => 3 | HExecute _ => 4 | _ => 0 end.
Definition is_resolve (h : hk) : bool := match h with HField _ _ _ _ _ | HItem _ _ _ _ _ => true | _ => false end.

Fixpoint all_resolve (t : tree) : bool :=
  match t with Node h _ kids => is_resolve h && forallb all_resolve kids end.
Fixpoint count_nodes (f : hk -> bool) (t : tree) : nat :=
  match t with Node h _ kids => ((if f h then 1 else 0) + fold_right (fun x acc => count_nodes f x + acc) 0 kids)%nat end.
Definition is_field (h : hk) : bool := match h with HField _ _ _ _ _ => true | _ => false end.
Definition is_item (h : hk) : bool := match h with HItem _ _ _ _ _ => true | _ => false end.

(* item hooks directly under one node: indices 0, 1, 2, ... at the node's path *)
Definition item_index (p : path) (t : tree) : option N :=
  match t with
  | Node (HItem ip _ _ _ _) _ _ =>
      match rev ip with PI i :: rp => if path_eqb (rev rp) p then Some i else None | _ => None end
  | _ => None
  end.
Definition node_path (h : hk) : path := match h with HField p _ _ _ _ | HItem p _ _ _ _ => p | _ => [] end.
Fixpoint items_contiguous (t : tree) : bool :=
  match t with
  | Node h _ kids =>
      let items := filter (fun k => match k with Node kh _ _ => is_item kh end) kids in
      (fix go (i : N) (l : list tree) : bool :=
         match l with
         | [] => true
         | k :: r => match item_index (node_path h) k with Some j => (j =? i) && go (i + 1) r | None => false end
         end) 0 items
      && forallb items_contiguous kids
  end.

Fixpoint phases_ok (i : N) (kids : list tree) : bool :=
  match kids with
  | [] => true
  | Node h ok ks :: r =>
      (phase_no h =? i) &&
      (if i <? 4 then is_nil ks else forallb all_resolve ks && forallb items_contiguous ks) &&
      (if is_nil r then true else ok) &&
      phases_ok (i + 1) r
  end.

(* [resolvers] = number of resolver invocations of the request when every
   hooked field runs a resolver (None in introspection-only execution) *)
Definition lifecycle_ok (k : N) (evs : list ev) (resolvers : option nat) : bool :=
  if k =? 0 then is_nil evs
  else match parse_forest (Datatypes.S (length evs)) (ids k) evs with
       | Some ([Node HRequest _ kids], []) =>
           negb (is_nil kids) && phases_ok 1 kids &&
           match resolvers with
           | Some m => Nat.eqb (fold_right (fun x acc => (count_nodes is_field x + acc)%nat) 0%nat kids) m
           | None => true
           end
       | _ => false
       end.

(* ------------------------------------------------------------- verdict --- *)
Record impl := { i_resp : response; i_base : response; i_same : bool; i_hooks : list ev }.

(* a rejected request: no data, no resolver ran, errors without path *)
Definition resp_match (r : response) (m : option response) : bool :=
  match m with
  | Some m => same_all r m
  | None => value_eqb (rs_data r) VNull && is_nil (rs_trace r) && negb (is_nil (rs_errors r)) &&
            forallb (fun p : path => is_nil p) (rs_errors r)
  end.
Definition oresp_same (a b : option response) : bool :=
  match a, b with
  | Some a, Some b => same_all a b
  | None, None => true
  | _, _ => false
  end.

Definition with_k (cf : cfg) (k : N) : cfg :=
  {| c_k := k; c_valid := c_valid cf; c_intro := c_intro cf; c_empty := c_empty cf; c_fast := c_fast cf |}.

Section Case.
  Variable S : schema.
  Variable w : world.
  Variable od : option document.
  Variable opname : option name.
  Variable vars : list (name * value).
  Variable cf : cfg.
  Variable n : nat.

  Definition xmodel (q : quirks) (k : N) := x_request q S w od opname vars (with_k cf k) n.

  Definition nres (r : option response) : option nat :=
    if c_intro cf then None
    else match r with Some r => Some (length (rs_trace r)) | None => Some O end.

  (* the two situations in which the extension branch's lookup is known to fail:
     1 = introspection-only mutation (root EmptyMutation, a static type name that
     is not registered); 2 = a field name that the registry does not know, in a
     document accepted because validation mode Fast does not check field names.
     A failing lookup anywhere else is in no known class. *)
  Definition known_class : N :=
    let is_mut := match od with
                  | Some d => match select_op d opname with
                              | Some o => match op_ty o with OpMutation => true | _ => false end
                              | None => false
                              end
                  | None => false
                  end in
    if c_intro cf && is_mut then 1 else if c_fast cf then 2 else 0.

  Definition judge (q : quirks) (m0 : option response) (im : impl) : N :=
    match (if c_k cf =? 0 then xmodel q 0 else xmodel q (c_k cf)) with
    | Ok (mk, hks, lf) =>
        let transparent := oresp_same mk m0 in
        let iem := resp_match (i_resp im) mk && resp_match (i_base im) m0 &&
                   list_eqb ev_eqb (i_hooks im) hks && Bool.eqb (i_same im) transparent in
        let mes := transparent && lifecycle_ok (c_k cf) hks (nres mk) in
        let ies := i_same im &&
                   lifecycle_ok (c_k cf) (i_hooks im)
                                (if c_intro cf then None else Some (length (rs_trace (i_resp im)))) in
        verdict iem mes ies (if lf then known_class else 0)
    | _ => 9
    end.

  (* the executor deviations in force (C01's findings) are inferred from the
     run without extensions, so that a repaired deviation does not disturb
     this check *)
  Definition check_c30 (im : impl) : N :=
    match xmodel quirks_today 0 with
    | Ok (m0, _, _) =>
        if resp_match (i_base im) m0 then judge quirks_today m0 im
        else
          let fits q := match xmodel q 0 with Ok (m, _, _) => resp_match (i_base im) m | _ => false end in
          match filter fits (map without [1; 2; 3; 4; 5; 6; 7] ++ [quirks_none]) with
          | q :: _ => match xmodel q 0 with Ok (m, _, _) => judge q m im | _ => 9 end
          | [] => judge quirks_today m0 im
          end
    | _ => 9
    end.
End Case.

(* the variant-schema stream (merged objects, flattened fields, generic
   objects, union, interface): no executor model; the response must equal the
   run without extensions and the hook trace must satisfy the lifecycle checker *)
Definition check_var (k : N) (same : bool) (hooks : list ev) : N :=
  if same && lifecycle_ok k hooks None then 0 else 4.


(* the introspection stream: every object key and every list element of the
   response below the operation root ([tree], keys of __typename excluded)
   corresponds to exactly one resolve-hook invocation of every extension, at
   the same path - introspection fields included.
   Today's code, dynamic schemas only: the root field `__schema` / `__type`
   itself is resolved without the hook (dynamic/resolve.rs collect_schema_field
   / collect_type_field), and the hooks below it report paths without that
   root segment.  [dyn_adjust] is that behaviour (known class 3). *)
Definition hook_paths (e : N) (evs : list ev) : list path :=
  flat_map (fun x => match x with
                     | Enter e' h => if (e' =? e) && is_resolve h then [node_path h] else []
                     | Exit _ _ _ => []
                     end) evs.
Definition is_intro_root (p : path) : bool :=
  match p with PF n :: _ => name_eqb n N_schema || name_eqb n N_type | _ => false end.
Definition dyn_adjust (tree : list path) : list path :=
  flat_map (fun p => if is_intro_root p then match p with _ :: (_ :: _) as r => [r] | _ => [] end else [p]) tree.

Definition check_tree (k : N) (same dynamic : bool) (hooks : list ev) (tree : list path) : N :=
  let today := if dynamic then dyn_adjust tree else tree in
  let shape := same && lifecycle_ok k hooks None in
  let agrees (exp : list path) := forallb (fun e => paths_same (hook_paths e hooks) exp) (ids k) in
  verdict (shape && agrees today) (paths_same today tree) (shape && agrees tree)
          (if dynamic && existsb is_intro_root tree then 3 else 0).

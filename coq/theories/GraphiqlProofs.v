(* GraphiqlProofs.v — lemmas about Graphiql.v (no model definitions here). *)
From AG Require Import Graphiql.
Open Scope N_scope.

Lemma gstr_eqb_refl a : gstr_eqb a a = true.
Proof. unfold gstr_eqb, list_eqb. induction a as [|x a IH]; cbn [forallb2]; [reflexivity|]. rewrite N.eqb_refl, IH. reflexivity. Qed.

(* ------------------------------------------------------------ the escaper --- *)
Lemma kc_not_special c : kc_char c = false -> esc_special c = false.
Proof.
  unfold kc_char, esc_special. intros H. repeat (apply orb_false_iff in H; destruct H as [H ?]).
  repeat match goal with E : (_ =? _) = false |- _ => rewrite E; clear E end. reflexivity.
Qed.

Lemma html_escape_plain s : kc s = false -> html_escape s = s.
Proof.
  induction s as [|c s IH]; [reflexivity|]. unfold kc. cbn [existsb]. intros H.
  apply orb_false_iff in H. destruct H as [Hc Hs].
  unfold html_escape. cbn [flat_map]. unfold esc_char. rewrite (kc_not_special c Hc).
  cbn [app]. f_equal. apply IH, Hs.
Qed.

(* the escaped text never contains less-than, greater-than or either quote *)
Definition unsafe_char (c : cp) : bool := (c =? 60) || (c =? 62) || (c =? 39) || (c =? 34).

Lemma esc_char_safe c : forallb (fun x => negb (unsafe_char x)) (esc_char c) = true.
Proof.
  unfold esc_char. destruct (esc_special c) eqn:E.
  - unfold esc_special in E.
    repeat (apply orb_true_iff in E; destruct E as [E|E]); apply N.eqb_eq in E; subst; reflexivity.
  - cbn [forallb]. rewrite andb_true_r. unfold esc_special in E. unfold unsafe_char.
    repeat (apply orb_false_iff in E; destruct E as [E ?]).
    repeat match goal with H : (_ =? _) = false |- _ => rewrite H; clear H end. reflexivity.
Qed.

Lemma html_escape_safe s : forallb (fun x => negb (unsafe_char x)) (html_escape s) = true.
Proof.
  induction s as [|c s IH]; [reflexivity|]. unfold html_escape. cbn [flat_map].
  rewrite forallb_app, esc_char_safe. exact IH.
Qed.

Lemma html_escape_no c s : unsafe_char c = true -> ~ In c (html_escape s).
Proof.
  intros U I. pose proof (html_escape_safe s) as F. rewrite forallb_forall in F.
  specialize (F c I). rewrite U in F. discriminate.
Qed.

(* ------------------------------------------------ JS single-quoted literal -- *)
Lemma js_sq_f_plain v : forall fuel rest, kc v = false -> (length v < fuel)%nat ->
  js_sq_f fuel (v ++ 39 :: rest) = JOk v rest.
Proof.
  induction v as [|c v IH]; intros fuel rest K L.
  - destruct fuel as [|f]; [inversion L|]. reflexivity.
  - destruct fuel as [|f]; [inversion L|]. unfold kc in K. cbn [existsb] in K.
    apply orb_false_iff in K. destruct K as [Kc Kv].
    unfold kc_char in Kc. repeat (apply orb_false_iff in Kc; destruct Kc as [Kc ?]).
    cbn [app js_sq_f].
    repeat match goal with H : (_ =? _) = false |- _ => rewrite H end.
    cbn [orb andb]. rewrite IH; [reflexivity|exact Kv|cbn [length] in L; apply Nat.succ_lt_mono; exact L].
Qed.

Lemma js_value_exact v rest : kc v = false ->
  js_sq (html_escape v ++ 39 :: rest) = JOk v rest.
Proof.
  intros K. rewrite html_escape_plain by exact K. unfold js_sq. apply js_sq_f_plain; [exact K|].
  rewrite app_length. cbn [length]. apply Nat.lt_succ_r, Nat.le_add_r.
Qed.

(* -------------------------------------------------------------- <title> ----- *)
Lemma rcdata_esc_char c f tail : esc_special c = true ->
  rcdata_f (S f) (esc_char c ++ tail) = rcons c (rcdata_f f tail).
Proof.
  intros E. unfold esc_char. rewrite E. unfold esc_special in E.
  repeat (apply orb_true_iff in E; destruct E as [E|E]); apply N.eqb_eq in E; subst; reflexivity.
Qed.

Lemma rcdata_plain_char c f tail : esc_special c = false ->
  rcdata_f (S f) (c :: tail) = rcons c (rcdata_f f tail).
Proof.
  intros E. unfold esc_special in E. repeat (apply orb_false_iff in E; destruct E as [E ?]).
  cbn [rcdata_f]. repeat match goal with H : (_ =? _) = false |- _ => rewrite H end. reflexivity.
Qed.

Lemma rcdata_f_title s : forall fuel rest, (length s < fuel)%nat ->
  rcdata_f fuel (html_escape s ++ S_TITLE_END ++ rest) = ROk s (S_TITLE_END ++ rest).
Proof.
  induction s as [|c s IH]; intros fuel rest L.
  - destruct fuel as [|f]; [inversion L|]. reflexivity.
  - destruct fuel as [|f]; [inversion L|]. unfold html_escape. cbn [flat_map]. fold (html_escape s).
    rewrite <- app_assoc.
    assert (L' : (length s < f)%nat) by (cbn [length] in L; apply Nat.succ_lt_mono; exact L).
    destruct (esc_special c) eqn:E.
    + rewrite rcdata_esc_char by exact E. rewrite IH by exact L'. reflexivity.
    + unfold esc_char. rewrite E. cbn [app]. rewrite rcdata_plain_char by exact E.
      rewrite IH by exact L'. reflexivity.
Qed.

Lemma html_escape_length s : (length s <= length (html_escape s))%nat.
Proof.
  induction s as [|c s IH]; [apply le_n|]. unfold html_escape. cbn [flat_map]. fold (html_escape s).
  rewrite app_length. unfold esc_char. destruct (esc_special c); cbn [length]; lia.
Qed.

Lemma title_exact s rest :
  rcdata (html_escape s ++ S_TITLE_END ++ rest) = ROk s (S_TITLE_END ++ rest).
Proof.
  unfold rcdata. apply rcdata_f_title. rewrite app_length. pose proof (html_escape_length s). lia.
Qed.

(* ------------------------------------------- the translated template -------- *)
(* every '{{ v }}' hole of the template is enclosed in single quotes and every
   title hole is followed by </title>: the contexts the theorems assume *)
Definition last_is (c : cp) (s : str) : bool := match rev s with x :: _ => x =? c | [] => false end.
Fixpoint holes_node (n : tnode) (prev : option str) (next : list tnode) {struct n} : bool :=
  let fix go (prev : option str) (l : list tnode) {struct l} : bool :=
      match l with
      | [] => true
      | x :: r => holes_node x prev r && go (match x with TLit s => Some s | _ => None end) r
      end in
  match n with
  | TVar _ CtxJsSq =>
      match prev, next with
      | Some p, TLit (39 :: _) :: _ => last_is 39 p
      | _, _ => false
      end
  | TVar _ CtxTitle =>
      match next with
      | TLit q :: _ => is_some (strip_prefix S_TITLE_END q)
      | _ => false
      end
  | TVar _ CtxJsonDq => true
  | TLit _ => true
  | TIfSome _ th el => go None th && go None el
  | TFor _ body => go None body
  end.
Fixpoint holes_ok (prev : option str) (l : list tnode) : bool :=
  match l with
  | [] => true
  | x :: r => holes_node x prev r && holes_ok (match x with TLit s => Some s | _ => None end) r
  end.

Lemma template_holes : holes_ok None template_gen = true.
Proof. vm_compute. reflexivity. Qed.

(* ------------------------------------------------------- refutations -------- *)
Definition cfg0 (e : str) : config :=
  {| c_endpoint := e; c_sub := None; c_version := default_version_gen; c_headers := None;
     c_ws := None; c_title := None; c_cred := 0 |}.

(* a&b is shown to the script as a&#38;b *)
Lemma refuted_entity :
  js_sq (html_escape [97; 38; 98] ++ [39]) = JOk [97; 38; 35; 51; 56; 59; 98] [] /\
  page_ok (cfg0 [47; 97; 38; 98]) (render (cfg0 [47; 97; 38; 98])) = false.
Proof. split; vm_compute; reflexivity. Qed.

(* a trailing backslash swallows the template's closing quote: the literal runs
   on into the page text up to the next quote *)
Lemma refuted_backslash :
  js_sq (html_escape [92] ++ 39 :: [41; 44; 39; 120]) = JOk [39; 41; 44] [120] /\
  page_ok (cfg0 [47; 97; 92]) (render (cfg0 [47; 97; 92])) = false.
Proof. split; vm_compute; reflexivity. Qed.

Lemma refuted_newline :
  js_sq (html_escape [97; 10; 98] ++ [39]) = JErr 2 /\
  page_ok (cfg0 [97; 10; 98]) (render (cfg0 [97; 10; 98])) = false.
Proof. split; vm_compute; reflexivity. Qed.

(* headers and connection parameters together: no comma between the two members *)
Definition cfg_both_w : config :=
  {| c_endpoint := [47]; c_sub := None; c_version := default_version_gen;
     c_headers := Some [([97], [98])]; c_ws := Some [([99], [100])]; c_title := None; c_cred := 0 |}.
Lemma refuted_missing_comma :
  values_ok cfg_both_w (render cfg_both_w) = true /\ options_ok (render cfg_both_w) = false /\
  options_ok (render (cfg0 [47])) = true.
Proof. repeat split; vm_compute; reflexivity. Qed.

(* non-vacuity: a configuration with every optional setting (but not both maps)
   whose strings are outside the known class passes the whole-page specification *)
Definition cfg_full : config :=
  {| c_endpoint := [47; 103; 113; 108]; c_sub := Some [47; 119; 115]; c_version := [51; 46; 57];
     c_headers := Some [([65; 117; 116; 104], [66; 101; 97; 114; 101; 114; 32; 91; 116; 93]); ([233], [28450; 128512])];
     c_ws := None; c_title := Some [60; 47; 116; 105; 116; 108; 101; 62; 38; 39; 34; 92; 10]; c_cred := 1 |}.
Lemma c34_nonvacuous : known_class cfg_full = 0 /\ page_ok cfg_full (render cfg_full) = true.
Proof. split; vm_compute; reflexivity. Qed.

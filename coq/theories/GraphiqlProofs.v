(* GraphiqlProofs.v — lemmas about Graphiql.v (no model definitions here). *)
From AG Require Import Graphiql.
Open Scope N_scope.

Lemma gstr_eqb_refl a : gstr_eqb a a = true.
Proof. unfold gstr_eqb, list_eqb. induction a as [|x a IH]; cbn [forallb2]; [reflexivity|]. rewrite N.eqb_refl, IH. reflexivity. Qed.

(* ------------------------------------------------------------ the escaper --- *)
Lemma kc_not_special c : kc_char c = false -> esc_special c = false.
Proof.
  unfold kc_char. intros H. apply orb_false_iff in H. destruct H as [H _].
  unfold ent_char in H. unfold esc_special. repeat (apply orb_false_iff in H; destruct H as [H ?]).
  repeat match goal with E : (_ =? _) = false |- _ => rewrite E; clear E end. reflexivity.
Qed.

Lemma html_escape_plain s : kc s = false -> html_escape s = s.
Proof.
  induction s as [|c s IH]; [reflexivity|]. unfold kc. cbn [existsb]. intros H.
  apply orb_false_iff in H. destruct H as [Hc Hs].
  unfold html_escape. cbn [flat_map]. unfold esc_char. rewrite (kc_not_special c Hc).
  cbn [app]. f_equal. apply IH, Hs.
Qed.

(* the escaped text never contains less-than, greater-than or either quote *)
Definition unsafe_char (c : cp) : bool := (c =? 60) || (c =? 62) || (c =? 39) || (c =? 34).

Lemma esc_char_safe c : forallb (fun x => negb (unsafe_char x)) (esc_char c) = true.
Proof.
  unfold esc_char. destruct (esc_special c) eqn:E.
  - unfold esc_special in E.
    repeat (apply orb_true_iff in E; destruct E as [E|E]); apply N.eqb_eq in E; subst; reflexivity.
  - cbn [forallb]. rewrite andb_true_r. unfold esc_special in E. unfold unsafe_char.
    repeat (apply orb_false_iff in E; destruct E as [E ?]).
    repeat match goal with H : (_ =? _) = false |- _ => rewrite H; clear H end. reflexivity.
Qed.

Lemma html_escape_safe s : forallb (fun x => negb (unsafe_char x)) (html_escape s) = true.
Proof.
  induction s as [|c s IH]; [reflexivity|]. unfold html_escape. cbn [flat_map].
  rewrite forallb_app, esc_char_safe. exact IH.
Qed.

Lemma html_escape_no c s : unsafe_char c = true -> ~ In c (html_escape s).
Proof.
  intros U I. pose proof (html_escape_safe s) as F. rewrite forallb_forall in F.
  specialize (F c I). rewrite U in F. discriminate.
Qed.

(* ------------------------------------------------ JS single-quoted literal -- *)
(* characters that are plain inside a single-quoted literal placed in a script
   element: not the quote, not a backslash, not LF / CR, not less-than *)
Definition lit_plain (c : cp) : bool :=
  negb ((c =? 39) || (c =? 92) || (c =? 10) || (c =? 13) || (c =? 60)).
(* the string has no backslash and no raw LF / CR (outside known class 3) *)
Definition bs_free (s : str) : bool := negb (existsb bs_char s).

Lemma lit_plain_inv c : lit_plain c = true ->
  (c =? 39) = false /\ (c =? 92) = false /\ (c =? 10) = false /\ (c =? 13) = false /\ (c =? 60) = false.
Proof.
  unfold lit_plain. intros H. apply negb_true_iff in H.
  repeat (apply orb_false_iff in H; destruct H as [H ?]). repeat split; assumption.
Qed.

Lemma esc_char_lit_plain c : bs_char c = false -> forallb lit_plain (esc_char c) = true.
Proof.
  intros B. unfold esc_char. destruct (esc_special c) eqn:E.
  - unfold esc_special in E.
    repeat (apply orb_true_iff in E; destruct E as [E|E]); apply N.eqb_eq in E; subst; reflexivity.
  - cbn [forallb]. rewrite andb_true_r. unfold esc_special in E. unfold bs_char in B. unfold lit_plain.
    repeat (apply orb_false_iff in E; destruct E as [E ?]).
    repeat (apply orb_false_iff in B; destruct B as [B ?]).
    repeat match goal with H : (_ =? _) = false |- _ => rewrite H; clear H end. reflexivity.
Qed.

Lemma html_escape_lit_plain v : bs_free v = true -> forallb lit_plain (html_escape v) = true.
Proof.
  unfold bs_free. induction v as [|c v IH]; [reflexivity|]. cbn [existsb]. intros H.
  apply negb_true_iff in H. apply orb_false_iff in H. destruct H as [Hc Hv].
  unfold html_escape. cbn [flat_map]. rewrite forallb_app, (esc_char_lit_plain c Hc).
  apply IH. rewrite Hv. reflexivity.
Qed.

(* a run of plain characters followed by a quote is one whole literal: it ends
   at that quote and nowhere else, and its value is the run itself *)
Lemma js_sq_f_lit w : forall fuel rest, forallb lit_plain w = true -> (length w < fuel)%nat ->
  js_sq_f fuel (w ++ 39 :: rest) = JOk w rest.
Proof.
  induction w as [|c w IH]; intros fuel rest K L.
  - destruct fuel as [|f]; [inversion L|]. reflexivity.
  - destruct fuel as [|f]; [inversion L|]. cbn [forallb] in K.
    apply andb_true_iff in K. destruct K as [Kc Kw].
    destruct (lit_plain_inv c Kc) as (H1 & H2 & H3 & H4 & H5).
    cbn [app js_sq_f]. rewrite H1, H2, H3, H4, H5. cbn [orb andb].
    rewrite IH; [reflexivity|exact Kw|cbn [length] in L; apply Nat.succ_lt_mono; exact L].
Qed.

(* the same run for the skeleton lexer: inside the literal nothing is emitted
   and the lexer is back in code state right after the closing quote *)
Lemma js_skel_lit w rest : forallb lit_plain w = true ->
  js_skel 1 (w ++ 39 :: rest) = ocons 39 (js_skel 0 rest).
Proof.
  induction w as [|c w IH]; intros K.
  - reflexivity.
  - cbn [forallb] in K. apply andb_true_iff in K. destruct K as [Kc Kw].
    destruct (lit_plain_inv c Kc) as (H1 & H2 & H3 & H4 & H5).
    cbn [app]. rewrite <- (IH Kw). cbn [js_skel]. cbn [N.eqb Pos.eqb negb].
    rewrite H1, H2, H3, H4, H5. reflexivity.
Qed.

Lemma kc_bs_free v : kc v = false -> bs_free v = true.
Proof.
  unfold kc, bs_free. induction v as [|c v IH]; [reflexivity|]. cbn [existsb]. intros H.
  apply orb_false_iff in H. destruct H as [Hc Hv]. unfold kc_char in Hc.
  apply orb_false_iff in Hc. destruct Hc as [_ Hb]. rewrite Hb. cbn [orb]. apply IH, Hv.
Qed.

(* every script hole, for ALL values without backslash / LF / CR: the literal
   ends exactly at the template's closing quote *)
Lemma js_literal_closed v rest : bs_free v = true ->
  js_sq (html_escape v ++ 39 :: rest) = JOk (html_escape v) rest.
Proof.
  intros B. unfold js_sq. apply js_sq_f_lit; [apply html_escape_lit_plain, B|].
  rewrite app_length. cbn [length]. apply Nat.lt_succ_r, Nat.le_add_r.
Qed.

(* ... and the page skeleton does not depend on the value *)
Lemma js_skel_hole v rest : bs_free v = true ->
  js_skel 1 (html_escape v ++ 39 :: rest) = ocons 39 (js_skel 0 rest).
Proof. intros B. apply js_skel_lit, html_escape_lit_plain, B. Qed.

Lemma js_skel_hole_neutral v rest : bs_free v = true ->
  js_skel 1 (html_escape v ++ 39 :: rest) = js_skel 1 (html_escape NEUTRAL ++ 39 :: rest).
Proof. intros B. rewrite (js_skel_hole v rest B). symmetry. apply js_skel_hole. reflexivity. Qed.

Lemma js_value_exact v rest : kc v = false ->
  js_sq (html_escape v ++ 39 :: rest) = JOk v rest.
Proof.
  intros K. rewrite (js_literal_closed v rest (kc_bs_free v K)).
  rewrite html_escape_plain by exact K. reflexivity.
Qed.

(* -------------------------------------------------------------- <title> ----- *)
Lemma rcdata_esc_char c f tail : esc_special c = true ->
  rcdata_f (S f) (esc_char c ++ tail) = rcons c (rcdata_f f tail).
Proof.
  intros E. unfold esc_char. rewrite E. unfold esc_special in E.
  repeat (apply orb_true_iff in E; destruct E as [E|E]); apply N.eqb_eq in E; subst; reflexivity.
Qed.

Lemma rcdata_plain_char c f tail : esc_special c = false ->
  rcdata_f (S f) (c :: tail) = rcons c (rcdata_f f tail).
Proof.
  intros E. unfold esc_special in E. repeat (apply orb_false_iff in E; destruct E as [E ?]).
  cbn [rcdata_f]. repeat match goal with H : (_ =? _) = false |- _ => rewrite H end. reflexivity.
Qed.

Lemma rcdata_f_title s : forall fuel rest, (length s < fuel)%nat ->
  rcdata_f fuel (html_escape s ++ S_TITLE_END ++ rest) = ROk s (S_TITLE_END ++ rest).
Proof.
  induction s as [|c s IH]; intros fuel rest L.
  - destruct fuel as [|f]; [inversion L|]. reflexivity.
  - destruct fuel as [|f]; [inversion L|]. unfold html_escape. cbn [flat_map]. fold (html_escape s).
    rewrite <- app_assoc.
    assert (L' : (length s < f)%nat) by (cbn [length] in L; apply Nat.succ_lt_mono; exact L).
    destruct (esc_special c) eqn:E.
    + rewrite rcdata_esc_char by exact E. rewrite IH by exact L'. reflexivity.
    + unfold esc_char. rewrite E. cbn [app]. rewrite rcdata_plain_char by exact E.
      rewrite IH by exact L'. reflexivity.
Qed.

Lemma html_escape_length s : (length s <= length (html_escape s))%nat.
Proof.
  induction s as [|c s IH]; [apply le_n|]. unfold html_escape. cbn [flat_map]. fold (html_escape s).
  rewrite app_length. unfold esc_char. destruct (esc_special c); cbn [length]; lia.
Qed.

Lemma title_exact s rest :
  rcdata (html_escape s ++ S_TITLE_END ++ rest) = ROk s (S_TITLE_END ++ rest).
Proof.
  unfold rcdata. apply rcdata_f_title. rewrite app_length. pose proof (html_escape_length s). lia.
Qed.

(* ------------------------------------------- the translated template -------- *)
(* every '{{ v }}' hole of the template is enclosed in single quotes and every
   title hole is followed by </title>: the contexts the theorems assume *)
Definition last_is (c : cp) (s : str) : bool := match rev s with x :: _ => x =? c | [] => false end.
Fixpoint holes_node (n : tnode) (prev : option str) (next : list tnode) {struct n} : bool :=
  let fix go (prev : option str) (l : list tnode) {struct l} : bool :=
      match l with
      | [] => true
      | x :: r => holes_node x prev r && go (match x with TLit s => Some s | _ => None end) r
      end in
  match n with
  | TVar _ CtxJsSq =>
      match prev, next with
      | Some p, TLit (39 :: _) :: _ => last_is 39 p
      | _, _ => false
      end
  | TVar _ CtxTitle =>
      match next with
      | TLit q :: _ => is_some (strip_prefix S_TITLE_END q)
      | _ => false
      end
  | TVar _ CtxJsonDq => true
  | TLit _ => true
  | TIfSome _ th el => go None th && go None el
  | TFor _ body => go None body
  end.
Fixpoint holes_ok (prev : option str) (l : list tnode) : bool :=
  match l with
  | [] => true
  | x :: r => holes_node x prev r && holes_ok (match x with TLit s => Some s | _ => None end) r
  end.

Lemma template_holes : holes_ok None template_gen = true.
Proof. vm_compute. reflexivity. Qed.

(* ------------------------------------------------------- refutations -------- *)
Definition cfg0 (e : str) : config :=
  {| c_endpoint := e; c_sub := None; c_version := default_version_gen; c_headers := None;
     c_ws := None; c_title := None; c_cred := 0 |}.

Definition model_ctx_safe (cfg : config) : bool := ctx_safe (render cfg) (render (neutral_cfg cfg)).

(* a&b is shown to the script as a&#38;b — not verbatim, but inside its literal *)
Lemma refuted_entity :
  js_sq (html_escape [97; 38; 98] ++ [39]) = JOk [97; 38; 35; 51; 56; 59; 98] [] /\
  page_ok (cfg0 [47; 97; 38; 98]) (render (cfg0 [47; 97; 38; 98])) = false /\
  model_ctx_safe (cfg0 [47; 97; 38; 98]) = true /\ known_class (cfg0 [47; 97; 38; 98]) = 1.
Proof. repeat split; vm_compute; reflexivity. Qed.

(* a trailing backslash swallows the template's closing quote: the literal runs
   on into the page text up to the next quote — the value ends its context *)
Lemma refuted_backslash :
  js_sq (html_escape [92] ++ 39 :: [41; 44; 39; 120]) = JOk [39; 41; 44] [120] /\
  page_ok (cfg0 [47; 97; 92]) (render (cfg0 [47; 97; 92])) = false /\
  model_ctx_safe (cfg0 [47; 97; 92]) = false /\ known_class (cfg0 [47; 97; 92]) = 3.
Proof. repeat split; vm_compute; reflexivity. Qed.

Lemma refuted_newline :
  js_sq (html_escape [97; 10; 98] ++ [39]) = JErr 2 /\
  page_ok (cfg0 [97; 10; 98]) (render (cfg0 [97; 10; 98])) = false /\
  model_ctx_safe (cfg0 [97; 10; 98]) = false /\ known_class (cfg0 [97; 10; 98]) = 3.
Proof. repeat split; vm_compute; reflexivity. Qed.

(* the judgement is not vacuous: a page on which a quote or </script arrives
   raw in the endpoint literal (what the escaper prevents) is not context-safe,
   whatever the template *)
Definition raw_page (e : str) : str :=
  S_MODULE ++ [117; 40; 39] ++ e ++ [39; 41; 59; 10; 60; 47; 115; 99; 114; 105; 112; 116; 62].  (* u('e');\n</script> *)
Lemma ctx_safe_detects :
  ctx_safe (raw_page [47; 103; 63; 97; 38; 98]) (raw_page NEUTRAL) = true /\
  ctx_safe (raw_page [47; 103; 63; 39; 59; 97; 40; 41; 59; 47; 47]) (raw_page NEUTRAL) = false /\
  ctx_safe (raw_page [47; 103; 63; 39; 43; 39]) (raw_page NEUTRAL) = false /\
  ctx_safe (raw_page [47; 103; 63; 60; 47; 115; 99; 114; 105; 112; 116; 62]) (raw_page NEUTRAL) = false.
Proof. repeat split; vm_compute; reflexivity. Qed.

(* headers and connection parameters together: no comma between the two members *)
Definition cfg_both_w : config :=
  {| c_endpoint := [47]; c_sub := None; c_version := default_version_gen;
     c_headers := Some [([97], [98])]; c_ws := Some [([99], [100])]; c_title := None; c_cred := 0 |}.
Lemma refuted_missing_comma :
  values_ok cfg_both_w (render cfg_both_w) = true /\ options_ok (render cfg_both_w) = false /\
  options_ok (render (cfg0 [47])) = true /\ model_ctx_safe cfg_both_w = true /\ known_class cfg_both_w = 2.
Proof. repeat split; vm_compute; reflexivity. Qed.

(* non-vacuity: a configuration with every optional setting (but not both maps)
   whose strings are outside the known class passes the whole-page specification *)
Definition cfg_full : config :=
  {| c_endpoint := [47; 103; 113; 108]; c_sub := Some [47; 119; 115]; c_version := [51; 46; 57];
     c_headers := Some [([65; 117; 116; 104], [66; 101; 97; 114; 101; 114; 32; 91; 116; 93]); ([233], [28450; 128512])];
     c_ws := None; c_title := Some [60; 47; 116; 105; 116; 108; 101; 62; 38; 39; 34; 92; 10]; c_cred := 1 |}.
Lemma c34_nonvacuous : known_class cfg_full = 0 /\ page_ok cfg_full (render cfg_full) = true /\
  model_ctx_safe cfg_full = true.
Proof. repeat split; vm_compute; reflexivity. Qed.

(* ArgCoerceDyn.v — C06, dynamic flavour (src/dynamic/resolve.rs collect_field,
   src/dynamic/value_accessor.rs).  A dynamic resolver receives [ctx.args]: the
   RAW resolved value of every written argument (an argument bound to an omitted
   variable is dropped), then the declared default of every declared argument
   whose key is missing.  Nothing is coerced.  Descriptors of the dynamic flavour
   use [RMaybe] for every nullable type, so that the specification's typed view
   tells "absent" ([TUndef]) from null.
   Executable definitions only; proofs are in ArgCoerceDynProofs.v. *)
From AG Require Import Base ArgCoerce.
Open Scope Z_scope.

(* the raw form of a specified (coerced) value; [None] = no entry *)
Definition raw_kvs (f : tv -> option xv) :=
  fix go (l : list (name * tv)) : list (name * xv) :=
    match l with
    | [] => []
    | (k, a) :: r => match f a with Some w => (k, w) :: go r | None => go r end
    end.

Fixpoint raw_of (a : tv) : option xv :=
  match a with
  | TUndef => None
  | TNull => Some XNull
  | TInt z => Some (XInt z)
  | TStr s => Some (XStr false s)
  | TBool b => Some (XBool b)
  | TEnum n => Some (XEnum n)
  | TList l => Some (XList (map (fun i => match raw_of i with Some w => w | None => XNull end) l))
  | TObj kvs => Some (XObj (raw_kvs raw_of kvs))
  end.

(* equality of raw values: objects are maps; an enum value may be spelled as a
   name or as a string (ValueAccessor::enum_name accepts both) *)
Fixpoint xv_eqv (a b : xv) {struct a} : bool :=
  match a, b with
  | XAbsent, XAbsent | XNull, XNull => true
  | XInt x, XInt y => x =? y
  | XBool x, XBool y => Bool.eqb x y
  | XStr _ x, XStr _ y | XEnum x, XEnum y | XStr _ x, XEnum y | XEnum x, XStr _ y => name_eqb x y
  | XList l, XList l' =>
      (fix go (p q : list xv) : bool :=
         match p, q with
         | [], [] => true
         | x :: r, y :: r' => xv_eqv x y && go r r'
         | _, _ => false
         end) l l'
  | XObj l, XObj l' =>
      (length l =? length l')%nat &&
      (fix go (p : list (name * xv)) : bool :=
         match p with
         | [] => true
         | (k, x) :: r => match assoc k l' with Some y => xv_eqv x y | None => false end && go r
         end) l
  | _, _ => false
  end.

Definition raw_eqv (a b : option xv) : bool :=
  match a, b with
  | None, None => true
  | Some x, Some y => xv_eqv x y
  | _, _ => false
  end.

(* ------------------------------------------------------ the implementation *)
Definition dyn_arg (env : name -> xv) (d : option (xv * tv)) (lit : option ival) : option xv :=
  let dflt := match d with Some (dc, _) => Some dc | None => None end in
  match lit with
  | None => dflt
  | Some l => match erase (subst env l) with Some v => Some v | None => dflt end
  end.

Fixpoint dyn_args (env : name -> xv) (sig : flds) (args : list (name * ival)) : list (name * option xv) :=
  match sig with
  | FNil => []
  | FCons n _ d rest => (n, dyn_arg env d (assoc n args)) :: dyn_args env rest args
  end.

(* every written argument is resolved first: an undefined variable fails the field *)
Definition dyn_request (sig : flds) (args : list (name * ival)) (vds : list vdef)
           (vars : list (name * xv)) (strict : bool) : outcome (list (name * option xv)) :=
  if strict && negb (strict_ok sig args vds vars) then Err 1
  else if negb (forallb (fun kv => vars_defined vds (snd kv)) args) then Err 2
  else Ok (dyn_args (var_env vds vars) sig args).

(* ------------------------------------------------------ the specification *)
Definition spec_raw (sig : flds) (args : list (name * ival)) (vds : list vdef)
           (vars : list (name * xv)) : outcome (list (name * option xv)) :=
  match spec_request sig args vds vars with
  | Ok l => Ok (map (fun kv => (fst kv, raw_of (snd kv))) l)
  | Err c => Err c
  | Panic => Panic
  | OutOfFuel => OutOfFuel
  end.

(* ------------------------------------------------------ known classes *)
Definition DK_SHAPE : N := 1.    (* the raw value is passed where coercion changes it: a single value
                                    for a list, an input object without its field defaults *)
Definition DK_INVALID : N := 2.  (* the specification rejects the request, the resolver runs on raw values *)

(* where an argument's value comes from: (the value the specification coerces,
   the raw value the implementation passes), or nothing at all *)
Definition route (env : name -> xv) (d : option (xv * tv)) (lit : option ival) : option (xv * xv) :=
  let dflt := match d with Some (dc, _) => Some (dc, dc) | None => None end in
  match lit with
  | None => dflt
  | Some l => let x := subst env l in if is_absent x then dflt else Some (x, erase1 x)
  end.

Definition routed_spec (t : rty) (r : option (xv * xv)) : outcome tv :=
  match r with Some (x, _) => coerce t x | None => absent_tv t end.

Definition shape_dev (t : rty) (r : option (xv * xv)) : N :=
  match routed_spec t r with
  | Ok a => if raw_eqv (option_map snd r) (raw_of a) then 0%N else DK_SHAPE
  | _ => DK_INVALID
  end.

Fixpoint shape_devs (env : name -> xv) (sig : flds) (args : list (name * ival)) : N :=
  match sig with
  | FNil => 0%N
  | FCons n t d rest => first_nz (shape_dev t (route env d (assoc n args))) (shape_devs env rest args)
  end.

Definition dyn_known (sig : flds) (args : list (name * ival)) (vds : list vdef)
           (vars : list (name * xv)) : N :=
  match spec_request sig args vds vars with
  | Ok _ => shape_devs (var_env vds vars) sig args
  | _ => DK_INVALID
  end.

(* ------------------------------------------------------ per-case verdict *)
Fixpoint rawlist_eqv (a b : list (name * option xv)) : bool :=
  match a, b with
  | [], [] => true
  | (k, x) :: r, (k', y) :: r' => name_eqb k k' && raw_eqv x y && rawlist_eqv r r'
  | _, _ => false
  end.

Definition dres_eqv (a b : outcome (list (name * option xv))) : bool :=
  match a, b with
  | Ok x, Ok y => rawlist_eqv x y
  | Ok _, _ | _, Ok _ => false
  | _, _ => true
  end.

Definition nodup_args (args : list (name * ival)) : bool := nodup_names (map fst args).

Definition dyn_satisfies (sig : flds) (args : list (name * ival)) (vds : list vdef)
           (vars : list (name * xv)) (r : outcome (list (name * option xv))) : bool :=
  if static_ok sig args vds then dres_eqv r (spec_raw sig args vds vars) else true.

Definition check_c06d (sig : flds) (args : list (name * ival)) (vds : list vdef)
           (vars : list (name * xv)) (strict : bool) (impl : outcome (list (name * option xv))) : N :=
  if negb (wf_case sig args vds vars && nodup_args args) then 9%N
  else
    let m := dyn_request sig args vds vars strict in
    let st := static_ok sig args vds in
    let k := if st then dyn_known sig args vds vars else 0%N in
    let sat := dyn_satisfies sig args vds vars in
    if dres_eqv impl m then verdict true (sat m) (sat impl) k
    else if strict && negb st && match impl with Err _ => true | _ => false end then 0%N
    else verdict false (sat m) (sat impl) k.

(* DynExecCheck.v — per-case verdict for C02 (dynamic schemas): the real
   response (data, error paths, resolver trace) against [dyn_exec] with today's
   deviations, and its data against [spec_exec]. *)
From AG Require Export DynExec ExecCheck.
Open Scope N_scope.

(* today's deviations with flag [k] switched off *)
Definition dwithout (k : N) : dquirks :=
  {| dq_skip_no_default := negb (k =? 1); dq_cond_implements_only := negb (k =? 2); dq_no_catch := negb (k =? 3);
     dq_per_occurrence := negb (k =? 4); dq_null_at_nonnull := negb (k =? 5); dq_scalar_unchecked := negb (k =? 6);
     dq_null_value_not_null := negb (k =? 7); dq_resolver_err_no_path := negb (k =? 8) |}.

Section DCase.
  Variable S : schema.
  Variable w : world.
  Variable d : document.
  Variable opname : option name.
  Variable vars : list (name * value).
  Variable nullv : bool.
  Variable n : nat.

  Definition dmodel (q : dquirks) : outcome response := dyn_exec q nullv S w d opname vars n.
  Definition dspec : outcome response := spec_exec S w d opname vars n.

  (* the known class of a case whose data differs from the specification's: the
     first deviation whose removal alone changes the data (the specific ones
     before the generic "no error is caught"); 9 = only several jointly *)
  Definition dexercised_in (order : list N) (today : response) : N :=
    let try k := match dmodel (dwithout k) with Ok r => negb (same_data r today) | _ => true end in
    (fix go (l : list N) : N := match l with [] => 0 | k :: r => if try k then k else go r end) order.
  Definition dexercised (today : response) : N :=
    match dexercised_in [1; 2; 5; 6; 7; 3; 4] today with 0 => 9 | k => k end.

  Definition check_c02 (impl : response) : N :=
    match dmodel dquirks_today, dmodel dquirks_none, dspec with
    | Ok m, Ok m0, Ok s =>
        if negb (same_data m0 s) then 2          (* contradicts C02_corrected_data *)
        else if same_all impl m && same_data m s then 0
        else
          (* a known class is consulted only where today's MODEL already departs from the
             specification; where the model satisfies it, a real response that differs from
             both is a violation (code 4), whatever deviations exist elsewhere *)
          verdict (same_all impl m) (same_data m s) (same_data impl s)
                  (if same_data m s then 0 else dexercised m)
    | _, _, _ => 9
    end.
End DCase.

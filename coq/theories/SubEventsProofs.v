(* SubEventsProofs.v — lemmas about the subscription machine of SubEvents.v (C27). *)
From AG Require Import SubEvents.
Open Scope N_scope.

(* ------------------------------------------------------------- basic facts --- *)
Lemma split_at_spec {A} : forall i (l : list A) p y q,
  split_at i l = Some (p, y, q) -> l = p ++ y :: q.
Proof.
  induction i as [|i IH]; intros [|x r] p y q H; simpl in H; try discriminate.
  - inversion H; subst. reflexivity.
  - destruct (split_at i r) as [[[p' y'] q']|] eqn:E; [|discriminate].
    inversion H; subst. rewrite (IH _ _ _ _ E). reflexivity.
Qed.

Definition own_of (cs : sconf * sstate) : list path :=
  match s_exec (snd cs) with Some x => x_own x | None => [] end.
Definition own_all (l : list (sconf * sstate)) : list path := flat_map own_of l.

Lemma idle_own l : existsb busy l = false -> own_all l = [].
Proof.
  induction l as [|x l IH]; simpl; [reflexivity|].
  intros H. apply orb_false_iff in H. destruct H as [Hx Hl].
  unfold own_all in *. simpl. rewrite (IH Hl). rewrite app_nil_r.
  unfold busy in Hx. unfold own_of. destruct (s_exec (snd x)); [discriminate|reflexivity].
Qed.

Lemma own_all_focus pre x post : own_all (pre ++ x :: post) = own_all pre ++ own_of x ++ own_all post.
Proof. unfold own_all. rewrite flat_map_app. reflexivity. Qed.

(* the machine state agrees with the per-event lists as long as no overlap happened *)
Definition Inv (st : state) : Prop := st_overlap st = false -> st_shared st = own_all (st_ss st).

Definition good (o : obs2) : Prop :=
  match o with ORes2 _ _ _ _ t w => t = w | OEnd2 => True end.

Definition good_out (o : sout) : Prop := match o with SYield r => good r | _ => True end.

(* ---------------------------------------------------- one event execution --- *)
Lemma run_exec_inv i s chan x shared c s' sh tr o :
  run_exec i s chan x shared = (s', sh, tr, o) ->
  shared = x_own x ->
  sh = own_of (c, s') /\ good_out o.
Proof.
  unfold run_exec. destruct (step_exec x) as [[[its es] tr'] j].
  intros H Hs. subst shared.
  destruct j as [| |ep].
  - inversion H; subst. simpl. split; reflexivity.
  - inversion H; subst. simpl. split; [reflexivity|exact I].
  - destruct (p_catch (x_plan x)); inversion H; subst; simpl; split; reflexivity.
Qed.

Lemma poll_stream_inv i c s shared s' sh tr ran bad o :
  poll_stream i c s shared = (s', sh, tr, ran, bad, o) ->
  good_out o /\
  (ran = true -> shared = own_of (c, s) -> sh = own_of (c, s')) /\
  (ran = false -> sh = shared /\ own_of (c, s') = own_of (c, s)).
Proof.
  unfold poll_stream.
  destruct (s_dead s).
  { intros H; inversion H; subst. repeat split; try discriminate; reflexivity. }
  destruct (s_errpending s).
  { intros H; inversion H; subst. repeat split; try discriminate; reflexivity. }
  destruct (negb (s_started s) && c_fail c).
  { intros H; inversion H; subst. repeat split; try discriminate; reflexivity. }
  destruct (s_exec s) as [x|] eqn:Ex.
  - destruct (run_exec i s (s_chan s) x shared) as [[[s1 sh1] tr1] o1] eqn:Er.
    intros H; inversion H; subst.
    split; [|split].
    + eapply (run_exec_inv _ _ _ _ _ c) in Er; [apply Er|].
      (* goodness does not depend on the hypothesis on [shared] when it holds; otherwise argue directly *)
      Abort.

(* SubEventsProofs.v — lemmas about the subscription machine of SubEvents.v (C27):
   the shared error list agrees with the per-event lists as long as event
   executions of different root fields do not overlap (invariant over all
   schedules); one root field or ready resolvers never overlap; instantiation
   without gates; witnesses. *)
From AG Require Import SubEvents.
Open Scope N_scope.

Lemma split_at_spec {A} : forall i (l : list A) p y q,
  split_at i l = Some (p, y, q) -> l = p ++ y :: q.
Proof.
  induction i as [|i IH]; intros [|x r] p y q H; simpl in H; try discriminate.
  - inversion H; subst. reflexivity.
  - destruct (split_at i r) as [[[p' y'] q']|] eqn:E; [|discriminate].
    inversion H; subst. rewrite (IH _ _ _ _ E). reflexivity.
Qed.

Definition own_of (cs : sconf * sstate) : list path :=
  match s_exec (snd cs) with Some x => x_own x | None => [] end.
Definition own_all (l : list (sconf * sstate)) : list path := flat_map own_of l.

Lemma idle_own l : existsb busy l = false -> own_all l = [].
Proof.
  induction l as [|x l IH]; simpl; [reflexivity|].
  intros H. apply orb_false_iff in H. destruct H as [Hx Hl].
  unfold own_all in *. simpl. rewrite (IH Hl). rewrite app_nil_r.
  unfold busy in Hx. unfold own_of. destruct (s_exec (snd x)); [discriminate|reflexivity].
Qed.

Lemma own_all_focus pre x post : own_all (pre ++ x :: post) = own_all pre ++ own_of x ++ own_all post.
Proof. unfold own_all. rewrite flat_map_app. reflexivity. Qed.

Definition Inv (st : state) : Prop := st_overlap st = false -> st_shared st = own_all (st_ss st).

Definition good (o : obs2) : Prop :=
  match o with ORes2 _ _ _ _ t w => t = w | OEnd2 => True end.
Definition good_out (o : sout) : Prop := match o with SYield r => good r | _ => True end.

Lemma run_exec_inv i s chan x shared c s' sh tr o :
  run_exec i s chan x shared = (s', sh, tr, o) ->
  shared = x_own x ->
  sh = own_of (c, s') /\ good_out o.
Proof.
  unfold run_exec. destruct (step_exec x) as [[[its es] tr'] j].
  intros H Hs. subst shared.
  destruct j as [| |ep].
  - inversion H; subst. simpl. split; reflexivity.
  - inversion H; subst. simpl. split; [reflexivity|exact I].
  - destruct (p_catch (x_plan x)); inversion H; subst; simpl; split; reflexivity.
Qed.

Lemma poll_stream_inv i c s shared s' sh tr ran bad o :
  poll_stream i c s shared = (s', sh, tr, ran, bad, o) ->
  (ran = true -> shared = own_of (c, s) -> sh = own_of (c, s') /\ good_out o) /\
  (ran = false -> sh = shared /\ own_of (c, s') = own_of (c, s) /\ good_out o).
Proof.
  unfold poll_stream.
  destruct (s_dead s).
  { intros H; inversion H; subst. split; [discriminate|]. intros _. repeat split. }
  destruct (s_errpending s).
  { intros H; inversion H; subst. split; [discriminate|]. intros _. repeat split. }
  destruct (negb (s_started s) && c_fail c).
  { intros H; inversion H; subst. split; [discriminate|]. intros _. repeat split. }
  destruct (s_exec s) as [x|] eqn:Ex.
  - destruct (run_exec i s (s_chan s) x shared) as [[[s1 sh1] tr1] o1] eqn:Er.
    intros H; inversion H; subst.
    split; [|discriminate]. intros _ Hs.
    eapply run_exec_inv in Er; [exact Er|]. rewrite Hs. unfold own_of. simpl. rewrite Ex. reflexivity.
  - destruct (s_chan s) as [|ev r] eqn:Ec.
    + destruct (s_closed s); intros H; inversion H; subst; (split; [discriminate|]); intros _;
        unfold own_of; simpl; rewrite Ex; repeat split.
    + match goal with |- context [run_exec i s r ?x shared] => destruct (run_exec i s r x shared) as [[[s1 sh1] tr1] o1] eqn:Er end.
      intros H; inversion H; subst.
      split; [|discriminate]. intros _ Hs.
      eapply run_exec_inv in Er; [exact Er|]. rewrite Hs. unfold own_of. simpl. rewrite Ex. reflexivity.
Qed.

Lemma poll_head_inv st st' os :
  Inv st -> poll_head st = (st', os) ->
  Inv st' /\ (st_overlap st' = false -> st_overlap st = false /\ Forall good os).
Proof.
  unfold poll_head. intros HI.
  destruct (st_queue st) as [|i q].
  { intros H; inversion H; subst. split; [exact HI|]. intros E; split; [exact E|constructor]. }
  destruct (split_at i (st_ss st)) as [[[pre [c s]] post]|] eqn:Es.
  2:{ intros H; inversion H; subst. split; [exact HI|]. simpl. intros E; split; [exact E|constructor]. }
  apply split_at_spec in Es.
  destruct (poll_stream i c s (st_shared st)) as [[[[[s' sh] tr] ran] bad] o] eqn:Ep.
  apply poll_stream_inv in Ep. destruct Ep as [Hran Hnot].
  assert (Hcore :
    forall q',
      let st1 := {| st_ss := pre ++ (c, s') :: post; st_queue := q'; st_shared := sh; st_trace := st_trace st ++ tr;
                    st_overlap := st_overlap st || (ran && (existsb busy pre || existsb busy post));
                    st_bad := st_bad st || bad; st_done := st_done st |} in
      Inv st1 /\ (st_overlap st1 = false -> st_overlap st = false /\ good_out o)).
  { intros q' st1. unfold Inv, st1; simpl.
    assert (Hk : st_overlap st || (ran && (existsb busy pre || existsb busy post)) = false ->
                 st_overlap st = false /\ sh = own_all (pre ++ (c, s') :: post) /\ good_out o).
    { intros E. apply orb_false_iff in E. destruct E as [E1 E2]. split; [exact E1|].
      specialize (HI E1). rewrite Es in HI. rewrite own_all_focus in HI. rewrite own_all_focus.
      destruct ran.
      - simpl in E2. apply orb_false_iff in E2. destruct E2 as [Ea Eb].
        rewrite (idle_own _ Ea), (idle_own _ Eb) in *. simpl in *. rewrite app_nil_r in *.
        destruct (Hran eq_refl HI) as [H1 H2]. split; assumption.
      - destruct (Hnot eq_refl) as [H1 [H2 H3]]. rewrite H2, H1. split; [exact HI|exact H3]. }
    split.
    - intros E. apply Hk in E. tauto.
    - intros E. apply Hk in E. tauto. }
  destruct o as [r| |]; intros H; inversion H; subst; clear H.
  - destruct (Hcore (q ++ [i])) as [A B]. split; [exact A|]. intros E. destruct (B E) as [B1 B2].
    split; [exact B1|]. constructor; [exact B2|constructor].
  - destruct (Hcore q) as [A B]. split; [exact A|]. intros E. destruct (B E) as [B1 B2]. split; [exact B1|constructor].
  - destruct (Hcore q) as [A B]. split; [exact A|]. intros E. destruct (B E) as [B1 B2]. split; [exact B1|constructor].
Qed.

Lemma drain_inv : forall fuel st st' os,
  Inv st -> drain fuel st = (st', os) ->
  Inv st' /\ (st_overlap st' = false -> st_overlap st = false /\ Forall good os).
Proof.
  induction fuel as [|f IH]; intros st st' os HI; simpl.
  { intros H; inversion H; subst. split; [exact HI|]. intros E; split; [exact E|constructor]. }
  destruct (st_queue st) eqn:Eq.
  { intros H; inversion H; subst. split; [exact HI|]. intros E; split; [exact E|constructor]. }
  destruct (poll_head st) as [st1 o1] eqn:E1.
  destruct (drain f st1) as [st2 o2] eqn:E2.
  intros H; inversion H; subst.
  destruct (poll_head_inv _ _ _ HI E1) as [I1 G1].
  destruct (IH _ _ _ I1 E2) as [I2 G2].
  split; [exact I2|]. intros E. destruct (G2 E) as [Ea Eb]. destruct (G1 Ea) as [Ec Ed].
  split; [exact Ec|]. apply Forall_app. split; assumption.
Qed.

Lemma upd_stream_inv st i f :
  (forall c s, own_of (c, fst (f c s)) = own_of (c, s)) ->
  Inv st -> Inv (upd_stream st i f) /\ st_overlap (upd_stream st i f) = st_overlap st.
Proof.
  intros Hf HI. unfold upd_stream.
  destruct (split_at i (st_ss st)) as [[[pre [c s]] post]|] eqn:Es; [|split; [exact HI|reflexivity]].
  apply split_at_spec in Es.
  destruct (f c s) as [s' wake] eqn:Ef. split; [|reflexivity].
  unfold Inv; simpl. intros E. rewrite (HI E), Es, !own_all_focus.
  specialize (Hf c s). rewrite Ef in Hf. simpl in Hf. rewrite Hf. reflexivity.
Qed.

Lemma step_inv st a st' os :
  Inv st -> step st a = (st', os) ->
  Inv st' /\ (st_overlap st' = false -> st_overlap st = false /\ Forall good os).
Proof.
  intros HI. destruct a as [k ev|k|k c|]; simpl.
  - intros H; inversion H; subst; clear H.
    destruct (find_key k (st_ss st)) as [i|].
    2:{ split; [exact HI|]. intros E; split; [exact E|constructor]. }
    match goal with |- context [upd_stream st i ?f] => destruct (upd_stream_inv st i f) as [A B] end.
    { intros c s. destruct (s_dead s || s_closed s || s_errpending s); reflexivity. }
    { exact HI. }
    split; [exact A|]. rewrite B. intros E; split; [exact E|constructor].
  - intros H; inversion H; subst; clear H.
    destruct (find_key k (st_ss st)) as [i|].
    2:{ split; [exact HI|]. intros E; split; [exact E|constructor]. }
    match goal with |- context [upd_stream st i ?f] => destruct (upd_stream_inv st i f) as [A B] end.
    { intros c s. destruct (s_dead s || s_closed s || s_errpending s); reflexivity. }
    { exact HI. }
    split; [exact A|]. rewrite B. intros E; split; [exact E|constructor].
  - intros H; inversion H; subst; clear H.
    destruct (find_key k (st_ss st)) as [i|].
    2:{ split; [exact HI|]. intros E; split; [exact E|constructor]. }
    match goal with |- context [upd_stream st i ?f] => destruct (upd_stream_inv st i f) as [A B] end.
    { intros c0 s. unfold own_of. simpl. destruct (s_exec s) eqn:Ex; simpl; [reflexivity|rewrite Ex; reflexivity]. }
    { exact HI. }
    split; [exact A|]. rewrite B. intros E; split; [exact E|constructor].
  - destruct (st_done st).
    { intros H; inversion H; subst. split; [exact HI|]. intros E; split; [exact E|constructor]. }
    destruct (drain (drain_fuel st) st) as [st1 os1] eqn:Ed.
    destruct (drain_inv _ _ _ _ HI Ed) as [I1 G1].
    destruct (all_dead st1 && match st_queue st1 with [] => true | _ => false end);
      intros H; inversion H; subst; clear H.
    + split; [exact I1|]. simpl. intros E. destruct (G1 E) as [Ea Eb]. split; [exact Ea|].
      apply Forall_app. split; [exact Eb|]. constructor; [exact I|constructor].
    + split; [exact I1|exact G1].
Qed.

Lemma run_inv : forall acts st st' oss,
  Inv st -> run st acts = (st', oss) ->
  Inv st' /\ (st_overlap st' = false -> st_overlap st = false /\ Forall (Forall good) oss).
Proof.
  induction acts as [|a r IH]; intros st st' oss HI; simpl.
  { intros H; inversion H; subst. split; [exact HI|]. intros E; split; [exact E|constructor]. }
  destruct (step st a) as [st1 os] eqn:E1.
  destruct (run st1 r) as [st2 oss2] eqn:E2.
  intros H; inversion H; subst; clear H.
  destruct (step_inv _ _ _ _ HI E1) as [I1 G1].
  destruct (IH _ _ _ I1 E2) as [I2 G2].
  split; [exact I2|]. intros E. destruct (G2 E) as [Ea Eb]. destruct (G1 Ea) as [Ec Ed].
  split; [exact Ec|]. destruct a; try exact Eb. constructor; assumption.
Qed.

Lemma Inv_init cfg : Inv (init cfg).
Proof.
  unfold Inv, init; simpl. intros _. induction cfg as [|c l IH]; [reflexivity|].
  unfold own_all in *. simpl. exact IH.
Qed.

Lemma good_views o : good o -> view_today o = view_own o.
Proof. destruct o; simpl; [intros ->; reflexivity|reflexivity]. Qed.

(* every response of a run without overlap carries exactly the errors its own event raised *)
Theorem atomic_run cfg acts :
  st_overlap (fst (run (init cfg) acts)) = false ->
  Forall (Forall good) (snd (run (init cfg) acts)) /\
  map (map view_today) (snd (run (init cfg) acts)) = map (map view_own) (snd (run (init cfg) acts)).
Proof.
  destruct (run (init cfg) acts) as [st oss] eqn:E. simpl. intros Ho.
  destruct (run_inv _ _ _ _ (Inv_init cfg) E) as [_ G]. destruct (G Ho) as [_ F].
  split; [exact F|].
  clear E G. induction F as [|os oss Hos _ IH]; [reflexivity|]. simpl. f_equal; [|exact IH].
  clear IH. induction Hos as [|o os Ho' _ IH]; [reflexivity|]. simpl. f_equal; [apply good_views; exact Ho'|exact IH].
Qed.

(* ------------------------------------------------ a single root field --- *)
Lemma poll_head_single st st' os :
  (length (st_ss st) <= 1)%nat -> poll_head st = (st', os) ->
  length (st_ss st') = length (st_ss st) /\ st_overlap st' = st_overlap st.
Proof.
  unfold poll_head. intros HL.
  destruct (st_queue st) as [|i q]; [intros H; inversion H; subst; split; reflexivity|].
  destruct (split_at i (st_ss st)) as [[[pre [c s]] post]|] eqn:Es.
  2:{ intros H; inversion H; subst. split; reflexivity. }
  apply split_at_spec in Es. rewrite Es in HL. rewrite app_length in HL. simpl in HL.
  assert (pre = []) by (destruct pre; [reflexivity|simpl in HL; lia]).
  assert (post = []) by (destruct post; [reflexivity|simpl in HL; lia]). subst pre post.
  destruct (poll_stream i c s (st_shared st)) as [[[[[s' sh] tr] ran] bad] o].
  destruct o; intros H; inversion H; subst; simpl; rewrite Es; simpl;
    rewrite andb_false_r, orb_false_r; split; reflexivity.
Qed.

Lemma drain_single : forall fuel st st' os,
  (length (st_ss st) <= 1)%nat -> drain fuel st = (st', os) ->
  length (st_ss st') = length (st_ss st) /\ st_overlap st' = st_overlap st.
Proof.
  induction fuel as [|f IH]; intros st st' os HL; simpl.
  { intros H; inversion H; subst. split; reflexivity. }
  destruct (st_queue st) eqn:Eq.
  { intros H; inversion H; subst. split; reflexivity. }
  destruct (poll_head st) as [st1 o1] eqn:E1.
  destruct (drain f st1) as [st2 o2] eqn:E2.
  intros H; inversion H; subst.
  destruct (poll_head_single _ _ _ HL E1) as [L1 O1].
  assert (HL1 : (length (st_ss st1) <= 1)%nat) by (rewrite L1; exact HL).
  destruct (IH _ _ _ HL1 E2) as [L2 O2].
  split; congruence.
Qed.

Lemma upd_stream_shape st i f :
  length (st_ss (upd_stream st i f)) = length (st_ss st) /\ st_overlap (upd_stream st i f) = st_overlap st.
Proof.
  unfold upd_stream.
  destruct (split_at i (st_ss st)) as [[[pre [c s]] post]|] eqn:Es; [|split; reflexivity].
  apply split_at_spec in Es. destruct (f c s) as [s' wake]. simpl. rewrite Es, !app_length. simpl. split; reflexivity.
Qed.

Lemma step_single st a st' os :
  (length (st_ss st) <= 1)%nat -> step st a = (st', os) ->
  length (st_ss st') = length (st_ss st) /\ st_overlap st' = st_overlap st.
Proof.
  intros HL. destruct a as [k ev|k|k c|]; simpl.
  - intros H; inversion H; subst. destruct (find_key k (st_ss st)); [apply upd_stream_shape|split; reflexivity].
  - intros H; inversion H; subst. destruct (find_key k (st_ss st)); [apply upd_stream_shape|split; reflexivity].
  - intros H; inversion H; subst. destruct (find_key k (st_ss st)); [apply upd_stream_shape|split; reflexivity].
  - destruct (st_done st); [intros H; inversion H; subst; split; reflexivity|].
    destruct (drain (drain_fuel st) st) as [st1 os1] eqn:Ed.
    destruct (drain_single _ _ _ _ HL Ed) as [L1 O1].
    destruct (all_dead st1 && match st_queue st1 with [] => true | _ => false end);
      intros H; inversion H; subst; simpl; split; assumption.
Qed.

Lemma run_single : forall acts st st' oss,
  (length (st_ss st) <= 1)%nat -> run st acts = (st', oss) -> st_overlap st' = st_overlap st.
Proof.
  induction acts as [|a r IH]; intros st st' oss HL; simpl.
  { intros H; inversion H; subst. reflexivity. }
  destruct (step st a) as [st1 os] eqn:E1.
  destruct (run st1 r) as [st2 oss2] eqn:E2.
  intros H; inversion H; subst.
  destruct (step_single _ _ _ _ HL E1) as [L1 O1].
  assert (HL1 : (length (st_ss st1) <= 1)%nat) by (rewrite L1; exact HL).
  rewrite (IH _ _ _ HL1 E2). exact O1.
Qed.

Theorem single_stream_no_overlap cfg acts :
  (length cfg <= 1)%nat -> st_overlap (fst (run (init cfg) acts)) = false.
Proof.
  intros HL. destruct (run (init cfg) acts) as [st oss] eqn:E. simpl.
  assert (HL0 : (length (st_ss (init cfg)) <= 1)%nat) by (simpl; rewrite map_length; exact HL).
  rewrite (run_single _ _ _ _ HL0 E). reflexivity.
Qed.

(* ------------------------------------------------------- ready resolvers --- *)
Definition ready_plan (pl : plan) : Prop := forallb (fun it => negb (it_gated it)) (p_items pl) = true.
Definition ready_conf (c : sconf) : Prop := forall ev, ready_plan (c_plan c ev).

Lemma poll_items_ready : forall l,
  forallb (fun it => negb (it_gated it)) l = true ->
  snd (poll_items (map (fun it => (it, IFresh)) l)) <> JPend.
Proof.
  induction l as [|it l IH]; simpl; [discriminate|].
  intros H. apply andb_true_iff in H. destruct H as [Hg Hl].
  apply negb_true_iff in Hg. rewrite Hg.
  destruct (it_val it); [|simpl; discriminate].
  specialize (IH Hl). destruct (poll_items (map (fun it0 => (it0, IFresh)) l)) as [[[r' es] tr] j]. exact IH.
Qed.

Lemma run_exec_ready i s chan pl ev shared s' sh tr o :
  ready_plan pl ->
  run_exec i s chan {| x_plan := pl; x_ev := ev; x_items := map (fun it => (it, IFresh)) (p_items pl); x_own := [] |} shared
    = (s', sh, tr, o) ->
  s_exec s' = None.
Proof.
  intros Hr. unfold run_exec, step_exec. simpl.
  destruct (p_direct pl) as [[[v es] tr0]|].
  - destruct v; [intros H; inversion H; reflexivity|].
    destruct (p_catch pl); intros H; inversion H; reflexivity.
  - pose proof (poll_items_ready _ Hr) as Hn.
    destruct (poll_items (map (fun it => (it, IFresh)) (p_items pl))) as [[[its es] tr0] j]. simpl in Hn.
    destruct j; [intros H; inversion H; reflexivity|congruence|].
    destruct (p_catch pl); intros H; inversion H; reflexivity.
Qed.

Lemma poll_stream_ready i c s shared s' sh tr ran bad o :
  ready_conf c -> s_exec s = None ->
  poll_stream i c s shared = (s', sh, tr, ran, bad, o) -> s_exec s' = None.
Proof.
  intros Hc Hs. unfold poll_stream.
  destruct (s_dead s); [intros H; inversion H; subst; exact Hs|].
  destruct (s_errpending s); [intros H; inversion H; subst; exact Hs|].
  destruct (negb (s_started s) && c_fail c); [intros H; inversion H; subst; exact Hs|].
  rewrite Hs.
  destruct (s_chan s) as [|ev r].
  - destruct (s_closed s); intros H; inversion H; reflexivity.
  - match goal with |- context [run_exec i s r ?x shared] => destruct (run_exec i s r x shared) as [[[s1 sh1] tr1] o1] eqn:Er end.
    intros H; inversion H; subst. eapply run_exec_ready; [apply Hc|exact Er].
Qed.

Definition Ready (st : state) : Prop :=
  existsb busy (st_ss st) = false /\ Forall (fun cs => ready_conf (fst cs)) (st_ss st).

Lemma poll_head_ready st st' os :
  Ready st -> poll_head st = (st', os) -> Ready st' /\ st_overlap st' = st_overlap st.
Proof.
  unfold poll_head. intros [Hb Hc].
  destruct (st_queue st) as [|i q]; [intros H; inversion H; subst; split; [split; assumption|reflexivity]|].
  destruct (split_at i (st_ss st)) as [[[pre [c s]] post]|] eqn:Es.
  2:{ intros H; inversion H; subst. split; [split; assumption|reflexivity]. }
  apply split_at_spec in Es. rewrite Es in Hb, Hc.
  rewrite existsb_app in Hb. simpl in Hb. apply orb_false_iff in Hb. destruct Hb as [Hpre Hb].
  apply orb_false_iff in Hb. destruct Hb as [Hs Hpost].
  apply Forall_app in Hc. destruct Hc as [Cpre Cr]. inversion Cr as [|? ? Cc Cpost]; subst.
  destruct (poll_stream i c s (st_shared st)) as [[[[[s' sh] tr] ran] bad] o] eqn:Ep.
  assert (Hs' : s_exec s' = None).
  { eapply poll_stream_ready; [exact Cc| |exact Ep]. unfold busy in Hs. simpl in Hs. destruct (s_exec s); [discriminate|reflexivity]. }
  assert (HR : existsb busy (pre ++ (c, s') :: post) = false).
  { rewrite existsb_app. simpl. rewrite Hpre, Hpost. unfold busy. simpl. rewrite Hs'. reflexivity. }
  assert (HC : Forall (fun cs => ready_conf (fst cs)) (pre ++ (c, s') :: post)).
  { apply Forall_app. split; [exact Cpre|]. constructor; [exact Cc|exact Cpost]. }
  destruct o; intros H; inversion H; subst; simpl; rewrite Hpre, Hpost; simpl;
    rewrite andb_false_r, orb_false_r; (split; [split; assumption|reflexivity]).
Qed.

Lemma drain_ready : forall fuel st st' os,
  Ready st -> drain fuel st = (st', os) -> Ready st' /\ st_overlap st' = st_overlap st.
Proof.
  induction fuel as [|f IH]; intros st st' os HR; simpl.
  { intros H; inversion H; subst. split; [exact HR|reflexivity]. }
  destruct (st_queue st) eqn:Eq.
  { intros H; inversion H; subst. split; [exact HR|reflexivity]. }
  destruct (poll_head st) as [st1 o1] eqn:E1.
  destruct (drain f st1) as [st2 o2] eqn:E2.
  intros H; inversion H; subst.
  destruct (poll_head_ready _ _ _ HR E1) as [R1 O1].
  destruct (IH _ _ _ R1 E2) as [R2 O2].
  split; [exact R2|congruence].
Qed.

Lemma upd_stream_ready st i f :
  (forall c s, s_exec s = None -> s_exec (fst (f c s)) = None) ->
  Ready st -> Ready (upd_stream st i f).
Proof.
  intros Hf [Hb Hc]. unfold upd_stream.
  destruct (split_at i (st_ss st)) as [[[pre [c s]] post]|] eqn:Es; [|split; assumption].
  apply split_at_spec in Es. rewrite Es in Hb, Hc.
  rewrite existsb_app in Hb. simpl in Hb. apply orb_false_iff in Hb. destruct Hb as [Hpre Hb].
  apply orb_false_iff in Hb. destruct Hb as [Hs Hpost].
  apply Forall_app in Hc. destruct Hc as [Cpre Cr]. inversion Cr as [|? ? Cc Cpost]; subst.
  specialize (Hf c s). destruct (f c s) as [s' wake]. simpl in Hf.
  split; simpl.
  - rewrite existsb_app. simpl. rewrite Hpre, Hpost. unfold busy in *. simpl in *.
    destruct (s_exec s); [discriminate|]. rewrite (Hf eq_refl). reflexivity.
  - apply Forall_app. split; [exact Cpre|]. constructor; [exact Cc|exact Cpost].
Qed.

Lemma step_ready st a st' os :
  Ready st -> step st a = (st', os) -> Ready st' /\ st_overlap st' = st_overlap st.
Proof.
  intros HR. destruct a as [k ev|k|k c|]; simpl.
  - intros H; inversion H; subst. destruct (find_key k (st_ss st)); [|split; [exact HR|reflexivity]].
    split; [|apply upd_stream_shape]. apply upd_stream_ready; [|exact HR].
    intros c s Hs. destruct (s_dead s || s_closed s || s_errpending s); exact Hs.
  - intros H; inversion H; subst. destruct (find_key k (st_ss st)); [|split; [exact HR|reflexivity]].
    split; [|apply upd_stream_shape]. apply upd_stream_ready; [|exact HR].
    intros c s Hs. destruct (s_dead s || s_closed s || s_errpending s); exact Hs.
  - intros H; inversion H; subst. destruct (find_key k (st_ss st)); [|split; [exact HR|reflexivity]].
    split; [|apply upd_stream_shape]. apply upd_stream_ready; [|exact HR].
    intros c0 s Hs. rewrite Hs. exact Hs.
  - destruct (st_done st); [intros H; inversion H; subst; split; [exact HR|reflexivity]|].
    destruct (drain (drain_fuel st) st) as [st1 os1] eqn:Ed.
    destruct (drain_ready _ _ _ _ HR Ed) as [R1 O1].
    destruct (all_dead st1 && match st_queue st1 with [] => true | _ => false end);
      intros H; inversion H; subst; simpl; (split; [exact R1|exact O1]).
Qed.

Lemma run_ready : forall acts st st' oss,
  Ready st -> run st acts = (st', oss) -> st_overlap st' = st_overlap st.
Proof.
  induction acts as [|a r IH]; intros st st' oss HR; simpl.
  { intros H; inversion H; subst. reflexivity. }
  destruct (step st a) as [st1 os] eqn:E1.
  destruct (run st1 r) as [st2 oss2] eqn:E2.
  intros H; inversion H; subst.
  destruct (step_ready _ _ _ _ HR E1) as [R1 O1].
  rewrite (IH _ _ _ R1 E2). exact O1.
Qed.

Theorem ready_no_overlap cfg acts :
  Forall ready_conf cfg -> st_overlap (fst (run (init cfg) acts)) = false.
Proof.
  intros HC. destruct (run (init cfg) acts) as [st oss] eqn:E. simpl.
  assert (HR0 : Ready (init cfg)).
  2:{ rewrite (run_ready _ _ _ _ HR0 E). reflexivity. }
  split; simpl.
  - clear. induction cfg as [|c l IH]; [reflexivity|exact IH].
  - clear E. induction HC as [|c l Hc _ IH]; simpl; constructor; assumption.
Qed.

(* ------------------------------------- the instantiation without gates --- *)
Lemma items_of_ungated q S w frags vars vdefs : forall occs n k rt nid its,
  items_of q S w frags vars vdefs [] n k rt nid occs = Some its ->
  forallb (fun it => negb (it_gated it)) its = true.
Proof.
  induction occs as [|o r IH]; intros n k rt nid its.
  { destruct n; simpl; intros H; inversion H; reflexivity. }
  destruct n as [|n']; simpl; [discriminate|].
  destruct (i_field q S w frags vars vdefs n' rt nid o [PF k]) as [[[v es] tr]| | |]; try discriminate.
  destruct (items_of q S w frags vars vdefs [] n' k rt nid r) as [l|] eqn:E; [|discriminate].
  intros H; inversion H; subst. simpl. apply (IH _ _ _ _ _ E).
Qed.

Lemma mk_plan_ready q S w frags vars vdefs n k t sub ev :
  ready_plan (mk_plan q S w frags vars vdefs [] n k t sub ev).
Proof.
  unfold ready_plan, mk_plan.
  assert (Hd : forall r : outcome isres,
             forallb (fun it => negb (it_gated it))
               (p_items match r with
                        | Ok r0 => {| p_key := k; p_catch := negb (is_nonnull t); p_direct := Some r0; p_items := []; p_fuel := O; p_bad := false |}
                        | _ => bad_plan k
                        end) = true).
  { intros [r0| | |]; reflexivity. }
  destruct (strip_nn t); try apply Hd.
  destruct (ev_outv S t ev); try apply Hd.
  destruct (node_ty w nid); [|apply Hd].
  destruct (if is_nonnull t then Nat.pred (Nat.pred n) else Nat.pred n) as [|n2]; [reflexivity|].
  destruct (occs_of q S frags vars vdefs n2 _ n1 sub) as [occs| | |]; try reflexivity.
  destruct (items_of q S w frags vars vdefs [] n2 k n1 nid occs) as [its|] eqn:E; [|reflexivity].
  simpl. eapply items_of_ungated; exact E.
Qed.

Lemma root_streams_ready q S w frags vars vdefs n sub failc : forall sels cfg,
  root_streams q S w frags vars vdefs [] n sub failc sels = Some cfg -> Forall ready_conf cfg.
Proof.
  induction sels as [|s r IH]; intros cfg; simpl.
  { intros H; inversion H; constructor. }
  destruct (root_streams q S w frags vars vdefs [] n sub failc r) as [rest|]; [|discriminate].
  specialize (IH _ eq_refl).
  destruct s as [al nm args dirs ss| |]; try (intros H; inversion H; subst; exact IH).
  destruct (i_skipped q vars vdefs dirs) as [[|]|]; try discriminate.
  { intros H; inversion H; subst; exact IH. }
  destruct (obj_field_ty S sub nm); [|discriminate].
  intros H; inversion H; subst. constructor; [|exact IH].
  intros ev. simpl. apply mk_plan_ready.
Qed.

Lemma sub_cfg_ready q S w d c n cfg :
  g_gated c = [] -> sub_cfg q S w d c n = Some cfg -> Forall ready_conf cfg.
Proof.
  unfold sub_cfg. intros Hg. rewrite Hg.
  destruct (select_op d None) as [o|]; [|discriminate].
  destruct (op_ty o); try discriminate.
  apply root_streams_ready.
Qed.

(* what a client sees *)
Definition responses_today (cfg : list sconf) (acts : list action) : list (list obs) :=
  map (map view_today) (snd (run (init cfg) acts)).
Definition responses_own (cfg : list sconf) (acts : list action) : list (list obs) :=
  map (map view_own) (snd (run (init cfg) acts)).
Definition overlapped (cfg : list sconf) (acts : list action) : bool := st_overlap (fst (run (init cfg) acts)).

Theorem atomic_responses cfg acts : overlapped cfg acts = false -> responses_today cfg acts = responses_own cfg acts.
Proof. intros H. apply atomic_run. exact H. Qed.

Theorem atomic_single cfg acts : (length cfg <= 1)%nat -> responses_today cfg acts = responses_own cfg acts.
Proof. intros H. apply atomic_responses. apply single_stream_no_overlap. exact H. Qed.

Theorem atomic_ready q S w d c n cfg acts :
  g_gated c = [] -> sub_cfg q S w d c n = Some cfg -> responses_today cfg acts = responses_own cfg acts.
Proof.
  intros Hg Hc. apply atomic_responses. apply ready_no_overlap. eapply sub_cfg_ready; eassumption.
Qed.

(* the errors of the corrected view are the event's own, by construction of the machine:
   [o_own] of a response is the concatenation of what its execution's polls raised *)

(* ------------------------------------------------------- query via stream --- *)
Theorem query_via_stream q S w d opname vars n r :
  impl_exec q S w d opname vars n = Ok r ->
  stream_of_query q S w d opname vars n = Ok [ORes (rs_data r) (rs_errors r); OEnd].
Proof. unfold stream_of_query. intros ->. reflexivity. Qed.

Theorem stream_of_query_shape q S w d opname vars n l :
  stream_of_query q S w d opname vars n = Ok l -> exists dd es, l = [ORes dd es; OEnd].
Proof.
  unfold stream_of_query. destruct (impl_exec q S w d opname vars n); simpl; try discriminate.
  intros H; inversion H. eauto.
Qed.

(* ------------------------------------------------------------------ witness --- *)
(* names: types 10 Query, 11 A, 12 B, 15 Int, 17 String, 18 Sub;
   fields 20 a, 23 id, 24 name, 30 fa, 31 fb *)
Definition w_fields : list (name * ty) :=
  [ (20, TNamed 11); (23, TNonNull (TNamed 15)); (24, TNamed 17) ].
Definition w_schema : schema :=
  {| s_types := [ (10, DObject w_fields []); (11, DObject w_fields []); (12, DObject w_fields []);
                  (15, DScalar 0); (17, DScalar 2);
                  (18, DObject [(30, TNonNull (TNamed 11)); (31, TNonNull (TNamed 12))] []) ];
     s_query := 10; s_mutation := None;
     s_tname := [(10, [81]); (11, [65]); (12, [66]); (18, [83])] |}.
Definition w_world : world :=
  {| w_nodes := [ (0, {| n_ty := 10; n_fields := [] |});
                  (2, {| n_ty := 11; n_fields := [(20, ORef 5)] |});
                  (3, {| n_ty := 12; n_fields := [] |});
                  (5, {| n_ty := 11; n_fields := [(24, OErr)] |}) ];
     w_defaults := []; w_idname := 23 |}.
Definition wfld (nm : name) (sub : list selection) : selection := SField None nm [] [] sub.
(* subscription { fa { a { name } id } fb { id } } *)
Definition w_doc : document :=
  {| doc_ops := [ {| op_name := None; op_ty := OpSubscription; op_vars := []; op_dirs := [];
                     op_sels := [wfld 30 [wfld 20 [wfld 24 []]; wfld 23 []]; wfld 31 [wfld 23 []]] |} ];
     doc_frags := [] |}.
Definition w_gates : subcfg := {| g_sub := 18; g_gated := [(30, 23)]; g_failcreate := [] |}.
Definition w_nogates : subcfg := {| g_sub := 18; g_gated := []; g_failcreate := [] |}.
(* push fa A(2); poll; push fb B(3); poll; open gate fa/id; poll *)
Definition w_sched : list action := [APush 30 (Some 2); APoll; APush 31 (Some 3); APoll; AOpen 30 23; APoll].

Definition resp_fa : value := VObj [(30, VObj [(20, VNull); (23, VInt 2)])].
Definition resp_fb : value := VObj [(31, VObj [(23, VInt 3)])].
Definition err_fa : path := [PF 30; PF 20; PF 24].

Definition with_cfg {A} (c : subcfg) (f : list sconf -> A) : option A :=
  match sub_cfg quirks_today w_schema w_world w_doc c 50 with Some cfg => Some (f cfg) | None => None end.

Lemma witness_interleaved :
  with_cfg w_gates (fun cfg => (length cfg, overlapped cfg w_sched, responses_today cfg w_sched, responses_own cfg w_sched)) =
  Some (2%nat, true,
        [[]; [ORes resp_fb [err_fa]]; [ORes resp_fa []]],
        [[]; [ORes resp_fb []]; [ORes resp_fa [err_fa]]]).
Proof. vm_compute. reflexivity. Qed.

(* non-vacuity of the atomic theorem: same request, ready resolvers: no overlap,
   two responses, the error is delivered with its own event *)
Lemma witness_atomic :
  with_cfg w_nogates (fun cfg => (overlapped cfg w_sched, responses_today cfg w_sched)) =
  Some (false, [[ORes resp_fa [err_fa]]; [ORes resp_fb []]; []]).
Proof. vm_compute. reflexivity. Qed.

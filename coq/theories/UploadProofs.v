(* UploadProofs.v — lemmas and proofs for C24 (no model definitions). *)
From AG Require Import Http HttpProofs Upload.
Open Scope N_scope.

(* --------------------------------------------- write then read, same path -- *)
Lemma list_upd_get i : forall l (f : jv -> option jv) (g : jv -> option jv) x,
  list_get i l = Some x ->
  (forall y, f x = Some y -> True) ->
  match f x with
  | Some y => exists l', list_upd i f l = Some l' /\ list_get i l' = Some y
  | None => list_upd i f l = None
  end.
Proof.
  intros l. revert i. induction l as [|a l IH]; intros i f g x H _; [discriminate|].
  cbn [list_get list_upd] in *. destruct (i =? 0) eqn:E.
  - inversion H; subst. destruct (f x) as [y|]; cbn [option_map]; [|reflexivity].
    eexists; split; [reflexivity|]. cbn [list_get]. rewrite E. reflexivity.
  - specialize (IH (i - 1) f g x H (fun _ _ => I)). destruct (f x) as [y|].
    + destruct IH as [l' [-> Hg]]. cbn [option_map]. eexists; split; [reflexivity|].
      cbn [list_get]. rewrite E. exact Hg.
    + rewrite IH. reflexivity.
Qed.

Lemma list_upd_none i : forall l (f : jv -> option jv), list_get i l = None -> list_upd i f l = None.
Proof.
  intros l. revert i. induction l as [|a l IH]; intros i f H; [reflexivity|].
  cbn [list_get list_upd] in *. destruct (i =? 0); [discriminate|]. rewrite (IH _ f H). reflexivity.
Qed.

Lemma assoc_upd_get k : forall m (f : jv -> option jv) x,
  assoc_get k m = Some x ->
  match f x with
  | Some y => exists m', assoc_upd k f m = Some m' /\ assoc_get k m' = Some y /\
                         (forall k2, str_eqb k2 k = false -> assoc_get k2 m' = assoc_get k2 m)
  | None => assoc_upd k f m = None
  end.
Proof.
  induction m as [|[k' a] m IH]; intros f x H; [discriminate|].
  cbn [assoc_get assoc_upd] in *. destruct (str_eqb k k') eqn:E.
  - inversion H; subst. destruct (f x) as [y|]; cbn [option_map]; [|reflexivity].
    eexists; split; [reflexivity|]. cbn [assoc_get]. rewrite E. split; [reflexivity|].
    intros k2 Hk. apply str_eqb_eq in E. subst k'. rewrite Hk. reflexivity.
  - specialize (IH f x H). destruct (f x) as [y|].
    + destruct IH as [m' [-> [Hg Hf]]]. cbn [option_map]. eexists; split; [reflexivity|].
      cbn [assoc_get]. rewrite E. split; [exact Hg|].
      intros k2 Hk. destruct (str_eqb k2 k'); [reflexivity|apply Hf; exact Hk].
    + rewrite IH. reflexivity.
Qed.

Lemma assoc_upd_none k : forall m (f : jv -> option jv), assoc_get k m = None -> assoc_upd k f m = None.
Proof.
  induction m as [|[k' a] m IH]; intros f H; [reflexivity|].
  cbn [assoc_get assoc_upd] in *. destruct (str_eqb k k'); [discriminate|]. rewrite (IH f H). reflexivity.
Qed.

Lemma get_path_arr p ps l :
  get_path (p :: ps) (JArr l) =
  match parse_uint U32_MAX p with
  | Some i => match list_get i l with Some x => get_path ps x | None => None end
  | None => None
  end.
Proof. reflexivity. Qed.
Lemma get_path_obj p ps m :
  get_path (p :: ps) (JObj m) = match assoc_get p m with Some x => get_path ps x | None => None end.
Proof. reflexivity. Qed.

(* the assignment happens exactly when the path denotes a value, and then the
   path denotes the marker *)
Lemma upd_path_resolvable mk : forall parts v,
  match get_path parts v with
  | Some _ => exists v', upd_path parts mk v = Some v' /\ get_path parts v' = Some mk
  | None => upd_path parts mk v = None
  end.
Proof.
  induction parts as [|p ps IH]; intros v.
  - cbn [get_path upd_path]. eexists; split; reflexivity.
  - cbn [get_path upd_path]. destruct v; try reflexivity.
    + destruct (parse_uint U32_MAX p) as [i|] eqn:P; [|reflexivity].
      destruct (list_get i l) as [x|] eqn:G.
      * specialize (IH x). pose proof (list_upd_get i l (upd_path ps mk) (fun _ => None) x G (fun _ _ => I)) as U.
        destruct (get_path ps x) as [old|].
        -- destruct IH as [x' [Hu Hg]]. rewrite Hu in U. destruct U as [l' [-> Hl]].
           cbn [option_map]. eexists; split; [reflexivity|]. cbv beta iota. rewrite Hl. exact Hg.
        -- rewrite IH in U. rewrite U. reflexivity.
      * rewrite (list_upd_none i l _ G). reflexivity.
    + destruct (assoc_get p m) as [x|] eqn:G.
      * specialize (IH x). pose proof (assoc_upd_get p m (upd_path ps mk) x G) as U.
        destruct (get_path ps x) as [old|].
        -- destruct IH as [x' [Hu Hg]]. rewrite Hu in U. destruct U as [m' [-> [Hl _]]].
           cbn [option_map]. eexists; split; [reflexivity|]. cbv beta iota. rewrite Hl. exact Hg.
        -- rewrite IH in U. rewrite U. reflexivity.
      * rewrite (assoc_upd_none p m _ G). reflexivity.
Qed.

Lemma split_on_nonempty c : forall s cur, split_on c s cur <> [].
Proof. induction s as [|x s IH]; intros cur; cbn [split_on]; [discriminate|]. destruct (x =? c); [discriminate|apply IH]. Qed.

(* Request::set_upload: a path that denotes a variable position gets the marker
   of the pushed upload; nothing but the variables and the uploads changes;
   every other top-level variable keeps its value; a path that denotes nothing
   changes nothing *)
Theorem set_upload_bound r ups path f :
  match get_var_path r path with
  | Some _ =>
      exists r', set_upload (r, ups) path f = (r', ups ++ [f]) /\
                 get_var_path r' path = Some (marker (N.of_nat (length ups))) /\
                 r_query r' = r_query r /\ r_op r' = r_op r /\ r_exts r' = r_exts r /\
                 (forall rest, strip_prefix VARIABLES_DOT path = Some rest ->
                  forall k, str_eqb k (hd [] (split_dot rest)) = false ->
                            assoc_get k (r_vars r') = assoc_get k (r_vars r))
  | None => set_upload (r, ups) path f = (r, ups)
  end.
Proof.
  unfold get_var_path, set_upload.
  destruct (strip_prefix VARIABLES_DOT path) as [rest|]; [|reflexivity].
  destruct (split_dot rest) as [|first more] eqn:S; [exfalso; exact (split_on_nonempty _ _ _ S)|].
  pose proof (upd_path_resolvable (marker (N.of_nat (length ups))) (first :: more) (JObj (r_vars r))) as U.
  cbn [get_path upd_path] in U |- *.
  destruct (assoc_get first (r_vars r)) as [x|] eqn:G.
  - pose proof (assoc_upd_get first (r_vars r) (upd_path more (marker (N.of_nat (length ups)))) x G) as A.
    destruct (get_path more x) as [old|].
    + destruct U as [v' [Hu Hg]].
      destruct (upd_path more (marker (N.of_nat (length ups))) x) as [y|].
      * destruct A as [m' [Hm [Hget Hframe]]]. rewrite Hm in *. cbn [option_map] in Hu. inversion Hu; subst v'.
        eexists; split; [reflexivity|]. cbn [r_vars r_query r_op r_exts]. cbn [get_path] in Hg.
        repeat split; try exact Hg. intros rest' Hr k Hk. inversion Hr; subst rest'. rewrite S in Hk. cbn [hd] in Hk.
        apply Hframe. exact Hk.
      * rewrite A in Hu. discriminate.
    + destruct (upd_path more (marker (N.of_nat (length ups))) x) as [y|].
      * destruct A as [m' [Hm _]]. rewrite Hm in U. discriminate.
      * rewrite A. reflexivity.
  - rewrite (assoc_upd_none first (r_vars r) _ G). reflexivity.
Qed.

(* ------------------------------------------------------------ missing files -- *)
Lemma map_get_acc k : forall m acc, map_get k m acc = match map_get k m None with Some v => Some v | None => acc end.
Proof.
  induction m as [|[k' v] m IH]; intros acc; [reflexivity|].
  cbn [map_get]. rewrite (IH (if str_eqb k k' then Some v else acc)), (IH (if str_eqb k k' then Some v else None)).
  destruct (map_get k m None); [reflexivity|]. destruct (str_eqb k k'); reflexivity.
Qed.

Lemma map_get_none k : forall m, map_get k m None = None -> ~ In k (map fst m).
Proof.
  induction m as [|[k' v] m IH]; intros H; [intros []|].
  cbn [map_get] in H. rewrite map_get_acc in H. destruct (map_get k m None) eqn:G; [discriminate|].
  destruct (str_eqb k k') eqn:E; [discriminate|]. cbn [map fst]. intros [Hk|Hk].
  - subst. rewrite str_eqb_refl in E. discriminate.
  - exact (IH eq_refl Hk).
Qed.

Lemma map_del_keys k m k2 : In k2 (map fst (map_del k m)) <-> In k2 (map fst m) /\ k2 <> k.
Proof.
  unfold map_del. induction m as [|[k' v] m IH]; [cbn; tauto|].
  cbn [filter fst]. destruct (str_eqb k k') eqn:E; cbn [negb map fst In].
  - apply str_eqb_eq in E. subst k'. rewrite IH. split; [tauto|]. intros [[H|H] Hne]; [congruence|tauto].
  - apply str_eqb_neq in E. rewrite IH. split.
    + intros [H|H]; [subst; split; [left; reflexivity|congruence]|tauto].
    + tauto.
Qed.

(* what is left of the map after the binding loop: the entries no file is named after *)
Lemma bind_files_left b : forall files m reqs k,
  In k (map fst (fst (bind_files b files m reqs))) <-> In k (map fst m) /\ ~ In k (map fst files).
Proof.
  induction files as [|[name id] files IH]; intros m reqs k; [cbn; tauto|].
  cbn [bind_files map fst In]. destruct (map_get name m None) as [paths|] eqn:G.
  - rewrite IH. rewrite map_del_keys. split.
    + intros [[H1 H2] H3]. split; [exact H1|]. intros [H|H]; [congruence|contradiction].
    + intros [H1 H2]. split; [split; [exact H1|]|]; intuition congruence.
  - rewrite IH. pose proof (map_get_none name m G). split.
    + intros [H1 H2]. split; [exact H1|]. intros [Hn|Hn]; [subst; contradiction|contradiction].
    + intros [H1 H2]. split; [exact H1|tauto].
Qed.

(* a map entry without a matching file part: the request is rejected *)
Theorem missing_file_rejected o len ps res :
  receive_multipart o len ps = Ok res ->
  forall st m, read_parts o ps {| st_req := None; st_map := None; st_files := [] |} = Ok st -> st_map st = Some m ->
  forall k, In k (map fst m) -> In k (map fst (st_files st)).
Proof.
  intros H st m R Hm k Hk. unfold receive_multipart in H.
  destruct (over (whole_limit o) len); [discriminate|].
  rewrite R in H. cbn [bindo] in H. rewrite Hm in H.
  destruct (st_req st) as [b|]; [|discriminate].
  match type of H with
  | (let '(_, _) := bind_files ?bb ?ff ?mm ?rr in _) = _ =>
      pose proof (bind_files_left bb ff mm rr k) as L; destruct (bind_files bb ff mm rr) as [m' reqs']
  end.
  destruct m'; [|discriminate]. cbn [fst map] in L.
  destruct (in_dec (list_eq_dec N.eq_dec) k (map fst (st_files st))) as [Hin|Hnot]; [exact Hin|].
  exfalso. apply (proj2 L). split; assumption.
Qed.

(* ------------------------------------------------------------------- limits -- *)
Lemma read_parts_big o : forall ps st,
  existsb (fun p => over (field_limit o) (part_size p)) ps = true -> is_ok (read_parts o ps st) = false.
Proof.
  induction ps as [|p ps IH]; intros st H; [discriminate|].
  cbn [existsb] in H. cbn [read_parts]. destruct (over (field_limit o) (part_size p)) eqn:O; [reflexivity|].
  cbn [orb] in H. destruct p; cbn [bindo].
  - destruct (decode_mp_operations req_tab ct tree); try reflexivity. cbn [bindo]. apply IH; exact H.
  - destruct (decode_filemap tree); try reflexivity. cbn [bindo]. apply IH; exact H.
  - apply IH; exact H.
  - apply IH; exact H.
Qed.

(* a file larger than max_file_size: never accepted *)
Theorem file_size_enforced o len ps :
  file_too_big o ps = true -> is_ok (receive_multipart o len ps) = false.
Proof.
  intros H. unfold receive_multipart. destruct (over (whole_limit o) len); [reflexivity|].
  assert (B : existsb (fun p => over (field_limit o) (part_size p)) ps = true).
  { unfold file_too_big in H. apply existsb_exists in H. destruct H as [p [Hin Hp]].
    apply existsb_exists. exists p. split; [exact Hin|]. destruct p; try discriminate. exact Hp. }
  pose proof (read_parts_big o ps {| st_req := None; st_map := None; st_files := [] |} B) as R.
  destruct (read_parts o ps _); try discriminate; reflexivity.
Qed.

(* the file count: max_num_files alone changes nothing at all ... *)
Theorem count_limit_alone_ignored n len ps :
  receive_multipart {| max_size := None; max_files := Some n |} len ps =
  receive_multipart {| max_size := None; max_files := None |} len ps.
Proof.
  unfold receive_multipart. cbn [whole_limit max_size max_files over].
  f_equal. generalize {| st_req := None; st_map := None; st_files := [] |}.
  induction ps as [|p ps IH]; intros st; [reflexivity|].
  cbn [read_parts field_limit max_size over]. destruct p.
  - destruct (decode_mp_operations req_tab ct tree); try reflexivity. cbn [bindo]. apply IH.
  - destruct (decode_filemap tree); try reflexivity. cbn [bindo]. apply IH.
  - apply IH.
  - apply IH.
Qed.

(* ... and together with max_file_size it is a byte budget, not a count *)
Definition count_witness_ops : jv :=
  JObj [(K_QUERY, JStr [113]); (K_VARIABLES, JObj [([97], JNull); ([98], JNull); ([99], JNull)])].
Definition count_witness_map : jv :=
  JObj [([48], JArr [JStr (VARIABLES_DOT ++ [97])]); ([49], JArr [JStr (VARIABLES_DOT ++ [98])]);
        ([50], JArr [JStr (VARIABLES_DOT ++ [99])])].
Definition count_witness : list part :=
  [POps CtOther 74 (Some count_witness_ops); PMap 81 (Some count_witness_map);
   PFile [48] 0 5; PFile [49] 1 5; PFile [50] 2 5].

Theorem count_limit_refuted :
  too_many_files {| max_size := Some 600; max_files := Some 1 |} count_witness = true /\
  too_many_files {| max_size := None; max_files := Some 1 |} count_witness = true /\
  is_ok (receive_multipart {| max_size := Some 600; max_files := Some 1 |} 580 count_witness) = true /\
  is_ok (receive_multipart {| max_size := None; max_files := Some 1 |} 580 count_witness) = true.
Proof. vm_compute. repeat split; reflexivity. Qed.

(* non-vacuity of the binding theorem: the witness binds three files to three variables *)
Lemma bind_example :
  receive_multipart {| max_size := None; max_files := None |} 580 count_witness =
  Ok (false, [({| r_query := [113]; r_op := None;
                  r_vars := [([97], marker 0); ([98], marker 1); ([99], marker 2)]; r_exts := [] |}, [0; 1; 2])]).
Proof. vm_compute. reflexivity. Qed.

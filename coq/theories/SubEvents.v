(* SubEvents.v — model of subscription execution (C27).
   What is modelled (async-graphql):
   - Schema::execute_stream_with_session_data (src/schema.rs:573-655): a query
     or mutation yields execute_once's single response and ends; a
     subscription builds one stream per root FIELD
     (collect_subscription_streams, src/subscription.rs:38-72: fragments at
     the root are not looked into) and merges them with select_all
     (FuturesUnordered: streams are polled in the order in which they were
     woken; a stream that yielded is pushed back at the tail).
   - the generated create_field_stream (derive/src/subscription.rs:322-430):
     the stream-creating resolver runs at the first poll (an error becomes one
     error response and the stream ends); `then` resolves ONE event at a time
     per stream: OutputType::resolve of the item with the root field's
     selection set, wrapped as {key: value} (or an error response), then
     `resp.errors.extend(take(query_env.errors))` — the error list is shared
     by the whole request (src/context.rs QueryEnvInner.errors).
   - the item's top-level container: resolve_container = try_join_all (Small)
     over the field occurrences, polled in index order on every poll, first
     error aborts and drops the rest.  Resolvers directly under the event may
     suspend on a gate (harness/src/family.rs `fetch`); everything below them
     is ready and is Exec.v's impl model (i_field).
   The machine is generic in the per-event plans (section Machine); the
   instantiation from schema/world/document is mk_cfg. *)
From AG Require Export ExecCheck.
Open Scope N_scope.

(* ------------------------------------------------------------ vocabulary --- *)
Inductive action :=
| APush (k : name) (ev : option N)     (* send an event on the channel of root response key k *)
| AClose (k : name)                    (* drop the sender of k *)
| AOpen (k c : name)                   (* release the resolvers waiting at path k/c *)
| APoll.                               (* poll the response stream until it stays Pending *)

Inductive obs := ORes (d : value) (es : list path) | OEnd.

(* instrumented response: [o_taken] is what `take(query_env.errors)` returned,
   [o_own] the errors raised by this event's own execution *)
Inductive obs2 :=
| ORes2 (i : nat) (ev : option N) (d : value) (fail : list path) (taken own : list path)
| OEnd2.

Definition view_today (o : obs2) : obs :=
  match o with ORes2 _ _ d f t _ => ORes d (f ++ t) | OEnd2 => OEnd end.
Definition view_own (o : obs2) : obs :=
  match o with ORes2 _ _ d f _ w => ORes d (f ++ w) | OEnd2 => OEnd end.

(* one field occurrence directly under the event value, with the (schedule
   independent) outcome of its resolver and everything below it *)
Record item := {
  it_key : name;
  it_gated : bool;
  it_val : ires;
  it_errs : list path;              (* errors it stores with ctx.add_error *)
  it_tr0 : list (N * name);         (* resolver invocations logged before the gate *)
  it_tr1 : list (N * name) }.       (* ... after the gate *)

Record plan := {
  p_key : name;                     (* response key of the root field *)
  p_catch : bool;                   (* item type is Option<_> *)
  p_direct : option (ires * list path * list (N * name));   (* no container to resolve: leaf / null *)
  p_items : list item;
  p_fuel : nat;                     (* for create_value_object *)
  p_bad : bool }.                   (* the instantiation could not build the plan *)

Record sconf := { c_key : name; c_fail : bool; c_plan : option N -> plan }.

Inductive istat := IFresh | IWait | IRel | IDone.
Inductive jstat := JDone | JPend | JFail (ep : path).

Record xstate := { x_plan : plan; x_ev : option N; x_items : list (item * istat); x_own : list path }.

Record sstate := {
  s_started : bool;
  s_errpending : bool;              (* the creator failed: error response sent, ends at the next poll *)
  s_dead : bool;
  s_reg : bool;                     (* waiting on the channel with a registered waker *)
  s_chan : list (option N);
  s_closed : bool;
  s_exec : option xstate }.

Definition s0 : sstate :=
  {| s_started := false; s_errpending := false; s_dead := false; s_reg := false; s_chan := []; s_closed := false; s_exec := None |}.

Record state := {
  st_ss : list (sconf * sstate);
  st_queue : list nat;              (* FuturesUnordered ready queue *)
  st_shared : list path;            (* query_env.errors *)
  st_trace : list (N * name);
  st_overlap : bool;                (* an event execution ran while another stream had one in progress *)
  st_bad : bool;
  st_done : bool }.

(* ---------------------------------------------------------- try_join_all --- *)
Definition jmerge (j : jstat) : jstat := match j with JDone => JPend | _ => j end.

Fixpoint poll_items (its : list (item * istat)) : list (item * istat) * list path * list (N * name) * jstat :=
  match its with
  | [] => ([], [], [], JDone)
  | (it, st) :: r =>
      match st, it_gated it with
      | IDone, _ =>
          let '(r', es, tr, j) := poll_items r in ((it, IDone) :: r', es, tr, j)
      | IWait, _ =>
          let '(r', es, tr, j) := poll_items r in ((it, IWait) :: r', es, tr, jmerge j)
      | IFresh, true =>
          let '(r', es, tr, j) := poll_items r in ((it, IWait) :: r', es, it_tr0 it ++ tr, jmerge j)
      | IFresh, false =>
          match it_val it with
          | IFail ep => ((it, IDone) :: r, it_errs it, it_tr0 it ++ it_tr1 it, JFail ep)
          | IVal _ =>
              let '(r', es, tr, j) := poll_items r in
              ((it, IDone) :: r', it_errs it ++ es, (it_tr0 it ++ it_tr1 it) ++ tr, j)
          end
      | IRel, _ =>
          match it_val it with
          | IFail ep => ((it, IDone) :: r, it_errs it, it_tr1 it, JFail ep)
          | IVal _ =>
              let '(r', es, tr, j) := poll_items r in
              ((it, IDone) :: r', it_errs it ++ es, it_tr1 it ++ tr, j)
          end
      end
  end.

Definition item_kv (x : item * istat) : name * value :=
  (it_key (fst x), match it_val (fst x) with IVal v => v | IFail _ => VNull end).

Definition plan_value (pl : plan) (its : list (item * istat)) : value :=
  match p_direct pl with
  | Some (IVal v, _, _) => v
  | Some (IFail _, _, _) => VNull
  | None => create_value_object (p_fuel pl) (map item_kv its)
  end.

Definition step_exec (x : xstate) : list (item * istat) * list path * list (N * name) * jstat :=
  match p_direct (x_plan x) with
  | Some (v, es, tr) => (x_items x, es, tr, match v with IVal _ => JDone | IFail ep => JFail ep end)
  | None => poll_items (x_items x)
  end.

Inductive sout := SYield (o : obs2) | SPend | SEnd.

Definition set_exec (s : sstate) (chan : list (option N)) (e : option xstate) : sstate :=
  {| s_started := true; s_errpending := false; s_dead := false; s_reg := false;
     s_chan := chan; s_closed := s_closed s; s_exec := e |}.

(* poll the event execution [x] of stream [i] *)
Definition run_exec (i : nat) (s : sstate) (chan : list (option N)) (x : xstate) (shared : list path)
  : sstate * list path * list (N * name) * sout :=
  let '(its, es, tr, j) := step_exec x in
  let own1 := x_own x ++ es in
  let sh1 := shared ++ es in
  let pl := x_plan x in
  match j with
  | JPend =>
      (set_exec s chan (Some {| x_plan := pl; x_ev := x_ev x; x_items := its; x_own := own1 |}), sh1, tr, SPend)
  | JDone =>
      (set_exec s chan None, [], tr,
       SYield (ORes2 i (x_ev x) (VObj [(p_key pl, plan_value pl its)]) [] sh1 own1))
  | JFail ep =>
      if p_catch pl
      then (set_exec s chan None, [], tr,
            SYield (ORes2 i (x_ev x) (VObj [(p_key pl, VNull)]) [] (sh1 ++ [ep]) (own1 ++ [ep])))
      else (set_exec s chan None, [], tr, SYield (ORes2 i (x_ev x) VNull [ep] sh1 own1))
  end.

Definition busy (cs : sconf * sstate) : bool :=
  match s_exec (snd cs) with Some _ => true | None => false end.

(* result of polling one stream: new stream state, new shared list, trace,
   whether an event execution ran, bad plan, output *)
Definition poll_stream (i : nat) (c : sconf) (s : sstate) (shared : list path)
  : sstate * list path * list (N * name) * bool * bool * sout :=
  if s_dead s then (s, shared, [], false, false, SEnd)
  else if s_errpending s then
    ({| s_started := true; s_errpending := false; s_dead := true; s_reg := false; s_chan := s_chan s;
        s_closed := s_closed s; s_exec := s_exec s |}, shared, [], false, false, SEnd)
  else if negb (s_started s) && c_fail c then
    ({| s_started := true; s_errpending := true; s_dead := false; s_reg := false; s_chan := s_chan s;
        s_closed := s_closed s; s_exec := s_exec s |}, shared, [], false, false,
     SYield (ORes2 i None VNull [[PF (c_key c)]] [] []))
  else
    match s_exec s with
    | Some x =>
        let '(s', sh, tr, o) := run_exec i s (s_chan s) x shared in (s', sh, tr, true, false, o)
    | None =>
        match s_chan s with
        | ev :: r =>
            let pl := c_plan c ev in
            let x := {| x_plan := pl; x_ev := ev; x_items := map (fun it => (it, IFresh)) (p_items pl); x_own := [] |} in
            let '(s', sh, tr, o) := run_exec i s r x shared in (s', sh, tr, true, p_bad pl, o)
        | [] =>
            if s_closed s then
              ({| s_started := true; s_errpending := false; s_dead := true; s_reg := false; s_chan := [];
                  s_closed := true; s_exec := None |}, shared, [], false, false, SEnd)
            else
              ({| s_started := true; s_errpending := false; s_dead := false; s_reg := true; s_chan := [];
                  s_closed := false; s_exec := None |}, shared, [], false, false, SPend)
        end
    end.

(* ------------------------------------------------------------- the machine --- *)
Fixpoint split_at {A} (i : nat) (l : list A) : option (list A * A * list A) :=
  match l, i with
  | [], _ => None
  | x :: r, O => Some ([], x, r)
  | x :: r, S i' => match split_at i' r with Some (p, y, q) => Some (x :: p, y, q) | None => None end
  end.

Fixpoint memn (i : nat) (l : list nat) : bool :=
  match l with [] => false | j :: r => Nat.eqb i j || memn i r end.
Definition enqueue (i : nat) (q : list nat) : list nat := if memn i q then q else q ++ [i].

(* poll the stream at the head of the ready queue *)
Definition poll_head (st : state) : state * list obs2 :=
  match st_queue st with
  | [] => (st, [])
  | i :: q =>
      match split_at i (st_ss st) with
      | None => ({| st_ss := st_ss st; st_queue := q; st_shared := st_shared st; st_trace := st_trace st;
                    st_overlap := st_overlap st; st_bad := true; st_done := st_done st |}, [])
      | Some (pre, (c, s), post) =>
          let '(s', sh, tr, ran, bad, o) := poll_stream i c s (st_shared st) in
          let st' q' :=
            {| st_ss := pre ++ (c, s') :: post; st_queue := q'; st_shared := sh; st_trace := st_trace st ++ tr;
               st_overlap := st_overlap st || (ran && (existsb busy pre || existsb busy post));
               st_bad := st_bad st || bad; st_done := st_done st |} in
          match o with
          | SYield r => (st' (q ++ [i]), [r])
          | SPend => (st' q, [])
          | SEnd => (st' q, [])
          end
      end
  end.

Fixpoint drain (fuel : nat) (st : state) : state * list obs2 :=
  match fuel with
  | O => (st, [])
  | S f =>
      match st_queue st with
      | [] => (st, [])
      | _ => let '(st1, o1) := poll_head st in
             let '(st2, o2) := drain f st1 in (st2, o1 ++ o2)
      end
  end.

(* enough polls to empty the queue: every poll either consumes an event, or
   the creator's error, or removes an entry from the queue *)
Definition drain_fuel (st : state) : nat :=
  (2 * fold_right (fun cs acc => length (s_chan (snd cs)) + acc)%nat O (st_ss st)
   + 3 * length (st_ss st) + length (st_queue st) + 2)%nat.

Definition all_dead (st : state) : bool := forallb (fun cs => s_dead (snd cs)) (st_ss st).

Definition find_key (k : name) (l : list (sconf * sstate)) : option nat :=
  (fix go (l : list (sconf * sstate)) (i : nat) : option nat :=
     match l with
     | [] => None
     | cs :: r => if name_eqb (c_key (fst cs)) k then Some i else go r (S i)
     end) l O.

Definition upd_stream (st : state) (i : nat) (f : sconf -> sstate -> sstate * bool) : state :=
  match split_at i (st_ss st) with
  | None => st
  | Some (pre, (c, s), post) =>
      let '(s', wake) := f c s in
      {| st_ss := pre ++ (c, s') :: post; st_queue := if wake then enqueue i (st_queue st) else st_queue st;
         st_shared := st_shared st; st_trace := st_trace st; st_overlap := st_overlap st;
         st_bad := st_bad st; st_done := st_done st |}
  end.

Definition with_chan (s : sstate) (chan : list (option N)) (closed reg : bool) : sstate :=
  {| s_started := s_started s; s_errpending := s_errpending s; s_dead := s_dead s; s_reg := reg;
     s_chan := chan; s_closed := closed; s_exec := s_exec s |}.

Definition release (c : name) (x : item * istat) : item * istat :=
  match snd x with
  | IWait => if name_eqb (it_key (fst x)) c then (fst x, IRel) else x
  | _ => x
  end.
Definition is_wait_on (c : name) (x : item * istat) : bool :=
  match snd x with IWait => name_eqb (it_key (fst x)) c | _ => false end.

Definition step (st : state) (a : action) : state * list obs2 :=
  match a with
  | APush k ev =>
      (match find_key k (st_ss st) with
       | None => st
       | Some i =>
           upd_stream st i (fun _ s =>
             if s_dead s || s_closed s || s_errpending s then (s, false)
             else (with_chan s (s_chan s ++ [ev]) false false, s_reg s))
       end, [])
  | AClose k =>
      (match find_key k (st_ss st) with
       | None => st
       | Some i =>
           upd_stream st i (fun _ s =>
             if s_dead s || s_closed s || s_errpending s then (with_chan s (s_chan s) true (s_reg s), false)
             else (with_chan s (s_chan s) true false, s_reg s))
       end, [])
  | AOpen k c =>
      (match find_key k (st_ss st) with
       | None => st
       | Some i =>
           upd_stream st i (fun _ s =>
             match s_exec s with
             | Some x =>
                 ({| s_started := s_started s; s_errpending := s_errpending s; s_dead := s_dead s; s_reg := s_reg s;
                     s_chan := s_chan s; s_closed := s_closed s;
                     s_exec := Some {| x_plan := x_plan x; x_ev := x_ev x; x_items := map (release c) (x_items x);
                                       x_own := x_own x |} |},
                  existsb (is_wait_on c) (x_items x))
             | None => (s, false)
             end)
       end, [])
  | APoll =>
      if st_done st then (st, [])
      else
        let '(st1, os) := drain (drain_fuel st) st in
        if all_dead st1 && match st_queue st1 with [] => true | _ => false end
        then ({| st_ss := st_ss st1; st_queue := st_queue st1; st_shared := st_shared st1; st_trace := st_trace st1;
                 st_overlap := st_overlap st1; st_bad := st_bad st1; st_done := true |}, os ++ [OEnd2])
        else (st1, os)
  end.

Fixpoint run (st : state) (acts : list action) : state * list (list obs2) :=
  match acts with
  | [] => (st, [])
  | a :: r =>
      let '(st1, os) := step st a in
      let '(st2, oss) := run st1 r in
      (st2, match a with APoll => os :: oss | _ => oss end)
  end.

Definition init (cfg : list sconf) : state :=
  {| st_ss := map (fun c => (c, s0)) cfg; st_queue := seq 0 (length cfg); st_shared := []; st_trace := [];
     st_overlap := false; st_bad := false; st_done := false |}.

(* ------------------------------------------------- instantiation from Exec --- *)
Record subcfg := { g_sub : name; g_gated : list (name * name); g_failcreate : list name }.

Inductive fixture := FSchema (s : schema) | FScen (w : world) (d : document) (c : subcfg).

Section Inst.
  Variable q : quirks.
  Variable S : schema.
  Variable w : world.
  Variable frags : list (name * fragment).
  Variable vars : list (name * value).
  Variable vdefs : list vardef.
  Variable gated : list (name * name).

  Definition is_gated (k c : name) : bool :=
    existsb (fun g => name_eqb (fst g) k && name_eqb (snd g) c) gated.

  Definition bad_plan (k : name) : plan :=
    {| p_key := k; p_catch := false; p_direct := None; p_items := []; p_fuel := O; p_bad := true |}.

  (* the occurrences resolve_container builds for the event object (as in i_set) *)
  Definition occs_of (n : nat) (st rt : name) (sub : list selection) : outcome (list occ) :=
    bindo (i_collect q S frags vars vdefs n st rt sub) (fun occs0 =>
      Ok (if q_per_occurrence q then occs0
          else map (fun o => {| o_key := o_key o; o_name := o_name o; o_sels := o_sels o;
                                o_iface := existsb (fun o' => name_eqb (o_key o') (o_key o) && o_iface o') occs0 |})
                   (dedup_occs occs0))).

  (* fuel decreases along the occurrence list exactly as in i_occs *)
  Fixpoint items_of (n : nat) (k : name) (rt : name) (nid : N) (occs : list occ) : option (list item) :=
    match occs with
    | [] => Some []
    | o :: r =>
        match n with
        | O => None
        | Datatypes.S n' =>
            match i_field q S w frags vars vdefs n' rt nid o [PF k], items_of n' k rt nid r with
            | Ok (v, es, tr), Some l =>
                Some ({| it_key := o_key o;
                         it_gated := is_gated k (o_key o) && negb (name_eqb (o_name o) N_typename);
                         it_val := v; it_errs := es; it_tr0 := firstn 1 tr; it_tr1 := skipn 1 tr |} :: l)
            | _, _ => None
            end
        end
    end.

  Definition ev_outv (t : ty) (ev : option N) : outv :=
    match ev with
    | None => ONull
    | Some n =>
        match strip_nn t with
        | TNamed tn => match tdef_of S tn with Some (DScalar _) => OInt (Z.of_N n) | _ => ORef n end
        | _ => ORef n
        end
    end.

  (* OutputType::resolve of the item (type [t], value [ev]) with the root
     field's selection set; [n] is the fuel i_comp would be given *)
  Definition mk_plan (n : nat) (k : name) (t : ty) (sub : list selection) (ev : option N) : plan :=
    let ov := ev_outv t ev in
    let catch := negb (is_nonnull t) in
    let n1 := if is_nonnull t then Nat.pred (Nat.pred n) else Nat.pred n in   (* fuel of i_set *)
    let direct :=
      match i_comp q S w frags vars vdefs n true t ov sub [PF k] with
      | Ok r => {| p_key := k; p_catch := catch; p_direct := Some r; p_items := []; p_fuel := O; p_bad := false |}
      | _ => bad_plan k
      end in
    match strip_nn t, ov with
    | TNamed tn, ORef nid =>
        match node_ty w nid with
        | Some rt =>
            let st := match tdef_of S tn with Some (DObject _ _) => rt | _ => tn end in
            match n1 with
            | Datatypes.S n2 =>
                match occs_of n2 st rt sub with
                | Ok occs =>
                    match items_of n2 k rt nid occs with
                    | Some its => {| p_key := k; p_catch := catch; p_direct := None; p_items := its; p_fuel := n2; p_bad := false |}
                    | None => bad_plan k
                    end
                | _ => bad_plan k
                end
            | O => bad_plan k
            end
        | None => direct
        end
    | _, _ => direct
    end.

  (* collect_subscription_streams: one stream per root field of the pruned
     operation; fragments are skipped *)
  Fixpoint root_streams (n : nat) (sub : name) (failc : list name) (sels : list selection) : option (list sconf) :=
    match sels with
    | [] => Some []
    | s :: r =>
        match root_streams n sub failc r with
        | None => None
        | Some rest =>
            match s with
            | SField al nm _ dirs ss =>
                match i_skipped q vars vdefs dirs with
                | Some true => Some rest
                | Some false =>
                    match obj_field_ty S sub nm with
                    | Some t =>
                        let k := key_of al nm in
                        Some ({| c_key := k; c_fail := mem k failc; c_plan := mk_plan n k t ss |} :: rest)
                    | None => None
                    end
                | None => None
                end
            | _ => Some rest
            end
        end
    end.
End Inst.

(* one poll step's output, for both operation kinds *)
Definition sub_cfg (q : quirks) (S : schema) (w : world) (d : document) (c : subcfg) (n : nat) : option (list sconf) :=
  match select_op d None with
  | Some o =>
      match op_ty o with
      | OpSubscription => root_streams q S w (doc_frags d) [] (op_vars o) (g_gated c) n (g_sub c) (g_failcreate c) (op_sels o)
      | _ => None
      end
  | None => None
  end.

(* execute_stream for a query or mutation: the single response of execute, then the end *)
Definition stream_of_query (q : quirks) (S : schema) (w : world) (d : document) (opname : option name)
           (vars : list (name * value)) (n : nat) : outcome (list obs) :=
  bindo (impl_exec q S w d opname vars n) (fun r => Ok [ORes (rs_data r) (rs_errors r); OEnd]).

(* --------------------------------------------------------------- verdicts --- *)
Definition obs_eqb (a b : obs) : bool :=
  match a, b with
  | ORes d es, ORes d' es' => value_eqb d d' && paths_same es es'
  | OEnd, OEnd => true
  | _, _ => false
  end.
Definition polls_eqb (a b : list (list obs)) : bool := list_eqb (list_eqb obs_eqb) a b.

Definition check_c27 (fs fscen : fixture) (acts : list action) (impl : list (list obs)) (itrace : list (N * name)) : N :=
  match fs, fscen with
  | FSchema sch, FScen w d c =>
      match sub_cfg quirks_today sch w d c 300 with
      | Some cfg =>
          let '(st, oss) := run (init cfg) acts in
          if st_bad st then 9
          else
            let today := map (map view_today) oss in
            let own := map (map view_own) oss in
            let tr_ok := list_eqb inv_eqb itrace (st_trace st) in
            if polls_eqb impl today && tr_ok then
              verdict true (polls_eqb today own) (polls_eqb impl own) (if st_overlap st then 1 else 0)
            else if polls_eqb impl own && tr_ok then 0
              (* the code keeps the errors per event here: the machine with the shared
                 list replaced by the per-event lists (the repaired code) agrees *)
            else verdict false (polls_eqb today own) false 0
              (* neither today's machine nor the per-event specification: never the known class
                 (that class is "impl = today's machine, which deviates on this schedule") *)
      | None => 9
      end
  | _, _ => 9
  end.

(* a query or mutation through execute_stream: polls = what two poll steps
   delivered, direct = what execute answered *)
Definition check_qs (fs : fixture) (w : world) (d : document) (vars : list (name * value))
           (polls : list (list obs)) (direct : obs) : N :=
  match fs with
  | FSchema sch =>
      match stream_of_query quirks_today sch w d None vars 300 with
      | Ok m =>
          let spec := [[direct; OEnd]; []] in
          verdict (polls_eqb polls [m; []] && match m with r :: _ => obs_eqb direct r | [] => false end)
                  true (polls_eqb polls spec) 0
      | _ => 9
      end
  | _ => 9
  end.

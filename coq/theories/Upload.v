(* Upload.v — C24: model of multipart upload binding

     src/http/multipart.rs  receive_batch_multipart: the size constraints handed to multer,
                            the loop over the parts (operations / map / files), the binding
                            loop (map.remove(name), per path set_upload, batch paths idx.path),
                            MissingFiles
     src/request.rs         Request::set_upload / variable_path, the marker #__graphql_file__:<n>
     src/types/upload.rs    UploadValue (identified here by the position of the file part)

   multer's framing is not modelled: the model starts from the list of parts
   (kind, size, decoded JSON tree) in body order plus the total body length.
   No proofs in this file. *)
From AG Require Export Http.
From Coq Require String.
Import String.StringSyntax.
Delimit Scope string_scope with string.
Open Scope N_scope.

(* ------------------------------------------------------------------ paths -- *)
Fixpoint split_on (c : N) (s : str) (cur : str) : list str :=
  match s with
  | [] => [rev cur]
  | x :: s' => if x =? c then rev cur :: split_on c s' [] else split_on c s' (x :: cur)
  end.
(* str::split('.') — always at least one segment *)
Definition split_dot (s : str) : list str := split_on 46 s [].

(* str::splitn(2, '.') *)
Fixpoint split_first (s : str) (cur : str) : str * option str :=
  match s with
  | [] => (rev cur, None)
  | x :: s' => if x =? 46 then (rev cur, Some s') else split_first s' (x :: cur)
  end.

Fixpoint strip_prefix (p s : str) : option str :=
  match p, s with
  | [], _ => Some s
  | a :: p', b :: s' => if a =? b then strip_prefix p' s' else None
  | _, [] => None
  end.

(* <unsigned>::from_str: optional '+', at least one ASCII digit, no overflow *)
Fixpoint digits_val (s : str) (acc : N) : option N :=
  match s with
  | [] => Some acc
  | d :: s' => if (48 <=? d) && (d <=? 57) then digits_val s' (acc * 10 + (d - 48)) else None
  end.
Definition parse_uint (max : N) (s : str) : option N :=
  let body := match s with 43 :: s' => s' | _ => s end in
  match body with
  | [] => None
  | _ => match digits_val body 0 with
         | Some n => if n <=? max then Some n else None
         | None => None
         end
  end.
Definition U32_MAX : N := 4294967295.
Definition USIZE_MAX : N := 18446744073709551615.

(* decimal rendering (format!("{}", n)) *)
Fixpoint dec_digits (fuel : nat) (n : N) (acc : str) : str :=
  match fuel with
  | O => acc
  | S f => let acc' := (48 + n mod 10) :: acc in
           if n / 10 =? 0 then acc' else dec_digits f (n / 10) acc'
  end.
Definition dec_of (n : N) : str := dec_digits (S (N.size_nat n)) n [].

Definition MARKER_PREFIX : str := lit "#__graphql_file__:"%string.
Definition marker (n : N) : jv := JStr (MARKER_PREFIX ++ dec_of n).
Definition VARIABLES_DOT : str := lit "variables."%string.

Fixpoint list_upd (i : N) (f : jv -> option jv) (l : list jv) : option (list jv) :=
  match l with
  | [] => None
  | x :: l' =>
      if i =? 0 then option_map (fun y => y :: l') (f x)
      else option_map (fun r => x :: r) (list_upd (i - 1) f l')
  end.

Fixpoint assoc_upd (k : str) (f : jv -> option jv) (m : list (str * jv)) : option (list (str * jv)) :=
  match m with
  | [] => None
  | (k', x) :: m' =>
      if str_eqb k k' then option_map (fun y => (k', y) :: m') (f x)
      else option_map (fun r => (k', x) :: r) (assoc_upd k f m')
  end.

(* variable_path's try_fold, followed by the assignment at the position found *)
Fixpoint upd_path (parts : list str) (mk : jv) (v : jv) : option jv :=
  match parts with
  | [] => Some mk
  | p :: ps =>
      match v with
      | JArr l => match parse_uint U32_MAX p with
                  | Some i => option_map JArr (list_upd i (upd_path ps mk) l)
                  | None => None
                  end
      | JObj m => option_map JObj (assoc_upd p (upd_path ps mk) m)
      | _ => None
      end
  end.

(* a request together with its uploads (file ids in push order) *)
Definition ureq : Type := request * list N.

(* Request::set_upload *)
Definition set_upload (u : ureq) (path : str) (file : N) : ureq :=
  let '(r, ups) := u in
  match strip_prefix VARIABLES_DOT path with
  | None => u
  | Some rest =>
      match split_dot rest with
      | [] => u
      | first :: more =>
          match assoc_upd first (upd_path more (marker (N.of_nat (length ups)))) (r_vars r) with
          | Some vars' =>
              ({| r_query := r_query r; r_op := r_op r; r_vars := vars'; r_exts := r_exts r |}, ups ++ [file])
          | None => u
          end
      end
  end.

Fixpoint nth_upd {A} (i : N) (f : A -> A) (l : list A) : list A :=
  match l with
  | [] => []
  | x :: l' => if i =? 0 then f x :: l' else x :: nth_upd (i - 1) f l'
  end.

(* one path of a map entry *)
Definition bind_path (is_batch : bool) (reqs : list ureq) (path : str) (file : N) : list ureq :=
  if is_batch then
    match split_first path [] with
    | (idx, Some rest) =>
        match parse_uint USIZE_MAX idx with
        | Some i => nth_upd i (fun u => set_upload u rest file) reqs
        | None => reqs
        end
    | (_, None) => reqs
    end
  else
    match reqs with
    | [u] => [set_upload u path file]
    | _ => reqs
    end.

Definition filemap := list (str * list str).

(* HashMap::remove: the entry (JSON duplicates: the last one is the entry) *)
Fixpoint map_get (k : str) (m : filemap) (acc : option (list str)) : option (list str) :=
  match m with
  | [] => acc
  | (k', v) :: m' => map_get k m' (if str_eqb k k' then Some v else acc)
  end.
Definition map_del (k : str) (m : filemap) : filemap := filter (fun kv => negb (str_eqb k (fst kv))) m.

(* the binding loop over the received files, in body order *)
Fixpoint bind_files (is_batch : bool) (files : list (str * N)) (m : filemap) (reqs : list ureq) : filemap * list ureq :=
  match files with
  | [] => (m, reqs)
  | (name, id) :: files' =>
      match map_get name m None with
      | Some paths =>
          bind_files is_batch files' (map_del name m)
                     (fold_left (fun rs p => bind_path is_batch rs p id) paths reqs)
      | None => bind_files is_batch files' m reqs
      end
  end.

(* ------------------------------------------------------------------ parts -- *)
Inductive part :=
| POps (ct : ctype) (size : N) (tree : option jv)   (* name="operations" *)
| PMap (size : N) (tree : option jv)                (* name="map" *)
| PFile (name : str) (id : N) (size : N)            (* any other name, with a file name; id identifies the content *)
| PSkip (size : N).                                 (* no name, or no file name: ignored *)

Record mopts := { max_size : option N; max_files : option N }.

(* the limits handed to multer *)
Definition whole_limit (o : mopts) : option N :=
  match max_size o, max_files o with
  | Some s, Some n => Some (s * n)
  | _, _ => None
  end.
Definition field_limit (o : mopts) : option N := max_size o.

Definition over (limit : option N) (x : N) : bool :=
  match limit with Some l => l <? x | None => false end.

(* serde_json::from_slice::<HashMap<String, Vec<String>>> *)
Fixpoint strings_of (l : list jv) : option (list str) :=
  match l with
  | [] => Some []
  | JStr s :: l' => option_map (cons s) (strings_of l')
  | _ => None
  end.
Fixpoint filemap_of (m : list (str * jv)) : option filemap :=
  match m with
  | [] => Some []
  | (k, JArr l) :: m' =>
      match strings_of l, filemap_of m' with
      | Some ps, Some r => Some ((k, ps) :: r)
      | _, _ => None
      end
  | _ => None
  end.
Definition decode_filemap (t : option jv) : outcome filemap :=
  match t with
  | Some (JObj m) => match filemap_of m with Some fm => Ok fm | None => Err E_INVALID_FILES_MAP end
  | _ => Err E_INVALID_FILES_MAP
  end.

Record pstate := {
  st_req : option batch;
  st_map : option filemap;
  st_files : list (str * N) }.

Definition part_size (p : part) : N :=
  match p with POps _ s _ => s | PMap s _ => s | PFile _ _ s => s | PSkip s => s end.

Fixpoint read_parts (o : mopts) (ps : list part) (st : pstate) : outcome pstate :=
  match ps with
  | [] => Ok st
  | p :: ps' =>
      if over (field_limit o) (part_size p) then Err E_PAYLOAD_TOO_LARGE
      else
        match p with
        | POps ct _ t =>
            bindo (decode_mp_operations req_tab ct t) (fun b =>
              read_parts o ps' {| st_req := Some b; st_map := st_map st; st_files := st_files st |})
        | PMap _ t =>
            bindo (decode_filemap t) (fun m =>
              read_parts o ps' {| st_req := st_req st; st_map := Some m; st_files := st_files st |})
        | PFile name id _ =>
            read_parts o ps' {| st_req := st_req st; st_map := st_map st; st_files := st_files st ++ [(name, id)] |}
        | PSkip _ => read_parts o ps' st
        end
  end.

Definition result : Type := bool * list ureq.  (* is_batch, requests with uploads *)

(* receive_batch_multipart *)
Definition receive_multipart (o : mopts) (body_len : N) (ps : list part) : outcome result :=
  if over (whole_limit o) body_len then Err E_PAYLOAD_TOO_LARGE
  else
    bindo (read_parts o ps {| st_req := None; st_map := None; st_files := [] |}) (fun st =>
      match st_req st with
      | None => Err E_MISSING_OPERATIONS
      | Some b =>
          match st_map st with
          | None => Err E_MISSING_MAP
          | Some m =>
              let is_batch := match b with BBatch _ => true | BSingle _ => false end in
              let reqs := match b with BBatch rs => map (fun r => (r, [])) rs | BSingle r => [(r, [])] end in
              let '(m', reqs') := bind_files is_batch (st_files st) m reqs in
              match m' with
              | [] => Ok (is_batch, reqs')
              | _ => Err E_MISSING_FILES
              end
          end
      end).

(* ------------------------------------------------------------------- spec -- *)
(* reading the value at a path (the protocol's object-path notation) *)
Fixpoint list_get (i : N) (l : list jv) : option jv :=
  match l with
  | [] => None
  | x :: l' => if i =? 0 then Some x else list_get (i - 1) l'
  end.
Fixpoint assoc_get (k : str) (m : list (str * jv)) : option jv :=
  match m with
  | [] => None
  | (k', x) :: m' => if str_eqb k k' then Some x else assoc_get k m'
  end.
Fixpoint get_path (parts : list str) (v : jv) : option jv :=
  match parts with
  | [] => Some v
  | p :: ps =>
      match v with
      | JArr l => match parse_uint U32_MAX p with
                  | Some i => match list_get i l with Some x => get_path ps x | None => None end
                  | None => None
                  end
      | JObj m => match assoc_get p m with Some x => get_path ps x | None => None end
      | _ => None
      end
  end.
(* the value a variable path denotes in a request *)
Definition get_var_path (r : request) (path : str) : option jv :=
  match strip_prefix VARIABLES_DOT path with
  | None => None
  | Some rest => get_path (split_dot rest) (JObj (r_vars r))
  end.

Definition n_files (ps : list part) : N :=
  N.of_nat (length (filter (fun p => match p with PFile _ _ _ => true | _ => false end) ps)).
Definition file_too_big (o : mopts) (ps : list part) : bool :=
  existsb (fun p => match p with PFile _ _ s => over (max_size o) s | _ => false end) ps.
Definition too_many_files (o : mopts) (ps : list part) : bool := over (max_files o) (n_files ps).

(* the (last) map part has an entry that no file part is named after *)
Definition last_map (ps : list part) : option (option jv) :=
  fold_left (fun acc p => match p with PMap _ t => Some t | _ => acc end) ps None.
Definition has_file_named (ps : list part) (k : str) : bool :=
  existsb (fun q => match q with PFile n _ _ => str_eqb n k | _ => false end) ps.
Definition missing_file (ps : list part) : bool :=
  match last_map ps with
  | Some (Some (JObj m)) => existsb (fun kv => negb (has_file_named ps (fst kv))) m
  | _ => false
  end.

(* what the property demands of a result: a body with a file over the size
   limit, with more files than the count limit, or with a map entry without
   file must be rejected; and no body may crash the server *)
Definition must_reject (o : mopts) (ps : list part) : bool :=
  file_too_big o ps || too_many_files o ps || missing_file ps.
Definition spec_ok (o : mopts) (ps : list part) (res : outcome result) : bool :=
  match res with
  | Err _ => true
  | Ok _ => negb (must_reject o ps)
  | _ => false
  end.

(* known class 1: only the file count is over its limit *)
Definition known_class (o : mopts) (ps : list part) : N :=
  if too_many_files o ps && negb (file_too_big o ps) && negb (missing_file ps) then 1 else 0.

Definition ureq_eqb (a b : ureq) : bool :=
  request_eqb (fst a) (fst b) && list_eqb N.eqb (snd a) (snd b).
Definition result_eqb (a b : result) : bool :=
  Bool.eqb (fst a) (fst b) && list_eqb ureq_eqb (snd a) (snd b).

Definition check_case (o : mopts) (body_len : N) (ps : list part) (impl : outcome result) : N :=
  let m := receive_multipart o body_len ps in
  verdict (outcome_eqb result_eqb impl m) (spec_ok o ps m) (spec_ok o ps impl) (known_class o ps).

(* Request::set_upload in isolation *)
Definition check_set (r : request) (paths : list str) (impl : ureq) : N :=
  let m := fold_left (fun u pf => set_upload u (fst pf) (snd pf))
                     (combine paths (map N.of_nat (seq 0 (length paths)))) (r, []) in
  verdict (ureq_eqb impl m) true true 0.

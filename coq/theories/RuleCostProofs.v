(* RuleCostProofs.v — C11: every counter of RuleCost.rule_steps is bounded by
   a polynomial in the document size, for every document.

   Core of every proof: a walk that memoises the nodes it enters costs
   EXACTLY (number of root items) + (sum of the out-degrees of the nodes it
   enters for the first time); the entered nodes form a duplicate-free list,
   and the out-degrees of a duplicate-free list of keys sum to at most the
   number of recorded spreads ([deg_sum_le], [Fsum_le]). *)
From AG Require Import RuleCost.
Open Scope N_scope.

(* [injection] on [Ok (1 + c, V) = Ok (c', V')] would unfold the addition *)
Lemma Ok_pair_inv {A B} (a a' : A) (b b' : B) : @Ok (A * B) (a, b) = Ok (a', b') -> a = a' /\ b = b'.
Proof. intros H. inversion H. split; reflexivity. Qed.
Lemma Ok_inv {A} (a a' : A) : Ok a = Ok a' -> a = a'.
Proof. intros H. inversion H. reflexivity. Qed.
Ltac ok_inj H :=
  first [apply Ok_pair_inv in H; destruct H as [<- <-] | apply Ok_inv in H; destruct H].

(* ------------------------------------------------------------------ sums --- *)
Lemma sumN_nil {A} (f : A -> N) : sumN f [] = 0.
Proof. reflexivity. Qed.

Lemma sumN_cons {A} (f : A -> N) x l : sumN f (x :: l) = f x + sumN f l.
Proof. reflexivity. Qed.

Lemma sumN_app {A} (f : A -> N) l1 l2 : sumN f (l1 ++ l2) = sumN f l1 + sumN f l2.
Proof.
  induction l1 as [|x l1 IH]; [reflexivity|].
  rewrite <- app_comm_cons, !sumN_cons, IH. lia.
Qed.

Lemma sumN_map {A B} (f : B -> N) (g : A -> B) l : sumN f (map g l) = sumN (fun x => f (g x)) l.
Proof.
  induction l as [|x l IH]; [reflexivity|].
  cbn [map]. rewrite !sumN_cons, IH. reflexivity.
Qed.

Lemma sumN_add {A} (f g : A -> N) l : sumN (fun x => f x + g x) l = sumN f l + sumN g l.
Proof.
  induction l as [|x l IH]; [reflexivity|].
  rewrite !sumN_cons, IH. lia.
Qed.

Lemma sumN_le {A} (f g : A -> N) l : (forall x, In x l -> f x <= g x) -> sumN f l <= sumN g l.
Proof.
  induction l as [|x l IH]; intros H; [rewrite !sumN_nil; lia|].
  rewrite !sumN_cons.
  pose proof (H x (or_introl eq_refl)).
  assert (sumN f l <= sumN g l) by (apply IH; intros y Hy; apply H; right; exact Hy).
  lia.
Qed.

Lemma sumN_zero {A} (f : A -> N) l : (forall x, In x l -> f x = 0) -> sumN f l = 0.
Proof.
  induction l as [|x l IH]; intros H; [reflexivity|].
  rewrite sumN_cons, (H x (or_introl eq_refl)), IH; [reflexivity|].
  intros y Hy; apply H; right; exact Hy.
Qed.

Lemma sumN_In_le {A} (f : A -> N) l x : In x l -> f x <= sumN f l.
Proof.
  induction l as [|y l IH]; intros H; [destruct H|].
  rewrite sumN_cons. destruct H as [->|H]; [lia|]. specialize (IH H). lia.
Qed.

Lemma len_nil {A} : len (@nil A) = 0.
Proof. reflexivity. Qed.

(* [rewrite len_nil] would unify [len []] with a literal 0 by conversion *)
Ltac len0 :=
  repeat match goal with
         | |- context [@len ?A (@nil ?A)] => change (@len A (@nil A)) with 0
         | H : context [@len ?A (@nil ?A)] |- _ => change (@len A (@nil A)) with 0 in H
         end.

Lemma len_cons {A} (x : A) l : len (x :: l) = 1 + len l.
Proof. unfold len. cbn [length]. rewrite Nat2N.inj_succ. lia. Qed.

Lemma len_app {A} (l1 l2 : list A) : len (l1 ++ l2) = len l1 + len l2.
Proof. unfold len. rewrite app_length, Nat2N.inj_add. reflexivity. Qed.

Lemma sumN_const_le {A} (f : A -> N) l B : (forall x, In x l -> f x <= B) -> sumN f l <= len l * B.
Proof.
  induction l as [|x l IH]; intros H; [rewrite sumN_nil; lia|].
  rewrite sumN_cons, len_cons.
  pose proof (H x (or_introl eq_refl)).
  assert (sumN f l <= len l * B) by (apply IH; intros y Hy; apply H; right; exact Hy).
  lia.
Qed.

Lemma len_flat_map {A B} (f : A -> list B) l : len (flat_map f l) = sumN (fun x => len (f x)) l.
Proof.
  induction l as [|x l IH]; [reflexivity|].
  cbn [flat_map]. rewrite len_app, sumN_cons, IH. reflexivity.
Qed.

(* at most one element of a duplicate-free list satisfies a test that pins
   its argument down *)
Lemma sum_pick_le {A} (p : A -> bool) (k : A) (w : N) V :
  (forall x, p x = true -> x = k) -> NoDup V ->
  sumN (fun x => if p x then w else 0) V <= w.
Proof.
  intros Hp Hnd. induction Hnd as [|x V Hnot Hnd IH]; [rewrite sumN_nil; lia|].
  rewrite sumN_cons. destruct (p x) eqn:E; [|lia].
  apply Hp in E. subst x.
  rewrite (sumN_zero (fun x => if p x then w else 0) V); [lia|].
  intros y Hy. destruct (p y) eqn:Ey; [|reflexivity].
  apply Hp in Ey. subst y. contradiction.
Qed.

Lemma nodup_app {A} (l1 l2 : list A) :
  NoDup l1 -> NoDup l2 -> (forall x, In x l1 -> ~ In x l2) -> NoDup (l1 ++ l2).
Proof.
  intros H1 H2 Hd. induction H1 as [|x l1 Hnot H1 IH]; [exact H2|].
  rewrite <- app_comm_cons. constructor.
  - intros Hin. apply in_app_or in Hin. destruct Hin as [Hin|Hin]; [contradiction|].
    exact (Hd x (or_introl eq_refl) Hin).
  - apply IH. intros y Hy. apply Hd. right. exact Hy.
Qed.

Lemma nodup_map_inj {A B} (f : A -> B) l :
  (forall x y, f x = f y -> x = y) -> NoDup l -> NoDup (map f l).
Proof.
  intros Hinj Hnd. induction Hnd as [|x l Hnot Hnd IH]; [constructor|].
  cbn [map]. constructor; [|exact IH].
  intros Hin. apply in_map_iff in Hin. destruct Hin as (y & Hy & Hin).
  apply Hinj in Hy. subst y. contradiction.
Qed.

(* --------------------------------------------------------------- scopes --- *)
Lemma option_name_eqb_eq (a b : option name) : option_eqb name_eqb a b = true <-> a = b.
Proof.
  destruct a as [x|], b as [y|]; cbn [option_eqb]; split; intros H;
    try discriminate; try reflexivity.
  - apply name_eqb_eq in H. subst. reflexivity.
  - injection H as ->. apply name_eqb_refl.
Qed.

Lemma scope_eqb_eq a b : scope_eqb a b = true <-> a = b.
Proof.
  destruct a as [x|x], b as [y|y]; cbn [scope_eqb]; split; intros H; try discriminate.
  - apply option_name_eqb_eq in H. subst. reflexivity.
  - injection H as ->. apply option_name_eqb_eq. reflexivity.
  - apply name_eqb_eq in H. subst. reflexivity.
  - injection H as ->. apply name_eqb_refl.
Qed.

Lemma smem_In s l : smem s l = true <-> In s l.
Proof.
  induction l as [|x l IH]; cbn [smem In]; [split; [discriminate|tauto]|].
  destruct (scope_eqb s x) eqn:E.
  - apply scope_eqb_eq in E. subst. tauto.
  - rewrite IH. split; [tauto|]. intros [H|H]; [|exact H].
    subst. assert (scope_eqb s s = true) by (apply scope_eqb_eq; reflexivity). congruence.
Qed.

Lemma omem_In x l : omem x l = true <-> In x l.
Proof.
  induction l as [|y l IH]; cbn [omem In]; [split; [discriminate|tauto]|].
  destruct (option_eqb name_eqb x y) eqn:E.
  - apply option_name_eqb_eq in E. subst. tauto.
  - rewrite IH. split; [tauto|]. intros [H|H]; [|exact H].
    subst. assert (option_eqb name_eqb x x = true) by (apply option_name_eqb_eq; reflexivity). congruence.
Qed.

Lemma dedup_length l : (length (dedup l) <= length l)%nat.
Proof.
  induction l as [|x l IH]; [apply le_n|].
  cbn [dedup]. destruct (omem x l); cbn [length]; lia.
Qed.

Definition isfrag (sc : scope) : Prop := match sc with ScFrag _ => True | ScOp _ => False end.

(* ------------------------------------------ out-degrees of distinct keys --- *)
Lemma lookup_nil sc : lookup [] sc = [].
Proof. reflexivity. Qed.

Lemma lookup_cons e rec sc :
  lookup (e :: rec) sc = (if scope_eqb (fst e) sc then snd e else []) ++ lookup rec sc.
Proof. reflexivity. Qed.

(* number of spreads recorded by the visit *)
Definition rec_total (rec : list (scope * list name)) : N := sumN (fun e => len (snd e)) rec.

Lemma deg_sum_le rec : forall V, NoDup V ->
  sumN (fun sc => len (lookup rec sc)) V <= rec_total rec.
Proof.
  induction rec as [|e rec IH]; intros V Hnd.
  - rewrite sumN_zero; [unfold rec_total; rewrite sumN_nil; lia|]. intros. reflexivity.
  - unfold rec_total. rewrite sumN_cons. cbn beta. fold (rec_total rec).
    assert (E : sumN (fun sc => len (lookup (e :: rec) sc)) V =
                sumN (fun sc => (if scope_eqb (fst e) sc then len (snd e) else 0) + len (lookup rec sc)) V).
    { apply N.le_antisymm; apply sumN_le; intros sc _; rewrite lookup_cons, len_app;
        destruct (scope_eqb (fst e) sc); len0; lia. }
    rewrite E, sumN_add.
    pose proof (sum_pick_le (fun sc => scope_eqb (fst e) sc) (fst e) (len (snd e)) V
                  (fun x Hx => eq_sym (proj1 (scope_eqb_eq _ _) Hx)) Hnd).
    specialize (IH V Hnd). lia.
Qed.

(* ------------------------------------------------- sizes of what is read --- *)
Lemma spreads_sel_le : forall s, len (spreads_sel s) <= nspreads s.
Proof.
  induction s as [al nm args dirs sub IH|nm dirs|c dirs sub IH] using selection_ind'.
  - cbn [spreads_sel nspreads]. destruct (is_typename nm); [len0; lia|].
    induction IH as [|x l Hx _ IHl]; cbn [fold_right]; [len0; lia|].
    rewrite len_app. lia.
  - cbn [spreads_sel nspreads]. rewrite len_cons; len0. lia.
  - cbn [spreads_sel nspreads].
    induction IH as [|x l Hx _ IHl]; cbn [fold_right]; [len0; lia|].
    rewrite len_app. lia.
Qed.

Lemma spreads_list_le l : len (spreads_list l) <= nspreads_list l.
Proof.
  induction l as [|x l IH]; cbn [spreads_list nspreads_list fold_right]; [len0; lia|].
  rewrite len_app. pose proof (spreads_sel_le x). unfold spreads_list, nspreads_list in IH. lia.
Qed.

Lemma nspreads_le_psize : forall s, nspreads s <= psize s.
Proof.
  induction s as [al nm args dirs sub IH|nm dirs|c dirs sub IH] using selection_ind'.
  - cbn [nspreads psize].
    assert (fold_right (fun x acc => nspreads x + acc) 0 sub <= fold_right (fun x acc => psize x + acc) 0 sub).
    { induction IH as [|x l Hx _ IHl]; cbn [fold_right]; lia. }
    lia.
  - cbn [nspreads psize]. lia.
  - cbn [nspreads psize].
    assert (fold_right (fun x acc => nspreads x + acc) 0 sub <= fold_right (fun x acc => psize x + acc) 0 sub).
    { induction IH as [|x l Hx _ IHl]; cbn [fold_right]; lia. }
    lia.
Qed.

Lemma nspreads_list_le_psize l : nspreads_list l <= psize_list l.
Proof.
  induction l as [|x l IH]; cbn [nspreads_list psize_list fold_right]; [lia|].
  pose proof (nspreads_le_psize x). unfold nspreads_list, psize_list in IH. lia.
Qed.

Lemma doc_size_eq d :
  doc_size d = sumN (fun fr => psize_list (fr_sels (snd fr))) (doc_frags d) +
               sumN (fun o => psize_list (op_sels o)) (doc_ops d).
Proof. reflexivity. Qed.

Lemma doc_spreads_le_size d : doc_spreads d <= doc_size d.
Proof.
  rewrite doc_size_eq. unfold doc_spreads.
  assert (sumN (fun fr => nspreads_list (fr_sels (snd fr))) (doc_frags d) <=
          sumN (fun fr => psize_list (fr_sels (snd fr))) (doc_frags d))
    by (apply sumN_le; intros; apply nspreads_list_le_psize).
  assert (sumN (fun o => nspreads_list (op_sels o)) (doc_ops d) <=
          sumN (fun o => psize_list (op_sels o)) (doc_ops d))
    by (apply sumN_le; intros; apply nspreads_list_le_psize).
  lia.
Qed.

Lemma rec_total_le Sch d : rec_total (recorded Sch d) <= doc_spreads d.
Proof.
  unfold rec_total, recorded, doc_spreads. rewrite sumN_app, !sumN_map. cbn [snd].
  assert (sumN (fun fr => len (spreads_list (fr_sels (snd fr)))) (doc_frags d) <=
          sumN (fun fr => nspreads_list (fr_sels (snd fr))) (doc_frags d))
    by (apply sumN_le; intros; apply spreads_list_le).
  assert (sumN (fun o => len (if has_root Sch o then spreads_list (op_sels o) else [])) (doc_ops d) <=
          sumN (fun o => nspreads_list (op_sels o)) (doc_ops d)).
  { apply sumN_le; intros o _. destruct (has_root Sch o); [apply spreads_list_le|len0; lia]. }
  lia.
Qed.

(* ============================================ [2] [3] [4]: memoised walk === *)
Section MemoProofs.
  Variable rec : list (scope * list name).
  Variable mo : bool.

  Definition dsum (V : list scope) : N := sumN (fun sc => len (lookup rec sc)) V.

  Lemma mwalk_O V sc : mwalk rec mo O V sc = OutOfFuel.
  Proof. reflexivity. Qed.
  Lemma mwalk_S n V sc :
    mwalk rec mo (S n) V sc =
    if memoised mo sc && smem sc V then Ok (1, V)
    else bindo (mwalk_list rec mo n (if memoised mo sc then sc :: V else V) (lookup rec sc))
               (fun r => Ok (1 + fst r, snd r)).
  Proof. reflexivity. Qed.
  Lemma mwalk_list_nil n V : mwalk_list rec mo n V [] = Ok (0, V).
  Proof. destruct n; reflexivity. Qed.
  Lemma mwalk_list_O V x r : mwalk_list rec mo O V (x :: r) = OutOfFuel.
  Proof. reflexivity. Qed.
  Lemma mwalk_list_S n V x r :
    mwalk_list rec mo (S n) V (x :: r) =
    bindo (mwalk rec mo n V (ScFrag x)) (fun a =>
    bindo (mwalk_list rec mo n (snd a) r) (fun b => Ok (fst a + fst b, snd b))).
  Proof. reflexivity. Qed.

  (* calls = items + out-degrees of the scopes entered for the first time *)
  Lemma mwalk_exact : forall n,
    (forall V sc c V', memoised mo sc = true -> mwalk rec mo n V sc = Ok (c, V') ->
       c + dsum V = 1 + dsum V' /\ (NoDup V -> NoDup V') /\
       (mo = false -> Forall isfrag V -> Forall isfrag V')) /\
    (forall V l c V', mwalk_list rec mo n V l = Ok (c, V') ->
       c + dsum V = len l + dsum V' /\ (NoDup V -> NoDup V') /\
       (mo = false -> Forall isfrag V -> Forall isfrag V')).
  Proof.
    induction n as [|n [IHw IHl]]; split.
    - intros V sc c V' _ H. rewrite mwalk_O in H. discriminate.
    - intros V l c V' H. destruct l as [|x r].
      + rewrite mwalk_list_nil in H. ok_inj H. len0. repeat split; auto; lia.
      + rewrite mwalk_list_O in H. discriminate.
    - intros V sc c V' Hm H. rewrite mwalk_S, Hm in H. cbn [andb] in H.
      destruct (smem sc V) eqn:Es.
      + ok_inj H. repeat split; auto; lia.
      + destruct (mwalk_list rec mo n (sc :: V) (lookup rec sc)) as [[c1 V1]|k| |] eqn:E;
          cbn [bindo fst snd] in H; try discriminate.
        ok_inj H. cbn [fst snd].
        destruct (IHl _ _ _ _ E) as (He & Hnd & Hf).
        unfold dsum in He |- *. rewrite sumN_cons in He. cbn beta in He.
        split; [lia|]. split.
        * intros HV. apply Hnd. constructor; [|exact HV].
          intros Hin. apply smem_In in Hin. congruence.
        * intros Hmo HF. apply Hf; [exact Hmo|]. constructor; [|exact HF].
          destruct sc as [o|x]; [|exact I]. subst mo. cbn [memoised] in Hm. discriminate.
    - intros V l c V' H. destruct l as [|x r].
      + rewrite mwalk_list_nil in H. ok_inj H. len0. repeat split; auto; lia.
      + rewrite mwalk_list_S in H.
        destruct (mwalk rec mo n V (ScFrag x)) as [[c1 V1]|k| |] eqn:E1; cbn [bindo fst snd] in H; try discriminate.
        cbn [snd fst] in H.
        destruct (mwalk_list rec mo n V1 r) as [[c2 V2]|k| |] eqn:E2; cbn [bindo fst snd] in H; try discriminate.
        ok_inj H. cbn [fst snd].
        destruct (IHw V (ScFrag x) c1 V1 eq_refl E1) as (He1 & Hnd1 & Hf1).
        destruct (IHl _ _ _ _ E2) as (He2 & Hnd2 & Hf2).
        rewrite len_cons. split; [lia|]. split; auto.
  Qed.
End MemoProofs.

(* one root walk of find_undef_vars / find_used_vars *)
Lemma vars_root_bound rec n sc c V' :
  mwalk rec true n [] sc = Ok (c, V') -> c <= 1 + rec_total rec.
Proof.
  intros H.
  assert (Hm : memoised true sc = true) by (destruct sc; reflexivity).
  destruct (proj1 (mwalk_exact rec true n) _ _ _ _ Hm H) as (He & Hnd & _).
  pose proof (deg_sum_le rec V' (Hnd (NoDup_nil _))) as Hd.
  unfold dsum in He. rewrite sumN_nil in He. lia.
Qed.

Lemma sumo_map_bound {A} (f : A -> outcome N) (B : N) : forall l c,
  (forall x c', In x l -> f x = Ok c' -> c' <= B) ->
  sumo (map f l) = Ok c -> c <= len l * B.
Proof.
  induction l as [|x l IH]; intros c Hb H.
  - cbn [map sumo] in H. ok_inj H. lia.
  - cbn [map sumo] in H.
    destruct (f x) as [a|k| |] eqn:E; cbn [bindo fst snd] in H; try discriminate.
    destruct (sumo (map f l)) as [b|k| |] eqn:E2; cbn [bindo fst snd] in H; try discriminate.
    ok_inj H. rewrite len_cons.
    pose proof (Hb x a (or_introl eq_refl) E).
    assert (b <= len l * B) by (apply IH; [intros y c' Hy; apply Hb; right; exact Hy|reflexivity]).
    lia.
Qed.

Lemma c11_vars_steps Sch d n c :
  vars_steps Sch d n = Ok c -> c <= doc_nops d * (1 + doc_spreads d).
Proof.
  unfold vars_steps. intros H.
  apply (sumo_map_bound _ (1 + doc_spreads d)) in H.
  - assert (len (dedup (map op_name (doc_ops d))) <= doc_nops d).
    { unfold len, doc_nops. pose proof (dedup_length (map op_name (doc_ops d))) as L.
      rewrite map_length in L. unfold len. lia. }
    nia.
  - intros nm c' _ Hc.
    destruct (mwalk (recorded Sch d) true n [] (ScOp nm)) as [[c1 V1]|k| |] eqn:E;
      cbn [bindo fst snd] in Hc; try discriminate.
    ok_inj Hc. cbn [fst].
    pose proof (vars_root_bound _ _ _ _ _ E). pose proof (rec_total_le Sch d). lia.
Qed.

(* find_reachable_fragments over all operations, `reachable` shared *)
Lemma unused_ops_exact Sch d n : forall ops V c V',
  unused_ops Sch d n V ops = Ok (c, V') ->
  c + dsum (recorded Sch d) V =
    len ops + sumN (fun o => len (lookup (recorded Sch d) (ScOp (op_name o)))) ops +
    dsum (recorded Sch d) V' /\
  (NoDup V -> NoDup V') /\ (Forall isfrag V -> Forall isfrag V').
Proof.
  induction ops as [|o ops IH]; intros V c V' H.
  - cbn [unused_ops] in H. ok_inj H. len0; rewrite sumN_nil. repeat split; auto; lia.
  - cbn [unused_ops] in H.
    destruct (mwalk (recorded Sch d) false n V (ScOp (op_name o))) as [[c1 V1]|k| |] eqn:E1;
      cbn [bindo fst snd] in H; try discriminate.
    cbn [fst snd] in H.
    destruct (unused_ops Sch d n V1 ops) as [[c2 V2]|k| |] eqn:E2; cbn [bindo fst snd] in H; try discriminate.
    ok_inj H. cbn [fst snd].
    destruct (IH _ _ _ E2) as (He2 & Hnd2 & Hf2).
    destruct n as [|n]; [rewrite mwalk_O in E1; discriminate|].
    rewrite mwalk_S in E1. cbn [memoised andb] in E1.
    destruct (mwalk_list (recorded Sch d) false n V (lookup (recorded Sch d) (ScOp (op_name o))))
      as [[c3 V3]|k| |] eqn:E3; cbn [bindo fst snd] in E1; try discriminate.
    ok_inj E1. cbn [fst snd] in *.
    destruct (proj2 (mwalk_exact (recorded Sch d) false n) _ _ _ _ E3) as (He3 & Hnd3 & Hf3).
    rewrite len_cons, sumN_cons. cbn beta. split; [lia|]. split; auto.
Qed.

Lemma c11_unused_steps Sch d n c :
  unused_steps Sch d n = Ok c -> c <= doc_nops d + (doc_nops d + 1) * doc_spreads d.
Proof.
  unfold unused_steps. intros H.
  destruct (unused_ops Sch d n [] (doc_ops d)) as [[c1 V1]|k| |] eqn:E; cbn [bindo fst snd] in H; try discriminate.
  ok_inj H. cbn [fst].
  destruct (unused_ops_exact _ _ _ _ _ _ _ E) as (He & Hnd & _).
  unfold dsum in He. rewrite sumN_nil in He.
  pose proof (deg_sum_le (recorded Sch d) V1 (Hnd (NoDup_nil _))) as Hd.
  pose proof (rec_total_le Sch d) as Ht.
  assert (Hs : sumN (fun o => len (lookup (recorded Sch d) (ScOp (op_name o)))) (doc_ops d) <=
               len (doc_ops d) * doc_spreads d).
  { apply sumN_const_le. intros o _.
    pose proof (deg_sum_le (recorded Sch d) [ScOp (op_name o)]
                  (NoDup_cons _ (fun F : In _ [] => F) (NoDup_nil _))) as H1.
    rewrite sumN_cons, sumN_nil in H1. cbn beta in H1. lia. }
  unfold doc_nops. nia.
Qed.

(* the linear form, for documents whose operation names are distinct (what
   the parser guarantees: OperationDuplicated / MultipleOperations errors) *)
Lemma c11_unused_steps_linear Sch d n c :
  NoDup (map op_name (doc_ops d)) ->
  unused_steps Sch d n = Ok c -> c <= doc_nops d + doc_spreads d.
Proof.
  unfold unused_steps. intros Hops H.
  destruct (unused_ops Sch d n [] (doc_ops d)) as [[c1 V1]|k| |] eqn:E; cbn [bindo fst snd] in H; try discriminate.
  ok_inj H. cbn [fst].
  destruct (unused_ops_exact _ _ _ _ _ _ _ E) as (He & Hnd & Hf).
  unfold dsum in He. rewrite sumN_nil in He.
  assert (HN : NoDup (map (fun o => ScOp (op_name o)) (doc_ops d) ++ V1)).
  { apply nodup_app.
    - rewrite <- (map_map op_name ScOp). apply nodup_map_inj; [|exact Hops].
      intros x y Hxy. injection Hxy as ->. reflexivity.
    - apply Hnd. constructor.
    - intros sc Hin Hin2. apply in_map_iff in Hin. destruct Hin as (o & <- & _).
      pose proof (proj1 (Forall_forall _ _) (Hf (Forall_nil _)) _ Hin2) as F. exact F. }
  pose proof (deg_sum_le (recorded Sch d) _ HN) as Hd.
  rewrite sumN_app, sumN_map in Hd.
  pose proof (rec_total_le Sch d). unfold doc_nops. lia.
Qed.

(* ===================================================== [1]: cycle detector === *)
Section CycProofs.
  Variable rec : list (scope * list name).

  Definition nsum (V : list name) : N := sumN (fun x => len (lookup rec (ScFrag x))) V.

  Lemma cyc_from_O V P x : cyc_from rec O V P x = OutOfFuel.
  Proof. reflexivity. Qed.
  Lemma cyc_from_S n V P x :
    cyc_from rec (S n) V P x = cyc_loop rec n (x :: V) (x :: P) (lookup rec (ScFrag x)).
  Proof. reflexivity. Qed.
  Lemma cyc_loop_nil n V P : cyc_loop rec n V P [] = Ok (0, V).
  Proof. destruct n; reflexivity. Qed.
  Lemma cyc_loop_O V P y r : cyc_loop rec O V P (y :: r) = OutOfFuel.
  Proof. reflexivity. Qed.
  Lemma cyc_loop_S n V P y r :
    cyc_loop rec (S n) V P (y :: r) =
    bindo (if mem y P then Ok (0, V) else if mem y V then Ok (0, V) else cyc_from rec n V P y) (fun a =>
    bindo (cyc_loop rec n (snd a) P r) (fun b => Ok (1 + fst a + fst b, snd b))).
  Proof. reflexivity. Qed.

  (* iterations = items + out-degrees of the fragments entered *)
  Lemma cyc_exact : forall n,
    (forall V P x c V', ~ In x V -> NoDup V -> cyc_from rec n V P x = Ok (c, V') ->
       c + nsum V = nsum V' /\ NoDup V') /\
    (forall V P l c V', NoDup V -> cyc_loop rec n V P l = Ok (c, V') ->
       c + nsum V = len l + nsum V' /\ NoDup V').
  Proof.
    induction n as [|n [IHf IHl]]; split.
    - intros V P x c V' _ _ H. rewrite cyc_from_O in H. discriminate.
    - intros V P l c V' Hnd H. destruct l as [|y r].
      + rewrite cyc_loop_nil in H. ok_inj H. len0. split; [lia|exact Hnd].
      + rewrite cyc_loop_O in H. discriminate.
    - intros V P x c V' Hnot Hnd H. rewrite cyc_from_S in H.
      destruct (IHl _ _ _ _ _ (NoDup_cons _ Hnot Hnd) H) as (He & Hnd').
      unfold nsum in He |- *. rewrite sumN_cons in He. cbn beta in He. split; [lia|exact Hnd'].
    - intros V P l c V' Hnd H. destruct l as [|y r].
      + rewrite cyc_loop_nil in H. ok_inj H. len0. split; [lia|exact Hnd].
      + rewrite cyc_loop_S in H.
        assert (Ha : forall a, (if mem y P then Ok (0, V) else if mem y V then Ok (0, V)
                                else cyc_from rec n V P y) = Ok a ->
                               fst a + nsum V = nsum (snd a) /\ NoDup (snd a)).
        { intros [c1 V1] Ha. cbn [fst snd].
          destruct (mem y P); [ok_inj Ha; split; [lia|exact Hnd]|].
          destruct (mem y V) eqn:Ey; [ok_inj Ha; split; [lia|exact Hnd]|].
          apply (IHf V P y); [|exact Hnd|exact Ha].
          intros Hin. apply mem_In in Hin. congruence. }
        destruct (if mem y P then Ok (0, V) else if mem y V then Ok (0, V) else cyc_from rec n V P y)
          as [[c1 V1]|k| |] eqn:E1; cbn [bindo fst snd] in H; try discriminate.
        destruct (Ha _ eq_refl) as (He1 & Hnd1). cbn [fst snd] in He1, Hnd1, H.
        destruct (cyc_loop rec n V1 P r) as [[c2 V2]|k| |] eqn:E2; cbn [bindo fst snd] in H; try discriminate.
        ok_inj H. cbn [fst snd].
        destruct (IHl _ _ _ _ _ Hnd1 E2) as (He2 & Hnd2).
        rewrite len_cons. split; [lia|exact Hnd2].
  Qed.

  Lemma cyc_top_exact n : forall order V c V', NoDup V ->
    cyc_top rec n V order = Ok (c, V') -> c + nsum V = nsum V' /\ NoDup V'.
  Proof.
    induction order as [|f r IH]; intros V c V' Hnd H.
    - cbn [cyc_top] in H. ok_inj H. split; [lia|exact Hnd].
    - cbn [cyc_top] in H.
      assert (Ha : forall a, (if mem f V then Ok (0, V) else cyc_from rec n V [] f) = Ok a ->
                             fst a + nsum V = nsum (snd a) /\ NoDup (snd a)).
      { intros [c1 V1] Ha. cbn [fst snd].
        destruct (mem f V) eqn:Ef; [ok_inj Ha; split; [lia|exact Hnd]|].
        apply (proj1 (cyc_exact n) V [] f); [|exact Hnd|exact Ha].
        intros Hin. apply mem_In in Hin. congruence. }
      destruct (if mem f V then Ok (0, V) else cyc_from rec n V [] f) as [[c1 V1]|k| |] eqn:E1;
        cbn [bindo fst snd] in H; try discriminate.
      destruct (Ha _ eq_refl) as (He1 & Hnd1). cbn [fst snd] in He1, Hnd1, H.
      destruct (cyc_top rec n V1 r) as [[c2 V2]|k| |] eqn:E2; cbn [bindo fst snd] in H; try discriminate.
      ok_inj H. cbn [fst snd].
      destruct (IH _ _ _ Hnd1 E2) as (He2 & Hnd2). split; [lia|exact Hnd2].
  Qed.
End CycProofs.

Lemma c11_cycle_steps Sch d n c :
  cycle_steps Sch d n = Ok c -> c <= doc_spreads d.
Proof.
  unfold cycle_steps. intros H.
  destruct (cyc_top (recorded Sch d) n [] (map fst (doc_frags d))) as [[c1 V1]|k| |] eqn:E;
    cbn [bindo fst snd] in H; try discriminate.
  ok_inj H. cbn [fst].
  destruct (cyc_top_exact _ _ _ _ _ _ (NoDup_nil _) E) as (He & Hnd).
  unfold nsum in He. rewrite sumN_nil in He.
  assert (HN : NoDup (map ScFrag V1)).
  { apply nodup_map_inj; [|exact Hnd]. intros x y Hxy. injection Hxy as ->. reflexivity. }
  pose proof (deg_sum_le (recorded Sch d) _ HN) as Hd. rewrite sumN_map in Hd.
  pose proof (rec_total_le Sch d). lia.
Qed.

(* ================================================= [0]: FindConflicts::find === *)
(* items that one `find` iterates inside a set without entering a fragment:
   the set's items and, recursively, those of its inline fragments *)
Fixpoint flat_sel (s : selection) : N :=
  match s with
  | SField _ _ _ _ _ => 1
  | SSpread _ _ => 1
  | SInline _ _ sub => 1 + fold_right (fun x acc => flat_sel x + acc) 0 sub
  end.
Definition flat_list (l : list selection) : N := fold_right (fun x acc => flat_sel x + acc) 0 l.

Lemma flat_list_cons x l : flat_list (x :: l) = flat_sel x + flat_list l.
Proof. reflexivity. Qed.

Lemma flat_le_psize : forall s, flat_sel s <= psize s.
Proof.
  induction s as [al nm args dirs sub IH|nm dirs|c dirs sub IH] using selection_ind'.
  - cbn [flat_sel psize]. lia.
  - cbn [flat_sel psize]. lia.
  - cbn [flat_sel psize].
    assert (fold_right (fun x acc => flat_sel x + acc) 0 sub <= fold_right (fun x acc => psize x + acc) 0 sub).
    { induction IH as [|x l Hx _ IHl]; cbn [fold_right]; lia. }
    lia.
Qed.

Lemma flat_list_le_psize l : flat_list l <= psize_list l.
Proof.
  induction l as [|x l IH]; cbn [flat_list psize_list fold_right]; [lia|].
  pose proof (flat_le_psize x). unfold flat_list, psize_list in IH. lia.
Qed.

Section FindProofs.
  Variable frags : list (name * fragment).

  Definition fcost (nm : name) : N :=
    match assoc nm frags with Some fr => flat_list (fr_sels fr) | None => 0 end.
  Definition Fsum (V : list name) : N := sumN fcost V.

  Lemma find_sel_O V s : find_sel frags O V s = OutOfFuel.
  Proof. reflexivity. Qed.
  Lemma find_sel_S n V s :
    find_sel frags (S n) V s =
    match s with
    | SField _ _ _ _ _ => Ok (1, V)
    | SInline _ _ sub => bindo (find_list frags n V sub) (fun r => Ok (1 + fst r, snd r))
    | SSpread nm _ =>
        match assoc nm frags with
        | Some fr =>
            if mem nm V then Ok (1, V)
            else bindo (find_list frags n (nm :: V) (fr_sels fr)) (fun r => Ok (1 + fst r, snd r))
        | None => Ok (1, V)
        end
    end.
  Proof. reflexivity. Qed.
  Lemma find_list_nil n V : find_list frags n V [] = Ok (0, V).
  Proof. destruct n; reflexivity. Qed.
  Lemma find_list_O V x r : find_list frags O V (x :: r) = OutOfFuel.
  Proof. reflexivity. Qed.
  Lemma find_list_S n V x r :
    find_list frags (S n) V (x :: r) =
    bindo (find_sel frags n V x) (fun a =>
    bindo (find_list frags n (snd a) r) (fun b => Ok (fst a + fst b, snd b))).
  Proof. reflexivity. Qed.

  (* iterations = flat items of the set + flat items of the fragments entered *)
  Lemma find_exact : forall n,
    (forall V s c V', NoDup V -> find_sel frags n V s = Ok (c, V') ->
       c + Fsum V = flat_sel s + Fsum V' /\ NoDup V') /\
    (forall V l c V', NoDup V -> find_list frags n V l = Ok (c, V') ->
       c + Fsum V = flat_list l + Fsum V' /\ NoDup V').
  Proof.
    induction n as [|n [IHs IHl]]; split.
    - intros V s c V' _ H. rewrite find_sel_O in H. discriminate.
    - intros V l c V' Hnd H. destruct l as [|x r].
      + rewrite find_list_nil in H. ok_inj H. cbn [flat_list fold_right]. split; [lia|exact Hnd].
      + rewrite find_list_O in H. discriminate.
    - intros V s c V' Hnd H. rewrite find_sel_S in H.
      destruct s as [al nm args dirs sub|nm dirs|cnd dirs sub].
      + ok_inj H. cbn [flat_sel]. split; [lia|exact Hnd].
      + cbn [flat_sel].
        destruct (assoc nm frags) as [fr|] eqn:Ea.
        * destruct (mem nm V) eqn:Em.
          -- ok_inj H. split; [lia|exact Hnd].
          -- destruct (find_list frags n (nm :: V) (fr_sels fr)) as [[c1 V1]|k| |] eqn:E;
               cbn [bindo fst snd] in H; try discriminate.
             ok_inj H. cbn [fst snd].
             assert (Hnd1 : NoDup (nm :: V)).
             { constructor; [|exact Hnd]. intros Hin. apply mem_In in Hin. congruence. }
             destruct (IHl _ _ _ _ Hnd1 E) as (He & Hnd').
             unfold Fsum in He |- *. rewrite sumN_cons in He. unfold fcost at 1 in He. rewrite Ea in He.
             split; [lia|exact Hnd'].
        * ok_inj H. split; [lia|exact Hnd].
      + destruct (find_list frags n V sub) as [[c1 V1]|k| |] eqn:E; cbn [bindo fst snd] in H; try discriminate.
        ok_inj H. cbn [fst snd].
        destruct (IHl _ _ _ _ Hnd E) as (He & Hnd').
        cbn [flat_sel]. fold (flat_list sub). split; [lia|exact Hnd'].
    - intros V l c V' Hnd H. destruct l as [|x r].
      + rewrite find_list_nil in H. ok_inj H. cbn [flat_list fold_right]. split; [lia|exact Hnd].
      + rewrite find_list_S in H.
        destruct (find_sel frags n V x) as [[c1 V1]|k| |] eqn:E1; cbn [bindo fst snd] in H; try discriminate.
        cbn [fst snd] in H.
        destruct (find_list frags n V1 r) as [[c2 V2]|k| |] eqn:E2; cbn [bindo fst snd] in H; try discriminate.
        ok_inj H. cbn [fst snd].
        destruct (IHs _ _ _ _ Hnd E1) as (He1 & Hnd1).
        destruct (IHl _ _ _ _ Hnd1 E2) as (He2 & Hnd2).
        rewrite flat_list_cons. split; [lia|exact Hnd2].
  Qed.
End FindProofs.

Lemma Fsum_le : forall frags V, NoDup V ->
  Fsum frags V <= sumN (fun fr => flat_list (fr_sels (snd fr))) frags.
Proof.
  induction frags as [|[k fr] frags IH]; intros V Hnd.
  - unfold Fsum. rewrite sumN_zero; [rewrite sumN_nil; lia|]. intros. reflexivity.
  - rewrite sumN_cons. cbn [snd].
    assert (E : Fsum ((k, fr) :: frags) V <=
                sumN (fun nm => (if name_eqb nm k then flat_list (fr_sels fr) else 0) + fcost frags nm) V).
    { unfold Fsum. apply sumN_le. intros nm _. unfold fcost. cbn [assoc].
      destruct (name_eqb nm k); lia. }
    rewrite sumN_add in E.
    pose proof (sum_pick_le (fun nm => name_eqb nm k) k (flat_list (fr_sels fr)) V
                  (fun x Hx => proj1 (name_eqb_eq _ _) Hx) Hnd).
    specialize (IH V Hnd). unfold Fsum in IH. lia.
Qed.

(* the entered sets are parts of the document *)
Lemma wrap_set_In l s : In s (wrap_set l) -> s = l.
Proof. destruct l; cbn [wrap_set In]; [tauto|]. intros [H|[]]. symmetry. exact H. Qed.

Lemma len_wrap_set l : len (wrap_set l) <= len l.
Proof. destruct l; cbn [wrap_set]; rewrite ?len_cons; len0; lia. Qed.

Lemma psize_list_cons x l : psize_list (x :: l) = psize x + psize_list l.
Proof. reflexivity. Qed.

Lemma sets_fold_In (sub : list selection) s :
  Forall (fun x => forall s, In s (sel_sets x) -> psize_list s <= psize x) sub ->
  In s (fold_right (fun x acc => sel_sets x ++ acc) [] sub) -> psize_list s <= psize_list sub.
Proof.
  induction 1 as [|x l Hx _ IHl]; cbn [fold_right]; [intros []|].
  intros Hin. apply in_app_or in Hin. rewrite psize_list_cons.
  destruct Hin as [Hin|Hin]; [specialize (Hx _ Hin)|specialize (IHl Hin)]; lia.
Qed.

Lemma sel_sets_le : forall x s, In s (sel_sets x) -> psize_list s <= psize x.
Proof.
  induction x as [al nm args dirs sub IH|nm dirs|c dirs sub IH] using selection_ind'; intros s Hin.
  - cbn [sel_sets] in Hin. destruct (is_typename nm); [destruct Hin|].
    apply in_app_or in Hin. cbn [psize]. fold (psize_list sub).
    destruct Hin as [Hin|Hin].
    + apply wrap_set_In in Hin. subst. lia.
    + pose proof (sets_fold_In sub s IH Hin). lia.
  - destruct Hin.
  - cbn [sel_sets] in Hin. apply in_app_or in Hin. cbn [psize]. fold (psize_list sub).
    destruct Hin as [Hin|Hin].
    + apply wrap_set_In in Hin. subst. lia.
    + pose proof (sets_fold_In sub s IH Hin). lia.
Qed.

Lemma top_sets_le l s : In s (top_sets l) -> psize_list s <= psize_list l.
Proof.
  unfold top_sets. intros Hin. apply in_app_or in Hin. destruct Hin as [Hin|Hin].
  - apply wrap_set_In in Hin. subst. lia.
  - apply sets_fold_In; [|exact Hin]. apply Forall_forall. intros x _. apply sel_sets_le.
Qed.

Lemma sets_fold_len (sub : list selection) :
  Forall (fun x => len (sel_sets x) + 1 <= psize x) sub ->
  len (fold_right (fun x acc => sel_sets x ++ acc) [] sub) + len sub <= psize_list sub.
Proof.
  induction 1 as [|x l Hx _ IHl]; cbn [fold_right]; [cbn; lia|].
  rewrite len_app, len_cons, psize_list_cons. lia.
Qed.

Lemma sel_sets_len : forall x, len (sel_sets x) + 1 <= psize x.
Proof.
  induction x as [al nm args dirs sub IH|nm dirs|c dirs sub IH] using selection_ind'.
  - cbn [sel_sets psize]. fold (psize_list sub). destruct (is_typename nm); [len0; lia|].
    rewrite len_app. pose proof (sets_fold_len sub IH). pose proof (len_wrap_set sub). lia.
  - cbn [sel_sets psize]. len0. lia.
  - cbn [sel_sets psize]. fold (psize_list sub).
    rewrite len_app. pose proof (sets_fold_len sub IH). pose proof (len_wrap_set sub). lia.
Qed.

Lemma top_sets_len l : len (top_sets l) <= psize_list l.
Proof.
  unfold top_sets. rewrite len_app.
  assert (H : Forall (fun x => len (sel_sets x) + 1 <= psize x) l)
    by (apply Forall_forall; intros x _; apply sel_sets_len).
  pose proof (sets_fold_len l H). pose proof (len_wrap_set l). lia.
Qed.

Lemma doc_nsets_le_size Sch d : doc_nsets Sch d <= doc_size d.
Proof.
  unfold doc_nsets, all_sets. rewrite len_app, !len_flat_map, doc_size_eq.
  assert (sumN (fun fr => len (top_sets (fr_sels (snd fr)))) (doc_frags d) <=
          sumN (fun fr => psize_list (fr_sels (snd fr))) (doc_frags d))
    by (apply sumN_le; intros; apply top_sets_len).
  assert (sumN (fun o => len (if has_root Sch o then top_sets (op_sels o) else [])) (doc_ops d) <=
          sumN (fun o => psize_list (op_sels o)) (doc_ops d)).
  { apply sumN_le; intros o _. destruct (has_root Sch o); [apply top_sets_len|len0; lia]. }
  lia.
Qed.

Lemma all_sets_le Sch d s : In s (all_sets Sch d) -> psize_list s <= doc_size d.
Proof.
  unfold all_sets. intros Hin. rewrite doc_size_eq. apply in_app_or in Hin. destruct Hin as [Hin|Hin].
  - apply in_flat_map in Hin. destruct Hin as (fr & Hfr & Hin).
    apply top_sets_le in Hin.
    pose proof (sumN_In_le (fun fr => psize_list (fr_sels (snd fr))) _ _ Hfr) as H1. cbn beta in H1. lia.
  - apply in_flat_map in Hin. destruct Hin as (o & Ho & Hin).
    destruct (has_root Sch o); [|destruct Hin].
    apply top_sets_le in Hin.
    pose proof (sumN_In_le (fun o => psize_list (op_sels o)) _ _ Ho) as H1. cbn beta in H1. lia.
Qed.

(* one top-level find costs at most the set itself plus every fragment body *)
Lemma find_top_bound d n s c V' :
  find_list (doc_frags d) n [] s = Ok (c, V') ->
  c <= psize_list s + sumN (fun fr => psize_list (fr_sels (snd fr))) (doc_frags d).
Proof.
  intros H.
  destruct (proj2 (find_exact (doc_frags d) n) _ _ _ _ (NoDup_nil _) H) as (He & Hnd).
  unfold Fsum at 1 in He. rewrite sumN_nil in He.
  pose proof (Fsum_le (doc_frags d) V' Hnd) as HF.
  pose proof (flat_list_le_psize s).
  assert (sumN (fun fr => flat_list (fr_sels (snd fr))) (doc_frags d) <=
          sumN (fun fr => psize_list (fr_sels (snd fr))) (doc_frags d))
    by (apply sumN_le; intros; apply flat_list_le_psize).
  lia.
Qed.

Lemma c11_overlap_steps Sch d n c :
  overlap_steps Sch d n = Ok c ->
  c <= doc_nsets Sch d * (2 * doc_size d) /\ doc_nsets Sch d <= doc_size d /\
  c <= 2 * doc_size d * doc_size d.
Proof.
  unfold overlap_steps. intros H.
  apply (sumo_map_bound _ (2 * doc_size d)) in H.
  - fold (doc_nsets Sch d) in H. pose proof (doc_nsets_le_size Sch d). repeat split; try assumption. nia.
  - intros s c' Hin Hc.
    destruct (find_list (doc_frags d) n [] s) as [[c1 V1]|k| |] eqn:E; cbn [bindo fst snd] in Hc; try discriminate.
    ok_inj Hc. cbn [fst].
    pose proof (find_top_bound _ _ _ _ _ E). pose proof (all_sets_le _ _ _ Hin).
    rewrite doc_size_eq in *. lia.
Qed.

(* ============================================================ all counters === *)
Lemma c11_rule_steps_within Sch d n m :
  rule_steps Sch d n = Ok m -> within m (rule_bounds d) = true.
Proof.
  unfold rule_steps. intros H.
  destruct (overlap_steps Sch d n) as [a|k| |] eqn:Ea; cbn [bindo fst snd] in H; try discriminate.
  destruct (cycle_steps Sch d n) as [b|k| |] eqn:Eb; cbn [bindo fst snd] in H; try discriminate.
  destruct (vars_steps Sch d n) as [c|k| |] eqn:Ec; cbn [bindo fst snd] in H; try discriminate.
  destruct (unused_steps Sch d n) as [e|k| |] eqn:Ee; cbn [bindo fst snd] in H; try discriminate.
  ok_inj H.
  destruct (c11_overlap_steps _ _ _ _ Ea) as (_ & _ & Ha).
  pose proof (c11_cycle_steps _ _ _ _ Eb) as Hb.
  pose proof (c11_vars_steps _ _ _ _ Ec) as Hc.
  pose proof (c11_unused_steps _ _ _ _ Ee) as He.
  pose proof (doc_spreads_le_size d) as Hs.
  unfold within, rule_bounds. cbn [forallb2].
  rewrite !andb_true_iff, !N.leb_le. repeat split; nia.
Qed.

(* the verdict function never reports a gap between model and bound: whenever
   it compares against a model value, that value is within the bounds *)
Lemma zeros_within d : within zeros (rule_bounds d) = true.
Proof.
  unfold within, zeros, rule_bounds. cbn [forallb2].
  rewrite !andb_true_iff, !N.leb_le. repeat split; lia.
Qed.

Lemma c11_check_sound Sch d nl nr lim fast steps :
  check_c11r Sch d nl nr lim fast steps = 0 ->
  within steps (rule_bounds d) = true.
Proof.
  unfold check_c11r.
  assert (J : forall m, within m (rule_bounds d) = true ->
            verdict (list_eqb N.eqb steps m) (within m (rule_bounds d)) (within steps (rule_bounds d)) 0 = 0 ->
            within steps (rule_bounds d) = true).
  { intros m Hm. rewrite Hm. unfold verdict.
    destruct (list_eqb N.eqb steps m) eqn:E.
    - intros _. revert m E Hm. unfold list_eqb, within.
      generalize (rule_bounds d) as bs. induction steps as [|x xs IH]; intros bs m E Hm.
      + destruct m; [exact Hm|discriminate].
      + destruct m as [|y ys]; [discriminate|]. cbn [forallb2] in E. apply andb_true_iff in E.
        destruct E as [E1 E2]. apply N.eqb_eq in E1. subst y.
        destruct bs as [|b bs]; [discriminate|]. cbn [forallb2] in Hm |- *.
        apply andb_true_iff in Hm. destruct Hm as [H1 H2]. rewrite H1. cbn [andb].
        exact (IH bs ys E2 H2).
    - destruct (within steps (rule_bounds d)); [intros _; reflexivity|].
      cbn. discriminate. }
  destruct (i_rec d nl lim) as [r|k| |]; try discriminate.
  destruct (snd r); [apply J, zeros_within|].
  destruct (i_dirwalk d nl lim) as [dw|k| |]; try discriminate.
  destruct (snd dw); [apply J, zeros_within|].
  destruct fast; [apply J, zeros_within|].
  destruct (rule_steps Sch d nr) as [m|k| |] eqn:E; try discriminate.
  apply J. exact (c11_rule_steps_within _ _ _ _ E).
Qed.

(* ---------------------------------------------------------- non-vacuity ---- *)
(* { x }  with the UNUSED chain  F3 {...F2 ...F2}  F2 {...F1 ...F1}
   F1 {...F0 ...F0}  F0 { x }  (fan_table of LimitsProofs): every counter is
   small, in particular `find` enters each fragment once per top-level call *)
Definition chain_doc (L : nat) : document :=
  {| doc_ops := [{| op_name := None; op_ty := OpQuery; op_vars := []; op_dirs := [];
                    op_sels := [SField None 100 [] [] []] |}];
     doc_frags :=
       map (fun k => (N.of_nat k,
                      {| fr_cond := 10; fr_dirs := [];
                         fr_sels := match k with
                                    | O => [SField None 100 [] [] []]
                                    | S j => [SSpread (N.of_nat j) []; SSpread (N.of_nat j) []]
                                    end |})) (seq 0 (S L)) |}.
Definition chain_schema : schema :=
  {| s_types := []; s_query := 10; s_mutation := None; s_subscription := None |}.

Lemma c11_chain_nonvacuous :
  doc_size (chain_doc 3) = 8 /\
  rule_steps chain_schema (chain_doc 3) (rule_fuel (chain_doc 3)) = Ok [17; 6; 1; 1; 1] /\
  doc_size (chain_doc 14) = 30 /\
  rule_steps chain_schema (chain_doc 14) (rule_fuel (chain_doc 14)) = Ok [226; 28; 1; 1; 1] /\
  rule_bounds (chain_doc 14) = [1800; 30; 31; 31; 61] /\
  2 ^ 14 > 1800.
Proof. repeat split; vm_compute; reflexivity. Qed.

(* ParserCheck.v — (1) the specification side of C13, written from the GraphQL
   specification (October 2021, sections 2.1 Source Text / 2.9 Input Values /
   2.11 Type References) independently of the code: a lexer (longest-match
   tokens with the lookahead restrictions of the lexical grammar), the
   StringValue / BlockStringValue semantics, a parser for Type and Value over
   tokens, and printers; (2) the per-case verdict functions used by the
   correspondence run.  Executable, no proofs. *)
From AG Require Export ParserModel.
Open Scope N_scope.

(* =============================== SPEC ================================== *)
Definition is_digit (c : N) : bool := (48 <=? c) && (c <=? 57).
Definition is_letter (c : N) : bool := ((65 <=? c) && (c <=? 90)) || ((97 <=? c) && (c <=? 122)).
Definition is_name_start (c : N) : bool := is_letter c || (c =? 95).
Definition is_name_cont (c : N) : bool := is_name_start c || is_digit c.
(* Ignored: UnicodeBOM, WhiteSpace (tab, space), LineTerminator, Comma (comments handled by the lexer) *)
Definition is_ignored_char (c : N) : bool :=
  (c =? 65279) || (c =? 9) || (c =? 32) || (c =? 10) || (c =? 13) || (c =? 44).
Definition is_line_term (c : N) : bool := (c =? 10) || (c =? 13).

(* ---- StringValue semantics (2.9.4): the content between the quotes ---- *)
Definition spec_escaped (c : N) : option N :=
  if c =? 34 then Some 34 else if c =? 92 then Some 92 else if c =? 47 then Some 47
  else if c =? 98 then Some 8 else if c =? 102 then Some 12 else if c =? 110 then Some 10
  else if c =? 114 then Some 13 else if c =? 116 then Some 9 else None.

Definition spec_hex (c : N) : option N :=
  if is_digit c then Some (c - 48)
  else if (65 <=? c) && (c <=? 70) then Some (c - 65 + 10)
  else if (97 <=? c) && (c <=? 102) then Some (c - 97 + 10)
  else None.

Definition is_surrogate (n : N) : bool := (55296 <=? n) && (n <=? 57343).

(* None = not a StringCharacter sequence (or, documented deviation, an escape
   that is not a Unicode scalar value) *)
Fixpoint spec_string (s : str) : option str :=
  match s with
  | [] => Some []
  | c :: r =>
    if c =? 92 then
      match r with
      | 117 :: a :: b :: c2 :: d :: r' =>
        match spec_hex a, spec_hex b, spec_hex c2, spec_hex d with
        | Some x1, Some x2, Some x3, Some x4 =>
          let n := x1 * 4096 + x2 * 256 + x3 * 16 + x4 in
          if is_surrogate n then None else option_map (cons n) (spec_string r')
        | _, _, _, _ => None
        end
      | e :: r' => match spec_escaped e with
                   | Some ch => option_map (cons ch) (spec_string r')
                   | None => None
                   end
      | [] => None
      end
    else if (c =? 34) || is_line_term c then None
    else option_map (cons c) (spec_string r)
  end.

(* a printer of string contents: every character in a form the lexical
   grammar allows ([mode c] picks among the allowed forms) *)
Definition hexchar (upper : bool) (d : N) : N :=
  if d <? 10 then 48 + d else (if upper then 55 else 87) + d.
Definition u_escape (upper : bool) (c : N) : str :=
  [92; 117; hexchar upper (c / 4096); hexchar upper ((c / 256) mod 16);
   hexchar upper ((c / 16) mod 16); hexchar upper (c mod 16)].
Definition short_escape (c : N) : option N :=
  if c =? 34 then Some 34 else if c =? 92 then Some 92 else if c =? 8 then Some 98
  else if c =? 12 then Some 102 else if c =? 10 then Some 110 else if c =? 13 then Some 114
  else if c =? 9 then Some 116 else None.
(* mode: 0 = shortest, 1 = \u lower-case where possible, 2 = \u upper-case where possible,
   3 = "\/" for the solidus *)
Definition escape_char (mode : N) (c : N) : str :=
  let bmp := (c <? 65536) && negb (is_surrogate c) in
  if (mode =? 1) && bmp then u_escape false c
  else if (mode =? 2) && bmp then u_escape true c
  else if (mode =? 3) && (c =? 47) then [92; 47]
  else match short_escape c with
       | Some e => [92; e]
       | None => [c]
       end.
Fixpoint escape_spec (mode : N -> N) (i : N) (s : str) : str :=
  match s with
  | [] => []
  | c :: r => escape_char (mode i) c ++ escape_spec mode (i + 1) r
  end.

(* ---- BlockStringValue (2.9.4) ---- *)
Fixpoint unescape_block (s : str) : str :=
  match s with
  | 92 :: 34 :: 34 :: 34 :: r => 34 :: 34 :: 34 :: unescape_block r
  | c :: r => c :: unescape_block r
  | [] => []
  end.

(* "Let lines be the result of splitting rawValue by LineTerminator" *)
Fixpoint spec_split (s : str) : list str :=
  match s with
  | [] => [[]]
  | c :: r =>
    let rest := spec_split r in
    if c =? 13 then
      match r with
      | 10 :: _ => match rest with [] :: tl' => [] :: tl' | _ => [] :: rest end  (* CR LF is one terminator *)
      | _ => [] :: rest
      end
    else if c =? 10 then [] :: rest
    else match rest with
         | l :: ls => (c :: l) :: ls
         | [] => [[c]]
         end
  end.

Definition is_ws (c : N) : bool := (c =? 9) || (c =? 32).
Fixpoint leading_ws (l : str) : nat :=
  match l with c :: r => if is_ws c then S (leading_ws r) else 0%nat | [] => 0%nat end.
Definition only_ws (l : str) : bool := forallb is_ws l.

Definition spec_common_indent (lines : list str) : option nat :=
  fold_left (fun acc l =>
               let ind := leading_ws l in
               if (ind <? length l)%nat then
                 match acc with
                 | None => Some ind
                 | Some k => if (ind <? k)%nat then Some ind else acc
                 end
               else acc) (tl lines) None.

Fixpoint drop_while {A} (p : A -> bool) (l : list A) : list A :=
  match l with x :: r => if p x then drop_while p r else l | [] => [] end.

Fixpoint spec_join (ls : list str) : str :=
  match ls with
  | [] => []
  | l :: r => l ++ flat_map (fun x => 10 :: x) r
  end.

Definition spec_block_value (raw : str) : str :=
  let lines := spec_split raw in
  let lines := match spec_common_indent lines with
               | Some k => match lines with
                           | l :: r => l :: map (skipn k) r
                           | [] => []
                           end
               | None => lines
               end in
  let lines := drop_while only_ws lines in
  let lines := rev (drop_while only_ws (rev lines)) in
  spec_join lines.

Definition spec_block (part : str) : str := spec_block_value (unescape_block part).

(* ---- lexer (2.1): tokens with longest match and lookahead restrictions ---- *)
Inductive token :=
| TPunct (c : N)            (* ! $ & ( ) : = @ [ ] { | }   and 46 for "..." *)
| TName (s : str)
| TInt (lexeme : str)
| TFloat (lexeme : str)
| TString (v : str).

Fixpoint take_while (p : N -> bool) (s : str) : str * str :=
  match s with
  | c :: r => if p c then let '(a, b) := take_while p r in (c :: a, b) else ([], s)
  | [] => ([], [])
  end.

Definition is_punct (c : N) : bool :=
  existsb (N.eqb c) [33; 36; 38; 40; 41; 58; 61; 64; 91; 93; 123; 124; 125].

(* string literal starting after the opening quote: content up to the closing quote *)
Fixpoint lex_string_body (s : str) : option (str * str) :=
  match s with
  | [] => None
  | 34 :: r => Some ([], r)
  | 92 :: c :: r => option_map (fun p => (92 :: c :: fst p, snd p)) (lex_string_body r)
  | c :: r => if is_line_term c then None else option_map (fun p => (c :: fst p, snd p)) (lex_string_body r)
  end.
Fixpoint lex_block_body (s : str) : option (str * str) :=
  match s with
  | [] => None
  | 34 :: 34 :: 34 :: r => Some ([], r)
  | 92 :: 34 :: 34 :: 34 :: r => option_map (fun p => (92 :: 34 :: 34 :: 34 :: fst p, snd p)) (lex_block_body r)
  | c :: r => option_map (fun p => (c :: fst p, snd p)) (lex_block_body r)
  end.

(* a number: IntegerPart [FractionalPart] [ExponentPart], not followed by Digit, '.', NameStart *)
Definition lex_number (s : str) : option (token * str) :=
  let '(sign, s1) := match s with 45 :: r => ([45], r) | _ => ([], s) end in
  let '(ip, s2) := take_while is_digit s1 in
  match ip with
  | [] => None
  | d :: more =>
    if (d =? 48) && negb (match more with [] => true | _ => false end) then None   (* leading zero *)
    else
      let '(fr, s3, bad1) := match s2 with
                       | 46 :: r => let '(ds, r') := take_while is_digit r in
                                    (46 :: ds, r', match ds with [] => true | _ => false end)
                       | _ => ([], s2, false)
                       end in
      let '(ex, s4, bad2) := match s3 with
                       | c :: r =>
                         if (c =? 69) || (c =? 101) then
                           let '(sg, r1) := match r with
                                            | 43 :: r' => ([43], r') | 45 :: r' => ([45], r') | _ => ([], r)
                                            end in
                           let '(ds, r2) := take_while is_digit r1 in
                           (c :: sg ++ ds, r2, match ds with [] => true | _ => false end)
                         else ([], s3, false)
                       | [] => ([], s3, false)
                       end in
      if bad1 || bad2 then None
      else match s4 with
           | c :: _ => if is_digit c || (c =? 46) || is_name_start c then None
                       else Some (match fr, ex with [], [] => TInt (sign ++ ip) | _, _ => TFloat (sign ++ ip ++ fr ++ ex) end, s4)
           | [] => Some (match fr, ex with [], [] => TInt (sign ++ ip) | _, _ => TFloat (sign ++ ip ++ fr ++ ex) end, s4)
           end
  end.

Fixpoint spec_lex (fuel : nat) (s : str) : option (list token) :=
  match fuel with
  | O => None
  | S f =>
    match s with
    | [] => Some []
    | c :: r =>
      if is_ignored_char c then spec_lex f r
      else if c =? 35 then spec_lex f (snd (take_while (fun x => negb (is_line_term x)) r))
      else if is_punct c then option_map (cons (TPunct c)) (spec_lex f r)
      else if c =? 46 then
        match r with
        | 46 :: 46 :: r' => option_map (cons (TPunct 46)) (spec_lex f r')
        | _ => None
        end
      else if is_name_start c then
        let '(n, r') := take_while is_name_cont s in option_map (cons (TName n)) (spec_lex f r')
      else if is_digit c || (c =? 45) then
        match lex_number s with
        | Some (t, r') => option_map (cons t) (spec_lex f r')
        | None => None
        end
      else if c =? 34 then
        match r with
        | 34 :: 34 :: r' =>
          match lex_block_body r' with
          | Some (body, r'') => option_map (cons (TString (spec_block body))) (spec_lex f r'')
          | None => None
          end
        | _ =>
          match lex_string_body r with
          | Some (body, r'') =>
            match spec_string body with
            | Some v => option_map (cons (TString v)) (spec_lex f r'')
            | None => None
            end
          | None => None
          end
        end
      else None
    end
  end.

(* ---- Type (2.11) over tokens ---- *)
Fixpoint spec_type_tokens (fuel : nat) (ts : list token) : option (ptype * list token) :=
  match fuel with
  | O => None
  | S f =>
    let bang (t : bool -> ptype) (rest : list token) :=
      match rest with
      | TPunct 33 :: rest' => Some (t false, rest')
      | _ => Some (t true, rest)
      end in
    match ts with
    | TName n :: rest => bang (TNamed n) rest
    | TPunct 91 :: rest =>
      match spec_type_tokens f rest with
      | Some (inner, TPunct 93 :: rest') => bang (TList inner) rest'
      | _ => None
      end
    | _ => None
    end
  end.

Definition spec_type (s : str) : option ptype :=
  match spec_lex (S (length s)) s with
  | Some ts => match spec_type_tokens (S (length ts)) ts with
               | Some (t, []) => Some t
               | _ => None
               end
  | None => None
  end.

Fixpoint print_type (t : ptype) : str :=
  match t with
  | TNamed n nullable => n ++ (if nullable then [] else [33])
  | TList i nullable => 91 :: print_type i ++ 93 :: (if nullable then [] else [33])
  end.

(* ---- Value (2.9) over tokens ---- *)
Definition str_null : str := [110; 117; 108; 108].

Definition spec_number (t : token) : option pvalue :=
  match t with
  | TInt lx =>
    let '(neg, ds) := match lx with 45 :: r => (true, r) | _ => (false, lx) end in
    let z := fst (digits_val 0 ds) in
    (* the AST's Number keeps an integer only inside the i64/u64 range, -0 is a float *)
    if neg then (if (z =? 0)%Z then Some (PVFloat lx) else if (z <=? 2 ^ 63)%Z then Some (PVInt (- z)) else Some (PVFloat lx))
    else (if (z <? 2 ^ 64)%Z then Some (PVInt z) else Some (PVFloat lx))
  | TFloat lx => Some (PVFloat lx)
  | _ => None
  end.

Fixpoint spec_value_tokens (fuel : nat) (ts : list token) : option (pvalue * list token) :=
  match fuel with
  | O => None
  | S f =>
    match ts with
    | TPunct 36 :: TName n :: rest => Some (PVVar n, rest)
    | TInt lx :: rest => option_map (fun v => (v, rest)) (spec_number (TInt lx))
    | TFloat lx :: rest => option_map (fun v => (v, rest)) (spec_number (TFloat lx))
    | TString v :: rest => Some (PVStr v, rest)
    | TName n :: rest =>
      Some (if str_eqb n str_true then PVBool true else if str_eqb n str_false then PVBool false
            else if str_eqb n str_null then PVNull else PVEnum n, rest)
    | TPunct 91 :: rest =>
      (fix items (k : nat) (ts : list token) (acc : list pvalue) : option (pvalue * list token) :=
         match k with
         | O => None
         | S k' =>
           match ts with
           | TPunct 93 :: rest' => Some (PVList (rev acc), rest')
           | _ => match spec_value_tokens f ts with
                  | Some (v, rest') => items k' rest' (v :: acc)
                  | None => None
                  end
           end
         end) (S (length rest)) rest []
    | TPunct 123 :: rest =>
      (fix fields (k : nat) (ts : list token) (acc : list (str * pvalue)) : option (pvalue * list token) :=
         match k with
         | O => None
         | S k' =>
           match ts with
           | TPunct 125 :: rest' => Some (PVObj (obj_collect (rev acc)), rest')
           | TName n :: TPunct 58 :: rest' =>
             match spec_value_tokens f rest' with
             | Some (v, rest'') => fields k' rest'' ((n, v) :: acc)
             | None => None
             end
           | _ => None
           end
         end) (S (length rest)) rest []
    | _ => None
    end
  end.

Definition spec_value (s : str) : option pvalue :=
  match spec_lex (S (length s)) s with
  | Some ts => match spec_value_tokens (S (length ts)) ts with
               | Some (v, []) => Some v
               | _ => None
               end
  | None => None
  end.

(* ============================== CHECKS ================================= *)
Definition opt_eqb {A} (f : A -> A -> bool) (x y : option A) : bool := option_eqb f x y.

(* floats compare equal whatever their lexeme (the f64 is serde_json's business) *)
Fixpoint value_eqb (a b : pvalue) {struct a} : bool :=
  match a, b with
  | PVVar x, PVVar y => str_eqb x y
  | PVNull, PVNull => true
  | PVInt x, PVInt y => Z.eqb x y
  | PVFloat _, PVFloat _ => true
  | PVStr x, PVStr y => str_eqb x y
  | PVBool x, PVBool y => Bool.eqb x y
  | PVEnum x, PVEnum y => str_eqb x y
  | PVList x, PVList y =>
    (fix go (x y : list pvalue) : bool :=
       match x, y with
       | [], [] => true
       | u :: x', v :: y' => value_eqb u v && go x' y'
       | _, _ => false
       end) x y
  | PVObj x, PVObj y =>
    (fix go (x : list (str * pvalue)) (y : list (str * pvalue)) : bool :=
       match x, y with
       | [], [] => true
       | (k, u) :: x', (k', v) :: y' => str_eqb k k' && value_eqb u v && go x' y'
       | _, _ => false
       end) x y
  | _, _ => false
  end.

Fixpoint type_eqb (a b : ptype) : bool :=
  match a, b with
  | TNamed x n, TNamed y m => str_eqb x y && Bool.eqb n m
  | TList x n, TList y m => type_eqb x y && Bool.eqb n m
  | _, _ => false
  end.

Definition args_eqb (x y : list (str * pvalue)) : bool :=
  list_eqb (fun p q => str_eqb (fst p) (fst q) && value_eqb (snd p) (snd q)) x y.
Definition dirs_eqb (x y : list pdirective) : bool :=
  list_eqb (fun p q => str_eqb (pd_name p) (pd_name q) && args_eqb (pd_args p) (pd_args q)) x y.

Fixpoint sel_eqb (a b : psel) {struct a} : bool :=
  match a, b with
  | PField al n ar d s, PField al' n' ar' d' s' =>
    opt_eqb str_eqb al al' && str_eqb n n' && args_eqb ar ar' && dirs_eqb d d' &&
    (fix go (x y : list psel) : bool :=
       match x, y with
       | [], [] => true
       | u :: x', v :: y' => sel_eqb u v && go x' y'
       | _, _ => false
       end) s s'
  | PSpread n d, PSpread n' d' => str_eqb n n' && dirs_eqb d d'
  | PInline c d s, PInline c' d' s' =>
    opt_eqb str_eqb c c' && dirs_eqb d d' &&
    (fix go (x y : list psel) : bool :=
       match x, y with
       | [], [] => true
       | u :: x', v :: y' => sel_eqb u v && go x' y'
       | _, _ => false
       end) s s'
  | _, _ => false
  end.

Definition optype_eqb (a b : poptype) : bool :=
  match a, b with
  | POQuery, POQuery | POMutation, POMutation | POSubscription, POSubscription => true
  | _, _ => false
  end.

Definition def_eqb (a b : pdef) : bool :=
  match a, b with
  | DOp x, DOp y =>
    opt_eqb str_eqb (po_name x) (po_name y) && optype_eqb (po_ty x) (po_ty y) &&
    list_eqb (fun p q => str_eqb (pv_name p) (pv_name q) && type_eqb (pv_ty p) (pv_ty q) &&
                         dirs_eqb (pv_dirs p) (pv_dirs q) && opt_eqb value_eqb (pv_default p) (pv_default q))
             (po_vars x) (po_vars y) &&
    dirs_eqb (po_dirs x) (po_dirs y) && list_eqb sel_eqb (po_sels x) (po_sels y)
  | DFrag x, DFrag y =>
    str_eqb (pf_name x) (pf_name y) && str_eqb (pf_cond x) (pf_cond y) &&
    dirs_eqb (pf_dirs x) (pf_dirs y) && list_eqb sel_eqb (pf_sels x) (pf_sels y)
  | _, _ => false
  end.

Definition outcome_eqb {A} (f : A -> A -> bool) (x y : outcome A) : bool :=
  match x, y with
  | Ok a, Ok b => f a b
  | Err a, Err b => N.eqb a b
  | Panic, Panic => true
  | _, _ => false
  end.

(* the real document keeps operations and fragments in hash maps: definitions
   are compared as sets (their names are unique once parse_query succeeds) *)
Definition defs_eqb (a b : list pdef) : bool :=
  Nat.eqb (length a) (length b) && forallb (fun d => existsb (def_eqb d) b) a &&
  forallb (fun d => existsb (fun x => def_eqb x d) a) b.
Definition doc_eqb := outcome_eqb defs_eqb.

(* the document a DOC case stands for *)
Definition doc_text (kind : N) (part : str) : str :=
  if kind =? 1 then [123; 102; 40; 97; 58; 34] ++ part ++ [34; 41; 125]
  else if kind =? 2 then [123; 102; 40; 97; 58; 34; 34; 34] ++ part ++ [34; 34; 34; 41; 125]
  else if kind =? 3 then [113; 117; 101; 114; 121; 40; 36; 118; 58] ++ part ++ [41; 123; 97; 125]
  else if kind =? 4 then [123; 102; 40; 97; 58] ++ part ++ [41; 125]
  else if kind =? 5 then [113; 117; 101; 114; 121; 40; 36; 118; 58; 83; 61; 34; 34; 34] ++ part ++ [34; 34; 34; 41; 123; 97; 125]
  else if kind =? 6 then [113; 117; 101; 114; 121; 40; 36; 118; 58; 73; 110; 116; 32] ++ part ++ [41; 123; 97; 125]
  else part.

Definition field_f_a (v : pvalue) : list pdef :=
  [DOp {| po_name := None; po_ty := POQuery; po_vars := []; po_dirs := [];
          po_sels := [PField None [102] [([97], v)] [] []] |}].
Definition query_v (t : ptype) : list pdef :=
  [DOp {| po_name := None; po_ty := POQuery;
          po_vars := [{| pv_name := [118]; pv_ty := t; pv_dirs := []; pv_default := None |}];
          po_dirs := []; po_sels := [PField None [97] [] [] []] |}].

Definition query_v_default (t : ptype) (d : pvalue) : list pdef :=
  [DOp {| po_name := None; po_ty := POQuery;
          po_vars := [{| pv_name := [118]; pv_ty := t; pv_dirs := []; pv_default := Some d |}];
          po_dirs := []; po_sels := [PField None [97] [] [] []] |}].

Fixpoint has_sub (p s : str) : bool :=
  match s with
  | [] => match p with [] => true | _ => false end
  | _ :: r => match match_prefix p s with Some _ => true | None => has_sub p r end
  end.

(* Directives over tokens: ( '@' Name Arguments? )*  — all tokens must be used *)
Fixpoint spec_args_tokens (k : nat) (ts : list token) (acc : list (str * pvalue)) : option (list (str * pvalue) * list token) :=
  match k with
  | O => None
  | S k' =>
    match ts with
    | TPunct 41 :: rest => match acc with [] => None | _ => Some (rev acc, rest) end
    | TName n :: TPunct 58 :: rest =>
      match spec_value_tokens (S (length rest)) rest with
      | Some (v, rest') => spec_args_tokens k' rest' ((n, v) :: acc)
      | None => None
      end
    | _ => None
    end
  end.
Fixpoint spec_dirs_tokens (k : nat) (ts : list token) (acc : list pdirective) : option (list pdirective) :=
  match k with
  | O => None
  | S k' =>
    match ts with
    | [] => Some (rev acc)
    | TPunct 64 :: TName n :: TPunct 40 :: rest =>
      match spec_args_tokens (S (length rest)) rest [] with
      | Some (args, rest') => spec_dirs_tokens k' rest' ({| pd_name := n; pd_args := args |} :: acc)
      | None => None
      end
    | TPunct 64 :: TName n :: rest => spec_dirs_tokens k' rest ({| pd_name := n; pd_args := [] |} :: acc)
    | _ => None
    end
  end.
(* Value[Const]: no variable anywhere *)
Fixpoint has_var (v : pvalue) : bool :=
  match v with
  | PVVar _ => true
  | PVList l => (fix go (l : list pvalue) : bool := match l with [] => false | x :: r => has_var x || go r end) l
  | PVObj l => (fix go (l : list (str * pvalue)) : bool := match l with [] => false | (_, x) :: r => has_var x || go r end) l
  | _ => false
  end.

(* VariableDefinition tail (2.10): DefaultValue? Directives? *)
Definition spec_vardef_tail (ts : list token) : option (option pvalue * list pdirective) :=
  match ts with
  | TPunct 61 :: rest =>
    match spec_value_tokens (S (length rest)) rest with
    | Some (v, rest') =>
      if has_var v then None
      else option_map (fun d => (Some v, d)) (spec_dirs_tokens (S (length rest')) rest' [])
    | None => None
    end
  | _ => option_map (fun d => (None, d)) (spec_dirs_tokens (S (length ts)) ts [])
  end.

(* what the specification expects of a case; None = this file states no
   expectation (whole documents; parts that do not stay inside their frame) *)
Definition last_is (c : N) (s : str) : bool := match rev s with x :: _ => x =? c | [] => false end.

Definition float_overflow (v : option pvalue) (part : str) : bool := false.

Definition spec_expect (kind : N) (part : str) : option (outcome (list pdef)) :=
  if kind =? 1 then
    (* a raw quote would end the literal early *)
    if (fix raw_quote (s : str) : bool :=
          match s with
          | 92 :: _ :: r => raw_quote r
          | 34 :: _ => true
          | _ :: r => raw_quote r
          | [] => false
          end) part then None
    else if last_is 92 part && negb (match spec_string part with Some _ => true | None => false end) then
      Some (Err E_SYNTAX)
    else Some (match spec_string part with
               | Some v => Ok (field_f_a (PVStr v))
               | None => Err E_SYNTAX
               end)
  else if (kind =? 2) || (kind =? 5) then
    if has_sub [34; 34; 34] (
         (fix strip (s : str) : str :=
            match s with
            | 92 :: 34 :: 34 :: 34 :: r => 0 :: strip r
            | c :: r => c :: strip r
            | [] => []
            end) part) || last_is 34 part || last_is 92 part
    then None
    else Some (Ok (if kind =? 2 then field_f_a (PVStr (spec_block part))
                   else query_v_default (TNamed [83] true) (PVStr (spec_block part))))
  else if kind =? 3 then
    if forallb (fun c => is_name_cont c || (c =? 91) || (c =? 93) || (c =? 33) || is_ignored_char c) part then
      Some (match spec_type part with
            | Some t => Ok (query_v t)
            | None => Err E_SYNTAX
            end)
    else None
  else if kind =? 6 then
    match spec_lex (S (length part)) part with
    | Some ts =>
      match spec_vardef_tail ts with
      | Some (dv, dirs) =>
        Some (Ok [DOp {| po_name := None; po_ty := POQuery;
                         po_vars := [{| pv_name := [118]; pv_ty := TNamed [73; 110; 116] true; pv_dirs := dirs; pv_default := dv |}];
                         po_dirs := []; po_sels := [PField None [97] [] [] []] |}])
      | None =>
        if forallb (fun c => negb ((c =? 40) || (c =? 41) || (c =? 35) || (c =? 34) || (c =? 33) || (c =? 36))) part
        then Some (Err E_SYNTAX) else None
      end
    | None => None
    end
  else if kind =? 4 then
    (* only parts made of value tokens; ':' '(' ')' '@' could leave the frame *)
    if forallb (fun c => negb ((c =? 40) || (c =? 41) || (c =? 64) || (c =? 35))) part then
      match spec_lex (S (length part)) part with
      | None => Some (Err E_SYNTAX)
      | Some ts =>
        match spec_value_tokens (S (length ts)) ts with
        | Some (v, []) => Some (Ok (field_f_a v))
        | Some (_, _ :: _) => None       (* more tokens: could be further arguments *)
        | None => Some (Err E_SYNTAX)
        end
      end
    else None
  else None.

(* ---- known classes (narrow, computable on the case) ---- *)
(* 1: block string containing the escaped triple quote *)
Definition kc_block_escape (part : str) : bool := has_sub [92; 34; 34; 34] part.
(* 2: block string with a whitespace-only line (not the first) shorter than the common indent *)
Definition kc_block_short_blank (part : str) : bool :=
  let lines := spec_split part in
  match spec_common_indent lines with
  | Some k => existsb (fun l => only_ws l && (0 <? length l)%nat && (length l <? k)%nat) (tl lines)
  | None => false
  end.
(* 3: a type reference with ignored characters inside it *)
Definition kc_type_inner_ignored (part : str) : bool :=
  existsb is_ignored_char part &&
  match spec_type part with Some _ => true | None => false end.
(* 4: tokens that the grammar splits or glues differently from the lexer: a Name
   that begins with true / false / null, or a number directly followed by a digit *)
Fixpoint adjacent_digits_after_number (s : str) : bool :=
  match s with
  | a :: ((b :: _) as r) =>
    ((a =? 48) && is_digit b) || adjacent_digits_after_number r
  | _ => false
  end.
Definition kc_token_boundary (part : str) : bool :=
  match spec_lex (S (length part)) part with
  | Some ts => existsb (fun t => match t with
                                 | TName n =>
                                   negb (str_eqb n str_true || str_eqb n str_false || str_eqb n str_null) &&
                                   (match match_prefix str_true n with Some _ => true | None => false end ||
                                    match match_prefix str_false n with Some _ => true | None => false end ||
                                    match match_prefix str_null n with Some _ => true | None => false end)
                                 | _ => false
                                 end) ts
  | None => adjacent_digits_after_number part
  end.
(* 5: a decimal number beyond the f64 range (rejected as "invalid number") *)
Definition kc_float_range (part : str) : bool :=
  match spec_lex (S (length part)) part with
  | Some ts => existsb (fun t => match t with
                                 | TInt lx | TFloat lx => match parse_number_lexeme lx with NumErr => true | _ => false end
                                 | _ => false
                                 end) ts
  | None => false
  end.

(* the raw bodies of the block strings inside a value text *)
Fixpoint block_bodies (fuel : nat) (s : str) : list str :=
  match fuel with
  | O => []
  | S f =>
    match s with
    | [] => []
    | c :: r =>
      if c =? 34 then
        match r with
        | 34 :: 34 :: r' =>
          match lex_block_body r' with
          | Some (body, r'') => body :: block_bodies f r''
          | None => []
          end
        | _ =>
          match lex_string_body r with
          | Some (_, r'') => block_bodies f r''
          | None => []
          end
        end
      else block_bodies f r
    end
  end.

Definition known_class (kind : N) (part : str) : N :=
  if (kind =? 2) || (kind =? 5) then (if kc_block_escape part then 1 else if kc_block_short_blank part then 2 else 0)
  else if kind =? 3 then (if kc_type_inner_ignored part then 3 else 0)
  else if kind =? 6 then
    (if existsb (N.eqb 61) part && existsb (N.eqb 64) part then 7
     else if kc_float_range part then 5 else if kc_token_boundary part then 4
     else if kc_block_escape part then 1
     else if existsb kc_block_short_blank (block_bodies (S (length part)) part) then 2 else 0)
  else if kind =? 4 then
    (if kc_float_range part then 5 else if kc_token_boundary part then 4
     else if kc_block_escape part then 1
     else if existsb kc_block_short_blank (block_bodies (S (length part)) part) then 2 else 0)
  else 0.

Definition DOCFUEL : nat := 4000%nat.

Definition check_doc (c : N * str * outcome (list pdef)) : N :=
  let '(kind, part, impl) := c in
  let model := parse_query DOCFUEL (doc_text kind part) in
  match spec_expect kind part with
  | Some sp => verdict (doc_eqb impl model) (doc_eqb model sp) (doc_eqb impl sp) (known_class kind part)
  | None => verdict (doc_eqb impl model) true true 0
  end.

(* Type::new on arbitrary text *)
Definition check_tnew (c : str * option ptype) : N :=
  let '(s, impl) := c in
  let model := type_new (S (length s)) s in
  verdict (opt_eqb type_eqb impl model) true true 0.

(* ===================== service documents: SPEC ========================= *)
(* The tree a service document denotes, read off the parse tree of the
   regenerated grammar BY RULE NAME (never by the order in which pairs happen
   to be consumed); values through the token-level [spec_value], types through
   [spec_type], strings through [spec_string] / [spec_block]. *)
Definition find_rule (r : N) (l : list tree) : option tree :=
  match filter (fun x => t_rule x =? r) l with x :: _ => Some x | [] => None end.
Definition all_rule (r : N) (l : list tree) : list tree := filter (fun x => t_rule x =? r) l.

Definition oo {A B} (x : option A) (f : A -> outcome B) : outcome B :=
  match x with Some a => f a | None => Err E_SYNTAX end.

Definition sp_name (l : list tree) : outcome str := oo (find_rule R_name l) (fun n => Ok (t_text n)).

Definition sp_string (t : tree) : outcome str :=
  match find_rule R_block_string_content (t_kids t), find_rule R_string_content (t_kids t) with
  | Some b, _ => Ok (spec_block (t_text b))
  | None, Some c => oo (spec_string (t_text c)) Ok
  | None, None => Err E_SYNTAX
  end.

Definition sp_desc (l : list tree) : outcome (option str) :=
  match find_rule R_string l with
  | Some d => bindo (sp_string d) (fun s => Ok (Some s))
  | None => Ok None
  end.

Definition sp_value (t : tree) : outcome pvalue := oo (spec_value (t_text t)) Ok.
Definition sp_type (l : list tree) : outcome ptype :=
  oo (find_rule R_type_ l) (fun t => oo (spec_type (t_text t)) Ok).

Definition sp_directives (l : list tree) : outcome (list pdirective) :=
  match find_rule R_const_directives l with
  | None => Ok []
  | Some ds =>
    mapo (fun d =>
      bindo (sp_name (t_kids d)) (fun name =>
      bindo (match find_rule R_const_arguments (t_kids d) with
             | None => Ok []
             | Some a => mapo (fun x =>
                 bindo (sp_name (t_kids x)) (fun k =>
                 bindo (oo (find_rule R_const_value (t_kids x)) sp_value) (fun v => Ok (k, v))))
                 (all_rule R_const_argument (t_kids a))
             end) (fun args => Ok {| pd_name := name; pd_args := args |})))
      (all_rule R_const_directive (t_kids ds))
  end.

Definition sp_input_value (t : tree) : outcome sinput :=
  let l := t_kids t in
  bindo (sp_desc l) (fun desc =>
  bindo (sp_name l) (fun name =>
  bindo (sp_type l) (fun ty =>
  bindo (match find_rule R_default_value l with
         | None => Ok None
         | Some d => bindo (oo (find_rule R_const_value (t_kids d)) sp_value) (fun v => Ok (Some v))
         end) (fun dv =>
  bindo (sp_directives l) (fun dirs =>
  Ok {| iv_desc := desc; iv_name := name; iv_ty := ty; iv_default := dv; iv_dirs := dirs |}))))).

Definition sp_input_values (r : N) (l : list tree) : outcome (list sinput) :=
  match find_rule r l with
  | None => Ok []
  | Some a => mapo sp_input_value (all_rule R_input_value_definition (t_kids a))
  end.

Definition sp_field (t : tree) : outcome sfield :=
  let l := t_kids t in
  bindo (sp_desc l) (fun desc =>
  bindo (sp_name l) (fun name =>
  bindo (sp_input_values R_arguments_definition l) (fun args =>
  bindo (sp_type l) (fun ty =>
  bindo (sp_directives l) (fun dirs =>
  Ok {| fd_desc := desc; fd_name := name; fd_args := args; fd_ty := ty; fd_dirs := dirs |}))))).

Definition sp_names_in (r : N) (l : list tree) : list str :=
  match find_rule r l with
  | None => []
  | Some x => map t_text (all_rule R_name (t_kids x))
  end.

Definition sp_type_definition (ty : tree) : outcome sdef :=
  let l := t_kids ty in
  let rule := t_rule ty in
  bindo (sp_desc l) (fun desc =>
  let extend := match find_rule R_extend l with Some _ => true | None => false end in
  bindo (sp_name l) (fun name =>
  bindo (sp_directives l) (fun dirs =>
  bindo (if rule =? R_scalar_type then Ok KScalar
         else if (rule =? R_object_type) || (rule =? R_interface_type) then
           bindo (match find_rule R_fields_definition l with
                  | None => Ok []
                  | Some f => mapo sp_field (all_rule R_field_definition (t_kids f))
                  end) (fun fields =>
           let impl := sp_names_in R_implements_interfaces l in
           Ok (if rule =? R_object_type then KObject impl fields else KInterface impl fields))
         else if rule =? R_union_type then Ok (KUnion (sp_names_in R_union_member_types l))
         else if rule =? R_enum_type then
           bindo (match find_rule R_enum_values l with
                  | None => Ok []
                  | Some vs =>
                    mapo (fun v =>
                      let k := t_kids v in
                      bindo (sp_desc k) (fun d =>
                      bindo (oo (find_rule R_enum_value k) (fun e => sp_name (t_kids e))) (fun n =>
                      bindo (sp_directives k) (fun ds =>
                      Ok {| ev_desc := d; ev_name := n; ev_dirs := ds |}))))
                      (all_rule R_enum_value_definition (t_kids vs))
                  end) (fun vs => Ok (KEnum vs))
         else if rule =? R_input_object_type then
           bindo (sp_input_values R_input_fields_definition l) (fun fs => Ok (KInput fs))
         else Err E_SYNTAX) (fun kind =>
  Ok (SType extend desc name dirs kind))))).

Definition sp_schema_definition (t : tree) : outcome sdef :=
  let l := t_kids t in
  let extend := match find_rule R_extend l with Some _ => true | None => false end in
  bindo (sp_directives l) (fun dirs =>
  let roots := map (fun p => (match find_rule R_operation_type (t_kids p) with Some o => t_text o | None => [] end,
                              match find_rule R_name (t_kids p) with Some n => t_text n | None => [] end))
                   (all_rule R_operation_type_definition l) in
  let pick (k : str) := map snd (filter (fun p => str_eqb (fst p) k) roots) in
  let one (xs : list str) := match xs with [] => Some None | [x] => Some (Some x) | _ => None end in
  (* a root operation type given twice is an error reported at the first repetition in document order *)
  match one (pick str_query), one (pick str_mutation), one (pick str_subscription) with
  | Some q, Some m, Some s =>
    if negb extend && match q with None => true | Some _ => false end then Err E_MISSING_QUERY_ROOT
    else Ok (SSchema extend dirs q m s)
  | _, _, _ => Err E_MULTIPLE_ROOTS
  end).

Definition sp_directive_definition (t : tree) : outcome sdef :=
  let l := t_kids t in
  bindo (sp_desc l) (fun desc =>
  bindo (sp_name l) (fun name =>
  bindo (sp_input_values R_arguments_definition l) (fun args =>
  let repeatable := match find_rule R_repeatable l with
                    | Some r => negb (match t_text r with [] => true | _ => false end)
                    | None => false
                    end in
  let locs := match find_rule R_directive_locations l with
              | Some x => map t_text (all_rule R_directive_location (t_kids x))
              | None => []
              end in
  Ok (SDirective desc name args repeatable locs)))).

Definition spec_schema (fuel : nat) (s : str) : outcome (list sdef) :=
  match parse_rule grammar fuel R_service_document s with
  | POof => OutOfFuel
  | PFail => Err E_SYNTAX
  | PMatch _ _ ts =>
    match ts with
    | [doc] =>
      mapo (fun d =>
        match t_kids d with
        | [k] => if t_rule k =? R_schema_definition then sp_schema_definition k
                 else if t_rule k =? R_directive_definition then sp_directive_definition k
                 else if t_rule k =? R_type_definition then
                   match t_kids k with [ty] => sp_type_definition ty | _ => Err E_SYNTAX end
                 else Err E_SYNTAX
        | _ => Err E_SYNTAX
        end) (all_rule R_type_system_definition (t_kids doc))
    | _ => Err E_SYNTAX
    end
  end.

(* ---- equality of service trees ---- *)
Definition ostr_eqb := opt_eqb str_eqb.
Definition strs_eqb := list_eqb str_eqb.
Definition sinput_eqb (a b : sinput) : bool :=
  ostr_eqb (iv_desc a) (iv_desc b) && str_eqb (iv_name a) (iv_name b) && type_eqb (iv_ty a) (iv_ty b) &&
  opt_eqb value_eqb (iv_default a) (iv_default b) && dirs_eqb (iv_dirs a) (iv_dirs b).
Definition sfield_eqb (a b : sfield) : bool :=
  ostr_eqb (fd_desc a) (fd_desc b) && str_eqb (fd_name a) (fd_name b) && list_eqb sinput_eqb (fd_args a) (fd_args b) &&
  type_eqb (fd_ty a) (fd_ty b) && dirs_eqb (fd_dirs a) (fd_dirs b).
Definition senumval_eqb (a b : senumval) : bool :=
  ostr_eqb (ev_desc a) (ev_desc b) && str_eqb (ev_name a) (ev_name b) && dirs_eqb (ev_dirs a) (ev_dirs b).
Definition skind_eqb (a b : skind) : bool :=
  match a, b with
  | KScalar, KScalar => true
  | KObject i f, KObject i' f' | KInterface i f, KInterface i' f' => strs_eqb i i' && list_eqb sfield_eqb f f'
  | KUnion m, KUnion m' => strs_eqb m m'
  | KEnum v, KEnum v' => list_eqb senumval_eqb v v'
  | KInput f, KInput f' => list_eqb sinput_eqb f f'
  | _, _ => false
  end.
Definition sdef_eqb (a b : sdef) : bool :=
  match a, b with
  | SSchema e d q m s, SSchema e' d' q' m' s' =>
    Bool.eqb e e' && dirs_eqb d d' && ostr_eqb q q' && ostr_eqb m m' && ostr_eqb s s'
  | SType e d n ds k, SType e' d' n' ds' k' =>
    Bool.eqb e e' && ostr_eqb d d' && str_eqb n n' && dirs_eqb ds ds' && skind_eqb k k'
  | SDirective d n a r l, SDirective d' n' a' r' l' =>
    ostr_eqb d d' && str_eqb n n' && list_eqb sinput_eqb a a' && Bool.eqb r r' && strs_eqb l l'
  | _, _ => false
  end.
Definition sdoc_eqb := outcome_eqb (list_eqb sdef_eqb).

(* ---- known classes of service documents (on the text) ---- *)
(* class 6 (directive definitions always repeatable) was repaired: no predicate *)
Definition known_class_sdl (s : str) : N :=
  if kc_block_escape s then 1
  else if existsb kc_block_short_blank (block_bodies (S (length s)) s) then 2
  else if kc_float_range s then 5
  else if kc_token_boundary s then 4
  else 0.

Definition check_sdl (c : str * outcome (list sdef)) : N :=
  let '(s, impl) := c in
  let model := parse_schema DOCFUEL s in
  let sp := spec_schema DOCFUEL s in
  verdict (sdoc_eqb impl model) (sdoc_eqb model sp) (sdoc_eqb impl sp) (known_class_sdl s).

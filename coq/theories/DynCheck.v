(* DynCheck.v — C33: model of async-graphql's dynamic schema validation
   (src/dynamic/schema.rs SchemaBuilder::finish, src/dynamic/check.rs
   SchemaInner::check and check_is_valid_implementation,
   src/dynamic/type_ref.rs TypeRef::is_subtype), an independent transcription
   of the GraphQL type-validation rules the property names, the known
   deviation classes, and the per-case verdict.  Definitions only. *)
From AG Require Export Base.
Open Scope N_scope.

(* ------------------------------------------------------------ type system -- *)
(* dynamic::TypeRef *)
Inductive tref :=
| TNamed (n : name)
| TNonNull (t : tref)
| TList (t : tref).

(* dynamic::InputValue (arguments and input-object fields share the struct) *)
Record arg := { a_name : name; a_ty : tref; a_default : bool }.
(* dynamic::Field / InterfaceField / SubscriptionField *)
Record fld := { f_name : name; f_ty : tref; f_args : list arg }.

(* dynamic::Type *)
Inductive tdef :=
| DScalar
| DEnum
| DUpload
| DObject (fields : list fld) (impls : list name)
| DInterface (fields : list fld) (impls : list name)
| DUnion (members : list name)
| DInput (fields : list arg) (oneof : bool)
| DSubscription (fields : list fld).

(* What was given to Schema::build(..).register(..)*: the IndexMap of types
   in registration order, the three root names, and the names of the case
   that begin with two underscores. *)
Record tsys := {
  ts_types : list (name * tdef);
  ts_query : name;
  ts_mutation : option name;
  ts_subscription : option name;
  ts_dunder : list name }.

(* harness/src/bin/c33.rs interns these right after the reserved names *)
Definition N_Boolean : name := 6.
Definition N_Int : name := 7.
Definition N_Float : name := 8.
Definition N_String : name := 9.
Definition N_ID : name := 10.
Definition N_Upload : name := 11.
Definition builtin_scalars : list name := [N_Int; N_Float; N_Boolean; N_String; N_ID].

Fixpoint tref_eqb (a b : tref) : bool :=
  match a, b with
  | TNamed x, TNamed y => name_eqb x y
  | TNonNull x, TNonNull y => tref_eqb x y
  | TList x, TList y => tref_eqb x y
  | _, _ => false
  end.

(* TypeRef::type_name *)
Fixpoint type_name (t : tref) : name :=
  match t with
  | TNamed n => n
  | TNonNull t => type_name t
  | TList t => type_name t
  end.

(* TypeRef::is_nullable *)
Definition is_nullable (t : tref) : bool :=
  match t with TNonNull _ => false | _ => true end.

(* TypeRef::is_subtype(&self = cur, sub): arms in source order
     (NonNull a, NonNull b) => rec a b | (_, NonNull b) => rec cur b
     (Named a, Named b) => a == b       | (List a, List b) => rec a b | _ => false *)
Fixpoint is_subtype (cur sub : tref) {struct sub} : bool :=
  match sub with
  | TNonNull s => match cur with
                  | TNonNull c => is_subtype c s
                  | _ => is_subtype cur s
                  end
  | TNamed b => match cur with TNamed a => name_eqb a b | _ => false end
  | TList s => match cur with TList c => is_subtype c s | _ => false end
  end.

Definition find_fld (n : name) (fs : list fld) : option fld :=
  find (fun f => name_eqb n (f_name f)) fs.
Definition find_arg (n : name) (l : list arg) : option arg :=
  find (fun a => name_eqb n (a_name a)) l.

(* ------------------------------------------------------------------ impl -- *)
Definition okb {A} (o : outcome A) : bool := match o with Ok _ => true | _ => false end.

(* `for x in l { f(x)?; }` *)
Fixpoint first_err {A} (f : A -> outcome unit) (l : list A) : outcome unit :=
  match l with
  | [] => Ok tt
  | x :: l' => bindo (f x) (fun _ => first_err f l')
  end.

Definition guard (bad : bool) (code : N) : outcome unit := if bad then Err code else Ok tt.
Definition andthen (a b : outcome unit) : outcome unit := bindo a (fun _ => b).
Infix ">>" := andthen (at level 61, left associativity).

(* finish(): every registered type goes through Type::register, which fails
   when the registry already has the name (only the five system scalars can
   collide: the builder's IndexMap has unique keys); then the system scalars
   are inserted into `types`. *)
Definition register_all (ts : tsys) : outcome unit :=
  first_err (fun nd => guard (mem (fst nd) builtin_scalars) 21) (ts_types ts).

Definition all_types (ts : tsys) : list (name * tdef) :=
  ts_types ts ++ map (fun n => (n, DScalar)) builtin_scalars.

Section Check.
  Variable ts : tsys.

  Definition lookup (n : name) : option tdef := assoc n (all_types ts).
  Definition dunder (n : name) : bool := mem n (ts_dunder ts).

  (* Type::is_output_type / is_input_type *)
  Definition is_output_def (d : tdef) : bool :=
    match d with
    | DScalar | DEnum | DObject _ _ | DInterface _ _ | DUnion _ => true
    | DInput _ _ | DSubscription _ | DUpload => false
    end.
  Definition is_input_def (d : tdef) : bool :=
    match d with
    | DScalar | DEnum | DInput _ _ | DUpload => true
    | DObject _ _ | DInterface _ _ | DUnion _ | DSubscription _ => false
    end.

  (* check_types_exists *)
  Definition exists_b (n : name) : bool := match lookup n with Some _ => true | None => false end.
  Definition names_exist (l : list name) : outcome unit :=
    first_err (fun n => guard (negb (exists_b n)) 1) l.
  Definition fld_type_names (fs : list fld) : list name :=
    flat_map (fun f => type_name (f_ty f) :: map (fun a => type_name (a_ty a)) (f_args f)) fs.
  Definition referenced_names (d : tdef) : list name :=
    match d with
    | DObject fs impls => fld_type_names fs ++ impls
    | DInput fs _ => map (fun a => type_name (a_ty a)) fs
    | DInterface fs _ => fld_type_names fs          (* `implements` is not looked at *)
    | DUnion ms => ms
    | DSubscription fs => fld_type_names fs
    | DScalar | DEnum | DUpload => []
    end.
  Definition check_types_exists : outcome unit :=
    names_exist (ts_query ts :: match ts_mutation ts with Some m => [m] | None => [] end) >>
    first_err (fun nd => names_exist (referenced_names (snd nd))) (all_types ts).

  (* check_root_types *)
  Definition check_root_types : outcome unit :=
    guard (match lookup (ts_query ts) with Some (DObject _ _) | None => false | Some _ => true end) 2 >>
    guard (match ts_mutation ts with
           | Some m => match lookup m with Some (DObject _ _) | None => false | Some _ => true end
           | None => false end) 3 >>
    guard (match ts_subscription ts with
           | Some s => match lookup s with Some (DSubscription _) | None => false | Some _ => true end
           | None => false end) 4.

  (* check_is_valid_implementation(implementing, implemented) *)
  Definition check_impl_arg (impl_field : fld) (a : arg) : outcome unit :=
    match find_arg (a_name a) (f_args impl_field) with
    | Some ia => guard (negb (is_subtype (a_ty a) (a_ty ia))) 13
    | None => guard (negb (is_nullable (a_ty a))) 12
    end.
  Definition check_impl_field (impl_fields : list fld) (f : fld) : outcome unit :=
    match find_fld (f_name f) impl_fields with
    | None => Err 11
    | Some ifl =>
        first_err (check_impl_arg ifl) (f_args f) >>
        guard (negb (is_subtype (f_ty ifl) (f_ty f))) 14
    end.
  Definition check_is_valid_implementation (impl_fields iface_fields : list fld) : outcome unit :=
    first_err (check_impl_field impl_fields) iface_fields.

  (* the `for interface_name in &x.implements` loop shared by objects and interfaces *)
  Definition check_implements (my_fields : list fld) (impls : list name) : outcome unit :=
    first_err (fun i =>
      match lookup i with
      | Some (DInterface ifs _) => check_is_valid_implementation my_fields ifs
      | Some _ => Err 10
      | None => Ok tt
      end) impls.

  Definition check_args (args : list arg) : outcome unit :=
    first_err (fun a =>
      guard (dunder (a_name a)) 8 >>
      guard (match lookup (type_name (a_ty a)) with Some d => negb (is_input_def d) | None => false end) 9) args.

  Definition check_field_head (f : fld) : outcome unit :=
    guard (dunder (f_name f)) 6 >>
    guard (match lookup (type_name (f_ty f)) with Some d => negb (is_output_def d) | None => false end) 7 >>
    check_args (f_args f).

  (* check_objects (no entity keys are modelled: has_entities = false) *)
  Definition check_object (d : tdef) : outcome unit :=
    match d with
    | DObject fs impls =>
        guard (match fs with [] => true | _ => false end) 5 >>
        first_err check_field_head fs >>
        check_implements fs impls
    | _ => Ok tt
    end.
  Definition check_objects : outcome unit :=
    first_err (fun nd => check_object (snd nd)) (all_types ts).

  (* check_input_object_reference: depth-first walk along `T!` fields with the
     set of names on the current path ([chain]); explicit fuel. *)
  Definition nn_name (t : tref) : option name :=
    match t with TNonNull (TNamed n) => Some n | _ => None end.
  Definition lookup_input (n : name) : option (list arg) :=
    match lookup n with Some (DInput fs _) => Some fs | _ => None end.

  Fixpoint ref_check (fuel : nat) (cur : name) (chain : list name) (fields : list arg) : outcome unit :=
    match fuel with
    | O => OutOfFuel
    | S fuel' =>
        first_err (fun f =>
          match nn_name (a_ty f) with
          | Some this =>
              if name_eqb this cur then Err 18
              else match lookup_input this with
                   | Some fs2 => if mem this chain then Ok tt
                                 else ref_check fuel' cur (this :: chain) fs2
                   | None => Ok tt
                   end
          | None => Ok tt
          end) fields
    end.

  Definition input_names : list name :=
    map fst (filter (fun nd => match snd nd with DInput _ _ => true | _ => false end) (all_types ts)).
  Definition ref_fuel : nat := S (length input_names).

  (* check_input_objects *)
  Definition check_input_object (nd : name * tdef) : outcome unit :=
    match snd nd with
    | DInput fs oneof =>
        first_err (fun f =>
          guard (dunder (a_name f)) 6 >>
          guard (match lookup (type_name (a_ty f)) with Some d => negb (is_input_def d) | None => false end) 15 >>
          (if oneof then guard (negb (is_nullable (a_ty f))) 16 >> guard (a_default f) 17 else Ok tt)) fs >>
        ref_check ref_fuel (fst nd) [] fs
    | _ => Ok tt
    end.
  Definition check_input_objects : outcome unit := first_err check_input_object (all_types ts).

  (* check_interfaces: "may not implement itself" and the implementation
     checks sit INSIDE the loop over the interface's own fields. *)
  Definition check_interface (nd : name * tdef) : outcome unit :=
    match snd nd with
    | DInterface fs impls =>
        first_err (fun f =>
          check_field_head f >>
          guard (mem (fst nd) impls) 19 >>
          check_implements fs impls) fs
    | _ => Ok tt
    end.
  Definition check_interfaces : outcome unit := first_err check_interface (all_types ts).

  (* check_unions *)
  Definition check_union (d : tdef) : outcome unit :=
    match d with
    | DUnion ms =>
        first_err (fun m => guard (match lookup m with Some (DObject _ _) | None => false | Some _ => true end) 20) ms
    | _ => Ok tt
    end.
  Definition check_unions : outcome unit := first_err (fun nd => check_union (snd nd)) (all_types ts).

  (* SchemaInner::check *)
  Definition check : outcome unit :=
    check_types_exists >> check_root_types >> check_objects >>
    check_input_objects >> check_interfaces >> check_unions.

  (* SchemaBuilder::finish *)
  Definition finish : outcome unit := register_all ts >> check.

  (* ---------------------------------------------------------------- spec -- *)
  (* GraphQL (October 2021) section 3 "Type System", type validation, in the
     vocabulary of the dynamic API.  A dynamic [Subscription] is the API's
     subscription root object: it is neither an input nor a selectable output
     type.  The built-in scalars always exist. *)
  Inductive kind := KScalar | KEnum | KObject | KInterface | KUnion | KInputObject | KSubscription.

  (* the type registered under a name (registered types and built-in scalars) *)
  Definition spec_lookup (n : name) : option tdef := lookup n.
  Definition kind_of_def (d : tdef) : kind :=
    match d with
    | DScalar | DUpload => KScalar
    | DEnum => KEnum
    | DObject _ _ => KObject
    | DInterface _ _ => KInterface
    | DUnion _ => KUnion
    | DInput _ _ => KInputObject
    | DSubscription _ => KSubscription
    end.
  Definition kind_of (n : name) : option kind := option_map kind_of_def (spec_lookup n).
  Definition has_kind (k : kind) (n : name) : bool :=
    match kind_of n, k with
    | Some KScalar, KScalar | Some KEnum, KEnum | Some KObject, KObject | Some KInterface, KInterface
    | Some KUnion, KUnion | Some KInputObject, KInputObject | Some KSubscription, KSubscription => true
    | _, _ => false
    end.
  (* IsOutputType / IsInputType on the named type (3.4.2); Upload is an input-only scalar *)
  Definition is_output_name (n : name) : bool :=
    match spec_lookup n with
    | Some DUpload => false
    | Some d => match kind_of_def d with
                | KScalar | KEnum | KObject | KInterface | KUnion => true
                | _ => false end
    | None => false
    end.
  Definition is_input_name (n : name) : bool :=
    match kind_of n with
    | Some KScalar | Some KEnum | Some KInputObject => true
    | _ => false
    end.

  (* 3.3.1 root operation types: "exist and are objects" *)
  Definition spec_roots : bool :=
    has_kind KObject (ts_query ts) &&
    match ts_mutation ts with Some m => has_kind KObject m | None => true end &&
    match ts_subscription ts with Some s => has_kind KSubscription s | None => true end.

  (* 3.6 rule 2.3 / 2.4.2: field types are output types, argument types input types *)
  Definition spec_args (l : list arg) : bool := forallb (fun a => is_input_name (type_name (a_ty a))) l.
  Definition spec_fields (fs : list fld) : bool :=
    forallb (fun f => is_output_name (type_name (f_ty f)) && spec_args (f_args f)) fs.

  (* the declared interfaces of an object or interface type *)
  Definition declared (n : name) : list name :=
    match spec_lookup n with
    | Some (DObject _ i) | Some (DInterface _ i) => i
    | _ => []
    end.
  Definition union_members (n : name) : list name :=
    match spec_lookup n with Some (DUnion ms) => ms | _ => [] end.

  (* IsValidImplementationFieldType(fieldType, implementedFieldType) *)
  Fixpoint spec_field_type_ok (ft it : tref) {struct ft} : bool :=
    match ft with
    | TNonNull f' => spec_field_type_ok f' (match it with TNonNull i' => i' | _ => it end)
    | TList f' => match it with TList i' => spec_field_type_ok f' i' | _ => false end
    | TNamed a =>
        match it with
        | TNamed b =>
            name_eqb a b ||
            (has_kind KObject a && has_kind KUnion b && mem a (union_members b)) ||
            ((has_kind KObject a || has_kind KInterface a) && has_kind KInterface b && mem b (declared a))
        | _ => false
        end
    end.

  (* "an argument is required if its type is non-null and it has no default" *)
  Definition required (a : arg) : bool := negb (is_nullable (a_ty a)) && negb (a_default a).

  (* IsValidImplementation(type, implementedType), steps 1 and 2 *)
  Definition spec_valid_impl_field (my_fields : list fld) (f : fld) : bool :=
    match find_fld (f_name f) my_fields with
    | None => false
    | Some mf =>
        forallb (fun a => match find_arg (a_name a) (f_args mf) with
                          | Some ma => tref_eqb (a_ty ma) (a_ty a)
                          | None => false end) (f_args f) &&
        forallb (fun ma => match find_arg (a_name ma) (f_args f) with
                           | Some _ => true
                           | None => negb (required ma) end) (f_args mf) &&
        spec_field_type_ok (f_ty mf) (f_ty f)
    end.
  Definition spec_valid_impl (my_fields : list fld) (my_impls : list name) (i : name) : bool :=
    match spec_lookup i with
    | Some (DInterface ifs iimpls) =>
        forallb (fun j => mem j my_impls) iimpls &&
        forallb (spec_valid_impl_field my_fields) ifs
    | _ => false      (* only interface types that exist can be implemented *)
    end.
  Definition spec_implements (my_fields : list fld) (my_impls : list name) : bool :=
    forallb (spec_valid_impl my_fields my_impls) my_impls.

  (* 3.10 circular references: a chain of non-null singular input-object
     fields must not lead back to its start.  [req_succ n]: the input objects
     that [n] references through a field of type exactly `T!`. *)
  Definition succ_of (fs : list arg) : list name :=
    flat_map (fun f => match a_ty f with
                       | TNonNull (TNamed m) => if has_kind KInputObject m then [m] else []
                       | _ => [] end) fs.
  Definition req_succ (n : name) : list name :=
    match spec_lookup n with
    | Some (DInput fs _) => succ_of fs
    | _ => []
    end.
  (* some walk of at most [S k] steps from [x] ends in [target] *)
  Fixpoint req_reaches (k : nat) (target x : name) : bool :=
    existsb (fun y => name_eqb y target ||
                      match k with O => false | S k' => req_reaches k' target y end) (req_succ x).
  Definition spec_input_names : list name :=
    map fst (filter (fun nd => match snd nd with DInput _ _ => true | _ => false end) (all_types ts)).
  Definition spec_acyclic (n : name) : bool :=
    negb (req_reaches (length spec_input_names) n n).

  (* the named rules, per registered type *)
  Definition spec_type (nd : name * tdef) : bool :=
    match snd nd with
    | DObject fs impls => spec_fields fs && spec_implements fs impls
    | DInterface fs impls => spec_fields fs && negb (mem (fst nd) impls) && spec_implements fs impls
    | DUnion ms => forallb (has_kind KObject) ms
    | DInput fs _ => spec_args fs && spec_acyclic (fst nd)
    | DSubscription fs => spec_fields fs
    | DScalar | DEnum | DUpload => true
    end.

  (* The rules the property text names: roots exist and are objects; every
     field has an output type and every argument (and input field) an input
     type; implementations provide every interface field with a compatible
     type and arguments; union members are objects; required input fields do
     not form a cycle. *)
  Definition spec_named : bool := spec_roots && forallb spec_type (ts_types ts).

  (* Further type-validation rules of the specification that check.rs also
     enforces (the property text does not name them; they are hypotheses of
     the completeness direction only): type names are unique (here: no
     registered type is called like a built-in scalar), an Object type defines
     at least one field, names of object / interface fields, their arguments
     and input fields do not begin with "__", and the OneOf input object
     rules (nullable fields without defaults). *)
  Definition extra_args (l : list arg) : bool := forallb (fun a => negb (dunder (a_name a))) l.
  Definition extra_fields (fs : list fld) : bool :=
    forallb (fun f => negb (dunder (f_name f)) && extra_args (f_args f)) fs.
  Definition extra_def (d : tdef) : bool :=
    match d with
    | DObject fs _ => match fs with [] => false | _ => true end && extra_fields fs
    | DInterface fs _ => extra_fields fs
    | DInput fs oneof =>
        extra_args fs &&
        (if oneof then forallb (fun a => is_nullable (a_ty a) && negb (a_default a)) fs else true)
    | _ => true
    end.
  Definition extra_type (nd : name * tdef) : bool :=
    negb (mem (fst nd) builtin_scalars) && extra_def (snd nd).
  Definition spec_extra : bool := forallb extra_type (ts_types ts).

  Definition spec_valid : bool := spec_named && spec_extra.

  (* -------------------------------------------------------- known classes -- *)
  (* all `!` removed *)
  Fixpoint erase (t : tref) : tref :=
    match t with
    | TNamed n => TNamed n
    | TNonNull t => erase t
    | TList t => TList (erase t)
    end.

  (* classes of one (implementing field, interface field) pair *)
  Definition kc_pair (mf f : fld) : N :=
    if negb (tref_eqb (f_ty mf) (f_ty f)) && tref_eqb (erase (f_ty mf)) (erase (f_ty f)) then 1
    else if negb (tref_eqb (erase (f_ty mf)) (erase (f_ty f))) && spec_field_type_ok (f_ty mf) (f_ty f) then 2
    else if existsb (fun a => match find_arg (a_name a) (f_args mf) with
                              | Some ma => negb (tref_eqb (a_ty ma) (a_ty a)) &&
                                           tref_eqb (erase (a_ty ma)) (erase (a_ty a))
                              | None => false end) (f_args f) then 3
    else if existsb (fun ma => match find_arg (a_name ma) (f_args f) with
                               | Some _ => false | None => required ma end) (f_args mf) then 4
    else if existsb (fun a => match find_arg (a_name a) (f_args mf) with
                              | Some _ => false | None => is_nullable (a_ty a) end) (f_args f) then 5
    else 0.

  Fixpoint first_nz {A} (f : A -> N) (l : list A) : N :=
    match l with
    | [] => 0
    | x :: l' => if N.eqb (f x) 0 then first_nz f l' else f x
    end.

  (* classes of one `T implements I` declaration *)
  Definition kc_decl (my_fields : list fld) (my_impls : list name) (i : name) : N :=
    match lookup i with
    | Some (DInterface ifs iimpls) =>
        if negb (forallb (fun j => mem j my_impls) iimpls) then 8
        else first_nz (fun f => match find_fld (f_name f) my_fields with
                                | Some mf => kc_pair mf f
                                | None => 0 end) ifs
    | _ => 0
    end.

  Definition kc_type (nd : name * tdef) : N :=
    match snd nd with
    | DObject fs impls => first_nz (kc_decl fs impls) impls
    | DInterface fs impls =>
        match fs, impls with
        | [], _ :: _ => 6
        | _, _ =>
            if existsb (fun i => match lookup i with None => true | Some _ => false end) impls then 7
            else first_nz (kc_decl fs impls) impls
        end
    | DSubscription fs => if spec_fields fs then 0 else 10
    | _ => 0
    end.

  (* 1 covariance tested in the wrong direction; 2 covariance on named types
     unsupported; 3 argument types compared with is_subtype; 4 extra required
     argument accepted; 5 missing nullable argument accepted; 6 interface
     without fields skips its own checks; 7 interface implements an
     unregistered type; 8 transitively implemented interface not declared;
     9 subscription root need not be registered; 10 subscription fields and
     arguments are not checked for output / input types. *)
  Definition known_class : N :=
    match ts_subscription ts with
    | Some s => match lookup s with None => 9 | Some _ => 0 end
    | None => 0
    end.
  Definition known_class_all : N :=
    if N.eqb known_class 0 then first_nz kc_type (ts_types ts) else known_class.
End Check.

(* ------------------------------------------------------------- verdict ---- *)
Inductive impl_res :=
| IBuilt                      (* finish() = Ok and introspection, SDL export, queries ran *)
| IErr (code : N)             (* finish() = Err, classified by its message *)
| IPanicLater (stage : N)     (* built, then a later API call panicked *)
| IPanicBuild.                (* finish() panicked *)

Definition impl_eq_model (i : impl_res) (m : outcome unit) : bool :=
  match i, m with
  | IBuilt, Ok _ => true
  | IErr c, Err c' => N.eqb c c'
  | _, _ => false
  end.

(* the specification: builds exactly when valid, and what builds never panics *)
Definition impl_sat_spec (ts : tsys) (i : impl_res) : bool :=
  match i with
  | IBuilt => spec_valid ts
  | IErr _ => negb (spec_valid ts)
  | _ => false
  end.

Definition check_case (c : tsys * impl_res) : N :=
  let '(ts, i) := c in
  let m := finish ts in
  verdict (impl_eq_model i m) (Bool.eqb (okb m) (spec_valid ts)) (impl_sat_spec ts i) (known_class_all ts).

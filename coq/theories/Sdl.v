(* Sdl.v — C17: exported SDL is valid and describes exactly the schema.
   impl model : Registry::export_sdl (src/registry/export_sdl.rs) with
                federation off: export_type, export_fields, write_input_value,
                write_description, write_deprecated + escape_string (table and
                formats regenerated from the source, SdlEscGen), write_implements,
                MetaDirective::sdl / argument_sdl, MetaDirectiveInvocation::sdl
                (src/registry/mod.rs); default values and directive arguments
                printed with Display for ConstValue (ValueText.display).
   spec       : a reader for the type-system subset of the GraphQL grammar
                (scalar / type / interface / union / enum / input / directive /
                schema definitions, descriptions as quoted or block strings,
                argument definitions with default values, applied directives),
                written from the grammar, and two abstraction functions
                abs_registry / abs_sdl into one plain type-system record.
   No proofs here (SdlProofs.v). *)
From AG Require Export Base ValueText.
From AGgen Require Export SdlEscGen.
From Coq Require String Ascii.
Import Coq.Strings.String.StringSyntax.
Delimit Scope string_scope with string.
Open Scope N_scope.

Definition lit (x : String.string) : str :=
  map (fun a => N.of_nat (Ascii.nat_of_ascii a)) (String.list_ascii_of_string x).
Arguments lit x%string.

(* ---------------------------------------------------------------- registry -- *)
Inductive depr := NoDepr | Depr (reason : option str).
Inductive dinv := DInv (name : str) (args : list (str * cval)).
Inductive minput :=
  MInputV (name : str) (desc : option str) (ty : str) (default : option cval) (d : depr) (dirs : list dinv).
Inductive mfield :=
  MField (name : str) (desc : option str) (args : list minput) (ty : str) (d : depr) (dirs : list dinv).
Inductive menumv := MEnumV (name : str) (desc : option str) (d : depr) (dirs : list dinv).
Inductive mtype :=
| MScalar (name : str) (desc : option str) (url : option str) (dirs : list dinv)
| MObject (name : str) (desc : option str) (fields : list mfield) (dirs : list dinv)
| MInterface (name : str) (desc : option str) (fields : list mfield) (dirs : list dinv)
| MUnion (name : str) (desc : option str) (possible : list str) (dirs : list dinv)
| MEnum (name : str) (desc : option str) (values : list menumv) (dirs : list dinv)
| MInputObj (name : str) (desc : option str) (fields : list minput) (oneof : bool) (dirs : list dinv).
Inductive mdirective :=
  MDirective (name : str) (desc : option str) (locs : list str) (args : list minput) (rep : bool).

Record registry := {
  r_types : list mtype;                 (* BTreeMap: in name order *)
  r_dirs : list mdirective;             (* BTreeMap: in name order *)
  r_impl : list (str * list str);       (* HashMap<String, IndexSet<String>> *)
  r_query : str;
  r_mutation : option str;
  r_subscription : option str }.

Record opts := {
  o_sorted_fields : bool; o_sorted_args : bool; o_sorted_enum : bool;
  o_single_line : bool; o_specified_by : bool; o_space : bool; o_width : N }.

Definition iv_name (i : minput) := let '(MInputV n _ _ _ _ _) := i in n.
Definition f_name (f : mfield) := let '(MField n _ _ _ _ _) := f in n.
Definition ev_name (v : menumv) := let '(MEnumV n _ _ _) := v in n.
Definition t_name (t : mtype) : str :=
  match t with
  | MScalar n _ _ _ | MObject n _ _ _ | MInterface n _ _ _ | MUnion n _ _ _ | MEnum n _ _ _ | MInputObj n _ _ _ _ => n
  end.

(* ------------------------------------------------------------ impl: pieces -- *)
Fixpoint str_leb (a b : str) : bool :=
  match a, b with
  | [], _ => true
  | _ :: _, [] => false
  | x :: a', y :: b' => if x <? y then true else if y <? x then false else str_leb a' b'
  end.

(* slice::sort_by_key (stable) *)
Section Sort.
  Context {A : Type} (key : A -> str).
  Fixpoint insert_by (x : A) (l : list A) : list A :=
    match l with
    | [] => [x]
    | y :: l' => if str_leb (key x) (key y) then x :: l else y :: insert_by x l'
    end.
  Fixpoint sort_by (l : list A) : list A :=
    match l with [] => [] | x :: l' => insert_by x (sort_by l') end.
End Sort.

Fixpoint join (sep : str) (l : list str) : str :=
  match l with
  | [] => []
  | [x] => x
  | x :: r => x ++ sep ++ join sep r
  end.

Definition tab (o : opts) : str := if o_space o then repeat 32 (N.to_nat (o_width o)) else [9].
Fixpoint tabs (o : opts) (level : nat) : str :=
  match level with O => [] | S l => tab o ++ tabs o l end.

Definition replace_char (c : cp) (by_ : str) (s : str) : str :=
  flat_map (fun x => if x =? c then by_ else [x]) s.
Definition contains (c : cp) (s : str) : bool := existsb (N.eqb c) s.

Definition single_line_form (o : opts) (d : str) : bool :=
  o_single_line o && negb (contains desc_single_excl_gen d).

(* write_description *)
Definition write_description (o : opts) (level : nat) (d : str) : str :=
  let t := tabs o level in
  if single_line_form o d then
    t ++ desc_single_delim_gen ++ replace_char desc_single_from_gen desc_single_to_gen d
      ++ desc_single_delim_gen ++ [10]
  else
    t ++ desc_block_delim_gen ++ [10] ++ t ++ replace_char desc_block_from_gen (desc_block_from_gen :: t) d
      ++ [10] ++ t ++ desc_block_delim_gen ++ [10].

Definition write_odesc (o : opts) (level : nat) (d : option str) : str :=
  match d with Some d => write_description o level d | None => [] end.

(* escape_string: the listed characters are replaced; with the guarded arm
   present, every other control character is written through its \u format *)
Definition escape_u (c : cp) : str :=
  sdl_escape_u_prefix_gen ++
  pad0 sdl_escape_u_width_gen
       (map (digit_char sdl_escape_u_upper_gen) (rev (digits_rev 32 sdl_escape_u_radix_gen c))).
Definition escape_char (c : cp) : str :=
  match nassoc c sdl_escape_table_gen with
  | Some r => r
  | None => if sdl_escape_ctrl_gen && is_control c then escape_u c else [c]
  end.
Definition escape_string (s : str) : str := flat_map escape_char s.

(* write_deprecated *)
Definition write_deprecated (d : depr) : str :=
  match d with
  | NoDepr => []
  | Depr None => depr_bare_gen
  | Depr (Some r) => depr_open_gen ++ escape_string r ++ depr_close_gen
  end.

(* MetaDirectiveInvocation::sdl *)
Definition arg_sdl (a : str * cval) : str := fst a ++ lit ": " ++ display (snd a).
Definition dinv_sdl (d : dinv) : str :=
  let '(DInv n args) := d in
  64 :: n ++ match args with [] => [] | _ => 40 :: join (lit ", ") (map arg_sdl args) ++ [41] end.
(* for directive in ..: write!(sdl, " {}", directive.sdl()) *)
Definition write_dirs (ds : list dinv) : str := flat_map (fun d => 32 :: dinv_sdl d) ds.

Definition write_default (d : option cval) : str :=
  match d with Some v => lit " = " ++ display v | None => [] end.

(* write_input_value *)
Definition write_input_value (i : minput) : str :=
  let '(MInputV n _ ty def dep _) := i in
  n ++ lit ": " ++ ty ++ write_default def ++ write_deprecated dep.

Definition iv_desc (i : minput) := let '(MInputV _ d _ _ _ _) := i in d.
Definition iv_dirs (i : minput) := let '(MInputV _ _ _ _ _ ds) := i in ds.

(* the argument loop of export_fields; [first] = (i == 0) *)
Fixpoint write_args (o : opts) (multi : bool) (first : bool) (args : list minput) : str :=
  match args with
  | [] => []
  | a :: r =>
      (if first then [] else [44]) ++
      (match iv_desc a with Some d => 10 :: write_description o 2 d | None => [] end) ++
      (if multi then tab o ++ tab o else if first then [] else [32]) ++
      write_input_value a ++ write_dirs (iv_dirs a) ++
      write_args o multi false r
  end.

Definition has_desc (i : minput) : bool := match iv_desc i with Some _ => true | None => false end.

Definition hidden (n : str) : bool :=
  match starts_with [95; 95] n with Some _ => true | None => false end.

Definition write_field (o : opts) (f : mfield) : str :=
  let '(MField n d args ty dep ds) := f in
  if hidden n then []
  else
    write_odesc o 1 d ++
    (match args with
     | [] => tab o ++ n ++ lit ": " ++ ty
     | _ =>
         let args := if o_sorted_args o then sort_by iv_name args else args in
         let multi := existsb has_desc args in
         tab o ++ n ++ [40] ++ write_args o multi true args ++
         (if multi then 10 :: tab o else []) ++ lit "): " ++ ty
     end) ++
    write_deprecated dep ++ write_dirs ds ++ [10].

(* export_fields *)
Definition export_fields (o : opts) (fs : list mfield) : str :=
  flat_map (write_field o) (if o_sorted_fields o then sort_by f_name fs else fs).

(* write_implements *)
Definition write_implements (R : registry) (n : str) : str :=
  match sassoc n (r_impl R) with
  | Some (x :: l) => lit " implements " ++ join (lit " & ") (x :: l)
  | _ => []
  end.

Definition write_enum_value (o : opts) (v : menumv) : str :=
  let '(MEnumV n d dep ds) := v in
  write_odesc o 1 d ++ tab o ++ n ++ write_deprecated dep ++ write_dirs ds ++ [10].

Definition write_input_field (o : opts) (i : minput) : str :=
  write_odesc o 1 (iv_desc i) ++ tab o ++ write_input_value i ++ write_dirs (iv_dirs i) ++ [10].

Definition system_scalars : list str := [lit "Int"; lit "Float"; lit "String"; lit "Boolean"; lit "ID"].
Definition smem (n : str) (l : list str) : bool := existsb (str_eqb n) l.

Definition quote_only (s : str) : str := replace_char 34 [92; 34] s.

Fixpoint write_members (first : bool) (l : list str) : str :=
  match l with
  | [] => []
  | x :: r => (if first then [32] else lit " | ") ++ x ++ write_members false r
  end.

(* export_type *)
Definition export_type (o : opts) (R : registry) (t : mtype) : str :=
  match t with
  | MScalar n d url ds =>
      if smem n system_scalars then []
      else
        write_odesc o 0 d ++ lit "scalar " ++ n ++
        (match url with
         | Some u => if o_specified_by o then lit " @specifiedBy(url: """ ++ quote_only u ++ lit """)" else []
         | None => []
         end) ++
        write_dirs ds ++ [10; 10]
  | MObject n d fs ds =>
      write_odesc o 0 d ++ lit "type " ++ n ++ write_implements R n ++ write_dirs ds ++
      lit " {" ++ [10] ++ export_fields o fs ++ lit "}" ++ [10; 10]
  | MInterface n d fs ds =>
      write_odesc o 0 d ++ lit "interface " ++ n ++ write_dirs ds ++ write_implements R n ++
      lit " {" ++ [10] ++ export_fields o fs ++ lit "}" ++ [10; 10]
  | MEnum n d vs ds =>
      write_odesc o 0 d ++ lit "enum " ++ n ++ write_dirs ds ++ lit " {" ++ [10] ++
      flat_map (write_enum_value o) (if o_sorted_enum o then sort_by ev_name vs else vs) ++
      lit "}" ++ [10; 10]
  | MInputObj n d fs oneof ds =>
      write_odesc o 0 d ++ lit "input " ++ n ++ (if oneof then lit " @oneOf" else []) ++ write_dirs ds ++
      lit " {" ++ [10] ++
      flat_map (write_input_field o) (if o_sorted_fields o then sort_by iv_name fs else fs) ++
      lit "}" ++ [10; 10]
  | MUnion n d ps ds =>
      write_odesc o 0 d ++ lit "union " ++ n ++ write_dirs ds ++ lit " =" ++ write_members true ps ++ [10; 10]
  end.

(* MetaDirective::argument_sdl *)
Definition argument_sdl (i : minput) : str :=
  let '(MInputV n _ ty def _ _) := i in n ++ lit ": " ++ ty ++ write_default def.

(* MetaDirective::sdl followed by the newline of writeln! *)
Definition directive_sdl (o : opts) (d : mdirective) : str :=
  let '(MDirective n desc locs args rep) := d in
  write_odesc o 0 desc ++ lit "directive @" ++ n ++
  (match args with [] => [] | _ => 40 :: join (lit ", ") (map argument_sdl args) ++ [41] end) ++
  (if rep then lit " repeatable" else []) ++ lit " on " ++ join (lit " | ") locs ++ [10].

Definition f_depr (f : mfield) : bool := match f with MField _ _ _ _ (Depr _) _ => true | _ => false end.
Definition ev_depr (v : menumv) : bool := match v with MEnumV _ _ (Depr _) _ => true | _ => false end.

Definition uses_deprecated (R : registry) : bool :=
  existsb (fun t => match t with
                    | MObject _ _ fs _ => existsb f_depr fs
                    | MEnum _ _ vs _ => existsb ev_depr vs
                    | _ => false
                    end) (r_types R).
Definition uses_specified_by (R : registry) : bool :=
  existsb (fun t => match t with MScalar _ _ (Some _) _ => true | _ => false end) (r_types R).
Definition uses_oneof (R : registry) : bool :=
  existsb (fun t => match t with MInputObj _ _ _ true _ => true | _ => false end) (r_types R).

Definition d_name (d : mdirective) := let '(MDirective n _ _ _ _) := d in n.

Definition directive_shown (R : registry) (d : mdirective) : bool :=
  let n := d_name d in
  negb ((str_eqb n (lit "deprecated") && negb (uses_deprecated R)) ||
        (str_eqb n (lit "specifiedBy") && negb (uses_specified_by R)) ||
        (str_eqb n (lit "oneOf") && negb (uses_oneof R))).

Definition schema_block (o : opts) (R : registry) : str :=
  lit "schema {" ++ [10] ++
  tab o ++ lit "query: " ++ r_query R ++ [10] ++
  (match r_mutation R with Some m => tab o ++ lit "mutation: " ++ m ++ [10] | None => [] end) ++
  (match r_subscription R with Some m => tab o ++ lit "subscription: " ++ m ++ [10] | None => [] end) ++
  lit "}" ++ [10].

(* Registry::export_sdl, federation off *)
Definition export_sdl (o : opts) (R : registry) : str :=
  flat_map (fun t => if hidden (t_name t) then [] else export_type o R t) (r_types R) ++
  flat_map (fun d => if directive_shown R d then directive_sdl o d else []) (r_dirs R) ++
  schema_block o R.

(* ============================================================ spec: reader == *)
Inductive gty := GNamed (n : str) | GList (t : gty) | GNonNull (t : gty).

Inductive r_input := RInput (desc : option str) (name : str) (ty : gty) (default : option cval) (dirs : list dinv).
Inductive r_field := RField (desc : option str) (name : str) (args : list r_input) (ty : gty) (dirs : list dinv).
Inductive r_enumv := REnumV (desc : option str) (name : str) (dirs : list dinv).
Inductive r_kind :=
| RScalar
| RObject (impl : list str) (fs : list r_field)
| RInterface (impl : list str) (fs : list r_field)
| RUnion (ms : list str)
| REnum (vs : list r_enumv)
| RInputObj (fs : list r_input).
Inductive r_def :=
| RType (desc : option str) (name : str) (dirs : list dinv) (k : r_kind)
| RDirective (desc : option str) (name : str) (args : list r_input) (rep : bool) (locs : list str)
| RSchema (dirs : list dinv) (ops : list (str * str)).

(* ---- tokens ---- *)
Definition p_name (s : str) : option (str * str) :=
  match skip_ign s with
  | c :: t => if is_name_start c then Some (span is_name_char (c :: t)) else None
  | [] => None
  end.

Definition p_char (c : cp) (s : str) : option str :=
  match skip_ign s with
  | x :: t => if x =? c then Some t else None
  | [] => None
  end.

Definition peek (s : str) : option cp :=
  match skip_ign s with x :: _ => Some x | [] => None end.

Definition peek_is (c : cp) (s : str) : bool :=
  match peek s with Some x => x =? c | None => false end.

(* the next token is the name [k] *)
Definition p_kw (k : str) (s : str) : option str :=
  match p_name s with
  | Some (n, r) => if str_eqb n k then Some r else None
  | None => None
  end.

(* ---- block strings (spec 2.9.4) ---- *)
(* raw characters up to the closing delimiter; \""" stands for """ *)
Fixpoint read_block (n : nat) (s : str) : option (str * str) :=
  match n with
  | O => None
  | S n' =>
    match s with
    | [] => None
    | c :: t =>
        if c =? 92 then
          match starts_with [34; 34; 34] t with
          | Some t' => match read_block n' t' with Some (r, rest) => Some (34 :: 34 :: 34 :: r, rest) | None => None end
          | None => match read_block n' t with Some (r, rest) => Some (c :: r, rest) | None => None end
          end
        else if c =? 34 then
          match starts_with [34; 34] t with
          | Some t' => Some ([], t')
          | None => match read_block n' t with Some (r, rest) => Some (c :: r, rest) | None => None end
          end
        else match read_block n' t with Some (r, rest) => Some (c :: r, rest) | None => None end
    end
  end.

(* LineTerminator: LF, CR LF, CR *)
Fixpoint split_lines (s : str) : list str :=
  match s with
  | [] => [[]]
  | c :: t =>
      if c =? 10 then [] :: split_lines t
      else if c =? 13 then
        [] :: match t with
              | x :: t' => if x =? 10 then split_lines t' else split_lines t
              | [] => split_lines t
              end
      else match split_lines t with
           | l :: ls => (c :: l) :: ls
           | [] => [[c]]
           end
  end.

Definition is_blank_ws (c : cp) : bool := (c =? 32) || (c =? 9).
Fixpoint indent_of (l : str) : nat :=
  match l with c :: t => if is_blank_ws c then S (indent_of t) else O | [] => O end.
Definition blank (l : str) : bool := forallb is_blank_ws l.

Fixpoint common_indent (ls : list str) : option nat :=
  match ls with
  | [] => None
  | l :: r =>
      let rest := common_indent r in
      if blank l then rest
      else match rest with
           | Some m => Some (Nat.min (indent_of l) m)
           | None => Some (indent_of l)
           end
  end.

Fixpoint drop_blank (ls : list str) : list str :=
  match ls with l :: r => if blank l then drop_blank r else ls | [] => [] end.

(* BlockStringValue(rawValue) *)
Definition block_value (raw : str) : str :=
  let lines := split_lines raw in
  let lines' :=
    match lines with
    | l0 :: r => match common_indent r with
                 | Some ci => l0 :: map (skipn ci) r
                 | None => lines
                 end
    | [] => []
    end in
  join [10] (rev (drop_blank (rev (drop_blank lines')))).

(* StringValue, quoted or block *)
Definition p_string (s : str) : option (str * str) :=
  match skip_ign s with
  | c :: t =>
      if c =? 34 then
        match starts_with [34; 34] t with
        | Some t' => match read_block (S (length t')) t' with
                     | Some (raw, rest) => Some (block_value raw, rest)
                     | None => None
                     end
        | None => read_chars t []
        end
      else None
  | [] => None
  end.

(* Description? *)
Definition p_desc (s : str) : option (option str * str) :=
  if peek_is 34 s then
    match p_string s with Some (d, r) => Some (Some d, r) | None => None end
  else Some (None, s).

Section Reader.
  Variable F : nat.   (* loop bound: the length of the text *)

  (* Type: NamedType | [Type] | Type! *)
  Definition p_bang (ty : gty) (r : str) : gty * str :=
    match skip_ign r with
    | c :: t => if c =? 33 then (GNonNull ty, t) else (ty, r)
    | [] => (ty, r)
    end.

  Fixpoint p_type (n : nat) (s : str) : option (gty * str) :=
    match n with
    | O => None
    | S n' =>
      match skip_ign s with
      | c :: t =>
          if c =? 91 then
            match p_type n' t with
            | Some (ty, r) => match p_char 93 r with Some r' => Some (p_bang (GList ty) r') | None => None end
            | None => None
            end
          else match p_name (c :: t) with
               | Some (nm, r) => Some (p_bang (GNamed nm) r)
               | None => None
               end
      | [] => None
      end
    end.

  Definition p_value (s : str) : option (cval * str) := pval false (fun t => t) F s.

  (* Argument+ up to ")" *)
  Fixpoint p_cargs (k : nat) (s : str) : option (list (str * cval) * str) :=
    match k with
    | O => None
    | S k' =>
      match p_name s with
      | Some (n, r1) =>
        match p_char 58 r1 with
        | Some r2 =>
          match p_value r2 with
          | Some (v, r3) =>
              if peek_is 41 r3 then
                match p_char 41 r3 with Some r4 => Some ([(n, v)], r4) | None => None end
              else match p_cargs k' r3 with
                   | Some (l, r4) => Some ((n, v) :: l, r4)
                   | None => None
                   end
          | None => None
          end
        | None => None
        end
      | None => None
      end
    end.

  (* Directives[Const]? *)
  Fixpoint p_dirs (k : nat) (s : str) : option (list dinv * str) :=
    match k with
    | O => None
    | S k' =>
      if peek_is 64 s then
        match p_char 64 s with
        | Some r0 =>
          match p_name r0 with
          | Some (n, r1) =>
            let after args r := match p_dirs k' r with Some (l, r') => Some (DInv n args :: l, r') | None => None end in
            if peek_is 40 r1 then
              match p_char 40 r1 with
              | Some r2 => match p_cargs F r2 with Some (args, r3) => after args r3 | None => None end
              | None => None
              end
            else after [] r1
          | None => None
          end
        | None => None
        end
      else Some ([], s)
    end.

  (* InputValueDefinition: Description? Name : Type DefaultValue? Directives? *)
  Definition p_input (s : str) : option (r_input * str) :=
    match p_desc s with
    | Some (d, r0) =>
      match p_name r0 with
      | Some (n, r1) =>
        match p_char 58 r1 with
        | Some r2 =>
          match p_type F r2 with
          | Some (ty, r3) =>
            let k def r :=
              match p_dirs F r with
              | Some (ds, r') => Some (RInput d n ty def ds, r')
              | None => None
              end in
            if peek_is 61 r3 then
              match p_char 61 r3 with
              | Some r4 => match p_value r4 with Some (v, r5) => k (Some v) r5 | None => None end
              | None => None
              end
            else k None r3
          | None => None
          end
        | None => None
        end
      | None => None
      end
    | None => None
    end.

  (* InputValueDefinition+ up to the closing character [close] *)
  Fixpoint p_inputs (close : cp) (k : nat) (s : str) : option (list r_input * str) :=
    match k with
    | O => None
    | S k' =>
      match p_input s with
      | Some (i, r) =>
          if peek_is close r then
            match p_char close r with Some r' => Some ([i], r') | None => None end
          else match p_inputs close k' r with
               | Some (l, r') => Some (i :: l, r')
               | None => None
               end
      | None => None
      end
    end.

  (* FieldDefinition: Description? Name ArgumentsDefinition? : Type Directives? *)
  Definition p_field (s : str) : option (r_field * str) :=
    match p_desc s with
    | Some (d, r0) =>
      match p_name r0 with
      | Some (n, r1) =>
        let k args r :=
          match p_char 58 r with
          | Some r2 =>
            match p_type F r2 with
            | Some (ty, r3) =>
              match p_dirs F r3 with
              | Some (ds, r4) => Some (RField d n args ty ds, r4)
              | None => None
              end
            | None => None
            end
          | None => None
          end in
        if peek_is 40 r1 then
          match p_char 40 r1 with
          | Some r2 => match p_inputs 41 F r2 with Some (args, r3) => k args r3 | None => None end
          | None => None
          end
        else k [] r1
      | None => None
      end
    | None => None
    end.

  (* FieldDefinition+ up to "}" *)
  Fixpoint p_fields (k : nat) (s : str) : option (list r_field * str) :=
    match k with
    | O => None
    | S k' =>
      match p_field s with
      | Some (f, r) =>
          if peek_is 125 r then
            match p_char 125 r with Some r' => Some ([f], r') | None => None end
          else match p_fields k' r with
               | Some (l, r') => Some (f :: l, r')
               | None => None
               end
      | None => None
      end
    end.

  (* EnumValueDefinition+ up to "}" *)
  Fixpoint p_enumvs (k : nat) (s : str) : option (list r_enumv * str) :=
    match k with
    | O => None
    | S k' =>
      match p_desc s with
      | Some (d, r0) =>
        match p_name r0 with
        | Some (n, r1) =>
          if is_keyword n then None
          else
          match p_dirs F r1 with
          | Some (ds, r2) =>
              if peek_is 125 r2 then
                match p_char 125 r2 with Some r' => Some ([REnumV d n ds], r') | None => None end
              else match p_enumvs k' r2 with
                   | Some (l, r') => Some (REnumV d n ds :: l, r')
                   | None => None
                   end
          | None => None
          end
        | None => None
        end
      | None => None
      end
    end.

  (* Name (sep Name)* ; an optional leading separator is allowed by the grammar *)
  Fixpoint p_names_sep (sep : cp) (k : nat) (s : str) : option (list str * str) :=
    match k with
    | O => None
    | S k' =>
      match p_name s with
      | Some (n, r) =>
          if peek_is sep r then
            match p_char sep r with
            | Some r1 => match p_names_sep sep k' r1 with Some (l, r2) => Some (n :: l, r2) | None => None end
            | None => None
            end
          else Some ([n], r)
      | None => None
      end
    end.

  Definition p_names_lead (sep : cp) (s : str) : option (list str * str) :=
    if peek_is sep s then
      match p_char sep s with Some r => p_names_sep sep F r | None => None end
    else p_names_sep sep F s.

  (* ImplementsInterfaces? *)
  Definition p_implements (s : str) : option (list str * str) :=
    match p_kw (lit "implements") s with
    | Some r => p_names_lead 38 r
    | None => Some ([], s)
    end.

  (* the definitions whose bodies are optional: "{" ... "}" or nothing *)
  Definition p_obj_body (s : str) : option (list r_field * str) :=
    if peek_is 123 s then
      match p_char 123 s with Some r => p_fields F r | None => None end
    else Some ([], s).

  Definition p_root_ops : nat -> str -> option (list (str * str) * str) :=
    fix go (k : nat) (s : str) :=
      match k with
      | O => None
      | S k' =>
        match p_name s with
        | Some (n, r1) =>
          match p_char 58 r1 with
          | Some r2 =>
            match p_name r2 with
            | Some (t, r3) =>
                if peek_is 125 r3 then
                  match p_char 125 r3 with Some r' => Some ([(n, t)], r') | None => None end
                else match go k' r3 with Some (l, r') => Some ((n, t) :: l, r') | None => None end
            | None => None
            end
          | None => None
          end
        | None => None
        end
      end.

  (* one TypeSystemDefinition *)
  Definition p_def (s : str) : option (r_def * str) :=
    match p_desc s with
    | None => None
    | Some (d, r0) =>
      match p_name r0 with
      | None => None
      | Some (kw, r1) =>
        if str_eqb kw (lit "scalar") then
          match p_name r1 with
          | Some (n, r2) => match p_dirs F r2 with Some (ds, r3) => Some (RType d n ds RScalar, r3) | None => None end
          | None => None
          end
        else if str_eqb kw (lit "type") || str_eqb kw (lit "interface") then
          match p_name r1 with
          | Some (n, r2) =>
            match p_implements r2 with
            | Some (im, r3) =>
              match p_dirs F r3 with
              | Some (ds, r4) =>
                match p_obj_body r4 with
                | Some (fs, r5) =>
                    Some (RType d n ds (if str_eqb kw (lit "type") then RObject im fs else RInterface im fs), r5)
                | None => None
                end
              | None => None
              end
            | None => None
            end
          | None => None
          end
        else if str_eqb kw (lit "union") then
          match p_name r1 with
          | Some (n, r2) =>
            match p_dirs F r2 with
            | Some (ds, r3) =>
                if peek_is 61 r3 then
                  match p_char 61 r3 with
                  | Some r4 => match p_names_lead 124 r4 with
                               | Some (ms, r5) => Some (RType d n ds (RUnion ms), r5)
                               | None => None
                               end
                  | None => None
                  end
                else Some (RType d n ds (RUnion []), r3)
            | None => None
            end
          | None => None
          end
        else if str_eqb kw (lit "enum") then
          match p_name r1 with
          | Some (n, r2) =>
            match p_dirs F r2 with
            | Some (ds, r3) =>
                if peek_is 123 r3 then
                  match p_char 123 r3 with
                  | Some r4 => match p_enumvs F r4 with
                               | Some (vs, r5) => Some (RType d n ds (REnum vs), r5)
                               | None => None
                               end
                  | None => None
                  end
                else Some (RType d n ds (REnum []), r3)
            | None => None
            end
          | None => None
          end
        else if str_eqb kw (lit "input") then
          match p_name r1 with
          | Some (n, r2) =>
            match p_dirs F r2 with
            | Some (ds, r3) =>
                if peek_is 123 r3 then
                  match p_char 123 r3 with
                  | Some r4 => match p_inputs 125 F r4 with
                               | Some (fs, r5) => Some (RType d n ds (RInputObj fs), r5)
                               | None => None
                               end
                  | None => None
                  end
                else Some (RType d n ds (RInputObj []), r3)
            | None => None
            end
          | None => None
          end
        else if str_eqb kw (lit "directive") then
          match p_char 64 r1 with
          | Some r2 =>
            match p_name r2 with
            | Some (n, r3) =>
              let k args r :=
                let '(rep, r') := match p_kw (lit "repeatable") r with Some r' => (true, r') | None => (false, r) end in
                match p_kw (lit "on") r' with
                | Some r'' => match p_names_lead 124 r'' with
                              | Some (locs, r''') => Some (RDirective d n args rep locs, r''')
                              | None => None
                              end
                | None => None
                end in
              if peek_is 40 r3 then
                match p_char 40 r3 with
                | Some r4 => match p_inputs 41 F r4 with Some (args, r5) => k args r5 | None => None end
                | None => None
                end
              else k [] r3
            | None => None
            end
          | None => None
          end
        else if str_eqb kw (lit "schema") then
          match d with
          | Some _ => None      (* October 2021: a schema definition carries a description; the exporter never prints one *)
          | None =>
            match p_dirs F r1 with
            | Some (ds, r2) =>
              match p_char 123 r2 with
              | Some r3 => match p_root_ops F r3 with
                           | Some (ops, r4) => Some (RSchema ds ops, r4)
                           | None => None
                           end
              | None => None
              end
            | None => None
            end
          end
        else None
      end
    end.

  Fixpoint p_defs (k : nat) (s : str) : option (list r_def) :=
    match k with
    | O => None
    | S k' =>
      match skip_ign s with
      | [] => Some []
      | _ => match p_def s with
             | Some (d, r) => match p_defs k' r with Some l => Some (d :: l) | None => None end
             | None => None
             end
      end
    end.
End Reader.

(* Document: Definition+ *)
Definition parse_sdl (s : str) : option (list r_def) :=
  match p_defs (S (length s)) (S (length s)) s with
  | Some [] => None
  | x => x
  end.

(* ==================================================== plain type system == *)
Inductive p_input_ := PInput (name : str) (desc : option str) (ty : gty) (default : option cval)
                             (dep : option (option str)) (dirs : list dinv).
Inductive p_field_ := PField (name : str) (desc : option str) (args : list p_input_) (ty : gty)
                             (dep : option (option str)) (dirs : list dinv).
Inductive p_enumv_ := PEnumV (name : str) (desc : option str) (dep : option (option str)) (dirs : list dinv).
Inductive p_kind :=
| PScalar (url : option str)
| PObject (impl : list str) (fs : list p_field_)
| PInterface (impl : list str) (fs : list p_field_)
| PUnion (ms : list str)
| PEnum (vs : list p_enumv_)
| PInputObj (fs : list p_input_) (oneof : bool).
Inductive p_type_ := PType (name : str) (desc : option str) (k : p_kind) (dirs : list dinv).
Inductive p_directive_ := PDirective (name : str) (desc : option str) (args : list p_input_) (rep : bool) (locs : list str).

Record tsys := {
  ts_types : list p_type_;
  ts_dirs : list p_directive_;                      (* custom directive definitions *)
  ts_schema : option (str * option str * option str) }.

Definition builtin_directives : list str :=
  [lit "skip"; lit "include"; lit "deprecated"; lit "specifiedBy"; lit "oneOf"].

Definition di_name (d : dinv) := let '(DInv n _) := d in n.

(* ---- from the reader's tree ---- *)
(* @deprecated / @deprecated(reason: "...") among the applied directives *)
Definition split_deprecated (ds : list dinv) : option (option (option str) * list dinv) :=
  let dep := filter (fun d => str_eqb (di_name d) (lit "deprecated")) ds in
  let rest := filter (fun d => negb (str_eqb (di_name d) (lit "deprecated"))) ds in
  match dep with
  | [] => Some (None, rest)
  | [DInv _ []] => Some (Some None, rest)
  | [DInv _ [(k, CStr r)]] => if str_eqb k (lit "reason") then Some (Some (Some r), rest) else None
  | _ => None
  end.

Definition split_named (nm : str) (ds : list dinv) : list dinv * list dinv :=
  (filter (fun d => str_eqb (di_name d) nm) ds, filter (fun d => negb (str_eqb (di_name d) nm)) ds).

Fixpoint omap {A B} (f : A -> option B) (l : list A) : option (list B) :=
  match l with
  | [] => Some []
  | x :: r => match f x, omap f r with Some y, Some ys => Some (y :: ys) | _, _ => None end
  end.

Definition abs_input (i : r_input) : option p_input_ :=
  let '(RInput d n ty def ds) := i in
  match split_deprecated ds with
  | Some (dep, rest) => Some (PInput n d ty def dep rest)
  | None => None
  end.

Definition abs_field (f : r_field) : option p_field_ :=
  let '(RField d n args ty ds) := f in
  match split_deprecated ds, omap abs_input args with
  | Some (dep, rest), Some args' => Some (PField n d args' ty dep rest)
  | _, _ => None
  end.

Definition abs_enumv (v : r_enumv) : option p_enumv_ :=
  let '(REnumV d n ds) := v in
  match split_deprecated ds with
  | Some (dep, rest) => Some (PEnumV n d dep rest)
  | None => None
  end.

Definition abs_def_type (d : option str) (n : str) (ds : list dinv) (k : r_kind) : option p_type_ :=
  match k with
  | RScalar =>
      match split_named (lit "specifiedBy") ds with
      | ([], rest) => Some (PType n d (PScalar None) rest)
      | ([DInv _ [(a, CStr u)]], rest) =>
          if str_eqb a (lit "url") then Some (PType n d (PScalar (Some u)) rest) else None
      | _ => None
      end
  | RObject im fs => match omap abs_field fs with Some fs' => Some (PType n d (PObject im fs') ds) | None => None end
  | RInterface im fs => match omap abs_field fs with Some fs' => Some (PType n d (PInterface im fs') ds) | None => None end
  | RUnion ms => Some (PType n d (PUnion ms) ds)
  | REnum vs => match omap abs_enumv vs with Some vs' => Some (PType n d (PEnum vs') ds) | None => None end
  | RInputObj fs =>
      match omap abs_input fs, split_named (lit "oneOf") ds with
      | Some fs', ([], rest) => Some (PType n d (PInputObj fs' false) rest)
      | Some fs', ([DInv _ []], rest) => Some (PType n d (PInputObj fs' true) rest)
      | _, _ => None
      end
  end.

Definition abs_sdl (defs : list r_def) : option tsys :=
  let types := omap (fun x => x)
                 (flat_map (fun d => match d with RType de n ds k => [abs_def_type de n ds k] | _ => [] end) defs) in
  let dirs := omap (fun x => x)
                (flat_map (fun d => match d with
                                    | RDirective de n args rep locs =>
                                        if smem n builtin_directives then []
                                        else [match omap abs_input args with
                                              | Some a => Some (PDirective n de a rep locs)
                                              | None => None
                                              end]
                                    | _ => []
                                    end) defs) in
  let schemas := flat_map (fun d => match d with RSchema ds ops => [(ds, ops)] | _ => [] end) defs in
  match types, dirs, schemas with
  | Some ts, Some dd, [] => Some {| ts_types := ts; ts_dirs := dd; ts_schema := None |}
  | Some ts, Some dd, [([], ops)] =>
      match sassoc (lit "query") ops with
      | Some q =>
          if Nat.eqb (length ops)
                     (1 + (match sassoc (lit "mutation") ops with Some _ => 1 | None => 0 end)
                        + (match sassoc (lit "subscription") ops with Some _ => 1 | None => 0 end))
          then Some {| ts_types := ts; ts_dirs := dd;
                       ts_schema := Some (q, sassoc (lit "mutation") ops, sassoc (lit "subscription") ops) |}
          else None
      | None => None
      end
  | _, _, _ => None
  end.

(* ---- from the registry ---- *)
Definition parse_ty (s : str) : option gty :=
  match p_type (S (length s)) s with
  | Some (t, []) => Some t
  | _ => None
  end.

Definition abs_depr (d : depr) : option (option str) :=
  match d with NoDepr => None | Depr r => Some r end.

Definition reg_input (i : minput) : option p_input_ :=
  let '(MInputV n d ty def dep ds) := i in
  match parse_ty ty with Some t => Some (PInput n d t def (abs_depr dep) ds) | None => None end.

Definition reg_field (f : mfield) : option p_field_ :=
  let '(MField n d args ty dep ds) := f in
  match parse_ty ty, omap reg_input args with
  | Some t, Some a => Some (PField n d a t (abs_depr dep) ds)
  | _, _ => None
  end.

Definition reg_enumv (v : menumv) : p_enumv_ :=
  let '(MEnumV n d dep ds) := v in PEnumV n d (abs_depr dep) ds.

Definition reg_implements (R : registry) (n : str) : list str :=
  match sassoc n (r_impl R) with Some l => l | None => [] end.

Definition visible_fields (fs : list mfield) : list mfield := filter (fun f => negb (hidden (f_name f))) fs.

Definition reg_type (o : opts) (R : registry) (t : mtype) : option p_type_ :=
  match t with
  | MScalar n d url ds => Some (PType n d (PScalar (if o_specified_by o then url else None)) ds)
  | MObject n d fs ds =>
      match omap reg_field (visible_fields fs) with
      | Some fs' => Some (PType n d (PObject (reg_implements R n) fs') ds)
      | None => None
      end
  | MInterface n d fs ds =>
      match omap reg_field (visible_fields fs) with
      | Some fs' => Some (PType n d (PInterface (reg_implements R n) fs') ds)
      | None => None
      end
  | MUnion n d ps ds => Some (PType n d (PUnion ps) ds)
  | MEnum n d vs ds => Some (PType n d (PEnum (map reg_enumv vs)) ds)
  | MInputObj n d fs oneof ds =>
      match omap reg_input fs with
      | Some fs' => Some (PType n d (PInputObj fs' oneof) ds)
      | None => None
      end
  end.

Definition exported_type (t : mtype) : bool :=
  negb (hidden (t_name t)) &&
  negb (match t with MScalar n _ _ _ => smem n system_scalars | _ => false end).

Definition reg_directive (d : mdirective) : option p_directive_ :=
  let '(MDirective n de locs args rep) := d in
  match omap reg_input args with Some a => Some (PDirective n de a rep locs) | None => None end.

Definition abs_registry (o : opts) (R : registry) : option tsys :=
  match omap (reg_type o R) (filter exported_type (r_types R)),
        omap reg_directive (filter (fun d => negb (smem (d_name d) builtin_directives)) (r_dirs R)) with
  | Some ts, Some dd =>
      Some {| ts_types := ts; ts_dirs := dd;
              ts_schema := Some (r_query R, r_mutation R, r_subscription R) |}
  | _, _ => None
  end.

(* ---- comparison: the same named things with the same content, in any order ---- *)
Definition ostr_eqb := option_eqb str_eqb.
Fixpoint gty_eqb (a b : gty) : bool :=
  match a, b with
  | GNamed x, GNamed y => str_eqb x y
  | GList x, GList y => gty_eqb x y
  | GNonNull x, GNonNull y => gty_eqb x y
  | _, _ => false
  end.
Definition dinv_eqb (a b : dinv) : bool :=
  let '(DInv n x) := a in let '(DInv m y) := b in
  str_eqb n m && list_eqb (fun p q => str_eqb (fst p) (fst q) && veq true (snd p) (snd q)) x y.
Definition dinvs_eqb := list_eqb dinv_eqb.
Definition odep_eqb := option_eqb ostr_eqb.

Definition pi_name (i : p_input_) := let '(PInput n _ _ _ _ _) := i in n.
Definition pf_name (f : p_field_) := let '(PField n _ _ _ _ _) := f in n.
Definition pe_name (v : p_enumv_) := let '(PEnumV n _ _ _) := v in n.
Definition pt_name (t : p_type_) := let '(PType n _ _ _) := t in n.
Definition pd_name (d : p_directive_) := let '(PDirective n _ _ _ _) := d in n.

Definition pinput_eqb (a b : p_input_) : bool :=
  let '(PInput n d t v p ds) := a in let '(PInput n' d' t' v' p' ds') := b in
  str_eqb n n' && ostr_eqb d d' && gty_eqb t t' && option_eqb (veq true) v v' && odep_eqb p p' && dinvs_eqb ds ds'.
Definition pinputs_eqb (a b : list p_input_) := list_eqb pinput_eqb (sort_by pi_name a) (sort_by pi_name b).
Definition pfield_eqb (a b : p_field_) : bool :=
  let '(PField n d args t p ds) := a in let '(PField n' d' args' t' p' ds') := b in
  str_eqb n n' && ostr_eqb d d' && pinputs_eqb args args' && gty_eqb t t' && odep_eqb p p' && dinvs_eqb ds ds'.
Definition pfields_eqb (a b : list p_field_) := list_eqb pfield_eqb (sort_by pf_name a) (sort_by pf_name b).
Definition penumv_eqb (a b : p_enumv_) : bool :=
  let '(PEnumV n d p ds) := a in let '(PEnumV n' d' p' ds') := b in
  str_eqb n n' && ostr_eqb d d' && odep_eqb p p' && dinvs_eqb ds ds'.
Definition strs_eqb := list_eqb str_eqb.
Definition pkind_eqb (a b : p_kind) : bool :=
  match a, b with
  | PScalar u, PScalar u' => ostr_eqb u u'
  | PObject i f, PObject i' f' => strs_eqb i i' && pfields_eqb f f'
  | PInterface i f, PInterface i' f' => strs_eqb i i' && pfields_eqb f f'
  | PUnion m, PUnion m' => strs_eqb m m'
  | PEnum v, PEnum v' => list_eqb penumv_eqb (sort_by pe_name v) (sort_by pe_name v')
  | PInputObj f o, PInputObj f' o' => pinputs_eqb f f' && Bool.eqb o o'
  | _, _ => false
  end.
Definition ptype_eqb (a b : p_type_) : bool :=
  let '(PType n d k ds) := a in let '(PType n' d' k' ds') := b in
  str_eqb n n' && ostr_eqb d d' && pkind_eqb k k' && dinvs_eqb ds ds'.
Definition pdirective_eqb (a b : p_directive_) : bool :=
  let '(PDirective n d args r l) := a in let '(PDirective n' d' args' r' l') := b in
  str_eqb n n' && ostr_eqb d d' && list_eqb pinput_eqb args args' && Bool.eqb r r' && strs_eqb l l'.

(* T ≈ T' *)
Definition tsys_eqb (a b : tsys) : bool :=
  list_eqb ptype_eqb (sort_by pt_name (ts_types a)) (sort_by pt_name (ts_types b)) &&
  list_eqb pdirective_eqb (sort_by pd_name (ts_dirs a)) (sort_by pd_name (ts_dirs b)) &&
  option_eqb (fun x y => str_eqb (fst (fst x)) (fst (fst y)) && ostr_eqb (snd (fst x)) (snd (fst y))
                         && ostr_eqb (snd x) (snd y)) (ts_schema a) (ts_schema b).

(* the crate's own reader marks every directive definition repeatable
   (graphql.pest: repeatable = { "repeatable"? } always matches) — a defect of
   the reader, not of the exported text; its flag is not compared *)
Definition forget_rep (t : tsys) : tsys :=
  {| ts_types := ts_types t;
     ts_dirs := map (fun d => let '(PDirective n de a _ l) := d in PDirective n de a false l) (ts_dirs t);
     ts_schema := ts_schema t |}.

(* the text describes the registry *)
Definition describes_gen (norep : bool) (o : opts) (R : registry) (defs : option (list r_def)) : bool :=
  match defs with
  | Some ds =>
      match abs_sdl ds, abs_registry o R with
      | Some t, Some t' => if norep then tsys_eqb (forget_rep t) (forget_rep t') else tsys_eqb t t'
      | _, _ => false
      end
  | None => false
  end.
Definition describes := describes_gen false.

(* ------------------------------------------------------------ known classes -- *)
(* 1: a deprecation reason with a character that escape_string copies although
      a quoted string may not hold it (a double quote or a control character
      that is neither listed nor covered by the guarded arm).  With the
      repaired escape_string the class is empty (SdlProofs.bad_reason_char_never) *)
Definition raw_ctrl (c : cp) : bool := (c <? 32) && negb (c =? 9).
Definition bad_reason_char (c : cp) : bool :=
  match nassoc c sdl_escape_table_gen with
  | Some _ => false
  | None => if sdl_escape_ctrl_gen && is_control c then false else (c =? 34) || raw_ctrl c
  end.
Definition bad_depr (d : depr) : bool :=
  match d with Depr (Some r) => existsb bad_reason_char r | _ => false end.

(* 2: a printed value (default or directive argument) in C15's class *)
Definition bad_value (v : cval) : bool := has_bad_ctrl v.
Definition bad_dirs (ds : list dinv) : bool :=
  existsb (fun d => let '(DInv _ args) := d in existsb (fun a => bad_value (snd a)) args) ds.

(* 4: descriptions a block string does not carry verbatim *)
Fixpoint has_triple (s : str) : bool :=
  match s with
  | a :: ((b :: c :: _) as t) => ((a =? 34) && (b =? 34) && (c =? 34)) || has_triple t
  | _ => false
  end.
Definition lines_of (d : str) : list str := split_lines d.
Definition block_bad (d : str) : bool :=
  match d with
  | [] => false
  | _ =>
      has_triple d || contains 13 d ||
      blank (hd [] (lines_of d)) || blank (last (lines_of d) []) ||
      negb (existsb (fun l => negb (blank l) && Nat.eqb (indent_of l) 0) (lines_of d))
  end.
(* 5: single-line descriptions with a backslash or a raw control character *)
Definition single_bad (d : str) : bool := existsb (fun c => (c =? 92) || raw_ctrl c) d.

Definition desc_class (o : opts) (d : option str) : N :=
  match d with
  | None => 0
  | Some d => if single_line_form o d then (if single_bad d then 5 else 0)
              else (if block_bad d then 4 else 0)
  end.

Definition first_class (l : list N) : N :=
  match filter (fun k => negb (k =? 0)) l with
  | [] => 0
  | x :: r => fold_left N.min r x
  end.

Definition input_class (o : opts) (i : minput) : N :=
  let '(MInputV _ d _ def dep ds) := i in
  first_class [ (if bad_depr dep then 1 else 0);
                (if (match def with Some v => bad_value v | None => false end) || bad_dirs ds then 2 else 0);
                desc_class o d ].
Definition field_class (o : opts) (f : mfield) : N :=
  let '(MField n d args _ dep ds) := f in
  if hidden n then 0 else
  first_class ((if bad_depr dep then 1 else 0) :: (if bad_dirs ds then 2 else 0) :: desc_class o d
               :: map (input_class o) args).
Definition enumv_class (o : opts) (v : menumv) : N :=
  let '(MEnumV _ d dep ds) := v in
  first_class [ (if bad_depr dep then 1 else 0); (if bad_dirs ds then 2 else 0); desc_class o d ].

Definition bad_url (u : str) : bool := existsb (fun c => (c =? 92) || raw_ctrl c) u.

Definition type_class (o : opts) (R : registry) (t : mtype) : N :=
  if negb (exported_type t) then 0 else
  match t with
  | MScalar _ d url ds =>
      first_class [ (if bad_dirs ds then 2 else 0); desc_class o d;
                    (match url with Some u => if o_specified_by o && bad_url u then 7 else 0 | None => 0 end) ]
  | MObject _ d fs ds =>
      first_class ((if bad_dirs ds then 2 else 0) :: desc_class o d :: map (field_class o) fs)
  | MInterface n d fs ds =>
      first_class ((if bad_dirs ds then 2 else 0) :: desc_class o d
                   :: (match ds, reg_implements R n with _ :: _, _ :: _ => 3 | _, _ => 0 end)
                   :: map (field_class o) fs)
  | MUnion _ d _ ds => first_class [ (if bad_dirs ds then 2 else 0); desc_class o d ]
  | MEnum _ d vs ds => first_class ((if bad_dirs ds then 2 else 0) :: desc_class o d :: map (enumv_class o) vs)
  | MInputObj _ d fs _ ds =>
      first_class ((if bad_dirs ds then 2 else 0) :: desc_class o d :: map (input_class o) fs)
  end.

(* 6: a custom directive definition whose argument carries a description, a
      deprecation or a directive (argument_sdl prints none of them) *)
Definition directive_class (o : opts) (d : mdirective) : N :=
  let '(MDirective n de _ args _) := d in
  first_class (desc_class o de
               :: map (fun i => let '(MInputV _ di _ def dep ds) := i in
                                first_class [ (if (match def with Some v => bad_value v | None => false end) then 2 else 0);
                                              (if smem n builtin_directives then 0
                                               else match di, dep, ds with None, NoDepr, [] => 0 | _, _, _ => 6 end) ]) args).

Definition known_class (o : opts) (R : registry) : N :=
  first_class (map (type_class o R) (r_types R) ++
               map (fun d => if directive_shown R d then directive_class o d else 0) (r_dirs R)).

(* ------------------------------------------------------------------- check -- *)
Fixpoint rdefs_eqb (a b : list r_def) : bool :=
  let inp x y := let '(RInput d n t v ds) := x in let '(RInput d' n' t' v' ds') := y in
                 ostr_eqb d d' && str_eqb n n' && gty_eqb t t' && option_eqb (veq true) v v' && dinvs_eqb ds ds' in
  let fld x y := let '(RField d n ar t ds) := x in let '(RField d' n' ar' t' ds') := y in
                 ostr_eqb d d' && str_eqb n n' && list_eqb inp ar ar' && gty_eqb t t' && dinvs_eqb ds ds' in
  let env x y := let '(REnumV d n ds) := x in let '(REnumV d' n' ds') := y in
                 ostr_eqb d d' && str_eqb n n' && dinvs_eqb ds ds' in
  let knd x y := match x, y with
                 | RScalar, RScalar => true
                 | RObject i f, RObject i' f' => strs_eqb i i' && list_eqb fld f f'
                 | RInterface i f, RInterface i' f' => strs_eqb i i' && list_eqb fld f f'
                 | RUnion m, RUnion m' => strs_eqb m m'
                 | REnum v, REnum v' => list_eqb env v v'
                 | RInputObj f, RInputObj f' => list_eqb inp f f'
                 | _, _ => false
                 end in
  match a, b with
  | [], [] => true
  | x :: a', y :: b' =>
      (match x, y with
       | RType d n ds k, RType d' n' ds' k' => ostr_eqb d d' && str_eqb n n' && dinvs_eqb ds ds' && knd k k'
       | RDirective d n ar r l, RDirective d' n' ar' r' l' =>
           ostr_eqb d d' && str_eqb n n' && list_eqb inp ar ar' && Bool.eqb r r' && strs_eqb l l'
       | RSchema ds ops, RSchema ds' ops' =>
           dinvs_eqb ds ds' && list_eqb (fun p q => str_eqb (fst p) (fst q) && str_eqb (snd p) (snd q)) ops ops'
       | _, _ => false
       end) && rdefs_eqb a' b'
  | _, _ => false
  end.

(* one case: registry, options, the text the real exporter produced and what
   the crate's own parse_schema made of that text.
   "satisfies the specification" = the text reads back, with the reader written
   from the grammar AND with the crate's reader, as a description of the
   registry. *)
Definition check_case (c : registry * opts * str * option (list r_def)) : N :=
  let '(R, o, impl, crate) := c in
  let m := export_sdl o R in
  let same := str_eqb impl m in
  let crate_ok := describes_gen true o R crate in
  verdict same
          (describes o R (parse_sdl m) && crate_ok)
          (describes o R (parse_sdl impl) && crate_ok)
          (known_class o R).

(* the two readers agree on exported text (reported separately) *)
Definition readers_agree (c : registry * opts * str * option (list r_def)) : bool :=
  let '(R, o, impl, crate) := c in
  match parse_sdl impl, crate with
  | Some a, Some b => rdefs_eqb a b
  | None, None => true
  | _, _ => false
  end.

(* CrashRecProofs.v — lemmas about the recursion-depth walk (no model definitions). *)
From AG Require Import CrashRec.
Open Scope N_scope.

Lemma rd_each_total frags inc rec cur l :
  (forall s, rec (cur + 1) s <> OutOfFuel) -> (forall s, rec (cur + inc) s <> OutOfFuel) ->
  rd_each frags inc rec cur l <> OutOfFuel.
Proof.
  intros H1 H2. induction l as [|x r IH]; [discriminate|].
  cbn [rd_each]. fold (rd_each frags inc rec cur).
  assert (Hx : match x with
               | SField _ _ _ _ [] => Ok tt
               | SField _ _ _ _ sub => rec (cur + 1) sub
               | SSpread nm _ => match assoc nm frags with
                                 | Some fr => rec (cur + inc) (fr_sels fr)
                                 | None => Ok tt
                                 end
               | SInline _ _ sub => rec (cur + inc) sub
               end <> OutOfFuel).
  { destruct x as [a n ar d sub|nm d|c d sub].
    - destruct sub; [discriminate|apply H1].
    - destruct (assoc nm frags); [apply H2|discriminate].
    - apply H2. }
  destruct (match x with
            | SField _ _ _ _ [] => Ok tt
            | SField _ _ _ _ sub => rec (cur + 1) sub
            | SSpread nm _ => match assoc nm frags with
                              | Some fr => rec (cur + inc) (fr_sels fr)
                              | None => Ok tt
                              end
            | SInline _ _ sub => rec (cur + inc) sub
            end) eqn:E; cbn [bindo]; try discriminate; [exact IH|contradiction].
Qed.

(* the measure argument: every call raises the depth, the depth is capped at
   maxd + 1, so maxd + 2 - cur frames suffice — whatever the fragment graph,
   cyclic or not *)
Lemma rd_check_total frags maxd : forall fuel cur set,
  (N.to_nat (maxd + 1 - cur) < fuel)%nat ->
  rd_check frags 1 maxd fuel cur set <> OutOfFuel.
Proof.
  induction fuel as [|f IH]; intros cur set Hf; [lia|].
  cbn [rd_check]. destruct (N.ltb_spec maxd cur) as [Hgt|Hle]; [discriminate|].
  apply (rd_each_total frags 1); intros s; apply IH; lia.
Qed.

Lemma rd_ops_total frags maxd fuel ops :
  (N.to_nat (maxd + 1) < fuel)%nat -> rd_ops frags 1 maxd fuel ops <> OutOfFuel.
Proof.
  intros Hf. induction ops as [|o r IH]; [discriminate|].
  cbn [rd_ops]. pose proof (rd_check_total frags maxd fuel 0 (op_sels o)) as H.
  destruct (rd_check frags 1 maxd fuel 0 (op_sels o)) eqn:E; cbn [bindo]; try discriminate.
  - exact IH.
  - exfalso. apply H; [rewrite N.sub_0_r; exact Hf|reflexivity].
Qed.

Lemma rd_each_no_panic frags inc rec cur l :
  (forall c s, rec c s <> Panic) -> rd_each frags inc rec cur l <> Panic.
Proof.
  intros H. induction l as [|x r IH]; [discriminate|].
  cbn [rd_each]. fold (rd_each frags inc rec cur).
  destruct x as [a n ar d sub|nm d|c d sub].
  - destruct sub as [|y sub]; cbn [bindo]; [exact IH|].
    pose proof (H (cur + 1) (y :: sub)). destruct (rec (cur + 1) (y :: sub)); cbn [bindo]; try discriminate; [exact IH|contradiction].
  - destruct (assoc nm frags) as [fr|]; cbn [bindo]; [|exact IH].
    pose proof (H (cur + inc) (fr_sels fr)). destruct (rec (cur + inc) (fr_sels fr)); cbn [bindo]; try discriminate; [exact IH|contradiction].
  - pose proof (H (cur + inc) sub). destruct (rec (cur + inc) sub); cbn [bindo]; try discriminate; [exact IH|contradiction].
Qed.

Lemma rd_check_no_panic frags inc maxd : forall fuel cur set, rd_check frags inc maxd fuel cur set <> Panic.
Proof.
  induction fuel as [|f IH]; intros cur set; [discriminate|].
  cbn [rd_check]. destruct (maxd <? cur); [discriminate|].
  apply rd_each_no_panic. exact IH.
Qed.

Lemma rd_ops_no_panic frags inc maxd fuel ops : rd_ops frags inc maxd fuel ops <> Panic.
Proof.
  induction ops as [|o r IH]; [discriminate|]. cbn [rd_ops].
  pose proof (rd_check_no_panic frags inc maxd fuel 0 (op_sels o)).
  destruct (rd_check frags inc maxd fuel 0 (op_sels o)); cbn [bindo]; try discriminate; [exact IH|contradiction].
Qed.

(* every document — cyclic fragment graphs included — is answered by the walk:
   Ok or the depth error *)
Lemma rd_doc_answers maxd d : rd_doc maxd d = Ok tt \/ exists e, rd_doc maxd d = Err e.
Proof.
  unfold rd_doc.
  pose proof (rd_ops_total (doc_frags d) maxd (S (S (N.to_nat maxd))) (doc_ops d)) as H.
  pose proof (rd_ops_no_panic (doc_frags d) 1 maxd (S (S (N.to_nat maxd))) (doc_ops d)) as Hp.
  destruct (rd_ops (doc_frags d) 1 maxd (S (S (N.to_nat maxd))) (doc_ops d)) as [[]|e| |].
  - left. reflexivity.
  - right. exists e. reflexivity.
  - contradiction.
  - exfalso. apply H; [lia|reflexivity].
Qed.

(* the verdict function never reports a gap between model and specification *)
Lemma check_frag_no_gap c : check_frag c <> 2.
Proof.
  destruct c as [[d entry] impl]. unfold check_frag.
  destruct (rd_doc_answers DEFAULT_RECURSIVE_DEPTH d) as [E|[e E]]; rewrite E; unfold verdict;
    destruct (impl <? 2); cbn; try discriminate; destruct (impl =? 1); cbn; discriminate.
Qed.

(* why the increment matters: were a spread to add nothing to the depth, the
   walk of a reachable fragment cycle would not end for any recursion budget *)
Definition self_cycle (f : name) : list (name * fragment) :=
  [(f, {| fr_cond := 0; fr_dirs := []; fr_sels := [SSpread f []] |})].

Lemma rd_check_diverges_without_increment f maxd : forall fuel,
  rd_check (self_cycle f) 0 maxd fuel 0 [SSpread f []] = OutOfFuel.
Proof.
  induction fuel as [|n IH]; [reflexivity|].
  cbn [rd_check]. replace (maxd <? 0) with false by (symmetry; apply N.ltb_ge; lia).
  cbn [rd_each self_cycle assoc]. rewrite name_eqb_refl. cbn [fr_sels].
  change (0 + 0) with 0. rewrite IH. reflexivity.
Qed.

Lemma rd_self_cycle_answered :
  rd_check (self_cycle 7) 1 32 34 0 [SSpread 7 []] = Err E_RECURSION.
Proof. vm_compute. reflexivity. Qed.

(* ValidationProofs.v — C09: lemmas and proofs about Validation.v (no model definitions). *)
From AG Require Import Validation.
Open Scope N_scope.

(* ------------------------------------------------ (1) the composite visitor -- *)
(* All statements here are about the method lists translated from visitor.rs on
   every run.  They are phrased so that they hold both for today's source (the
   two input-value callbacks are not forwarded) and for a source in which they
   are; they break when any OTHER callback stops being forwarded. *)
Lemma smem_str_In m l : smem_str m l = true <-> In m l.
Proof.
  unfold smem_str. rewrite existsb_exists. split.
  - intros [x [Hin He]]. apply String.eqb_eq in He. subst; exact Hin.
  - intro H. exists m. split; [exact H|apply String.eqb_refl].
Qed.

Lemma forwards_all_but_input_value :
  forall m, In m visitor_trait_methods_gen ->
            In m visitor_cons_methods_gen \/ In m input_value_callbacks_gen.
Proof.
  assert (forallb (fun m => smem_str m visitor_cons_methods_gen || smem_str m input_value_callbacks_gen)
                  visitor_trait_methods_gen = true) as H by (vm_compute; reflexivity).
  intros m Hin. rewrite forallb_forall in H. specialize (H m Hin).
  apply orb_true_iff in H. destruct H as [H|H]; apply smem_str_In in H; tauto.
Qed.

Lemma cons_subset_trait : incl visitor_cons_methods_gen visitor_trait_methods_gen.
Proof.
  assert (forallb (fun m => smem_str m visitor_trait_methods_gen) visitor_cons_methods_gen = true) as H
      by (vm_compute; reflexivity).
  intros m Hin. rewrite forallb_forall in H. apply smem_str_In. apply H; exact Hin.
Qed.

Lemma input_value_callbacks_in_trait : incl input_value_callbacks_gen visitor_trait_methods_gen.
Proof.
  assert (forallb (fun m => smem_str m visitor_trait_methods_gen) input_value_callbacks_gen = true) as H
      by (vm_compute; reflexivity).
  intros m Hin. rewrite forallb_forall in H. apply smem_str_In. apply H; exact Hin.
Qed.

(* the model's flag is exactly "VisitorCons forwards every trait callback" *)
Lemma forwards_flag_iff :
  forwards_input_value_gen = true <-> incl visitor_trait_methods_gen visitor_cons_methods_gen.
Proof.
  unfold forwards_input_value_gen. rewrite forallb_forall. split.
  - intros H m Hin. destruct (forwards_all_but_input_value m Hin) as [Hc|Hi]; [exact Hc|].
    apply smem_str_In. apply H; exact Hi.
  - intros H m Hin. apply smem_str_In. apply H. apply input_value_callbacks_in_trait; exact Hin.
Qed.

(* today the flag is off (this lemma is NOT used by props/C09.v, so that a fix
   of the source does not break an obligation; it documents the current state) *)
Lemma forwards_all_refuted_today :
  forwards_input_value_gen = false -> ~ incl visitor_trait_methods_gen visitor_cons_methods_gen.
Proof. intros H Hincl. apply forwards_flag_iff in Hincl. congruence. Qed.

Lemma strict_chain_has_modelled_rules :
  strict_has StrLits.viap = true /\ strict_has StrLits.overlap = true /\
  strict_has StrLits.args_correct = true /\ fast_rules_gen <> strict_rules_gen.
Proof. vm_compute. repeat split. discriminate. Qed.

(* ------------------------------------- (2) VariableInAllowedPosition ---------- *)
(* without forwarding nothing is recorded, whatever the document *)
Lemma args_usages_nofwd Sch defs args : args_usages Sch false defs args = [].
Proof.
  unfold args_usages. induction args as [|a r IH]; [reflexivity|]. cbn [flat_map]. rewrite IH, app_nil_r.
  generalize (iv_events Sch (snd a)
                (match defs with Some ds => option_map mi_ty (assoc (fst a) ds) | None => None end)).
  intro l. induction l as [|e l IHl]; [reflexivity|]. cbn [flat_map]. rewrite IHl. reflexivity.
Qed.

Lemma dirs_usages_nofwd Sch dirs : dirs_usages Sch false dirs = [].
Proof.
  unfold dirs_usages. induction dirs as [|x r IH]; [reflexivity|].
  cbn [flat_map]. rewrite IH, args_usages_nofwd. reflexivity.
Qed.

Lemma flat_map_nil {A B} (f : A -> list B) l : Forall (fun x => f x = []) l -> flat_map f l = [].
Proof. induction 1 as [|x l Hx _ IH]; [reflexivity|]. cbn [flat_map]. rewrite Hx, IH. reflexivity. Qed.

Lemma sel_usages_nofwd Sch s : forall cur, sel_usages Sch false cur s = [].
Proof.
  induction s as [al nm args dirs sub IH | nm dirs | c dirs sub IH] using selection_ind'; intro cur; cbn [sel_usages].
  - destruct (is_typename nm); [reflexivity|].
    rewrite args_usages_nofwd, dirs_usages_nofwd. cbn [app].
    apply flat_map_nil. eapply Forall_impl; [|exact IH]. intros x Hx. apply Hx.
  - apply dirs_usages_nofwd.
  - rewrite dirs_usages_nofwd. cbn [app].
    apply flat_map_nil. eapply Forall_impl; [|exact IH]. intros x Hx. apply Hx.
Qed.

Lemma scope_usages_nofwd Sch d sc : scope_usages Sch d false sc = [].
Proof.
  destruct sc as [n|f]; cbn [scope_usages].
  - apply flat_map_nil. apply Forall_forall. intros o _.
    destruct (option_eqb name_eqb (op_name o) n); [|reflexivity].
    destruct (root_of Sch (op_ty o)); [|reflexivity].
    rewrite dirs_usages_nofwd. cbn [app]. apply flat_map_nil. apply Forall_forall. intros s _. apply sel_usages_nofwd.
  - destruct (assoc f (doc_frags d)); [|reflexivity].
    rewrite dirs_usages_nofwd. cbn [app]. apply flat_map_nil. apply Forall_forall. intros s _. apply sel_usages_nofwd.
Qed.

Lemma ciu_nofwd Sch d : forall n vds from vis r,
    ciu Sch d false n vds from vis = Ok r -> snd r = 0.
Proof.
  induction n as [|n IH]; intros vds from vis r H; [discriminate|].
  cbn [ciu] in H. destruct (smem from vis).
  - inversion H; reflexivity.
  - rewrite scope_usages_nofwd in H. cbn [filter length N.of_nat] in H.
    revert H. generalize (from :: vis). generalize (scope_spreads Sch d from).
    assert (forall sp vis0 acc r,
               (fix go (sp : list name) (vis : list scope) (acc : N) {struct sp} : outcome (list scope * N) :=
                  match sp with
                  | [] => Ok (vis, acc)
                  | f :: r0 => bindo (ciu Sch d false n vds (ScFrag f) vis) (fun x => go r0 (fst x) (acc + snd x))
                  end) sp vis0 acc = Ok r -> snd r = acc) as Hgo.
    { induction sp as [|f sp IHsp]; intros vis0 acc r0 H.
      - inversion H; reflexivity.
      - destruct (ciu Sch d false n vds (ScFrag f) vis0) as [x| | |] eqn:E; cbn [bindo] in H; try discriminate.
        apply IH in E. rewrite E, N.add_0_r in H. eapply IHsp; exact H. }
    intros sp vis0 H. apply Hgo in H. exact H.
Qed.

Lemma all_ok_true l b : all_ok l = Ok b -> (forall x c, In x l -> x = Ok c -> c = true) -> b = true.
Proof.
  revert b. induction l as [|x l IH]; intros b H Hall; cbn [all_ok] in H.
  - inversion H; reflexivity.
  - destruct x as [a| | |]; cbn [bindo] in H; try discriminate.
    destruct (all_ok l) as [c| | |] eqn:E; cbn [bindo] in H; try discriminate.
    inversion H; subst b.
    rewrite (Hall (Ok a) a (or_introl eq_refl) eq_refl).
    rewrite (IH c eq_refl); [reflexivity|]. intros y c0 Hy. apply Hall. right; exact Hy.
Qed.

Lemma varpos_no_forward_silent Sch d fuel b : impl_varpos Sch d fuel false = Ok b -> b = true.
Proof.
  unfold impl_varpos. intro H. eapply all_ok_true; [exact H|].
  intros x c Hin Ho. apply in_map_iff in Hin. destruct Hin as [o [Hx _]]. subst x.
  destruct (op_vars o) as [|vd vds]; [inversion Ho; reflexivity|].
  destruct (root_of Sch (op_ty o)); [|inversion Ho; reflexivity].
  destruct (ciu Sch d false fuel (vd :: vds) (ScOp (op_name o)) []) as [r| | |] eqn:E; cbn [bindo] in Ho; try discriminate.
  apply ciu_nofwd in E. inversion Ho. rewrite E. reflexivity.
Qed.

(* is_subtype against AreTypesCompatible *)
Fixpoint nn_at_list (lt vt : ty) : bool :=
  match lt, vt with
  | TNonNull a, TNonNull b => nn_at_list a b
  | TList a, TList b => nn_at_list a b
  | TList _, TNonNull _ => true
  | _, _ => false
  end.

Lemma strip_compat a vt :
  (fix strip (vt : ty) : bool :=
     match vt with
     | TNonNull vt' => strip vt'
     | TNamed b => name_eqb a b
     | TList _ => false
     end) vt = types_compatible vt (TNamed a).
Proof. induction vt as [b|t IH|t IH]; cbn; [reflexivity|reflexivity|exact IH]. Qed.

Lemma is_subtype_sound : forall lt vt, is_subtype lt vt = true -> types_compatible vt lt = true.
Proof.
  induction lt as [a|lt IH|lt IH]; intros vt H.
  - cbn [is_subtype] in H. rewrite strip_compat in H. exact H.
  - destruct vt as [b|vt|vt]; cbn [is_subtype] in H; try discriminate. cbn. apply IH; exact H.
  - destruct vt as [b|vt|vt]; cbn [is_subtype] in H; try discriminate. cbn. apply IH; exact H.
Qed.

Lemma is_subtype_complete : forall lt vt,
    nn_at_list lt vt = false -> is_subtype lt vt = types_compatible vt lt.
Proof.
  induction lt as [a|lt IH|lt IH]; intros vt Hc.
  - cbn [is_subtype]. apply strip_compat.
  - destruct vt as [b|vt|vt]; cbn in Hc |- *; try reflexivity; try discriminate. apply IH; exact Hc.
  - destruct vt as [b|vt|vt]; cbn in Hc |- *; try reflexivity. apply IH; exact Hc.
Qed.

Lemma is_subtype_refuted :
  exists lt vt, types_compatible vt lt = true /\ is_subtype lt vt = false.
Proof. exists (TList (TNamed 7)), (TNonNull (TList (TNamed 7))). split; reflexivity. Qed.

(* the type VariableInAllowedPosition compares with *)
Definition viap_expected (vt : ty) (dflt : option value) : ty :=
  match vt, dflt with
  | TNonNull _, _ => vt
  | _, Some _ => TNonNull vt
  | _, None => vt
  end.

Lemma impl_usage_ok_eq Sch vd vt lt :
  var_ty Sch vd = Some vt -> impl_usage_ok Sch vd lt = is_subtype lt (viap_expected vt (vd_default vd)).
Proof. intro H. unfold impl_usage_ok, viap_expected. rewrite H. reflexivity. Qed.

(* one usage: the rule's decision is the specification's IsVariableUsageAllowed
   unless (a) the location has a default value, (b) the variable's default is
   the literal null, or (c) a non-null type meets a list type (is_subtype's gap) *)
Lemma usage_exact Sch vd vt lt :
  var_ty Sch vd = Some vt ->
  vd_default vd <> Some VNull ->
  nn_at_list lt (viap_expected vt (vd_default vd)) = false ->
  impl_usage_ok Sch vd lt = usage_allowed vt (vd_default vd) lt false.
Proof.
  intros Hty Hnull Hc. rewrite (impl_usage_ok_eq _ _ _ _ Hty).
  rewrite (is_subtype_complete _ _ Hc).
  unfold viap_expected, usage_allowed in *.
  destruct lt as [a|lt|lt], vt as [b|vt|vt]; destruct (vd_default vd) as [dv|] eqn:Ed;
    cbn [types_compatible orb andb]; try reflexivity;
    try (destruct dv; try reflexivity; exfalso; apply Hnull; reflexivity).
Qed.

Lemma usage_sound Sch vd vt lt ldf :
  var_ty Sch vd = Some vt ->
  vd_default vd <> Some VNull ->
  impl_usage_ok Sch vd lt = true -> usage_allowed vt (vd_default vd) lt ldf = true.
Proof.
  intros Hty Hnull H. rewrite (impl_usage_ok_eq _ _ _ _ Hty) in H. apply is_subtype_sound in H.
  unfold viap_expected, usage_allowed in *.
  destruct lt as [a|lt|lt], vt as [b|vt|vt]; destruct (vd_default vd) as [dv|] eqn:Ed;
    cbn [types_compatible] in H |- *; try exact H; try discriminate;
    try (destruct dv; cbn [orb andb]; try exact H; exfalso; apply Hnull; reflexivity).
Qed.

(* ------------------------------------- (3) OverlappingFieldsCanBeMerged --------- *)
Lemma okey_eqb_eq a b : okey_eqb a b = true <-> a = b.
Proof.
  destruct a as [oa ka], b as [ob kb]. unfold okey_eqb. cbn [fst snd].
  rewrite andb_true_iff, name_eqb_eq. split.
  - intros [H1 H2]. subst kb. f_equal.
    destruct oa as [x|], ob as [y|]; cbn in H1; try discriminate; try reflexivity.
    apply name_eqb_eq in H1. subst; reflexivity.
  - intro H. inversion H; subst. split; [|reflexivity].
    destruct ob as [y|]; cbn; [apply name_eqb_refl|reflexivity].
Qed.

Lemma olookup_some k m f : olookup k m = Some f -> In (k, f) m.
Proof.
  induction m as [|[k' f'] m IH]; cbn [olookup]; [discriminate|].
  destruct (okey_eqb k k') eqn:E.
  - intro H. inversion H; subst. apply okey_eqb_eq in E. subst. left; reflexivity.
  - intro H. right. apply IH; exact H.
Qed.

Lemma olookup_none k m : olookup k m = None -> forall f, ~ In (k, f) m.
Proof.
  induction m as [|[k' f'] m IH]; cbn [olookup]; intros H f Hin; [exact Hin|].
  destruct (okey_eqb k k') eqn:E; [discriminate|].
  destruct Hin as [Hin|Hin].
  - inversion Hin; subst. assert (okey_eqb k k = true) as R by (apply okey_eqb_eq; reflexivity).
    rewrite R in E. discriminate.
  - eapply IH; eauto.
Qed.

(* what a successful run guarantees: every entry agrees (of_agree: same field
   name, same number of arguments, every argument of the stored entry present
   with an equal value) with the FIRST entry of its (type condition, response key) *)
Definition rep_of (outputs : list oentry) (k : okey) (f : ofield) : Prop :=
  exists p, In (k, p) outputs /\ (p = f \/ of_agree p f = true).
Definition keys_unique (outputs : list oentry) : Prop :=
  forall k p q, In (k, p) outputs -> In (k, q) outputs -> p = q.

Lemma fc_scan_sound : forall es outputs,
    keys_unique outputs -> fc_scan outputs es = true ->
    exists final, keys_unique final /\ incl outputs final /\
                  forall k f, In (k, f) es -> rep_of final k f.
Proof.
  induction es as [|[k f] es IH]; intros outputs Hu H.
  - exists outputs. split; [exact Hu|]. split; [apply incl_refl|]. intros k f [].
  - cbn [fc_scan] in H. destruct (olookup k outputs) as [p|] eqn:E.
    + apply andb_true_iff in H. destruct H as [Hag H].
      destruct (IH outputs Hu H) as [final [Hfu [Hinc Hall]]].
      exists final. split; [exact Hfu|]. split; [exact Hinc|].
      intros k0 f0 [Hin|Hin].
      * inversion Hin; subst. exists p. split; [apply Hinc; apply olookup_some; exact E|]. right; exact Hag.
      * apply Hall; exact Hin.
    + assert (keys_unique ((k, f) :: outputs)) as Hu'.
      { intros k0 p q [Hp|Hp] [Hq|Hq].
        - inversion Hp; inversion Hq; subst. reflexivity.
        - inversion Hp; subst. exfalso. eapply olookup_none; eauto.
        - inversion Hq; subst. exfalso. eapply olookup_none; eauto.
        - eapply Hu; eauto. }
      destruct (IH _ Hu' H) as [final [Hfu [Hinc Hall]]].
      exists final. split; [exact Hfu|]. split; [intros x Hx; apply Hinc; right; exact Hx|].
      intros k0 f0 [Hin|Hin].
      * inversion Hin; subst. exists f0. split; [apply Hinc; left; reflexivity|]. left; reflexivity.
      * apply Hall; exact Hin.
Qed.

Lemma of_agree_name p f : of_agree p f = true ->
  of_name p = of_name f /\ length (of_args p) = length (of_args f).
Proof.
  unfold of_agree. rewrite !andb_true_iff. intros [[H1 H2] _].
  apply name_eqb_eq in H1. apply Nat.eqb_eq in H2. split; assumption.
Qed.

(* any two fields collected under the same (type condition, response key) are
   the same field with the same number of arguments *)
Lemma fc_scan_pairwise es :
  fc_scan [] es = true ->
  forall k f1 f2, In (k, f1) es -> In (k, f2) es ->
    of_name f1 = of_name f2 /\ length (of_args f1) = length (of_args f2).
Proof.
  intros H k f1 f2 H1 H2.
  destruct (fc_scan_sound es [] (fun _ _ _ F => match F with end) H) as [final [Hu [_ Hall]]].
  destruct (Hall _ _ H1) as [p1 [Hp1 A1]], (Hall _ _ H2) as [p2 [Hp2 A2]].
  assert (p1 = p2) by (eapply Hu; eauto). subst p2.
  assert (of_name p1 = of_name f1 /\ length (of_args p1) = length (of_args f1)) as [N1 L1]
      by (destruct A1 as [->|A1]; [split; reflexivity|apply of_agree_name; exact A1]).
  assert (of_name p1 = of_name f2 /\ length (of_args p1) = length (of_args f2)) as [N2 L2]
      by (destruct A2 as [->|A2]; [split; reflexivity|apply of_agree_name; exact A2]).
  split; congruence.
Qed.

Lemma all_ok_in l : all_ok l = Ok true -> forall x, In x l -> x = Ok true.
Proof.
  induction l as [|x l IH]; intros H y Hy; [destruct Hy|].
  cbn [all_ok] in H. destruct x as [a| | |]; cbn [bindo] in H; try discriminate.
  destruct (all_ok l) as [c| | |] eqn:E; cbn [bindo] in H; try discriminate.
  inversion H as [Hab]. apply andb_true_iff in Hab. destruct Hab as [-> ->].
  destruct Hy as [<-|Hy]; [reflexivity|]. apply IH; [reflexivity|exact Hy].
Qed.

(* document level: when the modelled rule reports nothing, every selection set
   it looks at has the pairwise property *)
Lemma overlap_sound_partial Sch d fuel :
  impl_overlap Sch d fuel = Ok true ->
  forall o r set es vis,
    In o (doc_ops d) -> root_of Sch (op_ty o) = Some r ->
    In set (sets_of_list (op_sels o)) ->
    fc_collect (doc_frags d) fuel None set [] = Ok (es, vis) ->
    forall k f1 f2, In (k, f1) es -> In (k, f2) es ->
      of_name f1 = of_name f2 /\ length (of_args f1) = length (of_args f2).
Proof.
  intros H o r set es vis Ho Hr Hset Hc.
  unfold impl_overlap in H.
  assert (impl_overlap_sets (doc_frags d) fuel (op_sels o) = Ok true) as Hs.
  { apply (all_ok_in _ H). apply in_or_app. left. apply in_map_iff. exists o. split; [|exact Ho].
    rewrite Hr. reflexivity. }
  unfold impl_overlap_sets in Hs.
  assert (fc_set_ok (doc_frags d) fuel set = Ok true) as Hf.
  { apply (all_ok_in _ Hs). apply in_map. exact Hset. }
  unfold fc_set_ok in Hf. rewrite Hc in Hf. cbn [bindo fst] in Hf. inversion Hf as [Hscan].
  apply fc_scan_pairwise; exact Hscan.
Qed.

(* ------------------------------------------- (5) decomposition of the verdict -- *)
Lemma strict_decomposition Sch d vars opname fuel fwd m :
  impl_strict Sch d vars opname fuel fwd = Ok m ->
  known_class Sch d vars opname fuel fwd = 0 ->
  m = spec_valid Sch d fuel.
Proof.
  unfold impl_strict, known_class, spec_valid. intros H K.
  destruct (impl_overlap Sch d fuel) as [ov| | |]; cbn [bindo] in H; try discriminate.
  destruct (impl_varpos Sch d fuel fwd) as [vp| | |]; cbn [bindo] in H; try discriminate.
  inversion H; subst m. clear H.
  destruct (Bool.eqb vp (spec_varpos Sch d)) eqn:E1; cbn [negb] in K; [|discriminate].
  destruct (Bool.eqb ov (spec_merge Sch d fuel)) eqn:E2; cbn [negb] in K; [|discriminate].
  destruct (Bool.eqb (impl_values Sch d vars opname) (spec_values Sch d)) eqn:E3; cbn [negb] in K; [|discriminate].
  destruct (spec_subscription Sch d fuel) eqn:E4; cbn [negb] in K; [|discriminate].
  destruct (Bool.eqb (base_ok Sch d true) (base_ok Sch d false)) eqn:E5; cbn [negb] in K; [|discriminate].
  apply Bool.eqb_prop in E1, E2, E3, E5. rewrite E1, E2, E3, E5.
  destruct (base_ok Sch d false), (spec_values Sch d), (spec_varpos Sch d), (spec_merge Sch d fuel); reflexivity.
Qed.

(* --------------------------------------------------- (4) witnesses / examples -- *)
(* names: 10 Int, 11 String, 12 O0 (query), 13 O1, 14 f0, 15 o, 16 q, 17 n, 18 s (variable),
   19 k (alias), 20 Sub, 21 s0, 22 second, 23 x, 24 E0, 25 A, 26 e, 27 O2, 28 g0, 29 U (= O1 | O2), 30 u *)
Definition w_schema : schema :=
  {| s_types := [(10, MScalar K_INT); (11, MScalar K_STRING);
                 (24, MEnum [(25, [65])]);
                 (12, MObject [(14, {| mf_ty := TNamed 10; mf_args := [] |});
                               (15, {| mf_ty := TNamed 13; mf_args := [] |});
                               (30, {| mf_ty := TNamed 29; mf_args := [] |});
                               (16, {| mf_ty := TNamed 10;
                                       mf_args := [(17, {| mi_ty := TNonNull (TNamed 10); mi_default := false |});
                                                   (26, {| mi_ty := TNamed 24; mi_default := false |})] |})]);
                 (13, MObject [(14, {| mf_ty := TNamed 10; mf_args := [] |})]);
                 (27, MObject [(14, {| mf_ty := TNamed 10; mf_args := [] |});
                               (28, {| mf_ty := TNamed 10; mf_args := [] |})]);
                 (29, MUnion [13; 27]);
                 (20, MObject [(21, {| mf_ty := TNamed 10; mf_args := [] |})])];
     s_tnames := [([73; 110; 116], 10); ([83; 116; 114; 105; 110; 103], 11)];
     s_query := 12; s_mutation := None; s_subscription := Some 20;
     s_directives := [] |}.

Definition mk_doc (o : operation) : document := {| doc_ops := [o]; doc_frags := [] |}.
Definition mk_query (vars : list vardef) (sels : list selection) : operation :=
  {| op_name := None; op_ty := OpQuery; op_vars := vars; op_dirs := []; op_sels := sels |}.

(* query($s: String) { q(n: $s) } *)
Definition w_varpos : document :=
  mk_doc (mk_query [{| vd_name := 18; vd_ty := [83; 116; 114; 105; 110; 103]; vd_default := None |}]
                   [SField None 16 [(17, VVar 18)] [] []]).
(* query($s: Int!) { q(n: $s) } *)
Definition w_varpos_good : document :=
  mk_doc (mk_query [{| vd_name := 18; vd_ty := [73; 110; 116; 33]; vd_default := None |}]
                   [SField None 16 [(17, VVar 18)] [] []]).
(* { o { k: f0 ... on O1 { k: __typename } } } *)
Definition w_overlap : document :=
  mk_doc (mk_query [] [SField None 15 [] [] [SField (Some 19) 14 [] [] [];
                                             SInline (Some 13) [] [SField (Some 19) N_typename [] [] []]]]).
(* { o { k: f0 k: __typename } }: the conflict the rule does see *)
Definition w_overlap_seen : document :=
  mk_doc (mk_query [] [SField None 15 [] [] [SField (Some 19) 14 [] [] [];
                                             SField (Some 19) N_typename [] [] []]]).
(* { q(n: 1, e: "A") } *)
Definition w_enum_string : document :=
  mk_doc (mk_query [] [SField None 16 [(17, VInt 1); (26, VStr [65])] [] []]).
(* subscription { s0 second: s0 } *)
Definition w_subscription : document :=
  mk_doc {| op_name := None; op_ty := OpSubscription; op_vars := []; op_dirs := [];
            op_sels := [SField None 21 [] [] []; SField (Some 22) 21 [] [] []] |}.
(* { __typename(x: 1) } *)
Definition w_typename : document :=
  mk_doc (mk_query [] [SField None N_typename [(23, VInt 1)] [] []]).
(* { f0 o { f0 } } *)
Definition w_valid : document :=
  mk_doc (mk_query [] [SField None 14 [] [] []; SField None 15 [] [] [SField None 14 [] [] []]]).

Lemma var_position_refuted :
  spec_valid w_schema w_varpos 50 = false /\
  impl_strict w_schema w_varpos [] None 50 false = Ok true /\
  known_class w_schema w_varpos [] None 50 false = 1 /\
  (* with the callbacks forwarded the same rule reports it, and accepts the good twin *)
  impl_strict w_schema w_varpos [] None 50 true = Ok false /\
  impl_strict w_schema w_varpos_good [] None 50 true = Ok true /\
  spec_valid w_schema w_varpos_good 50 = true.
Proof. vm_compute. repeat split. Qed.

Lemma overlap_refuted :
  spec_valid w_schema w_overlap 50 = false /\
  impl_strict w_schema w_overlap [] None 50 false = Ok true /\
  known_class w_schema w_overlap [] None 50 false = 2 /\
  impl_strict w_schema w_overlap_seen [] None 50 false = Ok false /\
  spec_valid w_schema w_overlap_seen 50 = false.
Proof. vm_compute. repeat split. Qed.

(* { u { ... on O1 { ... { k: f0 } } ... on O2 { ... { k: g0 } } } }: valid (the two
   `k` can never meet), but both sit under an inline fragment WITHOUT type
   condition, so FindConflicts files them under the same key and reports a conflict *)
Definition w_overreject : document :=
  mk_doc (mk_query [] [SField None 30 [] []
                         [SInline (Some 13) [] [SInline None [] [SField (Some 19) 14 [] [] []]];
                          SInline (Some 27) [] [SInline None [] [SField (Some 19) 28 [] [] []]]]]).
Lemma overlap_overrejects :
  spec_valid w_schema w_overreject 50 = true /\
  impl_strict w_schema w_overreject [] None 50 false = Ok false /\
  known_class w_schema w_overreject [] None 50 false = 2.
Proof. vm_compute. repeat split. Qed.

Lemma values_refuted :
  spec_valid w_schema w_enum_string 50 = false /\
  impl_strict w_schema w_enum_string [] None 50 false = Ok true /\
  known_class w_schema w_enum_string [] None 50 false = 3.
Proof. vm_compute. repeat split. Qed.

Lemma subscription_refuted :
  spec_valid w_schema w_subscription 50 = false /\
  impl_strict w_schema w_subscription [] None 50 false = Ok true /\
  known_class w_schema w_subscription [] None 50 false = 4.
Proof. vm_compute. repeat split. Qed.

Lemma typename_refuted :
  spec_valid w_schema w_typename 50 = false /\
  impl_strict w_schema w_typename [] None 50 false = Ok true /\
  known_class w_schema w_typename [] None 50 false = 5.
Proof. vm_compute. repeat split. Qed.

(* spec_valid is not vacuous: a valid document, and one mutant per rule family *)
Definition mut_unknown_field := mk_doc (mk_query [] [SField None 99 [] [] []]).
Definition mut_missing_arg := mk_doc (mk_query [] [SField None 16 [] [] []]).
Definition mut_wrong_arg := mk_doc (mk_query [] [SField None 16 [(17, VStr [120])] [] []]).
Definition mut_unknown_arg := mk_doc (mk_query [] [SField None 14 [(23, VInt 1)] [] []]).
Definition mut_dup_arg := mk_doc (mk_query [] [SField None 16 [(17, VInt 1); (17, VInt 1)] [] []]).
Definition mut_unknown_fragment := mk_doc (mk_query [] [SField None 14 [] [] []; SSpread 40 []]).
Definition mut_unused_fragment :=
  {| doc_ops := [mk_query [] [SField None 14 [] [] []]];
     doc_frags := [(40, {| fr_cond := 12; fr_dirs := []; fr_sels := [SField None 14 [] [] []] |})] |}.
Definition mut_cycle :=
  {| doc_ops := [mk_query [] [SSpread 40 []]];
     doc_frags := [(40, {| fr_cond := 12; fr_dirs := []; fr_sels := [SField None 14 [] [] []; SSpread 40 []] |})] |}.
Definition mut_spread_impossible :=
  mk_doc (mk_query [] [SInline (Some 13) [] [SField None 14 [] [] []]]).
Definition mut_scalar_sub := mk_doc (mk_query [] [SField None 14 [] [] [SField None 14 [] [] []]]).
Definition mut_object_nosub := mk_doc (mk_query [] [SField None 15 [] [] []]).
Definition mut_dup_var :=
  mk_doc (mk_query [{| vd_name := 18; vd_ty := [73; 110; 116; 33]; vd_default := None |};
                    {| vd_name := 18; vd_ty := [73; 110; 116; 33]; vd_default := None |}]
                   [SField None 16 [(17, VVar 18)] [] []]).
Definition mut_undef_var := mk_doc (mk_query [] [SField None 16 [(17, VVar 18)] [] []]).
Definition mut_unused_var :=
  mk_doc (mk_query [{| vd_name := 18; vd_ty := [73; 110; 116]; vd_default := None |}] [SField None 14 [] [] []]).
Definition mut_unknown_directive :=
  mk_doc (mk_query [] [SField None 14 [] [{| d_name := 41; d_args := [] |}] []]).
Definition mut_conflict := w_overlap_seen.
Definition mut_var_non_input :=
  mk_doc (mk_query [{| vd_name := 18; vd_ty := [79; 48]; vd_default := None |}] [SField None 14 [] [] []]).

Lemma spec_nonvacuous :
  spec_valid w_schema w_valid 50 = true /\
  impl_strict w_schema w_valid [] None 50 false = Ok true /\
  forallb (fun d => negb (spec_valid w_schema d 50))
          [mut_unknown_field; mut_missing_arg; mut_wrong_arg; mut_unknown_arg; mut_dup_arg;
           mut_unknown_fragment; mut_unused_fragment; mut_cycle; mut_spread_impossible; mut_scalar_sub;
           mut_object_nosub; mut_dup_var; mut_undef_var; mut_unused_var; mut_unknown_directive;
           mut_conflict; mut_var_non_input; w_varpos; w_overlap; w_enum_string; w_subscription; w_typename] = true /\
  (* and the modelled validator agrees on every one of the plain mutants *)
  forallb (fun d => match impl_strict w_schema d [] None 50 false with Ok false => true | _ => false end)
          [mut_unknown_field; mut_missing_arg; mut_wrong_arg; mut_unknown_arg; mut_dup_arg;
           mut_unknown_fragment; mut_unused_fragment; mut_cycle; mut_spread_impossible; mut_scalar_sub;
           mut_object_nosub; mut_dup_var; mut_undef_var; mut_unused_var; mut_unknown_directive;
           mut_conflict; mut_var_non_input] = true.
Proof. vm_compute. repeat split. Qed.

Lemma usage_nonvacuous :
  exists vd vt lt,
    var_ty w_schema vd = Some vt /\ vd_default vd <> Some VNull /\
    nn_at_list lt (viap_expected vt (vd_default vd)) = false /\
    impl_usage_ok w_schema vd lt = false /\ usage_allowed vt (vd_default vd) lt false = false.
Proof.
  exists {| vd_name := 18; vd_ty := [83; 116; 114; 105; 110; 103]; vd_default := None |},
         (TNamed 11), (TNonNull (TNamed 10)).
  repeat split; try reflexivity. discriminate.
Qed.

(* ---- "All Variable Uses Defined" is per operation, through fragment spreads ----
   query A($x: Int!) { ...F }  query B { ...F }  fragment F on O0 { q(n: $x) }
   names: 31 A, 32 B, 33 F, 34 x, 35 G *)
Definition vd_x : vardef := {| vd_name := 34; vd_ty := [73; 110; 116; 33]; vd_default := None |}.
Definition frag_F : name * fragment :=
  (33, {| fr_cond := 12; fr_dirs := []; fr_sels := [SField None 16 [(17, VVar 34)] [] []] |}).
Definition named_query (n : name) (vars : list vardef) (sels : list selection) : operation :=
  {| op_name := Some n; op_ty := OpQuery; op_vars := vars; op_dirs := []; op_sels := sels |}.
Definition w_shared_undefined : document :=
  {| doc_ops := [named_query 31 [vd_x] [SSpread 33 []]; named_query 32 [] [SSpread 33 []]];
     doc_frags := [frag_F] |}.
Definition w_shared_defined : document :=
  {| doc_ops := [named_query 31 [vd_x] [SSpread 33 []]; named_query 32 [vd_x] [SSpread 33 []]];
     doc_frags := [frag_F] |}.
(* transitively: B { f0 ...G }  G { f0 ...F } *)
Definition w_shared_transitive : document :=
  {| doc_ops := [named_query 31 [vd_x] [SSpread 33 []];
                 named_query 32 [] [SField None 14 [] [] []; SSpread 35 []]];
     doc_frags := [frag_F; (35, {| fr_cond := 12; fr_dirs := [];
                                   fr_sels := [SField (Some 19) 14 [] [] []; SSpread 33 []] |})] |}.
(* B defines $x but reaches no use of it *)
Definition w_shared_unused : document :=
  {| doc_ops := [named_query 31 [vd_x] [SSpread 33 []]; named_query 32 [vd_x] [SField None 14 [] [] []]];
     doc_frags := [frag_F] |}.

(* the specification and the modelled validator reject the shared-fragment
   documents in no known class, so a real validator that accepts one of them
   gets verdict 4 (VIOLATION) from the per-case function, and 0 when it rejects *)
Lemma shared_fragment_verdicts :
  spec_valid w_schema w_shared_defined 50 = true /\
  check_c09 w_schema w_shared_defined [] (Some 31) 50 0 = 0 /\
  forallb (fun d => negb (spec_valid w_schema d 50) &&
                    (known_class w_schema d [] (Some 31) 50 forwards_input_value_gen =? 0) &&
                    (check_c09 w_schema d [] (Some 31) 50 0 =? 4) &&
                    (check_c09 w_schema d [] (Some 32) 50 0 =? 4) &&
                    (check_c09 w_schema d [] (Some 31) 50 1 =? 0))
          [w_shared_undefined; w_shared_transitive; w_shared_unused] = true.
Proof. vm_compute. repeat split. Qed.

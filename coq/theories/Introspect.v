(* Introspect.v — C18: model of Registry::find_visible_types
   (src/registry/mod.rs:1905-2049), of the __Schema / __Type / __Field /
   __InputValue / __EnumValue / __Directive resolvers (src/model/*.rs) and of
   the __schema / __type root fields (src/types/query_root.rs:35-62,
   src/dynamic/resolve.rs:67-125) as a function
        registry x visibility context x includeDeprecated -> introspection tree,
   the consistency specification of the property, and the per-case verdict.
   No proofs here (IntrospectProofs.v). *)
From AG Require Export Base.
Open Scope N_scope.

(* ------------------------------------------------------------ registry -- *)
(* A visibility predicate (Option<fn(&Context) -> bool>) is represented by its
   truth table over the visibility contexts: bit c = visible under context c.
   The harness obtains the table by calling the registered function. *)
Definition vis := N.
Definition veval (ctx : N) (v : vis) : bool := N.testbit v ctx.

(* A registry type string ("[Int!]!") as a token list; a name is one token. *)
Inductive tok := KBang | KOpen | KClose | KName (n : name).
Definition tystr := list tok.

Record minput := { mi_name : name; mi_ty : tystr; mi_dep : bool; mi_default : option name; mi_vis : vis }.
Record mfield := { mf_name : name; mf_dunder : bool (* name starts with "__" *); mf_args : list minput;
                   mf_ty : tystr; mf_dep : bool; mf_vis : vis }.
Record menum := { me_name : name; me_dep : bool; me_vis : vis }.
Inductive mkind :=
| MScalar
| MObject (fields : list mfield)
| MInterface (fields : list mfield) (possible : list name)
| MUnion (possible : list name)
| MEnum (values : list menum)
| MInput (fields : list minput).
Record mtype := { mt_name : name; mt_system : bool (* is_system_type(name) *); mt_keyed : bool;
                  mt_vis : vis; mt_kind : mkind }.
Record mdirective := { md_name : name; md_args : list minput; md_vis : vis }.
Record registry := {
  r_types : list (name * mtype);            (* BTreeMap order *)
  r_directives : list mdirective;           (* BTreeMap order *)
  r_implements : list (name * list name);   (* HashMap<String, IndexSet<String>> *)
  r_query : name; r_mutation : option name; r_subscription : option name }.

(* ---------------------------------------------------- introspection tree -- *)
Definition K_SCALAR := 0. Definition K_OBJECT := 1. Definition K_INTERFACE := 2.
Definition K_UNION := 3.  Definition K_ENUM := 4.   Definition K_INPUT := 5.
Definition K_LIST := 6.   Definition K_NONNULL := 7.
Definition K_PANIC := 99.     (* __Type::new: panic!("Type '{}' not found!") *)
Definition K_OOF := 98.       (* model only: out of fuel *)

Inductive iref := IRef (kind : N) (nm : option name) (of : option iref).
Record iinput := { ii_name : name; ii_type : iref; ii_default : option name; ii_dep : bool }.
Record ifield := { if_name : name; if_args : list iinput; if_type : iref; if_dep : bool }.
Record ienum := { ie_name : name; ie_dep : bool }.
Record itype := { it_kind : N; it_name : name; it_fields : option (list ifield);
                  it_interfaces : option (list iref); it_possible : option (list iref);
                  it_enums : option (list ienum); it_inputs : option (list iinput) }.
Record idir := { id_name : name; id_args : list iinput }.
Record ischema := { is_types : list itype; is_query : name; is_mutation : option name;
                    is_subscription : option name; is_dirs : list idir }.

(* ------------------------------------------------------------- helpers -- *)
Definition tok_eqb (a b : tok) : bool :=
  match a, b with
  | KBang, KBang | KOpen, KOpen | KClose, KClose => true
  | KName x, KName y => name_eqb x y
  | _, _ => false
  end.

Fixpoint foldo {A B} (g : A -> B -> outcome A) (l : list B) (a : A) : outcome A :=
  match l with
  | [] => Ok a
  | x :: l' => bindo (g a x) (foldo g l')
  end.

Definition opt_list {A} (o : option A) : list A := match o with Some a => [a] | None => [] end.

Definition lookup_impl (R : registry) (n : name) : list name :=
  match assoc n (r_implements R) with Some l => l | None => [] end.

(* MetaTypeName::create, one step: strip_suffix('!') first, then strip_brackets
   (drops the first and the LAST token whatever it is), else Named. *)
Inductive mtn := TnNonNull (t : tystr) | TnList (t : tystr) | TnNamed (t : tystr).
Definition mtn_create (t : tystr) : mtn :=
  match last t KOpen with
  | KBang => TnNonNull (removelast t)
  | _ => match t with
         | KOpen :: rest => TnList (removelast rest)
         | _ => TnNamed t
         end
  end.

(* MetaTypeName::concrete_typename; the result is looked up in the registry,
   which only succeeds for a single name token. *)
Fixpoint concrete_f (fuel : nat) (t : tystr) : option name :=
  match fuel with
  | O => None
  | S f => match mtn_create t with
           | TnNonNull t' | TnList t' => concrete_f f t'
           | TnNamed [KName n] => Some n
           | TnNamed _ => None
           end
  end.
Definition concrete (t : tystr) : option name := concrete_f (S (length t)) t.

Definition kind_of (k : mkind) : N :=
  match k with
  | MScalar => K_SCALAR | MObject _ => K_OBJECT | MInterface _ _ => K_INTERFACE
  | MUnion _ => K_UNION | MEnum _ => K_ENUM | MInput _ => K_INPUT
  end.

Section Model.
  Variable R : registry.
  Variable ctx : N.

  Definition tvisible (ty : mtype) : bool := veval ctx (mt_vis ty).

  (* ------------------------------------------- find_visible_types (DFS) -- *)
  Definition trav_input (go : list name -> name -> outcome (list name)) (v : list name) (iv : minput)
    : outcome (list name) :=
    if veval ctx (mi_vis iv) then
      match concrete (mi_ty iv) with Some n => go v n | None => Ok v end
    else Ok v.

  Definition trav_field (go : list name -> name -> outcome (list name)) (v : list name) (f : mfield)
    : outcome (list name) :=
    if veval ctx (mf_vis f) then
      bindo (match concrete (mf_ty f) with Some n => go v n | None => Ok v end)
            (foldo (trav_input go) (mf_args f))
    else Ok v.

  Definition trav_kind (go : list name -> name -> outcome (list name)) (v : list name) (k : mkind)
    : outcome (list name) :=
    match k with
    | MObject fs => foldo (trav_field go) fs v
    | MInterface fs ps => bindo (foldo (trav_field go) fs v) (foldo go ps)
    | MUnion ps => foldo go ps v
    | MInput fs => foldo (trav_input go) fs v
    | MScalar | MEnum _ => Ok v
    end.

  (* traverse_type *)
  Fixpoint trav (fuel : nat) (v : list name) (tn : name) {struct fuel} : outcome (list name) :=
    match fuel with
    | O => OutOfFuel
    | S f =>
      if mem tn v then Ok v else
      match assoc tn (r_types R) with
      | None => Ok v
      | Some ty => if tvisible ty then trav_kind (trav f) (tn :: v) (mt_kind ty) else Ok v
      end
    end.

  Definition roots : list name := r_query R :: opt_list (r_mutation R) ++ opt_list (r_subscription R).
  Definition keyed : list name :=
    map (fun p => mt_name (snd p)) (filter (fun p => mt_keyed (snd p)) (r_types R)).

  (* the single pass over interfaces that are not reached but have a visible possible type *)
  Definition iface_pass (fuel : nat) (v : list name) (p : name * mtype) : outcome (list name) :=
    match mt_kind (snd p) with
    | MInterface _ ps =>
        if tvisible (snd p) && negb (mem (mt_name (snd p)) v) && existsb (fun x => mem x v) ps
        then trav fuel v (mt_name (snd p)) else Ok v
    | _ => Ok v
    end.

  Definition reached (fuel : nat) : outcome (list name) :=
    bindo (foldo (fun v d => if veval ctx (md_vis d) then foldo (trav_input (trav fuel)) (md_args d) v else Ok v)
                 (r_directives R) []) (fun v1 =>
    bindo (foldo (trav fuel) roots v1) (fun v2 =>
    bindo (foldo (trav fuel) keyed v2) (fun v3 =>
    foldo (iface_pass fuel) (r_types R) v3))).

  Definition listed_in (v : list name) (p : name * mtype) : bool :=
    mt_system (snd p) || mem (mt_name (snd p)) v.

  (* the HashSet returned by find_visible_types, in registry order *)
  Definition find_visible (fuel : nat) : outcome (list name) :=
    bindo (reached fuel) (fun v => Ok (map (fun p => mt_name (snd p)) (filter (listed_in v) (r_types R)))).

  (* ------------------------------------------------ __Type::new / ofType -- *)
  Fixpoint mk_ref_f (fuel : nat) (t : tystr) : iref :=
    match fuel with
    | O => IRef K_OOF None None
    | S f => match mtn_create t with
             | TnNonNull t' => IRef K_NONNULL None (Some (mk_ref_f f t'))
             | TnList t' => IRef K_LIST None (Some (mk_ref_f f t'))
             | TnNamed [KName n] =>
                 match assoc n (r_types R) with
                 | Some ty => IRef (kind_of (mt_kind ty)) (Some (mt_name ty)) None
                 | None => IRef K_PANIC None None
                 end
             | TnNamed _ => IRef K_PANIC None None
             end
    end.
  Definition mk_ref (t : tystr) : iref := mk_ref_f (S (length t)) t.
  Definition mk_named_ref (n : name) : iref := mk_ref [KName n].

  (* ------------------------------------------------------- resolvers ----- *)
  Variable incl_fe : bool.   (* includeDeprecated of fields / enumValues *)
  Variable incl_ai : bool.   (* includeDeprecated of args / inputFields / directive args *)

  Definition mk_input (iv : minput) : iinput :=
    {| ii_name := mi_name iv; ii_type := mk_ref (mi_ty iv); ii_default := mi_default iv; ii_dep := mi_dep iv |}.
  Definition show_input (iv : minput) : bool := (incl_ai || negb (mi_dep iv)) && veval ctx (mi_vis iv).
  Definition mk_inputs (l : list minput) : list iinput := map mk_input (filter show_input l).

  Definition show_field (f : mfield) : bool :=
    veval ctx (mf_vis f) && ((incl_fe || negb (mf_dep f)) && negb (mf_dunder f)).
  Definition mk_field (f : mfield) : ifield :=
    {| if_name := mf_name f; if_args := mk_inputs (mf_args f); if_type := mk_ref (mf_ty f); if_dep := mf_dep f |}.
  Definition mk_fields (l : list mfield) : list ifield := map mk_field (filter show_field l).

  Definition show_enum (e : menum) : bool := veval ctx (me_vis e) && (incl_fe || negb (me_dep e)).
  Definition mk_enums (l : list menum) : list ienum :=
    map (fun e => {| ie_name := me_name e; ie_dep := me_dep e |}) (filter show_enum l).

  Definition refs_in (vt : list name) (l : list name) : list iref :=
    map mk_named_ref (filter (fun n => mem n vt) l).

  Definition mk_type (vt : list name) (ty : mtype) : itype :=
    {| it_kind := kind_of (mt_kind ty);
       it_name := mt_name ty;
       it_fields := match mt_kind ty with
                    | MObject fs | MInterface fs _ => Some (mk_fields fs)
                    | _ => None end;
       it_interfaces := match mt_kind ty with
                        | MObject _ => Some (refs_in vt (lookup_impl R (mt_name ty)))
                        | _ => None end;
       it_possible := match mt_kind ty with
                      | MInterface _ ps | MUnion ps => Some (refs_in vt ps)
                      | _ => None end;
       it_enums := match mt_kind ty with MEnum vs => Some (mk_enums vs) | _ => None end;
       it_inputs := match mt_kind ty with MInput fs => Some (mk_inputs fs) | _ => None end |}.

  Definition mk_dir (d : mdirective) : idir :=
    {| id_name := md_name d;
       id_args := map mk_input (filter (fun iv => incl_ai || negb (mi_dep iv)) (md_args d)) |}.

  Definition opt_in (vt : list name) (o : option name) : option name :=
    match o with Some n => if mem n vt then Some n else None | None => None end.

  Definition mk_schema (vt : list name) : ischema :=
    {| is_types := map (fun p => mk_type vt (snd p)) (filter (fun p => mem (mt_name (snd p)) vt) (r_types R));
       is_query := r_query R;
       is_mutation := opt_in vt (r_mutation R);
       is_subscription := opt_in vt (r_subscription R);
       is_dirs := map mk_dir (r_directives R) |}.

  (* __type(name:) *)
  Definition mk_type_query (vt : list name) (n : name) : option itype :=
    match assoc n (r_types R) with
    | Some ty => if mem n vt then Some (mk_type vt ty) else None
    | None => None
    end.

  (* panic detection: a K_PANIC / K_OOF node anywhere among the type references *)
  Fixpoint ref_bad (r : iref) : bool :=
    match r with
    | IRef k _ o => (k =? K_PANIC) || (k =? K_OOF) || match o with Some r' => ref_bad r' | None => false end
    end.
  Definition input_bad (i : iinput) := ref_bad (ii_type i).
  Definition field_bad (f : ifield) := ref_bad (if_type f) || existsb input_bad (if_args f).
  Definition olist_bad {A} (g : A -> bool) (o : option (list A)) := match o with Some l => existsb g l | None => false end.
  Definition type_bad (t : itype) :=
    olist_bad field_bad (it_fields t) || olist_bad ref_bad (it_interfaces t) || olist_bad ref_bad (it_possible t)
    || olist_bad input_bad (it_inputs t).
  Definition schema_bad (s : ischema) :=
    existsb type_bad (is_types s) || existsb (fun d => existsb input_bad (id_args d)) (is_dirs s).

  Definition result := (ischema * list (name * option itype))%type.

  (* the response to the full introspection query plus __type(name: n) for n in qs *)
  Definition introspect (fuel : nat) (qs : list name) : outcome result :=
    bindo (find_visible fuel) (fun vt =>
      match assoc (r_query R) (r_types R) with
      | None => Panic     (* &self.registry.types[&self.registry.query_type] *)
      | Some _ =>
        let s := mk_schema vt in
        let tq := map (fun n => (n, mk_type_query vt n)) qs in
        if schema_bad s || existsb (fun p => match snd p with Some t => type_bad t | None => false end) tq
        then Panic else Ok (s, tq)
      end).
End Model.

Definition default_fuel (R : registry) : nat := S (S (length (r_types R))).

(* ================================================================ spec == *)
(* Written against the GraphQL specification (Oct 2021, 4.2 / 4.3 / 4.5) and the
   property text, over the introspection TREE, the registry as declaration of
   the served type system, and the visibility context. *)

Inductive tyref := TNamed (n : name) | TList (t : tyref) | TNonNull (t : tyref).

(* printing of a declared type (GraphQL type syntax) *)
Fixpoint print_ty (t : tyref) : tystr :=
  match t with
  | TNamed n => [KName n]
  | TList t' => KOpen :: print_ty t' ++ [KClose]
  | TNonNull t' => print_ty t' ++ [KBang]
  end.

(* independent recursive-descent parser of GraphQL type syntax:
   Type ::= (Name | '[' Type ']') '!'*                                    *)
Fixpoint bangs (t : tyref) (l : tystr) : tyref * tystr :=
  match l with
  | KBang :: l' => bangs (TNonNull t) l'
  | _ => (t, l)
  end.
Fixpoint parse_ty_f (fuel : nat) (l : tystr) : option (tyref * tystr) :=
  match fuel with
  | O => None
  | S f =>
    match l with
    | KName n :: l' => Some (bangs (TNamed n) l')
    | KOpen :: l' =>
        match parse_ty_f f l' with
        | Some (t, KClose :: l'') => Some (bangs (TList t) l'')
        | _ => None
        end
    | _ => None
    end
  end.
Definition parse_ty (l : tystr) : option tyref :=
  match parse_ty_f (S (length l)) l with Some (t, []) => Some t | _ => None end.

Fixpoint ty_leaf (t : tyref) : name :=
  match t with TNamed n => n | TList t' | TNonNull t' => ty_leaf t' end.

Section Spec.
  Variable R : registry.
  Variable declared : list (name * list name).   (* extra declared `implements` (dynamic Interface::implement) *)
  Variable ctx : N.
  Variable incl_fe incl_ai : bool.

  (* the wrapper chain a declared type denotes (spec 4.5.2: LIST / NON_NULL with ofType) *)
  Fixpoint spec_ref (t : tyref) : iref :=
    match t with
    | TNamed n => match assoc n (r_types R) with
                  | Some ty => IRef (kind_of (mt_kind ty)) (Some n) None
                  | None => IRef K_PANIC None None
                  end
    | TList t' => IRef K_LIST None (Some (spec_ref t'))
    | TNonNull t' => IRef K_NONNULL None (Some (spec_ref t'))
    end.

  Fixpoint iref_eqb (a b : iref) : bool :=
    match a, b with
    | IRef k n o, IRef k' n' o' =>
        (k =? k') && option_eqb name_eqb n n' &&
        match o, o' with
        | Some x, Some y => iref_eqb x y
        | None, None => true
        | _, _ => false
        end
    end.

  Fixpoint ref_leaf (r : iref) : option name :=
    match r with
    | IRef _ n None => n
    | IRef _ _ (Some r') => ref_leaf r'
    end.

  Definition type_hidden (n : name) : bool :=
    match assoc n (r_types R) with
    | Some ty => negb (mt_system ty) && negb (veval ctx (mt_vis ty))
    | None => true
    end.

  Definition declared_impl (x : name) : list name :=
    lookup_impl R x ++ match assoc x declared with Some l => l | None => [] end.

  Variable tree : ischema.
  Definition listed (n : name) : bool := existsb (fun t => name_eqb (it_name t) n) (is_types tree).
  Definition find_itype (n : name) : option itype := find (fun t => name_eqb (it_name t) n) (is_types tree).

  Definition olist {A} (o : option (list A)) : list A := match o with Some l => l | None => [] end.

  (* every type reference of a type, with the way it is reached *)
  Definition member_refs (t : itype) : list iref :=
    flat_map (fun f => if_type f :: map ii_type (if_args f)) (olist (it_fields t)) ++ map ii_type (olist (it_inputs t)).
  Definition link_refs (t : itype) : list iref := olist (it_interfaces t) ++ olist (it_possible t).
  Definition dir_refs : list iref := flat_map (fun d => map ii_type (id_args d)) (is_dirs tree).
  Definition root_names : list name := is_query tree :: opt_list (is_mutation tree) ++ opt_list (is_subscription tree).

  Definition leaf_ok (p : name -> bool) (r : iref) : bool :=
    match ref_leaf r with Some n => p n | None => false end.

  (* S1 closed: every referenced type is listed in __schema.types *)
  Definition s_closed_members : bool :=
    forallb (fun t => forallb (leaf_ok listed) (member_refs t)) (is_types tree) && forallb listed root_names.
  Definition s_closed_links : bool := forallb (fun t => forallb (leaf_ok listed) (link_refs t)) (is_types tree).

  (* S4 nothing hidden appears: no hidden type name anywhere, no hidden member, no hidden directive *)
  Definition s_hidden_types : bool :=
    forallb (fun t => negb (type_hidden (it_name t)) &&
                      forallb (leaf_ok (fun n => negb (type_hidden n))) (member_refs t ++ link_refs t)) (is_types tree)
    && forallb (fun n => negb (type_hidden n)) root_names.

  Definition reg_fields (k : mkind) : list mfield :=
    match k with MObject fs | MInterface fs _ => fs | _ => [] end.
  Definition input_shown (l : list minput) (i : iinput) : bool :=
    existsb (fun m => name_eqb (mi_name m) (ii_name i) && veval ctx (mi_vis m)) l.
  Definition s_hidden_members : bool :=
    forallb (fun t =>
      match assoc (it_name t) (r_types R) with
      | None => false
      | Some ty =>
          forallb (fun f => existsb (fun m => name_eqb (mf_name m) (if_name f) && veval ctx (mf_vis m) &&
                                              forallb (input_shown (mf_args m)) (if_args f))
                                    (reg_fields (mt_kind ty))) (olist (it_fields t)) &&
          forallb (fun e => match mt_kind ty with
                            | MEnum vs => existsb (fun m => name_eqb (me_name m) (ie_name e) && veval ctx (me_vis m)) vs
                            | _ => false end) (olist (it_enums t)) &&
          forallb (fun i => match mt_kind ty with MInput fs => input_shown fs i | _ => false end) (olist (it_inputs t))
      end) (is_types tree).
  (* every directive shown, and every argument shown on it, is visible in this context *)
  Definition s_hidden_dirs : bool :=
    forallb (fun d => existsb (fun m => name_eqb (md_name m) (id_name d) && veval ctx (md_vis m) &&
                                        forallb (input_shown (md_args m)) (id_args d)) (r_directives R)) (is_dirs tree).
  (* the types named by the visible arguments of visible directives are listed and not hidden *)
  Definition s_dir_types : bool :=
    forallb (fun d => match find (fun m => name_eqb (md_name m) (id_name d)) (r_directives R) with
                      | Some m => negb (veval ctx (md_vis m)) ||
                                  forallb (fun i => negb (input_shown (md_args m) i) ||
                                                    leaf_ok (fun n => listed n && negb (type_hidden n)) (ii_type i)) (id_args d)
                      | None => false end) (is_dirs tree).

  (* S2 wrappers: the ofType chain of every member equals the declared type *)
  Definition ref_matches (decl : tystr) (r : iref) : bool :=
    match parse_ty decl with Some t => iref_eqb r (spec_ref t) | None => false end.
  Definition input_matches (l : list minput) (i : iinput) : bool :=
    existsb (fun m => name_eqb (mi_name m) (ii_name i) && ref_matches (mi_ty m) (ii_type i) &&
                      option_eqb name_eqb (mi_default m) (ii_default i) && Bool.eqb (mi_dep m) (ii_dep i)) l.
  Definition s_wrappers : bool :=
    forallb (fun t =>
      match assoc (it_name t) (r_types R) with
      | None => false
      | Some ty =>
          forallb (fun f => existsb (fun m => name_eqb (mf_name m) (if_name f) && ref_matches (mf_ty m) (if_type f) &&
                                              Bool.eqb (mf_dep m) (if_dep f) &&
                                              forallb (input_matches (mf_args m)) (if_args f))
                                    (reg_fields (mt_kind ty))) (olist (it_fields t)) &&
          forallb (fun i => match mt_kind ty with MInput fs => input_matches fs i | _ => false end) (olist (it_inputs t))
      end) (is_types tree)
    && forallb (fun d => existsb (fun m => name_eqb (md_name m) (id_name d) &&
                                           forallb (input_matches (md_args m)) (id_args d)) (r_directives R)) (is_dirs tree).

  (* S5 agreement, completeness direction: every visible, requested member of a listed type is shown,
     kinds agree, the null / non-null shape of the per-kind fields is the spec's *)
  Definition want_field (m : mfield) := veval ctx (mf_vis m) && (incl_fe || negb (mf_dep m)) && negb (mf_dunder m).
  Definition want_input (m : minput) := veval ctx (mi_vis m) && (incl_ai || negb (mi_dep m)).
  Definition want_enum (m : menum) := veval ctx (me_vis m) && (incl_fe || negb (me_dep m)).
  Definition is_some {A} (o : option A) := match o with Some _ => true | None => false end.
  Definition s_agree : bool :=
    forallb (fun t =>
      match assoc (it_name t) (r_types R) with
      | None => false
      | Some ty =>
          (it_kind t =? kind_of (mt_kind ty)) &&
          match mt_kind ty with
          | MObject fs | MInterface fs _ =>
              list_eqb name_eqb (map if_name (olist (it_fields t))) (map mf_name (filter want_field fs)) &&
              forallb (fun f => match find (fun m => name_eqb (mf_name m) (if_name f)) fs with
                                | Some m => list_eqb name_eqb (map ii_name (if_args f)) (map mi_name (filter want_input (mf_args m)))
                                | None => false end) (olist (it_fields t)) && is_some (it_fields t)
          | _ => negb (is_some (it_fields t))
          end &&
          match mt_kind ty with
          | MEnum vs => list_eqb name_eqb (map ie_name (olist (it_enums t))) (map me_name (filter want_enum vs)) && is_some (it_enums t)
          | _ => negb (is_some (it_enums t))
          end &&
          match mt_kind ty with
          | MInput fs => list_eqb name_eqb (map ii_name (olist (it_inputs t))) (map mi_name (filter want_input fs)) && is_some (it_inputs t)
          | _ => negb (is_some (it_inputs t))
          end &&
          match mt_kind ty with
          | MInterface _ _ | MUnion _ => is_some (it_possible t)
          | _ => negb (is_some (it_possible t))
          end
      end) (is_types tree)
    && name_eqb (is_query tree) (r_query R)
    && option_eqb name_eqb (is_mutation tree) (match r_mutation R with Some m => if listed m then Some m else None | None => None end)
    && option_eqb name_eqb (is_subscription tree) (match r_subscription R with Some m => if listed m then Some m else None | None => None end).

  (* S3 possible types: for a union exactly the listed members; for an interface exactly the listed
     OBJECT types that declare it; interfaces <-> possibleTypes symmetric; a type that declares
     interfaces reports them (spec June 2018: Object; Oct 2021: Object and Interface) *)
  Definition ref_names (l : list iref) : list name := flat_map (fun r => opt_list (ref_leaf r)) l.
  Definition same_set (a b : list name) : bool := forallb (fun x => mem x b) a && forallb (fun x => mem x a) b.
  Definition kind_of_listed (n : name) : N := match find_itype n with Some t => it_kind t | None => K_PANIC end.
  Definition is_plain_named (r : iref) : bool := match r with IRef _ (Some _) None => true | _ => false end.
  Definition s_possible_union : bool :=
    forallb (fun t =>
      match assoc (it_name t) (r_types R) with
      | Some ty => match mt_kind ty with
                   | MUnion ps => list_eqb name_eqb (ref_names (olist (it_possible t))) (filter listed ps)
                                  && forallb is_plain_named (olist (it_possible t))
                   | _ => true end
      | None => false end) (is_types tree).
  Definition s_possible_iface : bool :=
    forallb (fun t =>
      if it_kind t =? K_INTERFACE then
        same_set (ref_names (olist (it_possible t)))
                 (map it_name (filter (fun x => (it_kind x =? K_OBJECT) && mem (it_name t) (declared_impl (it_name x))) (is_types tree)))
        && forallb is_plain_named (olist (it_possible t))
      else true) (is_types tree).
  Definition s_symmetric : bool :=
    forallb (fun x =>
      (* everything x declares and that is listed is reported by x ... *)
      forallb (fun i => negb (listed i) || mem i (ref_names (olist (it_interfaces x)))) (declared_impl (it_name x)) &&
      (* ... and x is a possible type of everything it reports, and conversely *)
      forallb (fun i => match find_itype i with
                        | Some ti => (it_kind ti =? K_INTERFACE) && mem (it_name x) (ref_names (olist (it_possible ti)))
                        | None => false end) (ref_names (olist (it_interfaces x))) &&
      (if it_kind x =? K_INTERFACE then
         forallb (fun p => match find_itype p with
                           | Some tp => mem (it_name x) (ref_names (olist (it_interfaces tp)))
                           | None => false end) (ref_names (olist (it_possible x)))
       else true)) (is_types tree).
  (* every visible interface declared by a listed type is itself listed (the served type system says
     "X implements I"; the description must not drop a visible I) *)
  Definition s_iface_listed : bool :=
    forallb (fun x => forallb (fun i => type_hidden i || listed i) (declared_impl (it_name x))) (is_types tree).

  (* __type(name:) answers with exactly the listed entry *)
End Spec.

(* ------------------------------------------------------------ equality -- *)
Fixpoint iref_eq (a b : iref) : bool :=
  match a, b with
  | IRef k n o, IRef k' n' o' =>
      (k =? k') && option_eqb name_eqb n n' &&
      match o, o' with Some x, Some y => iref_eq x y | None, None => true | _, _ => false end
  end.
Definition iinput_eq (a b : iinput) : bool :=
  name_eqb (ii_name a) (ii_name b) && iref_eq (ii_type a) (ii_type b) &&
  option_eqb name_eqb (ii_default a) (ii_default b) && Bool.eqb (ii_dep a) (ii_dep b).
Definition ifield_eq (a b : ifield) : bool :=
  name_eqb (if_name a) (if_name b) && list_eqb iinput_eq (if_args a) (if_args b) &&
  iref_eq (if_type a) (if_type b) && Bool.eqb (if_dep a) (if_dep b).
Definition ienum_eq (a b : ienum) : bool := name_eqb (ie_name a) (ie_name b) && Bool.eqb (ie_dep a) (ie_dep b).
Definition itype_eq (a b : itype) : bool :=
  (it_kind a =? it_kind b) && name_eqb (it_name a) (it_name b) &&
  option_eqb (list_eqb ifield_eq) (it_fields a) (it_fields b) &&
  option_eqb (list_eqb iref_eq) (it_interfaces a) (it_interfaces b) &&
  option_eqb (list_eqb iref_eq) (it_possible a) (it_possible b) &&
  option_eqb (list_eqb ienum_eq) (it_enums a) (it_enums b) &&
  option_eqb (list_eqb iinput_eq) (it_inputs a) (it_inputs b).
Definition idir_eq (a b : idir) : bool := name_eqb (id_name a) (id_name b) && list_eqb iinput_eq (id_args a) (id_args b).
Definition ischema_eq (a b : ischema) : bool :=
  list_eqb itype_eq (is_types a) (is_types b) && name_eqb (is_query a) (is_query b) &&
  option_eqb name_eqb (is_mutation a) (is_mutation b) && option_eqb name_eqb (is_subscription a) (is_subscription b) &&
  list_eqb idir_eq (is_dirs a) (is_dirs b).
Definition result_eq (a b : result) : bool :=
  ischema_eq (fst a) (fst b) &&
  list_eqb (fun x y => name_eqb (fst x) (fst y) && option_eqb itype_eq (snd x) (snd y)) (snd a) (snd b).
Definition outcome_eq (a b : outcome result) : bool :=
  match a, b with
  | Ok x, Ok y => result_eq x y
  | Err _, Err _ => true
  | Panic, Panic => true
  | _, _ => false
  end.

(* ------------------------------------------------------- known classes -- *)
(* Each class is a narrow computable predicate on (registry, context):
   1  a visible member (field, argument, input field, argument of a visible directive),
      or the query root, names a type hidden in this context: the member is still shown;
   2  a directive, or a directive argument, hidden in this context: __schema.directives
      filters neither;
   3  an interface declares that it implements an interface (or is registered as a
      possible type of one): `interfaces` is null for interfaces, and the derive macro
      puts the sub-interface into possibleTypes;
   4  a visible interface that is not reachable from the roots and is examined, in name
      order, before the pass makes its implementor visible: it is dropped.          *)
Section Known.
  Variable R : registry.
  Variable declared : list (name * list name).
  Variable ctx : N.

  Definition hidden_name (n : name) : bool := type_hidden R ctx n.
  Definition ty_hidden (t : tystr) : bool := match concrete t with Some n => hidden_name n | None => false end.
  Definition input_names_hidden (l : list minput) : bool :=
    existsb (fun m => veval ctx (mi_vis m) && ty_hidden (mi_ty m)) l.
  Definition kc1 : bool :=
    hidden_name (r_query R) ||
    existsb (fun d => veval ctx (md_vis d) && input_names_hidden (md_args d)) (r_directives R) ||
    existsb (fun p =>
      match mt_kind (snd p) with
      | MObject fs | MInterface fs _ =>
          existsb (fun f => veval ctx (mf_vis f) && (ty_hidden (mf_ty f) || input_names_hidden (mf_args f))) fs
      | MInput fs => input_names_hidden fs
      | _ => false
      end) (r_types R).
  Definition kc2 : bool :=
    existsb (fun d => negb (veval ctx (md_vis d)) || existsb (fun m => negb (veval ctx (mi_vis m))) (md_args d))
            (r_directives R).
  Definition is_iface (n : name) : bool :=
    match assoc n (r_types R) with Some ty => kind_of (mt_kind ty) =? K_INTERFACE | None => false end.
  Definition kc3 : bool :=
    existsb (fun p => is_iface (fst p) &&
                      negb (match declared_impl R declared (fst p) with [] => true | _ => false end)) (r_types R)
    || existsb (fun p => match mt_kind (snd p) with MInterface _ ps => existsb is_iface ps | _ => false end) (r_types R).
  (* class 4 is decided on the computed visible set *)
  Definition kc4 (vt : list name) : bool :=
    existsb (fun p => mem (fst p) vt &&
                      existsb (fun i => negb (hidden_name i) && negb (mem i vt)) (declared_impl R declared (fst p)))
            (r_types R).
End Known.

(* well-formedness of a registry, as computable predicates *)
Definition wf_keys (R : registry) : bool :=
  forallb (fun p => name_eqb (fst p) (mt_name (snd p))) (r_types R).

Fixpoint nodupb (l : list name) : bool :=
  match l with [] => true | x :: l' => negb (mem x l') && nodupb l' end.

Definition wf_registry (R : registry) : bool := wf_keys R && nodupb (map fst (r_types R)).

(* system types (always listed, never traversed) only name system types *)
Definition sys_name (R : registry) (n : name) : bool :=
  match assoc n (r_types R) with Some ty => mt_system ty | None => false end.
Definition all_inputs_sys (R : registry) (l : list minput) : bool :=
  forallb (fun iv => match concrete (mi_ty iv) with Some n => sys_name R n | None => true end) l.
Definition wf_system (R : registry) : bool :=
  forallb (fun p => negb (mt_system (snd p)) ||
     match mt_kind (snd p) with
     | MObject fs | MInterface fs _ =>
         forallb (fun f => match concrete (mf_ty f) with Some n => sys_name R n | None => true end
                           && all_inputs_sys R (mf_args f)) fs
     | MInput fs => all_inputs_sys R fs
     | _ => true
     end) (r_types R).

(* ------------------------------------------------------------- verdict -- *)
Definition tq_ok (tree : ischema) (tq : list (name * option itype)) : bool :=
  forallb (fun p => option_eqb itype_eq (snd p) (find_itype tree (fst p))) tq.

(* spec_ok with excusable parts: e1..e4 say whether the sub-predicates tied to a known class may fail *)
Definition spec_parts (R : registry) (declared : list (name * list name)) (ctx : N) (fe ai : bool) (r : result)
  : list (N * bool) :=
  let t := fst r in
  [ (0, s_closed_links t && s_hidden_members R ctx t && s_wrappers R t && s_agree R ctx fe ai t &&
        s_possible_union R t && tq_ok t (snd r));
    (1, s_closed_members t && s_hidden_types R ctx t && s_dir_types R ctx t);
    (2, s_hidden_dirs R ctx t);
    (3, s_possible_iface R declared t && s_symmetric R declared t);
    (4, s_iface_listed R declared ctx t) ].

Definition spec_ok (R : registry) declared ctx fe ai (r : result) : bool :=
  forallb snd (spec_parts R declared ctx fe ai r).

Definition first_failing (parts : list (N * bool)) : N :=
  match find (fun p => negb (snd p)) parts with Some p => fst p | None => 0 end.

Definition known_of (R : registry) declared ctx (vt : list name) (parts : list (N * bool)) : N :=
  let excused k := match k with
                   | 1 => kc1 R ctx | 2 => kc2 R ctx | 3 => kc3 R declared | 4 => kc4 R declared ctx vt
                   | _ => false end in
  if forallb (fun p => snd p || excused (fst p)) parts then first_failing parts else 0.

Definition check_c18 (Rd : registry * list (name * list name)) (ctx : N) (fe ai : bool) (impl : outcome result) : N :=
  let R := fst Rd in let declared := snd Rd in
  let fuel := default_fuel R in
  let qs := match impl with Ok r => map fst (snd r) | _ => [] end in
  let m := introspect R ctx fe ai fuel qs in
  let vt := match find_visible R ctx fuel with Ok v => v | _ => [] end in
  let ok_of o := match o with
                 | Ok r => spec_ok R declared ctx fe ai r
                 | _ => false      (* a panic or an error is not an introspection answer *)
                 end in
  let known := match m with
               | Ok r => known_of R declared ctx vt (spec_parts R declared ctx fe ai r)
               | _ => 0 end in
  if negb (wf_registry R && wf_system R) then 9   (* the dumped registry violates the theorems' hypothesis: reported as broken *)
  else verdict (outcome_eq impl m) (ok_of m) (ok_of impl) known.

(* DLCacheProofs.v — C29: the three cache storages behind the DataLoader API
   refine the reference cache (one recency-ordered map with optional capacity)
   for every operation sequence.  Lemmas and proofs only. *)
From AG Require Import Base DLCache.
Open Scope N_scope.

(* [name] is N *)
Ltac nlia := unfold name in *; lia.

(* ------------------------------------------------------- assoc / remove -- *)
Lemma assoc_cons {A} k k' (v : A) l :
  assoc k ((k', v) :: l) = if N.eqb k k' then Some v else assoc k l.
Proof. reflexivity. Qed.

Lemma assoc_remove_key k k' l :
  assoc k' (remove_key k l) = if N.eqb k' k then None else assoc k' l.
Proof.
  induction l as [|[x v] l IH]; cbn [remove_key assoc].
  - destruct (N.eqb k' k); reflexivity.
  - unfold name_eqb in *. destruct (N.eqb_spec k x) as [->|Hkx].
    + rewrite IH. destruct (N.eqb_spec k' x) as [->|Hn]; reflexivity.
    + cbn [assoc]. unfold name_eqb. rewrite IH.
      destruct (N.eqb_spec k' k) as [->|Hn].
      * destruct (N.eqb_spec k x) as [E|_]; [contradiction|reflexivity].
      * reflexivity.
Qed.

Lemma remove_key_absent k l : assoc k l = None -> remove_key k l = l.
Proof.
  induction l as [|[x v] l IH]; cbn [remove_key assoc]; [reflexivity|].
  unfold name_eqb. destruct (N.eqb k x); [discriminate|].
  intros H. rewrite IH by exact H. reflexivity.
Qed.

Lemma length_remove_key k l : (length (remove_key k l) <= length l)%nat.
Proof.
  induction l as [|[x v] l IH]; cbn [remove_key length]; [nlia|].
  destruct (N.eqb k x); cbn [length]; nlia.
Qed.

Lemma length_remove_key_lt k l v :
  assoc k l = Some v -> (length (remove_key k l) < length l)%nat.
Proof.
  induction l as [|[x w] l IH]; cbn [remove_key assoc length]; [discriminate|].
  unfold name_eqb. destruct (N.eqb k x).
  - intros _. pose proof (length_remove_key k l). nlia.
  - intros H. cbn [length]. apply IH in H. nlia.
Qed.

Lemma assoc_hm_insert k v k' l :
  assoc k' (hm_insert k v l) = if N.eqb k' k then Some v else assoc k' l.
Proof.
  induction l as [|[x w] l IH]; cbn [hm_insert assoc]; unfold name_eqb in *.
  - reflexivity.
  - destruct (N.eqb_spec k x) as [->|Hkx]; cbn [assoc]; unfold name_eqb.
    + destruct (N.eqb k' x); reflexivity.
    + rewrite IH. destruct (N.eqb_spec k' k) as [->|Hn].
      * destruct (N.eqb_spec k x) as [E|_]; [contradiction|reflexivity].
      * reflexivity.
Qed.

Lemma assoc_In_fst {A} k (l : list (name * A)) : In k (map fst l) <-> assoc k l <> None.
Proof.
  induction l as [|[x v] l IH]; cbn [map fst assoc In]; [tauto|].
  unfold name_eqb. destruct (N.eqb_spec k x) as [->|Hn].
  - split; [discriminate|tauto].
  - rewrite <- IH. split; [intros [H|H]; [congruence|exact H]|tauto].
Qed.

Lemma holds_assoc l k : holds l k = false <-> assoc k l = None.
Proof. unfold holds. destruct (assoc k l); split; congruence. Qed.

Lemma mem_filter f k l : mem k (filter f l) = f k && mem k l.
Proof.
  induction l as [|x l IH]; cbn [filter mem]; [rewrite andb_false_r; reflexivity|].
  unfold name_eqb in *. destruct (f x) eqn:Ef; cbn [mem]; unfold name_eqb; rewrite IH.
  - destruct (N.eqb_spec k x) as [->|Hn]; [rewrite Ef|]; reflexivity.
  - destruct (N.eqb_spec k x) as [->|Hn]; [rewrite Ef; reflexivity|reflexivity].
Qed.

Lemma filter_true {A} (f : A -> bool) l : (forall x, f x = true) -> filter f l = l.
Proof. intros H. induction l as [|x l IH]; cbn [filter]; [reflexivity|]. rewrite H, IH. reflexivity. Qed.

Lemma filter_false {A} (f : A -> bool) l : (forall x, f x = false) -> filter f l = [].
Proof. intros H. induction l as [|x l IH]; cbn [filter]; [reflexivity|]. rewrite H. exact IH. Qed.

(* ----------------------------------------------------------------- canon -- *)
Inductive ssorted : list key -> Prop :=
| ss_nil : ssorted []
| ss_cons x l : ssorted l -> (forall y, In y l -> x < y) -> ssorted (x :: l).

Lemma In_ins x k l : In x (ins k l) <-> x = k \/ In x l.
Proof.
  induction l as [|y l IH]; cbn [ins In]; [intuition|].
  destruct (N.ltb_spec k y) as [Hlt|Hge]; cbn [In]; [intuition|].
  destruct (N.eqb_spec k y) as [->|Hn]; cbn [In]; [intuition|].
  rewrite IH. intuition.
Qed.

Lemma ins_sorted k l : ssorted l -> ssorted (ins k l).
Proof.
  induction 1 as [|x l Hs IH Hx]; cbn [ins].
  - constructor; [constructor|intros y []].
  - destruct (N.ltb_spec k x) as [Hlt|Hge].
    + constructor; [constructor; assumption|].
      intros y [<-|Hy]; [exact Hlt|]. specialize (Hx y Hy). nlia.
    + destruct (N.eqb_spec k x) as [->|Hn]; [constructor; assumption|].
      constructor; [exact IH|].
      intros y Hy. apply In_ins in Hy. destruct Hy as [->|Hy]; [nlia|exact (Hx y Hy)].
Qed.

Lemma In_canon x l : In x (canon l) <-> In x l.
Proof.
  induction l as [|y l IH]; cbn [canon fold_right In]; [tauto|].
  fold (canon l). rewrite In_ins, IH. intuition.
Qed.

Lemma canon_sorted l : ssorted (canon l).
Proof.
  induction l as [|y l IH]; cbn [canon fold_right]; [constructor|].
  apply ins_sorted. exact IH.
Qed.

Lemma ssorted_ext l1 : forall l2, ssorted l1 -> ssorted l2 ->
  (forall x, In x l1 <-> In x l2) -> l1 = l2.
Proof.
  induction l1 as [|a l1 IH]; intros l2 H1 H2 Hext.
  - destruct l2 as [|b l2]; [reflexivity|]. exfalso. apply (Hext b). left; reflexivity.
  - destruct l2 as [|b l2]; [exfalso; apply (Hext a); left; reflexivity|].
    inversion H1 as [|? ? Hs1 Ha]; subst. inversion H2 as [|? ? Hs2 Hb]; subst.
    assert (a = b) as ->.
    { destruct (proj1 (Hext a) (or_introl eq_refl)) as [E|Hin]; [congruence|].
      destruct (proj2 (Hext b) (or_introl eq_refl)) as [E|Hin']; [congruence|].
      specialize (Ha b Hin'). specialize (Hb a Hin). lia. }
    f_equal. apply IH; [assumption|assumption|].
    intros x. split; intros Hx.
    + destruct (proj1 (Hext x) (or_intror Hx)) as [E|Hin]; [|exact Hin].
      subst x. specialize (Ha b Hx). nlia.
    + destruct (proj2 (Hext x) (or_intror Hx)) as [E|Hin]; [|exact Hin].
      subst x. specialize (Hb b Hx). nlia.
Qed.

Lemma canon_ext l1 l2 : (forall x, In x l1 <-> In x l2) -> canon l1 = canon l2.
Proof.
  intros H. apply ssorted_ext; try apply canon_sorted.
  intros x. rewrite !In_canon. apply H.
Qed.

Lemma canon_kv_ext h l : (forall k, assoc k h = assoc k l) -> canon_kv h = canon_kv l.
Proof.
  intros H. unfold canon_kv.
  rewrite (canon_ext (map fst h) (map fst l)).
  - apply flat_map_ext. intros k. rewrite H. reflexivity.
  - intros k. rewrite !assoc_In_fst, H. tauto.
Qed.

(* -------------------------------------------------- reference cache laws -- *)
Lemma assoc_touch k k' l : assoc k' (s_touch k l) = assoc k' l.
Proof.
  unfold s_touch. destruct (assoc k l) as [v|] eqn:E; [|reflexivity].
  rewrite assoc_cons, assoc_remove_key.
  destruct (N.eqb_spec k' k) as [->|Hn]; [symmetry; exact E|reflexivity].
Qed.

Lemma holds_touch k l k' : holds (s_touch k l) k' = holds l k'.
Proof. unfold holds. rewrite assoc_touch. reflexivity. Qed.

Lemma length_touch k l : (length (s_touch k l) <= length l)%nat.
Proof.
  unfold s_touch. destruct (assoc k l) as [v|] eqn:E; [|nlia].
  apply length_remove_key_lt in E. cbn [length]. nlia.
Qed.

Lemma s_put_length c k v l : (length (s_put (Some c) k v l) <= c)%nat.
Proof. unfold s_put, trim. apply firstn_le_length. Qed.

Lemma s_put_all_length c vals : forall l, (length l <= c)%nat -> (length (s_put_all (Some c) vals l) <= c)%nat.
Proof.
  induction vals as [|[k v] vals IH]; intros l Hl; cbn [s_put_all fold_left]; [exact Hl|].
  apply IH. apply s_put_length.
Qed.

(* read your write; other keys keep their value unless they fall off the end *)
Lemma s_put_find c k v l : (1 <= c)%nat -> assoc k (s_put (Some c) k v l) = Some v.
Proof.
  intros Hc. unfold s_put, trim. destruct c as [|c]; [nlia|].
  cbn [firstn]. rewrite assoc_cons, N.eqb_refl. reflexivity.
Qed.

Lemma s_put_find_unbounded k v k' l :
  assoc k' (s_put None k v l) = if N.eqb k' k then Some v else assoc k' l.
Proof.
  unfold s_put, trim. rewrite assoc_cons, assoc_remove_key.
  destruct (N.eqb k' k); reflexivity.
Qed.

(* the keys kept by a put: the new key, then the previous keys in recency
   order, cut at the capacity — the least recently used ones are dropped *)
Lemma s_put_keys c k v l :
  map fst (s_put (Some c) k v l) = firstn c (k :: map fst (remove_key k l)).
Proof. unfold s_put, trim. rewrite <- firstn_map. reflexivity. Qed.

Lemma s_touch_keys k l v :
  assoc k l = Some v -> map fst (s_touch k l) = k :: map fst (remove_key k l).
Proof. intros E. unfold s_touch. rewrite E. reflexivity. Qed.

(* ------------------------------------------------- storage refinement ---- *)
Definition R (kd : kind) (c : icache) (l : list (key * val)) : Prop :=
  match c with
  | INo => kd = KNo /\ l = []
  | IHash h => kd = KHash /\ forall k, assoc k h = assoc k l
  | ILru cap h => kd = KLru cap /\ (1 <= cap)%nat /\ h = l /\ (length l <= cap)%nat
  end.

Lemma R_create kd : wf_kind kd = true -> exists c, ic_create kd = Ok c /\ R kd c [].
Proof.
  destruct kd as [| |[|c]]; cbn [wf_kind ic_create]; intros H; try discriminate.
  - exists INo. repeat split.
  - exists (IHash []). repeat split.
  - exists (ILru (S c) []). cbn [R length]. repeat split; nlia.
Qed.

Lemma R_get kd c l k :
  R kd c l -> fst (ic_get k c) = assoc k l /\ R kd (snd (ic_get k c)) (s_touch k l).
Proof.
  destruct c as [|h|cap h]; cbn [R ic_get fst snd].
  - intros [-> ->]. repeat split.
  - intros [-> H]. split; [apply H|]. split; [reflexivity|].
    intros k'. rewrite assoc_touch. apply H.
  - intros (-> & Hc & -> & Hl). unfold lru_get, s_touch.
    destruct (assoc k l) as [v|] eqn:E; cbn [fst snd R].
    + repeat split; try assumption.
      apply length_remove_key_lt in E. cbn [length]. nlia.
    + repeat split; assumption.
Qed.

Lemma lru_put_trim cap k v l :
  (1 <= cap)%nat -> (length l <= cap)%nat ->
  lru_put cap k v l = s_put (Some cap) k v l.
Proof.
  intros Hc Hl. unfold lru_put, s_put, trim.
  destruct (assoc k l) as [w|] eqn:E.
  - apply length_remove_key_lt in E.
    rewrite firstn_all2; [reflexivity|]. cbn [length]. nlia.
  - rewrite (remove_key_absent k l E).
    destruct (Nat.eqb_spec (length l) cap) as [He|Hne].
    + destruct cap as [|c]; [nlia|]. cbn [firstn]. f_equal.
      rewrite removelast_firstn_len. rewrite He. reflexivity.
    + rewrite firstn_all2; [reflexivity|]. cbn [length]. nlia.
Qed.

Lemma R_insert kd c l k v : R kd c l -> R kd (ic_insert k v c) (s_put (cap_of kd) k v l).
Proof.
  destruct c as [|h|cap h]; cbn [R ic_insert].
  - intros [-> ->]. split; reflexivity.
  - intros [-> H]. split; [reflexivity|]. cbn [cap_of].
    intros k'. rewrite assoc_hm_insert, s_put_find_unbounded, H. reflexivity.
  - intros (-> & Hc & -> & Hl). cbn [cap_of].
    rewrite (lru_put_trim cap k v l Hc Hl).
    repeat split; try assumption. apply s_put_length.
Qed.

Lemma R_insert_all kd vals : forall c l,
  R kd c l -> R kd (ic_insert_all vals c) (s_put_all (cap_of kd) vals l).
Proof.
  induction vals as [|[k v] vals IH]; intros c l H; cbn [ic_insert_all s_put_all fold_left]; [exact H|].
  apply IH. apply R_insert. exact H.
Qed.

Lemma R_remove kd c l k : R kd c l -> R kd (ic_remove k c) (remove_key k l).
Proof.
  destruct c as [|h|cap h]; cbn [R ic_remove].
  - intros [-> ->]. split; reflexivity.
  - intros [-> H]. split; [reflexivity|].
    intros k'. rewrite !assoc_remove_key, H. reflexivity.
  - intros (-> & Hc & -> & Hl). repeat split; try assumption.
    pose proof (length_remove_key k l). nlia.
Qed.

Lemma R_clear kd c l : R kd c l -> R kd (ic_clear c) [].
Proof.
  destruct c as [|h|cap h]; cbn [R ic_clear].
  - intros [-> ->]. split; reflexivity.
  - intros [-> H]. split; reflexivity.
  - intros (-> & Hc & -> & Hl). cbn [length]. repeat split; [assumption|nlia].
Qed.

Lemma R_iter kd c l : R kd c l -> canon_kv (ic_iter c) = canon_kv l.
Proof.
  destruct c as [|h|cap h]; cbn [R ic_iter].
  - intros [-> ->]. reflexivity.
  - intros [-> H]. apply canon_kv_ext. exact H.
  - intros (-> & Hc & -> & Hl). reflexivity.
Qed.

Lemma R_length kd c l cap : R kd c l -> cap_of kd = Some cap -> (length l <= cap)%nat.
Proof.
  destruct c as [|h|cp h]; cbn [R].
  - intros [-> ->] _. cbn [length]. nlia.
  - intros [-> _]. discriminate.
  - intros (-> & Hc & -> & Hl). cbn [cap_of]. intros [= <-]. exact Hl.
Qed.

(* --------------------------------------------------------------- the scan -- *)
Lemma scan_spec kd keys : forall c l use need,
  R kd c l ->
  R kd (fst (fst (scan keys c use need)))
       (fold_left (fun l k => s_touch k l) (filter (holds l) keys) l) /\
  snd (scan keys c use need) = need ++ filter (fun k => negb (holds l k)) keys /\
  forall k, assoc k (snd (fst (scan keys c use need))) =
            if holds l k && mem k keys then assoc k l else assoc k use.
Proof.
  induction keys as [|k ks IH]; intros c l use need HR; cbn [scan filter fold_left fst snd mem].
  - split; [exact HR|]. split; [rewrite app_nil_r; reflexivity|].
    intros k. rewrite andb_false_r. reflexivity.
  - destruct (R_get kd c l k HR) as [Hr HR'].
    destruct (ic_get k c) as [r c'] eqn:Eg. cbn [fst snd] in Hr, HR'. subst r.
    assert (Hf : filter (holds (s_touch k l)) ks = filter (holds l) ks)
      by (apply filter_ext; intros; apply holds_touch).
    assert (Hg : filter (fun x => negb (holds (s_touch k l) x)) ks = filter (fun x => negb (holds l x)) ks)
      by (apply filter_ext; intros; rewrite holds_touch; reflexivity).
    assert (Eh : holds l k = match assoc k l with Some _ => true | None => false end) by reflexivity.
    destruct (assoc k l) as [v|] eqn:E; rewrite !Eh; cbn [negb fold_left].
    + specialize (IH c' (s_touch k l) ((k, v) :: use) need HR').
      destruct IH as (H1 & H2 & H3). rewrite Hf in H1. rewrite Hg in H2.
      split; [exact H1|]. split; [exact H2|].
      intros k0. rewrite H3, holds_touch, assoc_touch, assoc_cons. unfold name_eqb.
      destruct (N.eqb_spec k0 k) as [->|Hn].
      * unfold holds. rewrite E. cbn [andb].
        destruct (mem k ks); reflexivity.
      * reflexivity.
    + assert (Ht : s_touch k l = l) by (unfold s_touch; rewrite E; reflexivity).
      rewrite Ht in HR'.
      specialize (IH c' l use (need ++ [k]) HR').
      destruct IH as (H1 & H2 & H3).
      split; [exact H1|]. split; [rewrite H2, <- app_assoc; reflexivity|].
      intros k0. rewrite H3. unfold name_eqb.
      destruct (N.eqb_spec k0 k) as [->|Hn]; [|reflexivity].
      unfold holds. rewrite E. reflexivity.
Qed.

(* ------------------------------------------------------ state refinement -- *)
Definition RE (kd : kind) (eo : option entry) (l : list (key * val)) (en : bool) : Prop :=
  match eo with
  | None => l = [] /\ en = true
  | Some e => R kd (e_cache e) l /\ e_dis e = negb en
  end.

Definition Rst (kd : kind) (st : istate) (sp : sstate) : Prop :=
  (forall t, RE kd (i_ent st t) (s_cache sp t) (s_en sp t)) /\ i_alldis st = negb (s_all sp).

Lemma Rst_init kd : Rst kd i_init s_init.
Proof. split; [intros t; cbn; split; reflexivity|reflexivity]. Qed.

Lemma get_or_create_R kd st t l en :
  wf_kind kd = true -> RE kd (i_ent st t) l en ->
  exists e, get_or_create kd st t = Ok e /\ R kd (e_cache e) l /\ e_dis e = negb en.
Proof.
  intros Hwf H. unfold get_or_create. destruct (i_ent st t) as [e|]; cbn [RE] in H.
  - exists e. split; [reflexivity|exact H].
  - destruct H as [-> ->]. destruct (R_create kd Hwf) as (c & -> & HR). cbn [bindo].
    eexists. split; [reflexivity|]. cbn [e_cache e_dis]. split; [exact HR|reflexivity].
Qed.

Lemma upd_same {A} (f : tid -> A) t a : upd f t a t = a.
Proof. unfold upd. rewrite N.eqb_refl. reflexivity. Qed.

Lemma Rst_set kd st sp t e l :
  Rst kd st sp -> R kd (e_cache e) l -> e_dis e = negb (s_en sp t) ->
  Rst kd {| i_ent := upd (i_ent st) t (Some e); i_alldis := i_alldis st |}
         {| s_cache := upd (s_cache sp) t l; s_en := s_en sp; s_all := s_all sp |}.
Proof.
  intros [H Ha] HR Hd. split; [|exact Ha].
  intros t'. cbn [i_ent s_cache s_en]. unfold upd.
  destruct (N.eqb_spec t' t) as [->|Hn]; [cbn [RE]; split; assumption|apply H].
Qed.

(* the load of one entry against the reference load *)
Lemma iload_spec kd e l0 en alldis all keys r :
  R kd (e_cache e) l0 -> e_dis e = negb en -> alldis = negb all ->
  let enb := all && en in
  let hit k := enb && holds l0 k in
  let need := filter (fun k => negb (hit k)) keys in
  let l1 := fold_left (fun l k => s_touch k l) (filter hit keys) l0 in
  let res :=
    match need with
    | [] => (l1, BLoad None (ROk (map (fun k => (k, assoc k l0)) (canon keys))))
    | _ => match r with
           | LErr code => (l1, BLoad (Some (canon need)) (RErr code))
           | LOk vals => (if enb then s_put_all (cap_of kd) vals l1 else l1,
                          BLoad (Some (canon need))
                                (ROk (map (fun k => (k, if hit k then assoc k l0 else assoc k vals)) (canon keys))))
           end
    end in
  R kd (e_cache (fst (iload alldis e keys r))) (fst res) /\
  e_dis (fst (iload alldis e keys r)) = e_dis e /\
  snd (iload alldis e keys r) = snd res.
Proof.
  intros HR Hd Ha. cbv zeta. unfold iload. rewrite Hd, Ha.
  replace (negb en || negb all) with (negb (all && en)) by (destruct all, en; reflexivity).
  destruct (all && en) eqn:Een; cbn [negb andb].
  - (* caching enabled *)
    destruct (scan_spec kd keys (e_cache e) l0 [] [] HR) as (H1 & H2 & H3).
    destruct (scan keys (e_cache e) [] []) as [[c1 use] need] eqn:Es.
    cbn [fst snd app] in H1, H2, H3. subst need.
    assert (Hk : forall k, In k (canon keys) -> mem k keys = true)
      by (intros k Hk; apply mem_In; apply In_canon; exact Hk).
    destruct (filter (fun k => negb (holds l0 k)) keys) as [|n0 nl] eqn:En.
    + cbn [fst snd e_cache e_dis]. split; [exact H1|]. split; [reflexivity|].
      f_equal. f_equal. apply map_ext_in. intros k Hin. f_equal.
      rewrite H3, (Hk k Hin), andb_true_r. cbn [assoc].
      destruct (holds l0 k) eqn:Eh; [reflexivity|]. symmetry. apply holds_assoc. exact Eh.
    + rewrite <- En. destruct r as [vals|code]; cbn [fst snd e_cache e_dis].
      * split; [apply R_insert_all; exact H1|]. split; [reflexivity|].
        f_equal. f_equal. apply map_ext_in. intros k Hin. f_equal.
        rewrite mem_filter, (Hk k Hin), andb_true_r, H3, (Hk k Hin), andb_true_r. cbn [assoc].
        destruct (holds l0 k) eqn:Eh; cbn [negb]; [reflexivity|].
        destruct (assoc k vals); reflexivity.
      * split; [exact H1|]. split; reflexivity.
  - (* caching disabled: no lookup, no use, no insertion *)
    rewrite (filter_true (fun _ : key => true) keys) by reflexivity.
    rewrite (filter_false (fun _ : key => false) keys) by reflexivity.
    cbn [fold_left].
    assert (Hk : forall k, In k (canon keys) -> mem k keys = true)
      by (intros k Hk; apply mem_In; apply In_canon; exact Hk).
    destruct keys as [|k0 ks] eqn:Ek.
    + cbn [fst snd e_cache e_dis]. split; [exact HR|]. split; reflexivity.
    + rewrite <- Ek in *. destruct r as [vals|code]; cbn [fst snd e_cache e_dis].
      * split; [exact HR|]. split; [reflexivity|].
        f_equal. f_equal. apply map_ext_in. intros k Hin. f_equal.
        rewrite (Hk k Hin). cbn [assoc]. destruct (assoc k vals); reflexivity.
      * split; [exact HR|]. split; reflexivity.
Qed.

(* ---------------------------------------------------------- one operation -- *)
Definition enable_absent (st : istate) (o : op) : Prop :=
  match o with OEnable t _ => i_ent st t = None | _ => False end.

Lemma step_refines q kd st sp o :
  wf_kind kd = true -> Rst kd st sp ->
  (q = true -> ~ enable_absent st o) ->
  snd (istep q kd st o) = snd (sstep kd sp o) /\
  Rst kd (fst (istep q kd st o)) (fst (sstep kd sp o)).
Proof.
  intros Hwf HR Hq. pose proof HR as [Hent Hall].
  destruct o as [t keys r|t kvs|t|t k|b|t b|t]; cbn [istep sstep].
  - (* load *)
    destruct (get_or_create_R kd st t _ _ Hwf (Hent t)) as (e & Hg & HRe & Hd).
    unfold with_entry. rewrite Hg.
    pose proof (iload_spec kd e (s_cache sp t) (s_en sp t) (i_alldis st) (s_all sp) keys r HRe Hd Hall) as H.
    cbv zeta in H. destruct (iload (i_alldis st) e keys r) as [e' b'] eqn:El.
    cbn [fst snd] in H. destruct H as (H1 & H2 & H3).
    destruct (filter (fun k => negb (s_all sp && s_en sp t && holds (s_cache sp t) k)) keys) as [|n0 nl] eqn:En.
    + cbn [fst snd] in *. split; [exact H3|]. apply Rst_set; [exact HR|exact H1|congruence].
    + rewrite <- En in *. destruct r as [vals|code]; cbn [fst snd] in *.
      * split; [exact H3|]. apply Rst_set; [exact HR|exact H1|congruence].
      * split; [exact H3|]. apply Rst_set; [exact HR|exact H1|congruence].
  - (* feed *)
    destruct (get_or_create_R kd st t _ _ Hwf (Hent t)) as (e & Hg & HRe & Hd).
    unfold with_entry. rewrite Hg. cbn [fst snd]. split; [reflexivity|].
    apply Rst_set; [exact HR|apply R_insert_all; exact HRe|exact Hd].
  - (* clear *)
    destruct (get_or_create_R kd st t _ _ Hwf (Hent t)) as (e & Hg & HRe & Hd).
    unfold with_entry. rewrite Hg. cbn [fst snd]. split; [reflexivity|].
    apply Rst_set; [exact HR|apply (R_clear kd _ _ HRe)|exact Hd].
  - (* clear_one *)
    destruct (get_or_create_R kd st t _ _ Hwf (Hent t)) as (e & Hg & HRe & Hd).
    unfold with_entry. rewrite Hg. cbn [fst snd]. split; [reflexivity|].
    apply Rst_set; [exact HR|apply R_remove; exact HRe|exact Hd].
  - (* enable_all_cache *)
    cbn [fst snd]. split; [reflexivity|]. split; [exact Hent|reflexivity].
  - (* enable_cache *)
    assert (Hset : forall e, R kd (e_cache e) (s_cache sp t) ->
              Rst kd {| i_ent := upd (i_ent st) t (Some {| e_cache := e_cache e; e_dis := negb b |});
                        i_alldis := i_alldis st |}
                     {| s_cache := s_cache sp; s_en := upd (s_en sp) t b; s_all := s_all sp |}).
    { intros e HRe. split; [|exact Hall]. intros t'. cbn [i_ent s_cache s_en]. unfold upd.
      destruct (N.eqb_spec t' t) as [->|Hn]; [cbn [RE e_cache e_dis]; split; [exact HRe|reflexivity]|apply Hent]. }
    destruct (i_ent st t) as [e|] eqn:Ee.
    + cbn [fst snd]. split; [reflexivity|]. apply Hset.
      specialize (Hent t). rewrite Ee in Hent. apply Hent.
    + destruct q.
      * exfalso. apply (Hq eq_refl). cbn [enable_absent]. exact Ee.
      * pose proof (Hent t) as Ht.
        destruct (get_or_create_R kd st t _ _ Hwf Ht) as (e & Hg & HRe & Hd).
        unfold with_entry. rewrite Hg. cbn [fst snd]. split; [reflexivity|].
        apply Hset. exact HRe.
  - (* get_cached_values *)
    cbn [fst snd]. split; [|exact HR].
    specialize (Hent t). destruct (i_ent st t) as [e|]; cbn [RE] in Hent.
    + f_equal. apply (R_iter kd). apply Hent.
    + destruct Hent as [-> _]. reflexivity.
Qed.

(* entries are never removed; load/feed/clear/clear_one create theirs *)
Lemma istep_entries q kd st o :
  wf_kind kd = true ->
  (forall t, i_ent st t <> None -> i_ent (fst (istep q kd st o)) t <> None) /\
  (forall t, uses o = Some t -> i_ent (fst (istep q kd st o)) t <> None).
Proof.
  intros Hwf.
  assert (Hgc : forall t, exists e, get_or_create kd st t = Ok e).
  { intros t. unfold get_or_create. destruct (i_ent st t) as [e|]; [eexists; reflexivity|].
    destruct (R_create kd Hwf) as (c & -> & _). eexists. reflexivity. }
  assert (Hw : forall t f, (forall t', i_ent st t' <> None -> i_ent (fst (with_entry kd st t f)) t' <> None) /\
                           i_ent (fst (with_entry kd st t f)) t <> None).
  { intros t f. unfold with_entry. destruct (Hgc t) as [e ->]. destruct (f e) as [e' b]. cbn [fst i_ent].
    split; [|rewrite upd_same; discriminate].
    intros t' H. unfold upd. destruct (N.eqb t' t); [discriminate|exact H]. }
  destruct o as [t keys r|t kvs|t|t k|b|t b|t]; cbn [istep uses].
  1-4: split; [apply Hw|intros t' [= <-]; apply Hw].
  - split; [intros t H; exact H|discriminate].
  - split; [|discriminate]. destruct (i_ent st t) as [e|] eqn:Ee.
    + intros t' H. cbn [fst i_ent]. unfold upd. destruct (N.eqb t' t); [discriminate|exact H].
    + destruct q; [intros t' H; exact H|apply Hw].
  - split; [intros t' H; exact H|discriminate].
Qed.

(* --------------------------------------------------------- whole histories -- *)
Fixpoint ifinal (q : bool) (kd : kind) (st : istate) (ops : list op) : istate :=
  match ops with [] => st | o :: r => ifinal q kd (fst (istep q kd st o)) r end.
Fixpoint sfinal (kd : kind) (sp : sstate) (ops : list op) : sstate :=
  match ops with [] => sp | o :: r => sfinal kd (fst (sstep kd sp o)) r end.

Lemma run_refines q kd : wf_kind kd = true -> forall ops st sp used,
  Rst kd st sp ->
  (forall t, mem t used = true -> i_ent st t <> None) ->
  (q = true -> kc_from used ops = false) ->
  irun q kd st ops = srun kd sp ops /\ Rst kd (ifinal q kd st ops) (sfinal kd sp ops).
Proof.
  intros Hwf. induction ops as [|o r IH]; intros st sp used HR Hu Hk; cbn [irun srun ifinal sfinal].
  - split; [reflexivity|exact HR].
  - assert (Hna : q = true -> ~ enable_absent st o).
    { intros Hq Habs. specialize (Hk Hq). destruct o as [t ? ?|t ?|t|t ?|?|t ?|t]; cbn [enable_absent] in Habs; try contradiction.
      cbn [kc_from] in Hk. destruct (mem t used) eqn:Em; [|discriminate].
      exact (Hu t Em Habs). }
    destruct (step_refines q kd st sp o Hwf HR Hna) as [Hobs HR'].
    destruct (istep_entries q kd st o Hwf) as [Hkeep Hnew].
    destruct (istep q kd st o) as [st' b1]. destruct (sstep kd sp o) as [sp' b2].
    cbn [fst snd] in *. subst b2.
    set (used' := match o with OEnable _ _ => used
                  | _ => match uses o with Some t => t :: used | None => used end end).
    assert (Hu' : forall t, mem t used' = true -> i_ent st' t <> None).
    { intros t Hm. subst used'.
      assert (Hold : mem t used = true -> i_ent st' t <> None) by (intros H; apply Hkeep, Hu, H).
      destruct o as [t0 ? ?|t0 ?|t0|t0 ?|?|t0 ?|t0]; cbn [uses] in Hm, Hnew; try (apply Hold; exact Hm).
      all: cbn [mem] in Hm; unfold name_eqb in Hm;
        (destruct (N.eqb_spec t t0) as [E|Hn]; [rewrite E; apply Hnew; reflexivity|apply Hold; exact Hm]). }
    assert (Hk' : q = true -> kc_from used' r = false).
    { intros Hq. specialize (Hk Hq). subst used'. destruct o as [t ? ?|t ?|t|t ?|?|t ?|t]; cbn [kc_from uses] in Hk |- *; try exact Hk.
      destruct (mem t used); [exact Hk|discriminate]. }
    destruct (IH st' sp' used' HR' Hu' Hk') as [H1 H2].
    split; [f_equal; exact H1|exact H2].
Qed.

Theorem c29_refines q kd ops :
  wf_kind kd = true -> (q = true -> known_class ops = false) ->
  run_impl q kd ops = run_spec kd ops.
Proof.
  intros Hwf Hk. unfold run_impl, run_spec.
  apply (run_refines q kd Hwf ops i_init s_init []); [apply Rst_init|discriminate|exact Hk].
Qed.

(* the corrected enable_cache satisfies the property with no exception *)
Theorem c29_refines_fixed kd ops : wf_kind kd = true -> run_impl false kd ops = run_spec kd ops.
Proof. intros Hwf. apply c29_refines; [exact Hwf|discriminate]. Qed.

(* the reference cache never panics *)
Lemma srun_no_panic kd ops : forall sp, ~ In BPanic (srun kd sp ops).
Proof.
  induction ops as [|o r IH]; intros sp; cbn [srun]; [tauto|].
  destruct (sstep kd sp o) as [sp' b] eqn:E. cbn [In]. intros [H|H]; [|exact (IH sp' H)].
  subst b. destruct o as [t keys rr|t kvs|t|t k|b|t b|t]; cbn [sstep] in E; try discriminate.
  destruct (filter _ keys); [discriminate|]. destruct rr; discriminate.
Qed.

Theorem c29_no_panic q kd ops :
  wf_kind kd = true -> (q = true -> known_class ops = false) ->
  ~ In BPanic (run_impl q kd ops).
Proof.
  intros Hwf Hk. rewrite (c29_refines q kd ops Hwf Hk). apply srun_no_panic.
Qed.

(* capacity: at most cap entries at every moment of every history *)
Theorem c29_capacity q kd ops t e cap :
  wf_kind kd = true -> (q = true -> known_class ops = false) ->
  i_ent (ifinal q kd i_init ops) t = Some e -> cap_of kd = Some cap ->
  (length (ic_iter (e_cache e)) <= cap)%nat.
Proof.
  intros Hwf Hk He Hc.
  destruct (run_refines q kd Hwf ops i_init s_init [] (Rst_init kd)) as [_ [Hent _]];
    [discriminate|exact Hk|].
  specialize (Hent t). rewrite He in Hent. cbn [RE] in Hent. destruct Hent as [HR _].
  pose proof (R_length kd _ _ cap HR Hc) as Hl.
  destruct (e_cache e) as [|h|cp h]; cbn [R ic_iter] in *.
  - cbn [length]. nlia.
  - destruct HR as [-> _]. discriminate.
  - destruct HR as (_ & _ & -> & _). exact Hl.
Qed.

(* a load, read off the reference: cached value iff caching is enabled for the
   key type and globally and the cache holds the key; the loader's otherwise *)
Theorem c29_spec_load kd sp t keys vals :
  let en := s_all sp && s_en sp t in
  let hit k := en && holds (s_cache sp t) k in
  match snd (sstep kd sp (OLoad t keys (LOk vals))) with
  | BLoad called (ROk res) =>
      res = map (fun k => (k, if hit k then assoc k (s_cache sp t) else assoc k vals)) (canon keys) /\
      called = match filter (fun k => negb (hit k)) keys with
               | [] => None
               | need => Some (canon need)
               end
  | _ => False
  end.
Proof.
  cbv zeta. cbn [sstep].
  destruct (filter (fun k => negb (s_all sp && s_en sp t && holds (s_cache sp t) k)) keys) as [|n0 nl] eqn:En;
    cbn [snd]; (split; [|reflexivity]).
  - apply map_ext_in. intros k Hin. f_equal.
    assert (Hm : In k keys) by (apply In_canon; exact Hin).
    destruct (s_all sp && s_en sp t && holds (s_cache sp t) k) eqn:Eh; [reflexivity|].
    exfalso. assert (In k (filter (fun k => negb (s_all sp && s_en sp t && holds (s_cache sp t) k)) keys)).
    { apply filter_In. split; [exact Hm|]. rewrite Eh. reflexivity. }
    rewrite En in H. exact H.
  - reflexivity.
Qed.

(* the enable flags of the reference are the last values set *)
Theorem c29_spec_enable kd sp t b keys r :
  let sp' := fst (sstep kd sp (OEnable t b)) in
  s_en sp' t = b /\ (forall t', t' <> t -> s_en sp' t' = s_en sp t') /\
  s_cache sp' = s_cache sp /\ s_all sp' = s_all sp /\
  (b = false -> match snd (sstep kd sp' (OLoad t keys r)) with
                | BLoad called _ => called = match keys with [] => None | _ => Some (canon keys) end
                | _ => False
                end).
Proof.
  cbv zeta. cbn [sstep fst s_en s_cache s_all]. split; [apply upd_same|].
  split; [intros t' Hn; unfold upd; destruct (N.eqb_spec t' t); [contradiction|reflexivity]|].
  split; [reflexivity|]. split; [reflexivity|].
  intros ->. rewrite upd_same, andb_false_r. cbn [andb negb].
  rewrite (filter_true (fun _ : key => true) keys) by reflexivity.
  destruct keys as [|k ks]; [reflexivity|]. destruct r; reflexivity.
Qed.

(* today's enable_cache on a key type that was not used yet *)
Theorem c29_enable_before_use_refuted :
  exists kd ops, wf_kind kd = true /\ In BPanic (run_impl true kd ops) /\
                 run_impl true kd ops <> run_spec kd ops /\ known_class ops = true.
Proof.
  exists KHash, [OEnable 0 false]. vm_compute. repeat split; [left; reflexivity|discriminate].
Qed.

(* the known class is exactly where today's model leaves the reference *)
Theorem c29_known_class_panics kd ops :
  wf_kind kd = true -> known_class ops = true -> In BPanic (run_impl true kd ops).
Proof.
  intros Hwf. unfold known_class, run_impl.
  assert (H : forall ops st used,
             (forall t, i_ent st t <> None -> mem t used = true) ->
             kc_from used ops = true -> In BPanic (irun true kd st ops)).
  { clear ops. induction ops as [|o r IH]; intros st used Hu Hk; cbn [kc_from] in Hk; [discriminate|].
    cbn [irun].
    assert (Hgc : forall t, exists e, get_or_create kd st t = Ok e).
    { intros t. unfold get_or_create. destruct (i_ent st t) as [e|]; [eexists; reflexivity|].
      destruct (R_create kd Hwf) as (c & -> & _). eexists. reflexivity. }
    assert (Hw : forall t f used', (forall t', mem t' (t :: used) = true -> mem t' used' = true) ->
               kc_from used' r = true -> In BPanic (let (st', b) := with_entry kd st t f in b :: irun true kd st' r)).
    { intros t f used' Hinc Hk'. unfold with_entry. destruct (Hgc t) as [e ->]. destruct (f e) as [e' b].
      right. apply (IH _ used'); [|exact Hk'].
      intros t'. cbn [i_ent]. unfold upd. intros Hne. apply Hinc. cbn [mem]. unfold name_eqb.
      destruct (N.eqb t' t); [reflexivity|apply Hu; exact Hne]. }
    destruct o as [t keys rr|t kvs|t|t k|b|t b|t]; cbn [istep uses] in *.
    1-4: apply (Hw _ _ (t :: used)); [intros t' H; exact H|exact Hk].
    - right. apply (IH _ used); [exact Hu|exact Hk].
    - destruct (i_ent st t) as [e|] eqn:Ee.
      + assert (Hm : mem t used = true) by (apply Hu; rewrite Ee; discriminate). rewrite Hm in Hk.
        right. apply (IH _ used); [|exact Hk].
        intros t'. cbn [i_ent]. unfold upd. destruct (N.eqb_spec t' t) as [->|Hn]; [intros _; exact Hm|apply Hu].
      + left. reflexivity.
    - right. apply (IH _ used); [exact Hu|exact Hk]. }
  apply H. intros t Hne. exfalso. apply Hne. reflexivity.
Qed.

(* non-vacuity: a history outside the known class that exercises eviction,
   promotion, disabling and an enable_cache after first use *)
Definition demo_ops : list op :=
  [OFeed 0 [(1, 501); (2, 502)]; OLoad 0 [1] (LOk []); OFeed 0 [(3, 503)]; OCached 0;
   OEnable 0 false; OLoad 0 [1; 2] (LOk [(1, 11); (2, 12)]); OEnable 0 true;
   OLoad 0 [2; 1] (LOk [(2, 22)]); OCached 0].

Theorem c29_nonvacuous :
  known_class demo_ops = false /\
  run_impl true (KLru 2) demo_ops =
    [BUnit; BLoad None (ROk [(1, Some 501)]); BUnit; BCached [(1, 501); (3, 503)];
     BUnit; BLoad (Some [1; 2]) (ROk [(1, Some 11); (2, Some 12)]); BUnit;
     BLoad (Some [2]) (ROk [(1, Some 501); (2, Some 22)]); BCached [(1, 501); (2, 22)]].
Proof. vm_compute. split; reflexivity. Qed.

(* RuleCost.v — C11: cost model of the validation rules' OWN fragment-graph
   walks (strict mode), one counter per rule, tied to the code by the second
   cfg hook (async_graphql::verif_hooks::RULE_STEPS):

   [0] loop iterations of FindConflicts::find
       (src/validation/rules/overlapping_fields_can_be_merged.rs)
   [1] loop iterations of CycleDetector::detect_from (no_fragment_cycles.rs)
   [2] calls of NoUndefinedVariables::find_undef_vars
   [3] calls of NoUnusedVariables::find_used_vars
   [4] calls of NoUnusedFragments::find_reachable_fragments

   The model keeps the memo sets of the code (`visited`, `path_indices`,
   `result`) and is executable with fuel; running out of fuel is the value
   [OutOfFuel], never a number.  No proofs here (RuleCostProofs.v). *)
From AG Require Export LimitsCheck.
Open Scope N_scope.

Definition len {A} (l : list A) : N := N.of_nat (length l).

Definition sumN {A} (f : A -> N) (l : list A) : N :=
  fold_right (fun x acc => f x + acc) 0 l.

(* ------------------------------------------------------------- sizes ------ *)
(* fragment spreads written in a selection (every one, also below a
   __typename field or in an operation the schema has no root for) *)
Fixpoint nspreads (s : selection) : N :=
  match s with
  | SField _ _ _ _ sub => fold_right (fun x acc => nspreads x + acc) 0 sub
  | SSpread _ _ => 1
  | SInline _ _ sub => fold_right (fun x acc => nspreads x + acc) 0 sub
  end.
Definition nspreads_list (l : list selection) : N :=
  fold_right (fun x acc => nspreads x + acc) 0 l.
Definition doc_spreads (d : document) : N :=
  sumN (fun fr => nspreads_list (fr_sels (snd fr))) (doc_frags d) +
  sumN (fun o => nspreads_list (op_sels o)) (doc_ops d).
Definition doc_nops (d : document) : N := len (doc_ops d).

(* ------------------------------------- what the Normal-mode visit records -- *)
(* validation::utils::Scope *)
Inductive scope := ScOp (n : option name) | ScFrag (n : name).

Definition scope_eqb (a b : scope) : bool :=
  match a, b with
  | ScOp x, ScOp y => option_eqb name_eqb x y
  | ScFrag x, ScFrag y => name_eqb x y
  | _, _ => false
  end.

Fixpoint smem (s : scope) (l : list scope) : bool :=
  match l with
  | [] => false
  | s' :: l' => if scope_eqb s s' then true else smem s l'
  end.

(* the enter_fragment_spread events of visit_selection_set in Normal mode, in
   order, duplicates kept: spreads are not followed, the sub-selection of a
   field named __typename is not visited (visit_selection skips visit_field) *)
Fixpoint spreads_sel (s : selection) : list name :=
  match s with
  | SField _ nm _ _ sub =>
      if is_typename nm then []
      else fold_right (fun x acc => spreads_sel x ++ acc) [] sub
  | SSpread nm _ => [nm]
  | SInline _ _ sub => fold_right (fun x acc => spreads_sel x ++ acc) [] sub
  end.
Definition spreads_list (l : list selection) : list name :=
  fold_right (fun x acc => spreads_sel x ++ acc) [] l.

(* the selection sets on which enter_selection_set is called (non-empty sets
   only, visit_selection_set) *)
Definition wrap_set (l : list selection) : list (list selection) :=
  match l with [] => [] | _ => [l] end.
Fixpoint sel_sets (s : selection) : list (list selection) :=
  match s with
  | SField _ nm _ _ sub =>
      if is_typename nm then []
      else wrap_set sub ++ fold_right (fun x acc => sel_sets x ++ acc) [] sub
  | SSpread _ _ => []
  | SInline _ _ sub => wrap_set sub ++ fold_right (fun x acc => sel_sets x ++ acc) [] sub
  end.
Definition top_sets (l : list selection) : list (list selection) :=
  wrap_set l ++ fold_right (fun x acc => sel_sets x ++ acc) [] l.

(* `spreads: HashMap<Scope, Vec<&str>>` of NoUndefinedVariables /
   NoUnusedVariables / NoUnusedFragments after the visit: one push per
   enter_fragment_spread under `current_scope`.  Kept as the list of
   (scope, spreads of one definition) in visit order; looking a scope up
   concatenates the entries of that key (what entry().or_default().push does).
   visit(): fragment definitions first, then operations; the selection set of
   an operation is visited only when the schema has a root for its type.
   NoFragmentCycles' `spreads` (keyed by the current FRAGMENT only) is the
   restriction of this map to the ScFrag keys. *)
Definition recorded (Sch : schema) (d : document) : list (scope * list name) :=
  map (fun fr => (ScFrag (fst fr), spreads_list (fr_sels (snd fr)))) (doc_frags d) ++
  map (fun o => (ScOp (op_name o),
                 if has_root Sch o then spreads_list (op_sels o) else [])) (doc_ops d).

Definition lookup (rec : list (scope * list name)) (sc : scope) : list name :=
  flat_map (fun e => if scope_eqb (fst e) sc then snd e else []) rec.

Definition all_sets (Sch : schema) (d : document) : list (list selection) :=
  flat_map (fun fr => top_sets (fr_sels (snd fr))) (doc_frags d) ++
  flat_map (fun o => if has_root Sch o then top_sets (op_sels o) else []) (doc_ops d).
Definition doc_nsets (Sch : schema) (d : document) : N := len (all_sets Sch d).

(* sum of outcome-valued costs *)
Fixpoint sumo (l : list (outcome N)) : outcome N :=
  match l with
  | [] => Ok 0
  | x :: r => bindo x (fun a => bindo (sumo r) (fun b => Ok (a + b)))
  end.

Section Walks.
  Variable frags : list (name * fragment).
  Variable rec : list (scope * list name).

  (* ---- [2] [3] [4]: memoised walk over scopes, counting CALLS -------------
     find_undef_vars / find_used_vars: every scope is memoised in `visited`
     ([memo_op] = true); find_reachable_fragments: only Scope::Fragment is
     looked up in / added to `result` ([memo_op] = false). *)
  Section Memo.
    Variable memo_op : bool.
    Definition memoised (sc : scope) : bool :=
      match sc with ScOp _ => memo_op | ScFrag _ => true end.

    Fixpoint mwalk (n : nat) (V : list scope) (sc : scope) {struct n} : outcome (N * list scope) :=
      match n with
      | O => OutOfFuel
      | S n' =>
        if memoised sc && smem sc V then Ok (1, V)
        else bindo (mwalk_list n' (if memoised sc then sc :: V else V) (lookup rec sc))
                   (fun r => Ok (1 + fst r, snd r))
      end
    with mwalk_list (n : nat) (V : list scope) (l : list name) {struct n} : outcome (N * list scope) :=
      match l with
      | [] => Ok (0, V)
      | x :: r =>
        match n with
        | O => OutOfFuel
        | S n' => bindo (mwalk n' V (ScFrag x)) (fun a =>
                  bindo (mwalk_list n' (snd a) r) (fun b => Ok (fst a + fst b, snd b)))
        end
      end.
  End Memo.

  (* ---- [1]: CycleDetector::detect_from, counting LOOP ITERATIONS -----------
     V = `visited`, P = the keys of `path_indices` (inserted on entry, removed
     on exit: a stack, because a name already on it is never entered again). *)
  Fixpoint cyc_from (n : nat) (V P : list name) (x : name) {struct n} : outcome (N * list name) :=
    match n with
    | O => OutOfFuel
    | S n' => cyc_loop n' (x :: V) (x :: P) (lookup rec (ScFrag x))
    end
  with cyc_loop (n : nat) (V P : list name) (l : list name) {struct n} : outcome (N * list name) :=
    match l with
    | [] => Ok (0, V)
    | y :: r =>
      match n with
      | O => OutOfFuel
      | S n' =>
        bindo (if mem y P then Ok (0, V)            (* "Cannot spread fragment" *)
               else if mem y V then Ok (0, V)
               else cyc_from n' V P y) (fun a =>
        bindo (cyc_loop n' (snd a) P r) (fun b => Ok (1 + fst a + fst b, snd b)))
      end
    end.

  (* exit_document: for frag in fragment_order { if !visited.contains(frag) .. } *)
  Fixpoint cyc_top (n : nat) (V : list name) (order : list name) : outcome (N * list name) :=
    match order with
    | [] => Ok (0, V)
    | f :: r =>
      bindo (if mem f V then Ok (0, V) else cyc_from n V [] f) (fun a =>
      bindo (cyc_top n (snd a) r) (fun b => Ok (fst a + fst b, snd b)))
    end.

  (* ---- [0]: FindConflicts::find, counting LOOP ITERATIONS -----------------
     V = `visited` (fragment names, fresh for every enter_selection_set). *)
  Fixpoint find_sel (n : nat) (V : list name) (s : selection) {struct n} : outcome (N * list name) :=
    match n with
    | O => OutOfFuel
    | S n' =>
      match s with
      | SField _ _ _ _ _ => Ok (1, V)
      | SInline _ _ sub => bindo (find_list n' V sub) (fun r => Ok (1 + fst r, snd r))
      | SSpread nm _ =>
          match assoc nm frags with
          | Some fr =>
              if mem nm V then Ok (1, V)
              else bindo (find_list n' (nm :: V) (fr_sels fr)) (fun r => Ok (1 + fst r, snd r))
          | None => Ok (1, V)
          end
      end
    end
  with find_list (n : nat) (V : list name) (l : list selection) {struct n} : outcome (N * list name) :=
    match l with
    | [] => Ok (0, V)
    | x :: r =>
      match n with
      | O => OutOfFuel
      | S n' => bindo (find_sel n' V x) (fun a =>
                bindo (find_list n' (snd a) r) (fun b => Ok (fst a + fst b, snd b)))
      end
    end.
End Walks.

(* keys of `defined_variables: HashMap<Option<&str>, _>` (one entry per
   operation NAME) *)
Fixpoint omem (x : option name) (l : list (option name)) : bool :=
  match l with
  | [] => false
  | y :: r => if option_eqb name_eqb x y then true else omem x r
  end.
Fixpoint dedup (l : list (option name)) : list (option name) :=
  match l with
  | [] => []
  | x :: r => if omem x r then dedup r else x :: dedup r
  end.

Section Rules.
  Variable Sch : schema.
  Variable d : document.
  Variable n : nat.
  Let rec := recorded Sch d.

  (* [0] one top-level find (fresh visited) per entered selection set *)
  Definition overlap_steps : outcome N :=
    sumo (map (fun s => bindo (find_list (doc_frags d) n [] s) (fun r => Ok (fst r)))
              (all_sets Sch d)).

  (* [1] *)
  Definition cycle_steps : outcome N :=
    bindo (cyc_top rec n [] (map fst (doc_frags d))) (fun r => Ok (fst r)).

  (* [2] [3] one memoised walk (fresh visited) per key of defined_variables *)
  Definition vars_steps : outcome N :=
    sumo (map (fun nm => bindo (mwalk rec true n [] (ScOp nm)) (fun r => Ok (fst r)))
              (dedup (map op_name (doc_ops d)))).

  (* [4] one walk per operation of the document, `reachable` shared *)
  Fixpoint unused_ops (V : list scope) (ops : list operation) : outcome (N * list scope) :=
    match ops with
    | [] => Ok (0, V)
    | o :: r =>
      bindo (mwalk rec false n V (ScOp (op_name o))) (fun a =>
      bindo (unused_ops (snd a) r) (fun b => Ok (fst a + fst b, snd b)))
    end.
  Definition unused_steps : outcome N :=
    bindo (unused_ops [] (doc_ops d)) (fun r => Ok (fst r)).

  Definition rule_steps : outcome (list N) :=
    bindo overlap_steps (fun a =>
    bindo cycle_steps (fun b =>
    bindo vars_steps (fun c =>
    bindo unused_steps (fun e => Ok [a; b; c; c; e])))).
End Rules.

(* ------------------------------------------------- proved bounds, verdict --- *)
(* RuleCostProofs: every component of [rule_steps] is below the corresponding
   component of [rule_bounds], for every document. *)
Definition rule_bounds (d : document) : list N :=
  let s := doc_size d in
  let o := doc_nops d in
  [2 * s * s; s; o * (1 + s); o * (1 + s); o + (o + 1) * s].

Definition within (steps bounds : list N) : bool := forallb2 N.leb steps bounds.

Definition zeros : list N := [0; 0; 0; 0; 0].

(* One correspondence case: the five hook counters read after
   Schema::execute.  check_rules is not reached when the recursion-depth or
   the directive walker rejects the document; in fast mode the visitor is in
   Inline mode (fragment definitions are not visited, none of the five rules
   but NoFragmentCycles is installed and that one records nothing). *)
Definition check_c11r (Sch : schema) (d : document) (nl nr : nat) (lim : limits) (fast : bool)
           (steps : list N) : N :=
  let judge (m : list N) :=
    verdict (list_eqb N.eqb steps m) (within m (rule_bounds d)) (within steps (rule_bounds d)) 0 in
  match i_rec d nl lim with
  | Ok r =>
    if snd r then judge zeros else
    match i_dirwalk d nl lim with
    | Ok dw =>
      if snd dw then judge zeros else
      if fast then judge zeros else
      match rule_steps Sch d nr with
      | Ok m => judge m
      | _ => 9
      end
    | _ => 9
    end
  | _ => 9
  end.

(* fuel that the check passes: enough for every list position plus every
   nesting level / fragment entered along one branch of the walks *)
Definition rule_fuel (d : document) : nat :=
  S (S (2 * N.to_nat (doc_size d) + 2 * length (doc_frags d) + length (doc_ops d))).

(* Http.v — C23: model of the repo-owned request-decoding glue

     src/http/mod.rs      parse_query_string, receive_batch_body (content-type dispatch),
                          receive_batch_json
     src/http/multipart.rs the `operations` part (content type of the part, JSON decoding)
     src/request.rs       #[derive(Deserialize)] Request (keys from RequestSerdeGen.v),
                          #[serde(untagged)] BatchRequest, deserialize_non_empty_vec
     value/src            Variables (Option<BTreeMap>), Extensions (Option<HashMap>),
                          ConstValue from JSON (IndexMap insert)
     src/schema.rs        execute_batch (FuturesOrdered ... collect)

   The codecs (serde_json text <-> tree, serde_urlencoded text <-> pairs, mime,
   multer) are not modelled: the decoders below start from the JSON tree / the
   decoded pair list, and the theorems take the codecs as Section variables
   with the law decode (encode x) = x.  No proofs in this file. *)
From AG Require Export Base.
From AGgen Require Export RequestSerdeGen.
From Coq Require String Ascii.
Import String.StringSyntax.
Delimit Scope string_scope with string.
Open Scope N_scope.

(* ---------------------------------------------------------------- strings -- *)
Definition lit (s : String.string) : str := map Ascii.N_of_ascii (String.list_ascii_of_string s).

Fixpoint str_cmp (a b : str) : comparison :=
  match a, b with
  | [], [] => Eq
  | [], _ => Lt
  | _, [] => Gt
  | x :: a', y :: b' => match N.compare x y with Eq => str_cmp a' b' | c => c end
  end.
Definition str_eqb (a b : str) : bool := match str_cmp a b with Eq => true | _ => false end.
Definition str_ltb (a b : str) : bool := match str_cmp a b with Lt => true | _ => false end.
Definition key_in (k : str) (ks : list str) : bool := existsb (str_eqb k) ks.

(* ------------------------------------------------------------------- JSON -- *)
(* A JSON text as serde_json's streaming deserializer presents it: object
   members in source order, duplicates included.  Numbers: integers in
   i64/u64 range, everything else as the bit pattern of the f64. *)
Inductive jv :=
| JNull
| JBool (b : bool)
| JInt (z : Z)
| JFloat (bits : N)
| JStr (s : str)
| JArr (l : list jv)
| JObj (m : list (str * jv)).

Fixpoint jv_eqb (a b : jv) {struct a} : bool :=
  match a, b with
  | JNull, JNull => true
  | JBool x, JBool y => Bool.eqb x y
  | JInt x, JInt y => Z.eqb x y
  | JFloat x, JFloat y => N.eqb x y
  | JStr x, JStr y => str_eqb x y
  | JArr x, JArr y =>
      (fix go (x y : list jv) : bool :=
         match x, y with
         | [], [] => true
         | u :: x', v :: y' => jv_eqb u v && go x' y'
         | _, _ => false
         end) x y
  | JObj x, JObj y =>
      (fix go (x y : list (str * jv)) : bool :=
         match x, y with
         | [], [] => true
         | (k, u) :: x', (k', v) :: y' => str_eqb k k' && jv_eqb u v && go x' y'
         | _, _ => false
         end) x y
  | _, _ => false
  end.

(* IndexMap::insert: an existing key keeps its position, the value is replaced *)
Fixpoint im_insert {A} (k : str) (v : A) (m : list (str * A)) : list (str * A) :=
  match m with
  | [] => [(k, v)]
  | (k', v') :: m' => if str_eqb k k' then (k', v) :: m' else (k', v') :: im_insert k v m'
  end.

(* BTreeMap::insert (HashMap compared through its sorted listing): sorted by
   key, an existing key gets the new value *)
Fixpoint bt_insert {A} (k : str) (v : A) (m : list (str * A)) : list (str * A) :=
  match m with
  | [] => [(k, v)]
  | (k', v') :: m' =>
      match str_cmp k k' with
      | Lt => (k, v) :: (k', v') :: m'
      | Eq => (k', v) :: m'
      | Gt => (k', v') :: bt_insert k v m'
      end
  end.

(* ConstValue::deserialize (value/src/value_serde.rs): lists element-wise,
   objects into an IndexMap in member order *)
Fixpoint cv_of (v : jv) : jv :=
  match v with
  | JArr l => JArr (map cv_of l)
  | JObj m =>
      JObj ((fix go (m : list (str * jv)) (acc : list (str * jv)) : list (str * jv) :=
               match m with
               | [] => acc
               | (k, x) :: m' => go m' (im_insert k (cv_of x) acc)
               end) m [])
  | _ => v
  end.

(* Variables / Extensions: Option<map>; members collected with insert *)
Fixpoint bt_collect (m : list (str * jv)) (acc : list (str * jv)) : list (str * jv) :=
  match m with
  | [] => acc
  | (k, x) :: m' => bt_collect m' (bt_insert k (cv_of x) acc)
  end.

Definition E_IO : N := 1.
Definition E_INVALID_REQUEST : N := 2.
Definition E_INVALID_FILES_MAP : N := 3.
Definition E_INVALID_MULTIPART : N := 4.
Definition E_MISSING_OPERATIONS : N := 5.
Definition E_MISSING_MAP : N := 6.
Definition E_NOT_UPLOAD : N := 7.
Definition E_MISSING_FILES : N := 8.
Definition E_PAYLOAD_TOO_LARGE : N := 9.
Definition E_UNSUPPORTED_BATCH : N := 10.

Definition decode_map_member (e : N) (v : jv) : outcome (list (str * jv)) :=
  match v with
  | JNull => Ok []
  | JObj m => Ok (bt_collect m [])
  | _ => Err e
  end.

(* --------------------------------------------------------------- requests -- *)
Record request := {
  r_query : str;
  r_op : option str;
  r_vars : list (str * jv);   (* BTreeMap listing *)
  r_exts : list (str * jv) }. (* HashMap, listed sorted by key *)

Inductive batch :=
| BSingle (r : request)
| BBatch (rs : list request).

(* serde field table of one decoder (from RequestSerdeGen.v) *)
Record keytab := {
  k_query : list str; k_op : list str; k_vars : list str; k_exts : list str;
  (* a missing member is tolerated (serde default / Option) *)
  m_query : bool; m_op : bool; m_vars : bool; m_exts : bool;
  (* positional form: a missing element is defaulted (explicit serde(default)) *)
  p_query : bool; p_op : bool; p_vars : bool; p_exts : bool }.

Definition req_tab : keytab := {|
  k_query := req_keys_query; k_op := req_keys_opname; k_vars := req_keys_variables; k_exts := req_keys_extensions;
  m_query := req_missing_ok_query; m_op := req_missing_ok_opname; m_vars := req_missing_ok_variables; m_exts := req_missing_ok_extensions;
  p_query := req_seq_default_query; p_op := req_seq_default_opname; p_vars := req_seq_default_variables; p_exts := req_seq_default_extensions |}.

Definition get_tab : keytab := {|
  k_query := get_keys_query; k_op := get_keys_opname; k_vars := get_keys_variables; k_exts := get_keys_extensions;
  m_query := get_missing_ok_query; m_op := get_missing_ok_opname; m_vars := get_missing_ok_variables; m_exts := get_missing_ok_extensions;
  p_query := get_seq_default_query; p_op := get_seq_default_opname; p_vars := get_seq_default_variables; p_exts := get_seq_default_extensions |}.

(* what the tables are today / what GraphQL-over-HTTP prescribes *)
Definition K_QUERY : str := lit "query"%string.
Definition K_OPNAME : str := lit "operationName"%string.
Definition K_VARIABLES : str := lit "variables"%string.
Definition K_EXTENSIONS : str := lit "extensions"%string.

Definition std_tab : keytab := {|
  k_query := [K_QUERY]; k_op := [K_OPNAME]; k_vars := [K_VARIABLES]; k_exts := [K_EXTENSIONS];
  m_query := true; m_op := true; m_vars := true; m_exts := true;
  p_query := true; p_op := true; p_vars := true; p_exts := true |}.

Definition get_tab_today : keytab := {|
  k_query := [K_QUERY]; k_op := [lit "operation_name"%string]; k_vars := [K_VARIABLES]; k_exts := [K_EXTENSIONS];
  m_query := true; m_op := true; m_vars := true; m_exts := true;
  p_query := true; p_op := false; p_vars := false; p_exts := false |}.

(* which member a key is routed to by the derived visitor below (4 = skipped) *)
Definition routes (kt : keytab) (k : str) : N :=
  if key_in k (k_query kt) then 0 else if key_in k (k_op kt) then 1
  else if key_in k (k_vars kt) then 2 else if key_in k (k_exts kt) then 3 else 4.

(* the table routes the protocol's member names to the right members and
   tolerates an absent operation name *)
Definition tab_ok3 (kt : keytab) : bool :=
  (routes kt K_QUERY =? 0) && (routes kt K_VARIABLES =? 2) && (routes kt K_EXTENSIONS =? 3) && m_op kt.
Definition tab_ok (kt : keytab) : bool := tab_ok3 kt && (routes kt K_OPNAME =? 1).

(* the table is exactly the protocol's: one name per member, absent members tolerated *)
Definition tab_std (kt : keytab) : Prop :=
  k_query kt = [K_QUERY] /\ k_op kt = [K_OPNAME] /\ k_vars kt = [K_VARIABLES] /\ k_exts kt = [K_EXTENSIONS] /\
  m_query kt = true /\ m_op kt = true /\ m_vars kt = true /\ m_exts kt = true.

(* The visitor serde-derive generates for a struct with four members: one
   optional slot per member; a member seen twice is an error; unknown keys
   are skipped. *)
Record slots (Q O V X : Type) := {
  s_q : option Q; s_o : option O; s_v : option V; s_x : option X }.
Arguments s_q {Q O V X}. Arguments s_o {Q O V X}. Arguments s_v {Q O V X}. Arguments s_x {Q O V X}.
Arguments Build_slots {Q O V X}.

Definition no_slots {Q O V X} : slots Q O V X := Build_slots None None None None.

Section Visit.
  Variables (T Q O V X : Type).
  Variable kt : keytab.
  Variable e : N.
  Variables (dq : T -> outcome Q) (dop : T -> outcome O) (dv : T -> outcome V) (dx : T -> outcome X).

  Fixpoint visit_members (m : list (str * T)) (s : slots Q O V X) : outcome (slots Q O V X) :=
    match m with
    | [] => Ok s
    | (k, x) :: m' =>
        if key_in k (k_query kt) then
          match s_q s with
          | Some _ => Err e
          | None => bindo (dq x) (fun y => visit_members m' (Build_slots (Some y) (s_o s) (s_v s) (s_x s)))
          end
        else if key_in k (k_op kt) then
          match s_o s with
          | Some _ => Err e
          | None => bindo (dop x) (fun y => visit_members m' (Build_slots (s_q s) (Some y) (s_v s) (s_x s)))
          end
        else if key_in k (k_vars kt) then
          match s_v s with
          | Some _ => Err e
          | None => bindo (dv x) (fun y => visit_members m' (Build_slots (s_q s) (s_o s) (Some y) (s_x s)))
          end
        else if key_in k (k_exts kt) then
          match s_x s with
          | Some _ => Err e
          | None => bindo (dx x) (fun y => visit_members m' (Build_slots (s_q s) (s_o s) (s_v s) (Some y)))
          end
        else visit_members m' s
    end.
End Visit.
Arguments visit_members {T Q O V X}.

Definition slot_or {A} (e : N) (ok : bool) (d : A) (s : option A) : outcome A :=
  match s with
  | Some a => Ok a
  | None => if ok then Ok d else Err e
  end.

(* member decoders of struct Request *)
Definition d_string (e : N) (v : jv) : outcome str :=
  match v with JStr s => Ok s | _ => Err e end.
Definition d_opt_string (e : N) (v : jv) : outcome (option str) :=
  match v with JNull => Ok None | JStr s => Ok (Some s) | _ => Err e end.

Definition E := E_INVALID_REQUEST.

(* Request::deserialize, map form *)
Definition decode_request_map (kt : keytab) (m : list (str * jv)) : outcome request :=
  bindo (visit_members kt E (d_string E) (d_opt_string E) (decode_map_member E) (decode_map_member E) m no_slots)
    (fun s =>
       bindo (slot_or E (m_query kt) [] (s_q s)) (fun q =>
       bindo (slot_or E (m_op kt) None (s_o s)) (fun o =>
       bindo (slot_or E (m_vars kt) [] (s_v s)) (fun v =>
       bindo (slot_or E (m_exts kt) [] (s_x s)) (fun x =>
       Ok {| r_query := q; r_op := o; r_vars := v; r_exts := x |}))))).

(* Request::deserialize, positional form (serde structs accept a sequence):
   elements in declaration order, a missing element is defaulted only with an
   explicit serde(default), surplus elements are an error *)
Definition seq_elem {A} (ok : bool) (d : A) (dec : jv -> outcome A) (l : list jv) : outcome (A * list jv) :=
  match l with
  | x :: l' => bindo (dec x) (fun a => Ok (a, l'))
  | [] => if ok then Ok (d, []) else Err E
  end.

Definition decode_request_seq (kt : keytab) (l : list jv) : outcome request :=
  bindo (seq_elem (p_query kt) [] (d_string E) l) (fun '(q, l1) =>
  bindo (seq_elem (p_op kt) None (d_opt_string E) l1) (fun '(o, l2) =>
  bindo (seq_elem (p_vars kt) [] (decode_map_member E) l2) (fun '(v, l3) =>
  bindo (seq_elem (p_exts kt) [] (decode_map_member E) l3) (fun '(x, l4) =>
  match l4 with
  | [] => Ok {| r_query := q; r_op := o; r_vars := v; r_exts := x |}
  | _ => Err E
  end)))).

Definition decode_request (kt : keytab) (v : jv) : outcome request :=
  match v with
  | JObj m => decode_request_map kt m
  | JArr l => decode_request_seq kt l
  | _ => Err E
  end.

Fixpoint decode_all (kt : keytab) (l : list jv) : outcome (list request) :=
  match l with
  | [] => Ok []
  | x :: l' => bindo (decode_request kt x) (fun r => bindo (decode_all kt l') (fun rs => Ok (r :: rs)))
  end.

Definition is_ok {A} (x : outcome A) : bool := match x with Ok _ => true | _ => false end.

(* BatchRequest::deserialize: untagged — first variant that decodes wins;
   Batch goes through deserialize_non_empty_vec *)
Definition decode_batch (kt : keytab) (v : jv) : outcome batch :=
  match decode_request kt v with
  | Ok r => Ok (BSingle r)
  | _ =>
      match v with
      | JArr l =>
          match decode_all kt l with
          | Ok rs => match rs with [] => Err E | _ => Ok (BBatch rs) end
          | _ => Err E
          end
      | _ => Err E
      end
  end.

(* receive_batch_json: the body is parsed by serde_json (codec) *)
Definition decode_body (kt : keytab) (tree : option jv) : outcome batch :=
  match tree with
  | None => Err E
  | Some v => decode_batch kt v
  end.

(* BatchRequest::into_single (receive_body / receive_json) *)
Definition into_single (b : outcome batch) : outcome request :=
  bindo b (fun b => match b with BSingle r => Ok r | BBatch _ => Err E_UNSUPPORTED_BATCH end).

(* ------------------------------------------------------------ query string -- *)
(* parse_query_string after serde_urlencoded has split and percent-decoded the
   pairs: RequestSerde by the derived visitor (members are strings, the three
   optional ones `Option<String>`), then variables/extensions JSON-decoded.
   [jparse] is serde_json on a member's text. *)
Section Get.
  Variable kt : keytab.
  Variable jparse : str -> option jv.

  Definition get_json_member (s : option str) : outcome (list (str * jv)) :=
    match s with
    | None => Ok []
    | Some t =>
        match jparse t with
        | None => Err E_IO
        | Some v => decode_map_member E_IO v
        end
    end.

  Definition decode_get (pairs : list (str * str)) : outcome request :=
    bindo (visit_members kt E_IO (fun s => Ok s) (fun s => Ok s) (fun s => Ok s) (fun s => Ok s) pairs no_slots)
      (fun s =>
         bindo (slot_or E_IO (m_query kt) [] (s_q s)) (fun q =>
         bindo (slot_or E_IO (m_op kt) None (option_map Some (s_o s))) (fun o =>
         bindo (slot_or E_IO (m_vars kt) None (option_map Some (s_v s))) (fun vs =>
         bindo (slot_or E_IO (m_exts kt) None (option_map Some (s_x s))) (fun xs =>
         bindo (get_json_member vs) (fun v =>
         bindo (get_json_member xs) (fun x =>
         Ok {| r_query := q; r_op := o; r_vars := v; r_exts := x |}))))))).
End Get.

(* --------------------------------------------------- content-type dispatch -- *)
(* what the mime crate says about a Content-Type value *)
Inductive ctype :=
| CtInvalid                       (* does not parse *)
| CtMultipart (boundary : bool)   (* type multipart, boundary parameter present? *)
| CtOther.                        (* anything else, or no header at all *)

(* receive_batch_body; [mp] stands for multipart::receive_batch_multipart *)
Definition dispatch (kt : keytab) (ct : ctype) (tree : option jv) (mp : outcome batch) : outcome batch :=
  match ct with
  | CtInvalid => Err E_INVALID_REQUEST
  | CtMultipart false => Err E_INVALID_MULTIPART
  | CtMultipart true => mp
  | CtOther => decode_body kt tree
  end.

(* multipart::receive_batch_multipart on a body made of one `operations` part
   (with the part's own content type) followed by a `map` part holding {}:
   the part goes through receive_batch_body_no_multipart, which asserts that
   its content type is not multipart *)
Definition decode_mp_operations (kt : keytab) (part_ct : ctype) (tree : option jv) : outcome batch :=
  match part_ct with
  | CtMultipart _ => Panic
  | _ => decode_body kt tree
  end.

(* ------------------------------------------------------------------- spec -- *)
(* GraphQL over HTTP, written from the protocol text, independent of serde:
   a request is a JSON object; `query` a string (this server tolerates its
   absence: persisted queries), `operationName` a string or null or absent,
   `variables` / `extensions` an object or null or absent; member names are
   unique; other members are ignored.  A batch is a non-empty array of such
   objects, decoded in order.  Everything else is malformed. *)
Fixpoint lookups (k : str) (m : list (str * jv)) : list jv :=
  match m with
  | [] => []
  | (k', v) :: m' => if str_eqb k k' then v :: lookups k m' else lookups k m'
  end.

(* a member may be absent (default), present once with a value of the right
   shape, and nothing else *)
Definition spec_member {T A} (default : A) (conv : T -> option A) (l : list T) : option A :=
  match l with
  | [] => Some default
  | [x] => conv x
  | _ => None
  end.

Definition conv_string (v : jv) : option str := match v with JStr s => Some s | _ => None end.
Definition conv_opt_string (v : jv) : option (option str) :=
  match v with JNull => Some None | JStr s => Some (Some s) | _ => None end.
Definition conv_members (v : jv) : option (list (str * jv)) :=
  match v with JNull => Some [] | JObj m => Some (bt_collect m []) | _ => None end.

Definition spec_request (v : jv) : option request :=
  match v with
  | JObj m =>
      match spec_member [] conv_string (lookups K_QUERY m),
            spec_member None conv_opt_string (lookups K_OPNAME m),
            spec_member [] conv_members (lookups K_VARIABLES m),
            spec_member [] conv_members (lookups K_EXTENSIONS m) with
      | Some q, Some o, Some v, Some x => Some {| r_query := q; r_op := o; r_vars := v; r_exts := x |}
      | _, _, _, _ => None
      end
  | _ => None
  end.

Fixpoint spec_all (l : list jv) : option (list request) :=
  match l with
  | [] => Some []
  | x :: l' => match spec_request x, spec_all l' with
               | Some r, Some rs => Some (r :: rs)
               | _, _ => None
               end
  end.

Definition spec_batch (v : jv) : option batch :=
  match v with
  | JObj _ => option_map BSingle (spec_request v)
  | JArr [] => None
  | JArr l => option_map BBatch (spec_all l)
  | _ => None
  end.

(* query string: the same member names; values are text; variables and
   extensions carry JSON text *)
Fixpoint plookups (k : str) (m : list (str * str)) : list str :=
  match m with
  | [] => []
  | (k', v) :: m' => if str_eqb k k' then v :: plookups k m' else plookups k m'
  end.

Fixpoint plookups_any (ks : list str) (m : list (str * str)) : list str :=
  match m with
  | [] => []
  | (k', v) :: m' => if key_in k' ks then v :: plookups_any ks m' else plookups_any ks m'
  end.

(* [aliases]: further names a server documents for the operation name; the
   protocol name operationName is always one of the names *)
Section SpecGet.
  Variable jparse : str -> option jv.
  Variable aliases : list str.
  Definition conv_json_members (t : str) : option (list (str * jv)) :=
    match jparse t with
    | Some v => conv_members v
    | None => None
    end.
  Definition spec_get (pairs : list (str * str)) : option request :=
    match spec_member [] (fun s => Some s) (plookups K_QUERY pairs),
          spec_member None (fun s => Some (Some s)) (plookups_any (K_OPNAME :: aliases) pairs),
          spec_member [] conv_json_members (plookups K_VARIABLES pairs),
          spec_member [] conv_json_members (plookups K_EXTENSIONS pairs) with
    | Some q, Some o, Some v, Some x => Some {| r_query := q; r_op := o; r_vars := v; r_exts := x |}
    | _, _, _, _ => None
    end.
End SpecGet.

(* client-side encoders (what a client following the protocol sends) *)
Definition enc_json (r : request) : jv :=
  JObj ([(K_QUERY, JStr (r_query r))] ++
        match r_op r with Some o => [(K_OPNAME, JStr o)] | None => [] end ++
        [(K_VARIABLES, JObj (r_vars r)); (K_EXTENSIONS, JObj (r_exts r))]).

Section EncGet.
  Variable jprint : jv -> str.
  Definition enc_get (r : request) : list (str * str) :=
    [(K_QUERY, r_query r)] ++
    match r_op r with Some o => [(K_OPNAME, o)] | None => [] end ++
    [(K_VARIABLES, jprint (JObj (r_vars r))); (K_EXTENSIONS, jprint (JObj (r_exts r)))].
End EncGet.

(* requests as the server holds them: variables (BTreeMap) and extensions
   (HashMap, listed sorted) have strictly increasing keys, and every value is
   a ConstValue (objects without duplicate member names) *)
Fixpoint sorted_keys {A} (m : list (str * A)) : bool :=
  match m with
  | [] => true
  | (k, _) :: m' =>
      match m' with
      | [] => true
      | (k', _) :: _ => str_ltb k k' && sorted_keys m'
      end
  end.

Definition wf_members (m : list (str * jv)) : Prop :=
  sorted_keys m = true /\ Forall (fun kv => cv_of (snd kv) = snd kv) m.

Definition wf_request (r : request) : Prop := wf_members (r_vars r) /\ wf_members (r_exts r).

(* ------------------------------------------------------------ comparisons -- *)
Definition members_eqb (a b : list (str * jv)) : bool := jv_eqb (JObj a) (JObj b).

Definition request_eqb (a b : request) : bool :=
  str_eqb (r_query a) (r_query b) &&
  option_eqb str_eqb (r_op a) (r_op b) &&
  members_eqb (r_vars a) (r_vars b) &&
  members_eqb (r_exts a) (r_exts b).

Definition batch_eqb (a b : batch) : bool :=
  match a, b with
  | BSingle x, BSingle y => request_eqb x y
  | BBatch x, BBatch y => list_eqb request_eqb x y
  | _, _ => false
  end.

Definition outcome_eqb {A} (f : A -> A -> bool) (a b : outcome A) : bool :=
  match a, b with
  | Ok x, Ok y => f x y
  | Err x, Err y => N.eqb x y
  | Panic, Panic => true
  | _, _ => false
  end.

(* "satisfies the specification": a well-formed encoding decodes to exactly
   the request it denotes; a malformed one is rejected with a request error
   (any kind), never accepted, never a panic *)
Definition sat {A} (f : A -> A -> bool) (s : option A) (o : outcome A) : bool :=
  match s, o with
  | Some x, Ok y => f x y
  | None, Err _ => true
  | _, _ => false
  end.

(* ------------------------------------------------------------ known classes -- *)
(* 1: a query string that carries the standard operationName member while the
      decoder's table does not list that key *)
Definition get_known (kt : keytab) (pairs : list (str * str)) : N :=
  if key_in K_OPNAME (k_op kt) then 0
  else match plookups K_OPNAME pairs with [] => 0 | _ => 1 end.

(* 2: a JSON array where a request object is expected (the whole body, or an
      element of a batch), which the positional form of the derived
      deserializer accepts *)
Definition positional_ok (kt : keytab) (v : jv) : bool :=
  match v with JArr l => is_ok (decode_request_seq kt l) | _ => false end.

Definition json_known (kt : keytab) (v : jv) : N :=
  match v with
  | JArr l => if positional_ok kt v || existsb (positional_ok kt) l then 2 else 0
  | _ => 0
  end.

(* 3: an `operations` part whose own Content-Type is multipart/* *)
Definition mp_known (part_ct : ctype) : N :=
  match part_ct with CtMultipart _ => 3 | _ => 0 end.

(* --------------------------------------------------------- per-case checks -- *)
Definition tree_known (kt : keytab) (t : option jv) : N :=
  match t with Some v => json_known kt v | None => 0 end.

Definition spec_body (t : option jv) : option batch :=
  match t with Some v => spec_batch v | None => None end.

(* JSON body through receive_batch_json *)
Definition check_json (t : option jv) (impl : outcome batch) : N :=
  let m := decode_body req_tab t in
  let s := spec_body t in
  verdict (outcome_eqb batch_eqb impl m) (sat batch_eqb s m) (sat batch_eqb s impl) (tree_known req_tab t).

(* JSON body through receive_json / receive_body (single requests only) *)
Definition spec_single (t : option jv) : option request :=
  match spec_body t with Some (BSingle r) => Some r | _ => None end.

Definition check_json_single (t : option jv) (impl : outcome request) : N :=
  let m := into_single (decode_body req_tab t) in
  let s := spec_single t in
  verdict (outcome_eqb request_eqb impl m) (sat request_eqb s m) (sat request_eqb s impl) (tree_known req_tab t).

(* query string through parse_query_string; [oracle] lists, for every member
   text of the case, what serde_json makes of it *)
Fixpoint oracle_parse (tab : list (str * option jv)) (s : str) : option jv :=
  match tab with
  | [] => None
  | (k, v) :: tab' => if str_eqb s k then v else oracle_parse tab' s
  end.

Definition check_get (pairs : list (str * str)) (tab : list (str * option jv)) (impl : outcome request) : N :=
  let m := decode_get get_tab (oracle_parse tab) pairs in
  let s := spec_get (oracle_parse tab) (k_op get_tab) pairs in
  verdict (outcome_eqb request_eqb impl m) (sat request_eqb s m) (sat request_eqb s impl) (get_known get_tab pairs).

(* content-type dispatch through receive_batch_body, non-multipart bodies *)
Definition check_dispatch (ct : ctype) (t : option jv) (impl : outcome batch) : N :=
  let m := dispatch req_tab ct t (Err E_INVALID_MULTIPART) in
  let s := match ct with CtOther => spec_body t | _ => None end in
  verdict (outcome_eqb batch_eqb impl m) (sat batch_eqb s m) (sat batch_eqb s impl)
          (match ct with CtOther => tree_known req_tab t | _ => 0 end).

(* multipart body = operations part + empty map, through receive_batch_body *)
Definition check_mp (part_ct : ctype) (t : option jv) (impl : outcome batch) : N :=
  let m := decode_mp_operations req_tab part_ct t in
  let s := match part_ct with CtMultipart _ => None | _ => spec_body t end in
  verdict (outcome_eqb batch_eqb impl m) (sat batch_eqb s m) (sat batch_eqb s impl)
          (match part_ct with CtMultipart _ => 3 | _ => tree_known req_tab t end).

(* one request in the three transports, encoded by a standard client: all
   three must decode to it.  [printed] = the JSON texts the client produced
   for variables and extensions, with the trees they denote. *)
Definition check_same (r : request) (tab : list (str * option jv)) (vtext xtext : str)
           (ij : outcome batch) (ig : outcome request) (im : outcome batch) : N :=
  let pairs := [(K_QUERY, r_query r)] ++
               match r_op r with Some o => [(K_OPNAME, o)] | None => [] end ++
               [(K_VARIABLES, vtext); (K_EXTENSIONS, xtext)] in
  let mj := decode_body req_tab (Some (enc_json r)) in
  let mg := decode_get get_tab (oracle_parse tab) pairs in
  let mm := decode_mp_operations req_tab CtOther (Some (enc_json r)) in
  let sb := Some (BSingle r) in
  verdict (outcome_eqb batch_eqb ij mj && outcome_eqb request_eqb ig mg && outcome_eqb batch_eqb im mm)
          (sat batch_eqb sb mj && sat request_eqb (Some r) mg && sat batch_eqb sb mm)
          (sat batch_eqb sb ij && sat request_eqb (Some r) ig && sat batch_eqb sb im)
          (get_known get_tab pairs).

(* ------------------------------------------------------------ batch order -- *)
(* Schema::execute_batch: FuturesOrdered::from_iter(requests.map(execute))
   .collect().  FuturesOrdered keeps the unfinished futures with their index,
   parks an output that finishes early in a heap, and yields the output whose
   index is the next one.  A schedule is the sequence of request indices in
   the order in which their executions complete. *)
Section Ordered.
  Variables (A B : Type).
  Variable exec : A -> B.

  Record ostate := {
    o_pending : list (nat * A);
    o_heap : list (nat * B);
    o_next : nat;
    o_out : list B }. (* yielded so far, in yield order *)

  Fixpoint take_idx {C} (i : nat) (l : list (nat * C)) : option (C * list (nat * C)) :=
    match l with
    | [] => None
    | (j, c) :: l' =>
        if Nat.eqb i j then Some (c, l')
        else match take_idx i l' with
             | Some (c', r) => Some (c', (j, c) :: r)
             | None => None
             end
    end.

  (* poll_next: while the heap holds the next index, yield it *)
  Fixpoint drain (fuel : nat) (heap : list (nat * B)) (next : nat) (out : list B) : list (nat * B) * nat * list B :=
    match fuel with
    | O => (heap, next, out)
    | S f =>
        match take_idx next heap with
        | Some (b, heap') => drain f heap' (S next) (out ++ [b])
        | None => (heap, next, out)
        end
    end.

  (* the execution of request [i] completes *)
  Definition complete (i : nat) (st : ostate) : ostate :=
    match take_idx i (o_pending st) with
    | None => st
    | Some (a, pend') =>
        let heap := (i, exec a) :: o_heap st in
        let '(heap', next', out') := drain (S (length heap)) heap (o_next st) (o_out st) in
        {| o_pending := pend'; o_heap := heap'; o_next := next'; o_out := out' |}
    end.

  Fixpoint index_from {C} (n : nat) (l : list C) : list (nat * C) :=
    match l with
    | [] => []
    | x :: l' => (n, x) :: index_from (S n) l'
    end.

  Definition o_init (rs : list A) : ostate :=
    {| o_pending := index_from 0 rs; o_heap := []; o_next := 0; o_out := [] |}.

  Definition run_schedule (rs : list A) (sched : list nat) : ostate :=
    fold_left (fun st i => complete i st) sched (o_init rs).

  (* collect(): the batch response exists once every execution has completed *)
  Definition batch_response (rs : list A) (sched : list nat) : option (list B) :=
    let st := run_schedule rs sched in
    match o_pending st with
    | [] => Some (o_out st)
    | _ => None
    end.
End Ordered.
Arguments batch_response {A B}.
Arguments run_schedule {A B}.
Arguments complete {A B}.
Arguments o_init {A B}.
Arguments o_pending {A B}. Arguments o_heap {A B}. Arguments o_next {A B}. Arguments o_out {A B}.

(* [n] requests, request i answers i; impl = the answers in response order *)
Definition check_order (n : nat) (sched : list nat) (impl : list nat) : N :=
  let rs := seq 0 n in
  let m := batch_response (fun i => i) rs sched in
  let ok r := match r with Some l => list_eqb Nat.eqb l rs | None => false end in
  verdict (match m with Some l => list_eqb Nat.eqb l impl | None => false end) (ok m) (ok (Some impl)) 0.

(* Cursor.v — C32: model of the CursorType impls (src/types/connection/cursor.rs),
   of base64 URL_SAFE_NO_PAD (OpaqueCursor), of query_with's argument checks
   (src/types/connection/mod.rs) and of Connection::page_info / Edge::cursor
   (connection_type.rs, edge.rs).  Executable definitions only, no proofs. *)
From AG Require Export Base.
Open Scope Z_scope.

Definition str_eqb (a b : str) : bool := list_eqb N.eqb a b.

(* ------------------------------------------------- decimal print / parse -- *)
(* `impl Display for iN/uN` and `impl FromStr for iN/uN` (core::num). *)
Definition digit_cp (d : Z) : cp := Z.to_N (48 + d).
Definition cp_digit (c : cp) : option Z :=
  let z := Z.of_N c in if (48 <=? z) && (z <=? 57) then Some (z - 48) else None.

(* least-significant digit first, pushed on the accumulator *)
Fixpoint pr_digits (fuel : nat) (n : Z) (acc : str) : str :=
  match fuel with
  | O => acc
  | S f => let acc' := digit_cp (n mod 10) :: acc in
           if n <? 10 then acc' else pr_digits f (n / 10) acc'
  end.

Definition print_nat (n : Z) : str := pr_digits (S (Z.to_nat (Z.log2 n))) n [].
Definition C_MINUS : cp := 45%N.
Definition C_PLUS : cp := 43%N.
Definition print_int (z : Z) : str := if z <? 0 then C_MINUS :: print_nat (- z) else print_nat z.

(* from_str_radix(10): Horner accumulation, any non-digit fails *)
Fixpoint parse_digits (acc : Z) (s : str) : option Z :=
  match s with
  | [] => Some acc
  | c :: r => match cp_digit c with
              | Some d => parse_digits (acc * 10 + d) r
              | None => None
              end
  end.

Record int_ty := { it_signed : bool; it_bits : Z }.
Definition it_lo (t : int_ty) : Z := if it_signed t then - 2 ^ (it_bits t - 1) else 0.
Definition it_hi (t : int_ty) : Z := if it_signed t then 2 ^ (it_bits t - 1) - 1 else 2 ^ it_bits t - 1.
Definition in_range (t : int_ty) (z : Z) : bool := (it_lo t <=? z) && (z <=? it_hi t).

Definition chk (t : int_ty) (o : option Z) : option Z :=
  match o with
  | Some z => if in_range t z then Some z else None   (* PosOverflow / NegOverflow *)
  | None => None                                       (* InvalidDigit *)
  end.

Definition is_nil {A} (l : list A) : bool := match l with [] => true | _ => false end.

(* core::num::from_str_radix:
     []            => Empty
     ["+"] | ["-"] => InvalidDigit
     '+' rest      => positive rest
     '-' rest      => negative rest, signed types only
     otherwise     => positive, the whole input are the digits *)
Definition parse_int (t : int_ty) (s : str) : option Z :=
  match s with
  | [] => None
  | c :: r =>
      if ((c =? C_PLUS) || (c =? C_MINUS))%N && is_nil r then None
      else if (c =? C_PLUS)%N then chk t (parse_digits 0 r)
      else if (c =? C_MINUS)%N && it_signed t then chk t (option_map Z.opp (parse_digits 0 r))
      else chk t (parse_digits 0 s)
  end.

(* Independent specification of integer decoding: the accepted language is
   [+-]?[0-9]+ ('-' only for signed types), the value is the positional sum,
   and it must lie in the type's range. *)
Definition all_digits (s : str) : bool :=
  forallb (fun c => match cp_digit c with Some _ => true | None => false end) s.
Fixpoint value_r (s : str) : Z :=
  match s with
  | [] => 0
  | c :: r => (Z.of_N c - 48) * 10 ^ Z.of_nat (length r) + value_r r
  end.
Definition spec_parse_int (t : int_ty) (s : str) : option Z :=
  let '(neg, ds, sign_ok) :=
    match s with
    | c :: r => if (c =? C_PLUS)%N then (false, r, true)
                else if (c =? C_MINUS)%N then (true, r, it_signed t)
                else (false, s, true)
    | [] => (false, s, true)
    end in
  if sign_ok && negb (is_nil ds) && all_digits ds then
    let v := if neg then - value_r ds else value_r ds in
    if in_range t v then Some v else None
  else None.

(* ------------------------------------------------------- cursor values ---- *)
Inductive ckind := KInt (t : int_ty) | KBool | KChar | KStr | KId.
Inductive cval :=
| CInt (t : int_ty) (z : Z)
| CBool (b : bool)
| CChar (c : cp)
| CStr (s : str)
| CId (s : str).

Definition kind_of (v : cval) : ckind :=
  match v with
  | CInt t _ => KInt t
  | CBool _ => KBool
  | CChar _ => KChar
  | CStr _ => KStr
  | CId _ => KId
  end.

Definition int_ty_eqb (a b : int_ty) : bool :=
  Bool.eqb (it_signed a) (it_signed b) && (it_bits a =? it_bits b).

Definition cval_eqb (a b : cval) : bool :=
  match a, b with
  | CInt t x, CInt u y => int_ty_eqb t u && (x =? y)
  | CBool x, CBool y => Bool.eqb x y
  | CChar x, CChar y => N.eqb x y
  | CStr x, CStr y => str_eqb x y
  | CId x, CId y => str_eqb x y
  | _, _ => false
  end.

(* values the Rust type can hold *)
Definition wf_cval (v : cval) : bool :=
  match v with
  | CInt t z => in_range t z
  | _ => true
  end.

Definition S_TRUE : str := [116; 114; 117; 101]%N.
Definition S_FALSE : str := [102; 97; 108; 115; 101]%N.

(* CursorType::encode_cursor *)
Definition encode_cursor (v : cval) : str :=
  match v with
  | CInt _ z => print_int z            (* self.to_string() *)
  | CBool b => if b then S_TRUE else S_FALSE
  | CChar c => [c]
  | CStr s => s                        (* self.clone() *)
  | CId s => s                         (* ID's Display is the inner string *)
  end.

(* CursorType::decode_cursor; None = Err(_) *)
Definition decode_cursor (k : ckind) (s : str) : option cval :=
  match k with
  | KInt t => option_map (CInt t) (parse_int t s)
  | KBool => if str_eqb s S_TRUE then Some (CBool true)
             else if str_eqb s S_FALSE then Some (CBool false) else None
  | KChar => match s with [c] => Some (CChar c) | _ => None end   (* EmptyString / TooManyChars *)
  | KStr => Some (CStr s)
  | KId => Some (CId s)
  end.

(* specification of decoding: the decimal language for integers, the two
   keywords for bool, one-character strings for char, everything for strings *)
Definition spec_decode (k : ckind) (s : str) : option cval :=
  match k with
  | KInt t => option_map (CInt t) (spec_parse_int t s)
  | KBool => if str_eqb s S_TRUE then Some (CBool true)
             else if str_eqb s S_FALSE then Some (CBool false) else None
  | KChar => if (length s =? 1)%nat then option_map CChar (hd_error s) else None
  | KStr => Some (CStr s)
  | KId => Some (CId s)
  end.

(* --------------------------------------------------- base64url, no pad ---- *)
Open Scope N_scope.

(* alphabet::URL_SAFE: A-Z a-z 0-9 - _ *)
Definition b64_char (v : N) : cp :=
  if v <? 26 then v + 65 else if v <? 52 then v + 71 else if v <? 62 then v - 4
  else if v =? 62 then 45 else 95.
Definition b64_val (c : cp) : option N :=
  if (65 <=? c) && (c <=? 90) then Some (c - 65)
  else if (97 <=? c) && (c <=? 122) then Some (c - 71)
  else if (48 <=? c) && (c <=? 57) then Some (c + 4)
  else if c =? 45 then Some 62
  else if c =? 95 then Some 63
  else None.

Definition wf_bytes (l : list N) : bool := forallb (fun b => b <? 256) l.

(* Engine::encode with URL_SAFE_NO_PAD: 3 bytes -> 4 symbols, no '=' *)
Fixpoint b64_enc_vals (l : list N) : list N :=
  match l with
  | a :: b :: c :: r =>
      a / 4 :: (a mod 4) * 16 + b / 16 :: (b mod 16) * 4 + c / 64 :: c mod 64 :: b64_enc_vals r
  | [a; b] => [a / 4; (a mod 4) * 16 + b / 16; (b mod 16) * 4]
  | [a] => [a / 4; (a mod 4) * 16]
  | [] => []
  end.
Definition b64_encode (l : list N) : str := map b64_char (b64_enc_vals l).

Fixpoint map_opt {A B} (f : A -> option B) (l : list A) : option (list B) :=
  match l with
  | [] => Some []
  | x :: r => match f x with
              | Some y => match map_opt f r with Some ys => Some (y :: ys) | None => None end
              | None => None
              end
  end.

(* Engine::decode with URL_SAFE_NO_PAD (decode_allow_trailing_bits = false,
   padding RequireNone): InvalidByte for a symbol outside the alphabet
   (including '='), InvalidLength for length = 1 mod 4, InvalidLastSymbol for
   non-zero trailing bits. *)
Fixpoint b64_dec_vals (l : list N) : option (list N) :=
  match l with
  | w :: x :: y :: z :: r =>
      match b64_dec_vals r with
      | Some bs => Some (w * 4 + x / 16 :: (x mod 16) * 16 + y / 4 :: (y mod 4) * 64 + z :: bs)
      | None => None
      end
  | [w; x; y] => if y mod 4 =? 0 then Some [w * 4 + x / 16; (x mod 16) * 16 + y / 4] else None
  | [w; x] => if x mod 16 =? 0 then Some [w * 4 + x / 16] else None
  | [_] => None
  | [] => Some []
  end.
Definition b64_decode (s : str) : option (list N) :=
  match map_opt b64_val s with
  | Some vs => b64_dec_vals vs
  | None => None
  end.

Definition bytes_eqb (a b : list N) : bool := list_eqb N.eqb a b.

(* OpaqueCursor<T>: [ser] = serde_json::to_vec (None = Err, swallowed by
   unwrap_or_default), [de] = serde_json::from_slice (None = Err). *)
Definition opaque_encode {T} (ser : T -> option (list N)) (v : T) : str :=
  b64_encode (match ser v with Some b => b | None => [] end).
Definition opaque_decode {T} (de : list N -> option T) (s : str) : option T :=
  match b64_decode s with
  | Some b => de b
  | None => None
  end.

Open Scope Z_scope.

(* ------------------------------------------------------------ query_with -- *)
Definition E_FIRST : N := 1.   (* The "first" parameter must be a non-negative number *)
Definition E_LAST : N := 2.    (* The "last" parameter must be a non-negative number  *)
Definition E_BEFORE : N := 3.  (* decode_cursor(before) failed                        *)
Definition E_AFTER : N := 4.   (* decode_cursor(after) failed                         *)

Inductive qres (C : Type) :=
| QErr (code : N)
| QCall (after before : option C) (first last : option Z).
Arguments QErr {C} code.
Arguments QCall {C} after before first last.

Definition negative (o : option Z) : bool := match o with Some z => z <? 0 | None => false end.

(* what query_with does before it calls the closure; the second component is
   the list of strings handed to decode_cursor, in call order *)
Definition query_with_dec {C} (dec : str -> option C)
           (after before : option str) (first last : option Z) : qres C * list str :=
  if negative first then (QErr E_FIRST, [])
  else if negative last then (QErr E_LAST, [])
  else
    match before with
    | Some b =>
        match dec b with
        | None => (QErr E_BEFORE, [b])
        | Some bv =>
            match after with
            | Some a => match dec a with
                        | None => (QErr E_AFTER, [b; a])
                        | Some av => (QCall (Some av) (Some bv) first last, [b; a])
                        end
            | None => (QCall None (Some bv) first last, [b])
            end
        end
    | None =>
        match after with
        | Some a => match dec a with
                    | None => (QErr E_AFTER, [a])
                    | Some av => (QCall (Some av) None first last, [a])
                    end
        | None => (QCall None None first last, [])
        end
    end.

(* the whole function: the closure [f] is applied only in the QCall case and
   its result (Ok or Err) is returned unchanged *)
Definition query_with {C R} (dec : str -> option C)
           (f : option C -> option C -> option Z -> option Z -> outcome R)
           (after before : option str) (first last : option Z) : outcome R :=
  match fst (query_with_dec dec after before first last) with
  | QErr c => Err c
  | QCall a b fi la => f a b fi la
  end.

(* specification of the decision table *)
Definition decodable {C} (dec : str -> option C) (o : option str) : bool :=
  match o with Some s => match dec s with Some _ => true | None => false end | None => true end.
Definition args_ok {C} (dec : str -> option C) (after before : option str) (first last : option Z) : bool :=
  negb (negative first) && negb (negative last) && decodable dec before && decodable dec after.
Definition dec_opt {C} (dec : str -> option C) (o : option str) : option C :=
  match o with Some s => dec s | None => None end.

(* ------------------------------------------------ page_info / Edge::cursor -- *)
Definition last_error {A} (l : list A) : option A :=
  match l with [] => None | x :: r => Some (last r x) end.

Record page_info := { pi_start : option str; pi_end : option str }.

(* Connection::page_info: edges.first()/last() cursors, encoded *)
Definition conn_page_info (edges : list cval) : page_info :=
  {| pi_start := option_map encode_cursor (hd_error edges);
     pi_end := option_map encode_cursor (last_error edges) |}.
(* Edge::cursor resolver, per edge *)
Definition conn_edge_cursors (edges : list cval) : list str := map encode_cursor edges.

(* ------------------------------------------------- per-case verdicts ------ *)
Definition ostr_eqb := option_eqb str_eqb.
Definition ocval_eqb := option_eqb cval_eqb.

(* ENC: value, what encode_cursor returned *)
Definition check_enc (c : cval * str) : N :=
  let '(v, impl) := c in
  let m := encode_cursor v in
  let rt x := negb (wf_cval v) || ocval_eqb (decode_cursor (kind_of v) x) (Some v) in
  verdict (str_eqb impl m) (rt m) (rt impl) 0%N.

(* DEC: kind, input string, what decode_cursor returned *)
Definition check_dec (c : ckind * str * option cval) : N :=
  let '(k, s, impl) := c in
  let m := decode_cursor k s in
  let sp := spec_decode k s in
  verdict (ocval_eqb impl m) (ocval_eqb m sp) (ocval_eqb impl sp) 0%N.

(* B64E: bytes, what the base64 crate's encode returned *)
Definition check_b64e (c : list N * str) : N :=
  let '(b, impl) := c in
  let m := b64_encode b in
  let rt x := match b64_decode x with Some b' => bytes_eqb b' b | None => false end in
  verdict (str_eqb impl m) (rt m) (rt impl) 0%N.

(* B64D: string, what the base64 crate's decode returned.  Specification: a
   string is accepted exactly when it is the encoding of the returned bytes. *)
Definition check_b64d (c : str * option (list N)) : N :=
  let '(s, impl) := c in
  let m := b64_decode s in
  let ok r := match r with
              | Some b => wf_bytes b && str_eqb (b64_encode b) s
              | None => match b64_decode s with None => true | Some _ => false end
              end in
  verdict (option_eqb bytes_eqb impl m) (ok m) (ok impl) 0%N.

(* OPQD: OpaqueCursor::decode_cursor on a string.  [crate_bytes] is what the
   base64 crate decoded, [json] the canonical re-serialisation of what
   serde_json::from_slice made of those bytes (None = error). *)
Definition check_opqd (c : str * option (list N) * option (list N) * option (list N)) : N :=
  let '(s, crate_bytes, json, impl) := c in
  let de (b : list N) : option (list N) :=
    if option_eqb bytes_eqb crate_bytes (Some b) then json else Some [0%N] (* never equal *) in
  let m := opaque_decode de s in
  let e := option_eqb bytes_eqb impl m in
  verdict e true true 0%N.

(* OPQE: OpaqueCursor round trip of a value.  [ser] = serde_json::to_vec,
   [json_rt] = from_slice(to_vec(v).unwrap_or_default()) == Ok(v),
   [cls]: 0 none, 1 the value contains a non-finite float, 2 to_vec fails. *)
Definition check_opqe (c : option (list N) * bool * N * str * bool) : N :=
  let '(ser, json_rt, cls, impl_enc, impl_rt) := c in
  let m_enc := opaque_encode (fun _ : unit => ser) tt in
  let m_rt := match opaque_decode (fun b => Some b) m_enc with
              | Some b => bytes_eqb b (match ser with Some x => x | None => [] end) && json_rt
              | None => false
              end in
  verdict (str_eqb impl_enc m_enc && Bool.eqb impl_rt m_rt) m_rt impl_rt cls.

(* FLT: f32/f64 cursors, bit patterns: the assumed law of Rust's float
   to_string/parse (same bits, or NaN to NaN) is tested, not proved *)
Definition check_flt (c : N * bool * option (N * bool)) : N :=
  let '(bits, nan, back) := c in
  match back with
  | Some (bits', nan') => if (nan && nan') || (negb nan && negb nan' && (bits =? bits')%N) then 0%N else 4%N
  | None => 4%N
  end.

(* QW: query_with.  The closure records its arguments and returns Ok or Err
   as told by [cl_ok]; impl result: Err code (1 first, 2 last, 3 other i.e. a
   decode error, 5 the closure's own error) or the recorded call. *)
Inductive qimpl :=
| IErr (code : N) (called : bool)
| ICalled (after before : option cval) (first last : option Z) (ret_ok : bool).

Definition canon_code (c : N) : N := if (c =? E_AFTER)%N then E_BEFORE else c.

Definition qw_model (k : ckind) (after before : option str) (first last : option Z) (cl_ok : bool) : qimpl :=
  match fst (query_with_dec (decode_cursor k) after before first last) with
  | QErr c => IErr (canon_code c) false
  | QCall a b fi la => ICalled a b fi la cl_ok
  end.

Definition qw_spec (k : ckind) (after before : option str) (first last : option Z) (cl_ok : bool) : qimpl :=
  if args_ok (spec_decode k) after before first last then
    ICalled (dec_opt (spec_decode k) after) (dec_opt (spec_decode k) before) first last cl_ok
  else IErr (if negative first then E_FIRST else if negative last then E_LAST else E_BEFORE) false.

Definition oz_eqb := option_eqb Z.eqb.
Definition qimpl_eqb (a b : qimpl) : bool :=
  match a, b with
  | IErr c x, IErr d y => (c =? d)%N && Bool.eqb x y
  | ICalled a1 b1 f1 l1 r1, ICalled a2 b2 f2 l2 r2 =>
      ocval_eqb a1 a2 && ocval_eqb b1 b2 && oz_eqb f1 f2 && oz_eqb l1 l2 && Bool.eqb r1 r2
  | _, _ => false
  end.

Definition check_qw (c : ckind * option str * option str * option Z * option Z * bool * qimpl * option (list str)) : N :=
  let '(k, after, before, first, last, cl_ok, impl, trace) := c in
  let m := qw_model k after before first last cl_ok in
  let sp := qw_spec k after before first last cl_ok in
  let tr_ok := match trace with
               | Some t => list_eqb str_eqb t (snd (query_with_dec (decode_cursor k) after before first last))
               | None => true
               end in
  verdict (qimpl_eqb impl m && tr_ok) (qimpl_eqb m sp) (qimpl_eqb impl sp) 0%N.

(* PI: an executed connection field: edge cursors, pageInfo.startCursor,
   pageInfo.endCursor, edges[].cursor *)
Definition check_pi (c : list cval * option str * option str * list str) : N :=
  let '(edges, st, en, cs) := c in
  let m := conn_page_info edges in
  let mc := conn_edge_cursors edges in
  (* spec: start/end are the first/last of the cursors shown on the edges,
     and each of them decodes to the edge's cursor value *)
  let ok st en cs :=
    ostr_eqb st (hd_error cs) && ostr_eqb en (last_error cs) &&
    forallb2 (fun v s => negb (wf_cval v) || ocval_eqb (decode_cursor (kind_of v) s) (Some v)) edges cs in
  verdict (ostr_eqb st (pi_start m) && ostr_eqb en (pi_end m) && list_eqb str_eqb cs mc)
          (ok (pi_start m) (pi_end m) mc) (ok st en cs) 0%N.

(* CrashRec.v — C12: the recursion-depth walk that runs on every request right
   after parsing (src/schema.rs check_recursive_depth / check_selection_set,
   before validation and therefore before NoFragmentCycles).  The walk follows
   fragment spreads; the only thing that bounds it on a cyclic fragment graph
   is that every recursive call raises the depth.  [inc] is what a fragment
   spread / inline fragment adds (1 in the code).  Fuel is the recursion depth
   of the Rust function: OutOfFuel for every fuel = unbounded recursion = the
   stack overflow.  Executable, no proofs. *)
From AG Require Export Doc.
Open Scope N_scope.

Definition E_RECURSION : N := 1.

Section Walk.
  Variable frags : list (name * fragment).
  Variable inc : N.
  Variable maxd : N.

  (* the `for selection in items` loop, with the recursive call abstracted *)
  Definition rd_each (rec : N -> list selection -> outcome unit) (cur : N) : list selection -> outcome unit :=
    fix each (l : list selection) : outcome unit :=
      match l with
      | [] => Ok tt
      | x :: r =>
        bindo (match x with
               | SField _ _ _ _ [] => Ok tt
               | SField _ _ _ _ sub => rec (cur + 1) sub
               | SSpread nm _ => match assoc nm frags with
                                 | Some fr => rec (cur + inc) (fr_sels fr)
                                 | None => Ok tt
                                 end
               | SInline _ _ sub => rec (cur + inc) sub
               end) (fun _ => each r)
      end.

  (* check_selection_set(doc, set, current_depth, max_depth) *)
  Fixpoint rd_check (fuel : nat) (cur : N) (set : list selection) {struct fuel} : outcome unit :=
    match fuel with
    | O => OutOfFuel
    | S f => if maxd <? cur then Err E_RECURSION else rd_each (rd_check f) cur set
    end.

  Fixpoint rd_ops (fuel : nat) (ops : list operation) : outcome unit :=
    match ops with
    | [] => Ok tt
    | o :: r => bindo (rd_check fuel 0 (op_sels o)) (fun _ => rd_ops fuel r)
    end.
End Walk.

(* check_recursive_depth(doc, max_depth) as the code has it *)
Definition rd_doc (maxd : N) (d : document) : outcome unit :=
  rd_ops (doc_frags d) 1 maxd (S (S (N.to_nat maxd))) (doc_ops d).

Definition DEFAULT_RECURSIVE_DEPTH : N := 32.

(* FRAG case: (document, entry point, what the library did)
   impl: 0 answered without errors, 1 answered with errors, 2 the process died
   (signal), 3 no answer within the budget.  Specification: every document is
   answered.  Model: the walk ends (never OutOfFuel) and a walk that ends in
   the depth error gives an answer with errors. *)
Definition check_frag (c : document * N * N) : N :=
  let '(d, entry, impl) := c in
  let model := rd_doc DEFAULT_RECURSIVE_DEPTH d in
  let answered := impl <? 2 in
  let agrees := answered && match model with Err _ => impl =? 1 | _ => true end in
  let model_ok := match model with OutOfFuel | Panic => false | _ => true end in
  verdict agrees model_ok answered 0.

(* ApqProofs.v — lemmas and proofs about the model of Apq.v (C31).
   No model definitions here. *)
From AG Require Import Base Apq.

Lemma name_eqb_neq a b : name_eqb a b = false <-> a <> b.
Proof. unfold name_eqb. apply N.eqb_neq. Qed.

Section ApqProofs.
  Variable doc : Type.
  Variable doc_eqb : doc -> doc -> bool.
  Hypothesis doc_eqb_spec : forall a b, doc_eqb a b = true <-> a = b.
  Variable H : name -> name.
  Variable parse : name -> option doc.
  Variable keep_old : bool.

  Notation cache := (cache doc).
  Notation step := (step doc H parse keep_old).
  Notation run := (run doc H parse keep_old).
  Notation registers := (registers doc H parse).
  Notation spec_step := (spec_step doc doc_eqb H parse).
  Notation spec_trace := (spec_trace doc doc_eqb H parse).
  Notation registered := (registered doc doc_eqb).
  Notation any_registered := (any_registered doc).
  Notation result_eqb := (result_eqb doc doc_eqb).
  Notation evict := (evict doc).
  Notation cache_put := (cache_put doc keep_old).
  Notation drop_evicted := (drop_evicted doc).
  Notation exec_text := (exec_text doc parse).
  Notation cache_sat := (cache_sat doc).
  Notation hashed := (hashed doc H parse).
  Notation result_sat := (result_sat doc parse).
  Notation refused := (refused H).

  Lemma doc_eqb_refl d : doc_eqb d d = true.
  Proof. apply doc_eqb_spec. reflexivity. Qed.

  Lemma ekind_eqb_refl k : ekind_eqb k k = true.
  Proof. destruct k; reflexivity. Qed.

  Lemma result_eqb_refl r : result_eqb r r = true.
  Proof. destruct r; cbn; auto using doc_eqb_refl, ekind_eqb_refl. Qed.

  (* ---------------------------------------------------------- the cache -- *)
  Lemma assoc_evict ev (c : cache) h :
    assoc h (evict ev c) = if mem h ev then None else assoc h c.
  Proof.
    induction c as [|[k d] c IH]; cbn [evict assoc].
    - destruct (mem h ev); reflexivity.
    - destruct (mem k ev) eqn:Ek.
      + rewrite IH. destruct (name_eqb h k) eqn:E; [|reflexivity].
        apply name_eqb_eq in E. subst. rewrite Ek. reflexivity.
      + cbn [assoc]. destruct (name_eqb h k) eqn:E.
        * apply name_eqb_eq in E. subst. rewrite Ek. reflexivity.
        * exact IH.
  Qed.

  Lemma evict_nil (c : cache) : evict [] c = c.
  Proof. induction c as [|[k d] c IH]; cbn; [reflexivity|]. rewrite IH. reflexivity. Qed.

  Lemma mem_single h k : mem h [k] = name_eqb h k.
  Proof. cbn. destruct (name_eqb h k); reflexivity. Qed.

  Lemma assoc_cache_put (c : cache) h d h' :
    assoc h' (cache_put c h d) =
    if name_eqb h' h
    then (if keep_old then match assoc h c with Some d0 => Some d0 | None => Some d end else Some d)
    else assoc h' c.
  Proof.
    unfold Apq.cache_put. destruct keep_old.
    - destruct (assoc h c) eqn:A.
      + destruct (name_eqb h' h) eqn:E; [|reflexivity].
        apply name_eqb_eq in E. subst. exact A.
      + cbn [assoc]. destruct (name_eqb h' h) eqn:E; reflexivity.
    - cbn [assoc]. destruct (name_eqb h' h) eqn:E; [reflexivity|].
      rewrite assoc_evict, mem_single, E. reflexivity.
  Qed.

  (* -------------------------------------------------------- refusals ---- *)
  Lemma step_malformed c ev r v :
    rq_ext r = Some v -> decode_pq v = None ->
    step c ev r = (evict ev c, RErr EMalformed).
  Proof. intros E D. unfold Apq.step. rewrite E, D. reflexivity. Qed.

  Lemma step_bad_version c ev r ver h :
    supplied r = Some (ver, h) -> ver <> 1%Z ->
    step c ev r = (evict ev c, RErr EVersion).
  Proof.
    unfold supplied, Apq.step. destruct (rq_ext r) as [v|]; [|discriminate].
    intros D NE. rewrite D.
    destruct (Z.eqb_spec ver 1); [contradiction|]. reflexivity.
  Qed.

  Lemma step_mismatch c ev r h :
    supplied r = Some (1%Z, h) -> rq_query r <> S_EMPTY -> h <> H (rq_query r) ->
    step c ev r = (evict ev c, RErr EMismatch).
  Proof.
    unfold supplied, Apq.step. destruct (rq_ext r) as [v|]; [|discriminate].
    intros D NE NH. rewrite D. cbn [Z.eqb Pos.eqb negb].
    apply name_eqb_neq in NE. rewrite NE.
    apply name_eqb_neq in NH. rewrite NH. reflexivity.
  Qed.

  Lemma step_hash_only c ev r h :
    supplied r = Some (1%Z, h) -> rq_query r = S_EMPTY ->
    step c ev r = (evict ev c,
                   match assoc h (evict ev c) with Some d => RExec d | None => RErr ENotFound end).
  Proof.
    unfold supplied, Apq.step. destruct (rq_ext r) as [v|]; [|discriminate].
    intros D E. rewrite D, E. reflexivity.
  Qed.

  Lemma step_plain c ev r :
    rq_ext r = None -> step c ev r = (evict ev c, exec_text (rq_query r)).
  Proof. intros E. unfold Apq.step. rewrite E. reflexivity. Qed.

  Lemma step_register c ev r h d :
    registers r = Some (h, d) ->
    step c ev r = (cache_put (evict ev c) h d, RExec d) /\
    supplied r = Some (1%Z, h) /\ rq_query r <> S_EMPTY /\
    H (rq_query r) = h /\ parse (rq_query r) = Some d.
  Proof.
    unfold Apq.registers, supplied, Apq.step.
    destruct (rq_ext r) as [v|]; [|discriminate].
    destruct (decode_pq v) as [[ver h0]|]; [|discriminate].
    destruct (Z.eqb_spec ver 1) as [->|]; [|discriminate]. cbn [andb negb].
    destruct (name_eqb (rq_query r) S_EMPTY) eqn:E; [discriminate|]. cbn [andb negb].
    destruct (name_eqb h0 (H (rq_query r))) eqn:E2; [|discriminate]. cbn [negb].
    apply name_eqb_eq in E2.
    destruct (parse (rq_query r)) as [d0|] eqn:P; [|discriminate].
    intros X. inversion X; subst. apply name_eqb_neq in E.
    repeat split; auto.
  Qed.

  (* the cache changes only at a registering request *)
  Lemma step_not_register c ev r :
    registers r = None -> fst (step c ev r) = evict ev c.
  Proof.
    unfold Apq.registers, supplied, Apq.step.
    destruct (rq_ext r) as [v|]; [|reflexivity].
    destruct (decode_pq v) as [[ver h0]|]; [|reflexivity].
    destruct (Z.eqb_spec ver 1) as [->|]; [|reflexivity]. cbn [andb negb].
    destruct (name_eqb (rq_query r) S_EMPTY) eqn:E; [reflexivity|]. cbn [andb negb].
    destruct (name_eqb h0 (H (rq_query r))) eqn:E2; [|reflexivity]. cbn [negb].
    destruct (parse (rq_query r)) as [d0|] eqn:P; [discriminate|reflexivity].
  Qed.

  (* ------------------------------------------------------- histories ---- *)
  Lemma run_cons c ev r hist :
    run c ((ev, r) :: hist) =
    (fst (run (fst (step c ev r)) hist), snd (step c ev r) :: snd (run (fst (step c ev r)) hist)).
  Proof.
    cbn [Apq.run]. destruct (step c ev r) as [c1 res]. cbn [fst snd].
    destruct (run c1 hist) as [c2 rs]. reflexivity.
  Qed.

  Lemma run_app c a b :
    run c (a ++ b) =
    (fst (run (fst (run c a)) b), snd (run c a) ++ snd (run (fst (run c a)) b)).
  Proof.
    revert c. induction a as [|[ev r] a IH]; intros c.
    - cbn [app]. cbn [Apq.run fst snd app]. destruct (run c b); reflexivity.
    - cbn [app]. rewrite !run_cons. cbn [fst snd]. rewrite IH. cbn [fst snd]. reflexivity.
  Qed.

  Lemma run_length c hist : length (snd (run c hist)) = length hist.
  Proof.
    revert c. induction hist as [|[ev r] hist IH]; intros c; [reflexivity|].
    rewrite run_cons. cbn [snd length]. rewrite IH. reflexivity.
  Qed.


  Lemma cache_sat_evict Q ev c : cache_sat Q c -> cache_sat Q (evict ev c).
  Proof.
    intros S h d. rewrite assoc_evict. destruct (mem h ev); [discriminate|]. apply S.
  Qed.

  Lemma cache_sat_put Q c h d : cache_sat Q c -> Q h d -> cache_sat Q (cache_put c h d).
  Proof.
    intros S Qhd h' d'. rewrite assoc_cache_put.
    destruct (name_eqb h' h) eqn:E.
    - apply name_eqb_eq in E. subst h'.
      destruct keep_old.
      + destruct (assoc h c) as [d0|] eqn:A; intros X; inversion X; subst; auto.
      + intros X; inversion X; subst; auto.
    - apply S.
  Qed.

  Lemma step_sat Q c ev r :
    cache_sat Q c ->
    (forall h d, registers r = Some (h, d) -> Q h d) ->
    cache_sat Q (fst (step c ev r)).
  Proof.
    intros S R. destruct (registers r) as [[h d]|] eqn:E.
    - destruct (step_register c ev r h d E) as [-> _]. cbn [fst].
      apply cache_sat_put; [apply cache_sat_evict; exact S|apply R; reflexivity].
    - rewrite step_not_register by exact E. apply cache_sat_evict; exact S.
  Qed.


  Lemma step_result_sat Q c ev r :
    cache_sat Q c ->
    (forall h d, registers r = Some (h, d) -> Q h d) ->
    result_sat Q r (snd (step c ev r)).
  Proof.
    intros S R. pose proof (cache_sat_evict Q ev c S) as S'.
    destruct (registers r) as [[h d]|] eqn:E.
    - destruct (step_register c ev r h d E) as (-> & Sup & _). cbn [snd result_sat].
      rewrite Sup. split; [reflexivity|apply R; reflexivity].
    - revert E. unfold Apq.registers, result_sat, supplied, Apq.step.
      destruct (rq_ext r) as [v|] eqn:X.
      + destruct (decode_pq v) as [[ver h0]|]; [|intros; exact I].
        destruct (Z.eqb_spec ver 1) as [->|]; [|intros; exact I]. cbn [andb negb].
        destruct (name_eqb (rq_query r) S_EMPTY) eqn:E1; cbn [andb negb snd].
        * intros _. destruct (assoc h0 (evict ev c)) as [d|] eqn:A; [|exact I].
          split; [reflexivity|]. apply S'. exact A.
        * destruct (name_eqb h0 (H (rq_query r))); cbn [negb snd]; [|intros; exact I].
          destruct (parse (rq_query r)); [discriminate|intros; exact I].
      + intros _. cbn [snd]. unfold Apq.exec_text.
        destruct (parse (rq_query r)) as [d|] eqn:P; [|exact I]. split; reflexivity.
  Qed.

  Lemma run_sat Q hist : forall c,
    cache_sat Q c ->
    (forall ev r h d, In (ev, r) hist -> registers r = Some (h, d) -> Q h d) ->
    cache_sat Q (fst (run c hist)) /\
    Forall (fun t => result_sat Q (snd (fst t)) (snd t)) (zip_trace doc hist (snd (run c hist))).
  Proof.
    induction hist as [|[ev r] hist IH]; intros c S R.
    - cbn. split; [exact S|constructor].
    - rewrite run_cons. cbn [fst snd zip_trace].
      assert (R0 : forall h d, registers r = Some (h, d) -> Q h d)
        by (intros h d E; apply (R ev r h d); [left; reflexivity|exact E]).
      destruct (IH (fst (step c ev r))) as [I1 I2].
      + apply step_sat; assumption.
      + intros ev' r' h d I E. apply (R ev' r' h d); [right; exact I|exact E].
      + split; [exact I1|]. constructor; [|exact I2]. cbn [fst snd].
        apply step_result_sat; assumption.
  Qed.


  Lemma registers_hashed r h d : registers r = Some (h, d) -> hashed h d.
  Proof.
    intros E. destruct (step_register [] [] r h d E) as (_ & _ & _ & A & B).
    exists (rq_query r). split; assumption.
  Qed.

  Theorem apq_invariant hist :
    cache_sat hashed (fst (run [] hist)) /\
    cache_sat (fun h d => exists ev r, In (ev, r) hist /\ registers r = Some (h, d)) (fst (run [] hist)).
  Proof.
    split.
    - apply run_sat; [intros h d; discriminate|].
      intros ev r h d _ E. exact (registers_hashed r h d E).
    - apply run_sat; [intros h d; discriminate|].
      intros ev r h d I E. exists ev, r. split; assumption.
  Qed.

  Theorem apq_executed_hashed hist :
    Forall (fun t => result_sat hashed (snd (fst t)) (snd t))
           (zip_trace doc hist (snd (run [] hist))).
  Proof.
    apply run_sat; [intros h d; discriminate|].
    intros ev r h d _ E. exact (registers_hashed r h d E).
  Qed.

  (* a hash-only request after any history *)
  Theorem apq_hash_only pre ev r h :
    supplied r = Some (1%Z, h) -> rq_query r = S_EMPTY ->
    let c := fst (run [] pre) in
    fst (step c ev r) = evict ev c /\
    (snd (step c ev r) = RErr ENotFound /\ assoc h (evict ev c) = None \/
     exists d, snd (step c ev r) = RExec d /\ assoc h c = Some d /\ mem h ev = false /\
               hashed h d /\
               exists ev' r', In (ev', r') pre /\ registers r' = Some (h, d)).
  Proof.
    intros Sup E c. rewrite (step_hash_only c ev r h Sup E). cbn [fst snd].
    split; [reflexivity|].
    destruct (assoc h (evict ev c)) as [d|] eqn:A.
    - right. exists d. rewrite assoc_evict in A.
      destruct (mem h ev); [discriminate|].
      destruct (apq_invariant pre) as [I1 I2].
      repeat split; auto.
    - left. split; reflexivity.
  Qed.

  (* a refused request leaves every later answer as it would have been *)
  Lemma step_refused c ev r k : refused r k -> step c ev r = (evict ev c, RErr k).
  Proof.
    destruct k; cbn [refused].
    - intros (v & A & B). apply (step_malformed c ev r v A B).
    - intros (ver & h & A & B). apply (step_bad_version c ev r ver h A B).
    - intros [].
    - intros (h & A & B & C). apply (step_mismatch c ev r h A B C).
  Qed.

  Theorem apq_refused_noop pre r k post :
    refused r k ->
    run [] (pre ++ ([], r) :: post) =
    (fst (run [] (pre ++ post)),
     snd (run [] pre) ++ RErr k :: snd (run (fst (run [] pre)) post)) /\
    snd (run [] (pre ++ post)) = snd (run [] pre) ++ snd (run (fst (run [] pre)) post).
  Proof.
    intros R. rewrite !run_app. cbn [fst snd]. rewrite run_cons.
    rewrite (step_refused _ [] r k R). cbn [fst snd]. rewrite evict_nil. split; reflexivity.
  Qed.

  (* ------------------------------------------- the trace specification -- *)
  Definition sound (c : cache) (lg : log doc) : Prop :=
    forall h d, assoc h c = Some d -> registered lg h d = true.
  Definition complete (c : cache) (lg : log doc) : Prop :=
    forall h, any_registered lg h = true -> assoc h c <> None.

  Lemma registered_drop ev lg h d :
    mem h ev = false -> registered (drop_evicted ev lg) h d = registered lg h d.
  Proof.
    intros M. unfold Apq.registered, Apq.drop_evicted.
    induction lg as [|[k x] lg IH]; [reflexivity|].
    cbn [filter fst snd existsb].
    destruct (mem k ev) eqn:Ek; cbn [negb existsb fst snd].
    - rewrite IH. destruct (name_eqb k h) eqn:E; [|reflexivity].
      apply name_eqb_eq in E. subst. congruence.
    - rewrite IH. reflexivity.
  Qed.

  Lemma any_registered_drop ev lg h :
    any_registered (drop_evicted ev lg) h = negb (mem h ev) && any_registered lg h.
  Proof.
    unfold Apq.any_registered, Apq.drop_evicted.
    induction lg as [|[k x] lg IH]; [destruct (mem h ev); reflexivity|].
    cbn [filter fst snd existsb].
    destruct (mem k ev) eqn:Ek; cbn [negb existsb fst snd]; rewrite IH.
    - destruct (name_eqb k h) eqn:E; [|reflexivity].
      apply name_eqb_eq in E. subst. rewrite Ek. reflexivity.
    - destruct (name_eqb k h) eqn:E; [|reflexivity].
      apply name_eqb_eq in E. subst. rewrite Ek. reflexivity.
  Qed.

  Lemma sound_evict ev c lg : sound c lg -> sound (evict ev c) (drop_evicted ev lg).
  Proof.
    intros S h d. rewrite assoc_evict. destruct (mem h ev) eqn:M; [discriminate|].
    intros A. rewrite registered_drop by exact M. apply S. exact A.
  Qed.

  Lemma complete_evict ev c lg : complete c lg -> complete (evict ev c) (drop_evicted ev lg).
  Proof.
    intros C h. rewrite any_registered_drop, assoc_evict.
    destruct (mem h ev); cbn [negb andb]; [discriminate|]. apply C.
  Qed.

  Lemma sound_put c lg h d : sound c lg -> sound (cache_put c h d) ((h, d) :: lg).
  Proof.
    intros S h' d'. rewrite assoc_cache_put. unfold Apq.registered. cbn [existsb fst snd].
    destruct (name_eqb h' h) eqn:E.
    - apply name_eqb_eq in E. subst h'. rewrite name_eqb_refl. cbn [andb].
      destruct keep_old.
      + destruct (assoc h c) as [d0|] eqn:A; intros X; inversion X; subst.
        * apply S in A. unfold Apq.registered in A. rewrite A. apply orb_true_r.
        * rewrite doc_eqb_refl. reflexivity.
      + intros X; inversion X; subst. rewrite doc_eqb_refl. reflexivity.
    - intros A. apply S in A. unfold Apq.registered in A. rewrite A. apply orb_true_r.
  Qed.

  Lemma complete_put c lg h d : complete c lg -> complete (cache_put c h d) ((h, d) :: lg).
  Proof.
    intros C h'. rewrite assoc_cache_put. unfold Apq.any_registered. cbn [existsb fst].
    destruct (name_eqb h' h) eqn:E.
    - intros _. destruct keep_old; [destruct (assoc h c)|]; discriminate.
    - unfold name_eqb in *. rewrite N.eqb_sym, E. cbn [orb]. apply C.
  Qed.

  Lemma model_spec_step lossy c lg ev r :
    sound c lg -> (lossy = false -> complete c lg) ->
    spec_step lossy (drop_evicted ev lg) r (snd (step c ev r)) = true.
  Proof.
    intros S C. pose proof (sound_evict ev c lg S) as S'.
    unfold Apq.spec_step, Apq.step.
    destruct (rq_ext r) as [v|]; [|apply result_eqb_refl].
    destruct (decode_pq v) as [[ver h]|]; [|reflexivity].
    destruct (negb (ver =? 1)%Z); [reflexivity|].
    destruct (name_eqb (rq_query r) S_EMPTY).
    - cbn [snd]. destruct (assoc h (evict ev c)) as [d|] eqn:A.
      + apply S'. exact A.
      + destruct lossy; [reflexivity|]. cbn [orb].
        destruct (any_registered (drop_evicted ev lg) h) eqn:R; [|reflexivity].
        exfalso. apply (complete_evict ev c lg (C eq_refl) h R). exact A.
    - destruct (negb (name_eqb h (H (rq_query r)))); [reflexivity|].
      unfold Apq.exec_text. destruct (parse (rq_query r)); cbn [snd]; apply result_eqb_refl.
  Qed.

  Theorem model_spec_trace lossy hist : forall c lg,
    sound c lg -> (lossy = false -> complete c lg) ->
    spec_trace lossy lg (zip_trace doc hist (snd (run c hist))) = true.
  Proof.
    induction hist as [|[ev r] hist IH]; intros c lg S C; [reflexivity|].
    rewrite run_cons. cbn [snd zip_trace Apq.spec_trace].
    rewrite (model_spec_step lossy c lg ev r S C). cbn [andb].
    apply IH.
    - destruct (registers r) as [[h d]|] eqn:E.
      + destruct (step_register c ev r h d E) as [-> _]. cbn [fst].
        apply sound_put, sound_evict, S.
      + rewrite step_not_register by exact E. apply sound_evict, S.
    - intros L. destruct (registers r) as [[h d]|] eqn:E.
      + destruct (step_register c ev r h d E) as [-> _]. cbn [fst].
        apply complete_put, complete_evict, C, L.
      + rewrite step_not_register by exact E. apply complete_evict, C, L.
  Qed.

  Theorem apq_trace_spec lossy hist :
    spec_trace lossy [] (zip_trace doc hist (snd (run [] hist))) = true.
  Proof.
    apply model_spec_trace.
    - intros h d; discriminate.
    - intros _ h; discriminate.
  Qed.

  (* without evictions a registered hash is found, and found with a document
     registered under it *)
  Theorem apq_registered_found pre r h d mid r2 :
    registers r = Some (h, d) ->
    Forall (fun s => fst s = []) mid ->
    supplied r2 = Some (1%Z, h) -> rq_query r2 = S_EMPTY ->
    exists d', nth_error (snd (run [] (pre ++ ([], r) :: mid ++ [([], r2)])))
                         (length pre + 1 + length mid) = Some (RExec d') /\
               hashed h d'.
  Proof.
    intros Reg Mid Sup E.
    set (hist := pre ++ ([], r) :: mid ++ [([], r2)]).
    pose proof (apq_trace_spec false hist) as T.
    pose proof (apq_executed_hashed hist) as X.
    (* position of the last request *)
    assert (Hh : hist = (pre ++ ([], r) :: mid) ++ [([], r2)])
      by (unfold hist; rewrite <- app_assoc; reflexivity).
    remember (pre ++ ([], r) :: mid) as front.
    assert (Lf : length front = length pre + 1 + length mid)
      by (subst front; rewrite app_length; cbn [length]; lia).
    rewrite Hh in *. clear Hh hist.
    rewrite run_app in *. cbn [snd] in *. rewrite <- Lf.
    rewrite nth_error_app2 by (rewrite run_length; lia).
    rewrite run_length, Nat.sub_diag. rewrite run_cons. cbn [snd nth_error].
    set (c := fst (run [] front)) in *.
    rewrite (step_hash_only c [] r2 h Sup E) in *. cbn [snd fst] in *.
    rewrite evict_nil in *.
    (* the registration is still in the cache: completeness along [front] *)
    assert (K : assoc h c <> None).
    { subst c front. rewrite run_app. cbn [fst]. rewrite run_cons. cbn [fst].
      destruct (step_register (fst (run [] pre)) [] r h d Reg) as [-> _]. cbn [fst].
      assert (P : assoc h (cache_put (evict [] (fst (run [] pre))) h d) <> None).
      { rewrite assoc_cache_put, name_eqb_refl.
        destruct keep_old; [destruct (assoc h _)|]; discriminate. }
      revert P. generalize (cache_put (evict [] (fst (run [] pre))) h d).
      clear -Mid doc_eqb_spec. induction mid as [|[ev s] mid IH]; intros c0 P; [exact P|].
      inversion Mid as [|? ? E0 M']; subst. cbn [fst] in E0. subst ev.
      rewrite run_cons. cbn [fst]. apply IH; [exact M'|].
      destruct (registers s) as [[h1 d1]|] eqn:E1.
      - destruct (step_register c0 [] s h1 d1 E1) as [-> _]. cbn [fst].
        rewrite assoc_cache_put, evict_nil.
        destruct (name_eqb h h1) eqn:E2; [|exact P].
        apply name_eqb_eq in E2. subst h1.
        destruct keep_old; [|discriminate].
        destruct (assoc h c0); [discriminate|contradiction].
      - rewrite step_not_register by exact E1. rewrite evict_nil. exact P. }
    destruct (assoc h c) as [d'|] eqn:A; [|contradiction].
    exists d'. split; [reflexivity|].
    (* hashed: from the executed-hashed theorem at the last position *)
    clear T. unfold hashed.
    assert (CS : cache_sat hashed c) by (subst c; apply (apq_invariant front)).
    apply CS. exact A.
  Qed.
End ApqProofs.

(* ------------------------------------------------------- non-vacuity ---- *)
(* a toy hash (q + 100) and parser (texts below 50 parse to themselves) *)
Definition ex_H (q : name) : name := (q + 100)%N.
Definition ex_parse (q : name) : option N := if (q <? 50)%N then Some q else None.
Definition ex_pq (ver : Z) (h : name) : option jv :=
  Some (JObj [(S_VERSION, JInt ver); (S_HASH, JStr h)]).
Definition ex_hist : list (list name * request) :=
  [ ([], {| rq_query := 10%N; rq_ext := ex_pq 1 110%N |});       (* register 10 *)
    ([], {| rq_query := 0%N;  rq_ext := ex_pq 1 110%N |});        (* hash-only: runs 10 *)
    ([], {| rq_query := 11%N; rq_ext := ex_pq 1 110%N |});        (* mismatch *)
    ([], {| rq_query := 11%N; rq_ext := ex_pq 2 111%N |});        (* bad version *)
    ([], {| rq_query := 0%N;  rq_ext := ex_pq 1 111%N |});        (* not found *)
    ([], {| rq_query := 60%N; rq_ext := ex_pq 1 160%N |});        (* does not parse *)
    ([], {| rq_query := 11%N; rq_ext := Some (JList [JInt 1; JNull]) |}); (* malformed *)
    ([110%N], {| rq_query := 0%N; rq_ext := ex_pq 1 110%N |}) ].  (* evicted *)

Lemma apq_nonvacuous :
  snd (run N ex_H ex_parse true [] ex_hist) =
  [RExec 10%N; RExec 10%N; RErr EMismatch; RErr EVersion; RErr ENotFound; RParseErr;
   RErr EMalformed; RErr ENotFound] /\
  registers N ex_H ex_parse {| rq_query := 10%N; rq_ext := ex_pq 1 110%N |} = Some (110%N, 10%N) /\
  refused ex_H {| rq_query := 11%N; rq_ext := ex_pq 1 110%N |} EMismatch.
Proof.
  split; [vm_compute; reflexivity|]. split; [vm_compute; reflexivity|].
  exists 110%N. repeat split; [discriminate|discriminate].
Qed.


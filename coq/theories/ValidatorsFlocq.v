(* ValidatorsFlocq.v — C08: the integer -> f64 conversion of the model (rne,
   plain Z arithmetic in Validators.v) against IEEE-754 binary64 as formalised
   by Flocq (binary_normalize in round-to-nearest-even mode).  Everything that
   mentions Flocq floats depends on the four axioms of Coq's classical reals;
   nothing else in the C08 development imports this file's dependencies. *)
From Coq Require Import ZArith Reals Lia List.
From Flocq Require Import Core.Core IEEE754.Binary.
From AG Require Import Validators ValidatorsProofs.
Import ListNotations.
Open Scope Z_scope.

Definition f64 := Binary.binary_float 53 1024.
Definition flocq_int_to_f64 (z : Z) : f64 :=
  Binary.binary_normalize 53 1024 eq_refl eq_refl BinarySingleNaN.mode_NE z 0 false.
Definition flocq_of_Z (z : Z) : R := Binary.B2R 53 1024 (flocq_int_to_f64 z).
Definition fl_real (f : fl) : R :=
  match f with FFin m e => F2R (Float radix2 m e) | _ => 0%R end.

(* below 2^53 the model converts exactly, and so does IEEE-754 *)
Lemma flocq_rne_small z : Z.abs z < 2 ^ 53 -> fl_real (rne z) = flocq_of_Z z.
Proof.
  intros H. rewrite rne_small by exact H. unfold fl_real, flocq_of_Z, flocq_int_to_f64.
  pose proof (Binary.binary_normalize_correct 53 1024 eq_refl eq_refl BinarySingleNaN.mode_NE z 0 false) as C.
  assert (G : generic_format radix2 (SpecFloat.fexp 53 1024) (F2R (Float radix2 z 0))).
  { change (SpecFloat.fexp 53 1024) with (FLT_exp (3 - 1024 - 53) 53).
    apply generic_format_FLT. apply FLT_spec with (Float radix2 z 0).
    - reflexivity.
    - exact H.
    - cbv. intros E; discriminate E. }
  rewrite round_generic in C; [|auto with typeclass_instances|exact G].
  rewrite Rlt_bool_true in C.
  - destruct C as [C _]. symmetry. exact C.
  - apply F2R_lt_bpow. cbn [Fnum Fexp]. rewrite Z.sub_0_r.
    eapply Z.lt_trans; [exact H|]. change (2 ^ 53 < 2 ^ 1024). apply Z.pow_lt_mono_r; lia.
Qed.

(* above 2^53: the model's rounding denotes the same real as Flocq's result on
   the boundary witnesses (halfway cases to even, carries into the next binade,
   the largest u64) — evaluated inside Coq on Flocq's definition *)
Definition fl_same (a : fl) (b : f64) : bool :=
  match a, b with
  | FFin m e, Binary.B754_zero _ _ _ => m =? 0
  | FFin m e, Binary.B754_finite _ _ s mb eb _ =>
      match dy_cmp m e (if s then Z.neg mb else Z.pos mb) eb with Eq => true | _ => false end
  | _, _ => false
  end.

Definition rne_witnesses : list Z :=
  [0; 1; -1; 2 ^ 53 - 1; 2 ^ 53; 2 ^ 53 + 1; 2 ^ 53 + 2; 2 ^ 53 + 3; - (2 ^ 53 + 1); - (2 ^ 53 + 3);
   2 ^ 54 + 2; 2 ^ 54 + 6; 2 ^ 54 + 3; 2 ^ 63 - 1; 2 ^ 63 - 513; 2 ^ 63 - 512; 2 ^ 63 - 511; 2 ^ 63;
   2 ^ 63 + 1024; 2 ^ 63 + 1025; 2 ^ 63 + 3072; 2 ^ 64 - 1; 2 ^ 64 - 1024; 2 ^ 64 - 1025; - 2 ^ 63;
   10 ^ 19; 12297829382473034410; 9223372036854775807; 9007199254740993].

Lemma flocq_rne_witnesses :
  Forall (fun z => fl_same (rne z) (flocq_int_to_f64 z) = true) rne_witnesses.
Proof.
  unfold rne_witnesses.
  repeat (apply Forall_cons; [vm_compute; reflexivity|]). apply Forall_nil.
Qed.

(* ParserModel.v — model of async-graphql-parser's AST builders
   (parser/src/parse/{mod,executable,utils}.rs, parser/src/types/mod.rs
   Type::new) on top of the PEG interpreter of Peg.v running the grammar that is
   regenerated from graphql.pest.  What the code DOES, including the
   `unwrap`/`expect`/`unreachable!`/`debug_assert!` sites, which are [Panic]
   here.  Executable, no proofs. *)
From AG Require Export Peg.
Open Scope N_scope.

(* ------------------------------------------------------------------ AST -- *)
Inductive pvalue :=
| PVVar (n : str)
| PVNull
| PVInt (z : Z)                 (* Number with an i64 / u64 view *)
| PVFloat (lexeme : str)        (* Number held as f64; the decimal->binary
                                   conversion is serde_json's and not modelled *)
| PVStr (s : str)
| PVBool (b : bool)
| PVEnum (n : str)
| PVList (l : list pvalue)
| PVObj (l : list (str * pvalue)).

Inductive ptype :=
| TNamed (n : str) (nullable : bool)
| TList (t : ptype) (nullable : bool).

Record pdirective := { pd_name : str; pd_args : list (str * pvalue) }.

Inductive psel :=
| PField (alias : option str) (nm : str) (args : list (str * pvalue))
         (dirs : list pdirective) (sels : list psel)
| PSpread (nm : str) (dirs : list pdirective)
| PInline (cond : option str) (dirs : list pdirective) (sels : list psel).

Inductive poptype := POQuery | POMutation | POSubscription.

Record pvardef := { pv_name : str; pv_ty : ptype; pv_dirs : list pdirective; pv_default : option pvalue }.

Record pop := { po_name : option str; po_ty : poptype; po_vars : list pvardef;
                po_dirs : list pdirective; po_sels : list psel }.
Record pfrag := { pf_name : str; pf_cond : str; pf_dirs : list pdirective; pf_sels : list psel }.

Inductive pdef := DOp (o : pop) | DFrag (f : pfrag).

(* error kinds of async_graphql_parser::Error *)
Definition E_SYNTAX : N := 1.
Definition E_MULTIPLE_OPERATIONS : N := 2.
Definition E_OPERATION_DUPLICATED : N := 3.
Definition E_FRAGMENT_DUPLICATED : N := 4.
Definition E_MISSING_OPERATION : N := 5.
Definition E_RECURSION_LIMIT : N := 6.

(* ----------------------------------------------------- string equality -- *)
Fixpoint str_eqb (a b : str) : bool :=
  match a, b with
  | [], [] => true
  | x :: a', y :: b' => N.eqb x y && str_eqb a' b'
  | _, _ => false
  end.

(* ------------------------------------------- utils.rs: string_value ----- *)
Definition hex_digit (c : N) : option N :=
  if (48 <=? c) && (c <=? 57) then Some (c - 48)
  else if (97 <=? c) && (c <=? 102) then Some (c - 87)
  else if (65 <=? c) && (c <=? 70) then Some (c - 55)
  else None.

(* std::char::from_u32 *)
Definition char_from_u32 (n : N) : option N :=
  if ((55296 <=? n) && (n <=? 57343)) || (1114111 <? n) then None else Some n.

Definition consr (c : N) (r : outcome str) : outcome str :=
  match r with Ok l => Ok (c :: l) | x => x end.

(* utils.rs:113-139.  `chars.next().expect("backslash at end")`,
   `chars.next().unwrap().to_digit(16).unwrap()`, `from_u32(..).unwrap()`,
   `_ => unreachable!()` are the Panic sites. *)
Fixpoint string_value (s : str) : outcome str :=
  match s with
  | [] => Ok []
  | c0 :: r =>
    if c0 =? 92 then
      match r with
      | [] => Panic
      | c :: r1 =>
        if (c =? 34) || (c =? 92) || (c =? 47) then consr c (string_value r1)
        else if c =? 98 then consr 8 (string_value r1)
        else if c =? 102 then consr 12 (string_value r1)
        else if c =? 110 then consr 10 (string_value r1)
        else if c =? 114 then consr 13 (string_value r1)
        else if c =? 116 then consr 9 (string_value r1)
        else if c =? 117 then
          match r1 with
          | h1 :: h2 :: h3 :: h4 :: r2 =>
            match hex_digit h1, hex_digit h2, hex_digit h3, hex_digit h4 with
            | Some d1, Some d2, Some d3, Some d4 =>
              match char_from_u32 (((d1 * 16 + d2) * 16 + d3) * 16 + d4) with
              | Some ch => consr ch (string_value r2)
              | None => Panic
              end
            | _, _, _, _ => Panic
            end
          | _ => Panic
          end
        else Panic
      end
    else consr c0 (string_value r)
  end.

(* ------------------------------------- utils.rs: block_string_value ----- *)
(* raw.split("\r\n").flat_map(|s| s.split(['\r','\n'])) *)
Fixpoint split_lines_acc (cur : str) (s : str) : list str :=
  match s with
  | [] => [rev cur]
  | 13 :: 10 :: r => rev cur :: split_lines_acc [] r
  | 13 :: r => rev cur :: split_lines_acc [] r
  | 10 :: r => rev cur :: split_lines_acc [] r
  | c :: r => split_lines_acc (c :: cur) r
  end.
Definition split_lines (s : str) : list str := split_lines_acc [] s.

Definition is_blank (c : N) : bool := (c =? 9) || (c =? 32).

(* line.find(|c| c != '\t' && c != ' ') *)
Fixpoint indent_of (l : str) : option nat :=
  match l with
  | [] => None
  | c :: r => if is_blank c then option_map S (indent_of r) else Some 0%nat
  end.

Definition has_content (l : str) : bool := existsb (fun c => negb (is_blank c)) l.

Fixpoint min_indent (ls : list str) : option nat :=
  match ls with
  | [] => None
  | l :: r =>
    match indent_of l, min_indent r with
    | Some a, Some b => Some (Nat.min a b)
    | Some a, None => Some a
    | None, x => x
    end
  end.

Fixpoint position {A} (p : A -> bool) (l : list A) : option nat :=
  match l with
  | [] => None
  | x :: r => if p x then Some 0%nat else option_map S (position p r)
  end.

(* rposition(p).map_or(0, |i| i + 1) *)
Fixpoint rpos_end {A} (p : A -> bool) (l : list A) : nat :=
  match l with
  | [] => 0%nat
  | x :: r => match rpos_end p r with
              | O => if p x then 1%nat else 0%nat
              | S k => S (S k)
              end
  end.

Fixpoint join_lf (ls : list str) : str :=
  match ls with
  | [] => []
  | [l] => l
  | l :: r => l ++ 10 :: join_lf r
  end.

Fixpoint enumerate_from {A} (i : nat) (l : list A) : list (nat * A) :=
  match l with [] => [] | x :: r => (i, x) :: enumerate_from (S i) r end.

Definition block_string_value (raw : str) : str :=
  let lines := split_lines raw in
  let ci := match min_indent (tl lines) with Some k => k | None => 0%nat end in
  let first := match position has_content lines with Some k => k | None => length lines end in
  let last := rpos_end has_content lines in
  let kept := skipn first (firstn last (enumerate_from 0 lines)) in
  join_lf (map (fun il : nat * str =>
                  let (i, l) := il in
                  if negb (Nat.eqb i 0) && (ci <=? length l)%nat then skipn ci l else l) kept).

(* ------------------------------------------ types/mod.rs: Type::new ----- *)
Fixpoint strip_last (c : N) (s : str) : option str :=
  match s with
  | [] => None
  | [x] => if x =? c then Some [] else None
  | x :: r => option_map (cons x) (strip_last c r)
  end.

Fixpoint type_new (fuel : nat) (ty : str) : option ptype :=
  match fuel with
  | O => None
  | S f =>
    let '(nullable, ty) := match strip_last 33 ty with Some r => (false, r) | None => (true, ty) end in
    match ty with
    | c :: inner =>
      if c =? 91 then
        match strip_last 93 inner with
        | Some inner' => option_map (fun t => TList t nullable) (type_new f inner')
        | None => None
        end
      else Some (TNamed ty nullable)
    | [] => Some (TNamed ty nullable)
    end
  end.

(* ----------------------------------------- number: str::parse::<Number> -- *)
(* The lexeme has the shape of rule `number`.  serde_json (without
   arbitrary_precision): integer lexemes that fit u64 / i64 are integers
   ("-0" is the float -0.0), everything else is an f64; a finite decimal that
   overflows f64 is an error ("number out of range"). *)
Fixpoint digits_val (acc : Z) (s : str) : Z * str :=
  match s with
  | c :: r => if (48 <=? c) && (c <=? 57) then digits_val (acc * 10 + Z.of_N (c - 48))%Z r else (acc, s)
  | [] => (acc, s)
  end.

Fixpoint count_digits (s : str) : nat :=
  match s with
  | c :: r => if (48 <=? c) && (c <=? 57) then S (count_digits r) else 0%nat
  | [] => 0%nat
  end.

Definition two_1024 : Z := (2 ^ 1024)%Z.

Inductive num := NumInt (z : Z) | NumFloat | NumErr.

Definition parse_number_lexeme (s : str) : num :=
  let '(neg, s1) := match s with 45 :: r => (true, r) | _ => (false, s) end in
  let '(ip, s2) := digits_val 0 s1 in
  match s2 with
  | [] =>
    if neg then (if (ip =? 0)%Z then NumFloat else if (ip <=? 2 ^ 63)%Z then NumInt (- ip) else
                 if (ip <? two_1024)%Z then NumFloat else NumErr)
    else (if (ip <? 2 ^ 64)%Z then NumInt ip else if (ip <? two_1024)%Z then NumFloat else NumErr)
  | _ =>
    (* fraction and exponent *)
    let '(m, fd, s3) := match s2 with
                        | 46 :: r => let '(v, r') := digits_val ip r in (v, Z.of_nat (count_digits r), r')
                        | _ => (ip, 0%Z, s2)
                        end in
    let e := match s3 with
             | c :: r =>
               if (c =? 69) || (c =? 101) then
                 match r with
                 | 45 :: r' => if (12 <? length r')%nat then (-1000000)%Z else (- fst (digits_val 0 r'))%Z
                 | 43 :: r' => if (12 <? length r')%nat then 1000000%Z else fst (digits_val 0 r')
                 | _ => if (12 <? length r)%nat then 1000000%Z else fst (digits_val 0 r)
                 end
               else 0%Z
             | [] => 0%Z
             end in
    let ee := (e - fd)%Z in
    if (m =? 0)%Z then NumFloat
    else if (400 <? ee)%Z then NumErr
    else if (0 <=? ee)%Z then (if (m * 10 ^ ee <? two_1024)%Z then NumFloat else NumErr)
    else if (ee <? - 400)%Z then
      (* m < 10^(digits of the lexeme); only absurdly long mantissas could overflow *)
      (if (Z.of_nat (length s) <? 300)%Z then NumFloat
       else if (m <? two_1024 * 10 ^ (- ee))%Z then NumFloat else NumErr)
    else (if (m <? two_1024 * 10 ^ (- ee))%Z then NumFloat else NumErr)
  end.

(* ---------------------------------------------------------- builders ---- *)
(* utils.rs exactly_one: `iter.next().unwrap()`, then a debug_assert that
   nothing follows (the harness is a debug build). *)
Definition exactly_one {A} (l : list A) : outcome A :=
  match l with
  | [x] => Ok x
  | _ => Panic
  end.

Definition expect_rule (r : N) (t : tree) : outcome tree :=
  if t_rule t =? r then Ok t else Panic.          (* debug_assert_eq!(pair.as_rule(), ..) *)

Definition parse_name (t : tree) : outcome str :=
  bindo (expect_rule R_name t) (fun t => Ok (t_text t)).

Fixpoint mapo {A B} (f : A -> outcome B) (l : list A) : outcome (list B) :=
  match l with
  | [] => Ok []
  | x :: r => bindo (f x) (fun y => bindo (mapo f r) (fun ys => Ok (y :: ys)))
  end.

(* collect::<IndexMap<Name, _>>(): a repeated key keeps its first position and
   takes the last value *)
Fixpoint obj_replace (k : str) (v : pvalue) (l : list (str * pvalue)) : option (list (str * pvalue)) :=
  match l with
  | [] => None
  | (k', v') :: r =>
    if str_eqb k k' then Some ((k', v) :: r)
    else option_map (cons (k', v')) (obj_replace k v r)
  end.
Definition obj_insert (l : list (str * pvalue)) (kv : str * pvalue) : list (str * pvalue) :=
  match obj_replace (fst kv) (snd kv) l with Some l' => l' | None => l ++ [kv] end.
Definition obj_collect (l : list (str * pvalue)) : list (str * pvalue) := fold_left obj_insert l [].

Definition parse_number (t : tree) : outcome pvalue :=
  match parse_number_lexeme (t_text t) with
  | NumInt z => Ok (PVInt z)
  | NumFloat => Ok (PVFloat (t_text t))
  | NumErr => Err E_SYNTAX
  end.

Definition parse_string (t : tree) : outcome str :=
  bindo (exactly_one (t_kids t)) (fun k =>
    if t_rule k =? R_block_string_content then Ok (block_string_value (t_text k))
    else if t_rule k =? R_string_content then string_value (t_text k)
    else Panic).

Definition str_true : str := [116; 114; 117; 101].
Definition str_false : str := [102; 97; 108; 115; 101].

(* parse_value / parse_const_value (mod.rs:66-152): [vr] is Rule::value or
   Rule::const_value; lists/objects are list/object or const_list/const_object *)
Fixpoint parse_value (fuel : nat) (vr : N) (t : tree) : outcome pvalue :=
  match fuel with
  | O => OutOfFuel
  | S f =>
    bindo (expect_rule vr t) (fun t =>
    bindo (exactly_one (t_kids t)) (fun k =>
      let r := t_rule k in
      if (r =? R_variable) && (vr =? R_value) then
        bindo (exactly_one (t_kids k)) (fun n => bindo (parse_name n) (fun s => Ok (PVVar s)))
      else if r =? R_number then parse_number k
      else if r =? R_string then bindo (parse_string k) (fun s => Ok (PVStr s))
      else if r =? R_boolean then
        (if str_eqb (t_text k) str_true then Ok (PVBool true)
         else if str_eqb (t_text k) str_false then Ok (PVBool false) else Panic)
      else if r =? R_null then Ok PVNull
      else if r =? R_enum_value then
        bindo (exactly_one (t_kids k)) (fun n => bindo (parse_name n) (fun s => Ok (PVEnum s)))
      else if (r =? (if vr =? R_value then R_list else R_const_list)) then
        bindo (mapo (parse_value f vr) (t_kids k)) (fun l => Ok (PVList l))
      else if (r =? (if vr =? R_value then R_object else R_const_object)) then
        bindo (mapo (fun fld =>
                 bindo (expect_rule (if vr =? R_value then R_object_field else R_const_object_field) fld) (fun fld =>
                 match t_kids fld with
                 | [n; v] => bindo (parse_name n) (fun s => bindo (parse_value f vr v) (fun x => Ok (s, x)))
                 | _ => Panic
                 end)) (t_kids k)) (fun l => Ok (PVObj (obj_collect l)))
      else Panic))
  end.

Definition VFUEL : nat := 400%nat.

(* parse_arguments / parse_const_arguments *)
Definition parse_arguments (vr : N) (t : tree) : outcome (list (str * pvalue)) :=
  bindo (expect_rule (if vr =? R_value then R_arguments else R_const_arguments) t) (fun t =>
  mapo (fun a =>
    bindo (expect_rule (if vr =? R_value then R_argument else R_const_argument) a) (fun a =>
    match t_kids a with
    | [n; v] => bindo (parse_name n) (fun s => bindo (parse_value VFUEL vr v) (fun x => Ok (s, x)))
    | _ => Panic
    end)) (t_kids t)).

(* pairs.peek() has rule r ? Some(next) : None *)
Definition next_if_rule (r : N) (l : list tree) : option tree * list tree :=
  match l with
  | t :: rest => if t_rule t =? r then (Some t, rest) else (None, l)
  | [] => (None, l)
  end.

Definition parse_directive (vr : N) (t : tree) : outcome pdirective :=
  bindo (expect_rule (if vr =? R_value then R_directive else R_const_directive) t) (fun t =>
  match t_kids t with
  | n :: rest =>
    bindo (parse_name n) (fun s =>
    let '(a, rest') := next_if_rule (if vr =? R_value then R_arguments else R_const_arguments) rest in
    bindo (match a with Some a => parse_arguments vr a | None => Ok [] end) (fun args =>
    match rest' with
    | [] => Ok {| pd_name := s; pd_args := args |}
    | _ => Panic
    end))
  | [] => Panic
  end).

Definition parse_opt_directives (vr : N) (l : list tree) : outcome (list pdirective) * list tree :=
  let '(d, rest) := next_if_rule (if vr =? R_value then R_directives else R_const_directives) l in
  (match d with
   | Some d => mapo (parse_directive vr) (t_kids d)
   | None => Ok []
   end, rest).

Definition TYFUEL : nat := 5000%nat.

Definition parse_type (t : tree) : outcome ptype :=
  bindo (expect_rule R_type_ t) (fun t =>
  match type_new (S (length (t_text t))) (t_text t) with
  | Some ty => Ok ty
  | None => Panic                                (* Type::new(pair.as_str()).unwrap() *)
  end).

Definition parse_variable (t : tree) : outcome str :=
  bindo (expect_rule R_variable t) (fun t => bindo (exactly_one (t_kids t)) parse_name).

Definition parse_variable_definition (t : tree) : outcome pvardef :=
  bindo (expect_rule R_variable_definition t) (fun t =>
  match t_kids t with
  | v :: ty :: rest =>
    bindo (parse_variable v) (fun name =>
    bindo (parse_type ty) (fun ty =>
    let '(dirs, rest1) := parse_opt_directives R_value rest in
    bindo dirs (fun dirs =>
    let '(dv, rest2) := next_if_rule R_default_value rest1 in
    bindo (match dv with
           | Some dv => bindo (exactly_one (t_kids dv)) (fun v =>
                        bindo (parse_value VFUEL R_const_value v) (fun x => Ok (Some x)))
           | None => Ok None
           end) (fun dv =>
    match rest2 with
    | [] => Ok {| pv_name := name; pv_ty := ty; pv_dirs := dirs; pv_default := dv |}
    | _ => Panic
    end))))
  | _ => Panic
  end).

Definition parse_type_condition (t : tree) : outcome str :=
  bindo (expect_rule R_type_condition t) (fun t => bindo (exactly_one (t_kids t)) parse_name).

Definition MAX_RECURSION_DEPTH : nat := 64%nat.

(* parse_selection_set / parse_selection / parse_field / parse_inline_fragment:
   [fuel] is structural fuel of the model, [depth] the remaining_depth counter *)
Fixpoint parse_selection_set (fuel : nat) (depth : nat) (t : tree) : outcome (list psel) :=
  match fuel with
  | O => OutOfFuel
  | S f =>
    bindo (expect_rule R_selection_set t) (fun t =>
    mapo (fun s =>
      bindo (expect_rule R_selection s) (fun s =>
      bindo (exactly_one (t_kids s)) (fun k =>
        let r := t_rule k in
        if r =? R_field then
          let '(al, rest0) := next_if_rule R_alias (t_kids k) in
          bindo (match al with
                 | Some al => bindo (exactly_one (t_kids al)) (fun n => bindo (parse_name n) (fun s => Ok (Some s)))
                 | None => Ok None
                 end) (fun alias =>
          match rest0 with
          | n :: rest1 =>
            bindo (parse_name n) (fun name =>
            let '(a, rest2) := next_if_rule R_arguments rest1 in
            bindo (match a with Some a => parse_arguments R_value a | None => Ok [] end) (fun args =>
            let '(dirs, rest3) := parse_opt_directives R_value rest2 in
            bindo dirs (fun dirs =>
            let '(ss, rest4) := next_if_rule R_selection_set rest3 in
            bindo (match ss with
                   | Some ss => match depth with
                                | O => Err E_RECURSION_LIMIT
                                | S d => parse_selection_set f d ss
                                end
                   | None => Ok []
                   end) (fun sels =>
            match rest4 with
            | [] => Ok (PField alias name args dirs sels)
            | _ => Panic
            end))))
          | [] => Panic
          end)
        else if r =? R_fragment_spread then
          match t_kids k with
          | n :: rest1 =>
            bindo (parse_name n) (fun name =>
            let '(dirs, rest2) := parse_opt_directives R_value rest1 in
            bindo dirs (fun dirs =>
            match rest2 with [] => Ok (PSpread name dirs) | _ => Panic end))
          | [] => Panic
          end
        else if r =? R_inline_fragment then
          let '(tc, rest1) := next_if_rule R_type_condition (t_kids k) in
          bindo (match tc with
                 | Some tc => bindo (parse_type_condition tc) (fun s => Ok (Some s))
                 | None => Ok None
                 end) (fun cond =>
          let '(dirs, rest2) := parse_opt_directives R_value rest1 in
          bindo dirs (fun dirs =>
          match rest2 with
          | ss :: rest3 =>
            match depth with
            | O => Err E_RECURSION_LIMIT
            | S d =>
              bindo (parse_selection_set f d ss) (fun sels =>
              match rest3 with [] => Ok (PInline cond dirs sels) | _ => Panic end)
            end
          | [] => Panic
          end))
        else Panic))) (t_kids t))
  end.

Definition str_query : str := [113; 117; 101; 114; 121].
Definition str_mutation : str := [109; 117; 116; 97; 116; 105; 111; 110].
Definition str_subscription : str := [115; 117; 98; 115; 99; 114; 105; 112; 116; 105; 111; 110].

Definition parse_operation_type (t : tree) : outcome poptype :=
  bindo (expect_rule R_operation_type t) (fun t =>
  if str_eqb (t_text t) str_query then Ok POQuery
  else if str_eqb (t_text t) str_mutation then Ok POMutation
  else if str_eqb (t_text t) str_subscription then Ok POSubscription
  else Panic).

Definition parse_definition_item (fuel : nat) (t : tree) : outcome pdef :=
  bindo (expect_rule R_executable_definition t) (fun t =>
  bindo (exactly_one (t_kids t)) (fun k =>
    if t_rule k =? R_operation_definition then
      bindo (exactly_one (t_kids k)) (fun o =>
        if t_rule o =? R_named_operation_definition then
          match t_kids o with
          | ty :: rest0 =>
            bindo (parse_operation_type ty) (fun ty =>
            let '(n, rest1) := next_if_rule R_name rest0 in
            bindo (match n with Some n => bindo (parse_name n) (fun s => Ok (Some s)) | None => Ok None end) (fun name =>
            let '(vds, rest2) := next_if_rule R_variable_definitions rest1 in
            bindo (match vds with
                   | Some vds => mapo parse_variable_definition (t_kids vds)
                   | None => Ok []
                   end) (fun vars =>
            let '(dirs, rest3) := parse_opt_directives R_value rest2 in
            bindo dirs (fun dirs =>
            match rest3 with
            | [ss] =>
              bindo (parse_selection_set fuel MAX_RECURSION_DEPTH ss) (fun sels =>
              Ok (DOp {| po_name := name; po_ty := ty; po_vars := vars; po_dirs := dirs; po_sels := sels |}))
            | _ => Panic
            end))))
          | [] => Panic
          end
        else if t_rule o =? R_selection_set then
          bindo (parse_selection_set fuel MAX_RECURSION_DEPTH o) (fun sels =>
          Ok (DOp {| po_name := None; po_ty := POQuery; po_vars := []; po_dirs := []; po_sels := sels |}))
        else Panic)
    else if t_rule k =? R_fragment_definition then
      match t_kids k with
      | n :: tc :: rest0 =>
        bindo (parse_name n) (fun name =>
        bindo (parse_type_condition tc) (fun cond =>
        let '(dirs, rest1) := parse_opt_directives R_value rest0 in
        bindo dirs (fun dirs =>
        match rest1 with
        | [ss] =>
          bindo (parse_selection_set fuel MAX_RECURSION_DEPTH ss) (fun sels =>
          Ok (DFrag {| pf_name := name; pf_cond := cond; pf_dirs := dirs; pf_sels := sels |}))
        | _ => Panic
        end)))
      | _ => Panic
      end
    else Panic)).

(* the loop of parse_query over the definition items (executable.rs:29-96).
   [ops] = None | Some (inl tt) (Single) | Some (inr names) (Multiple) *)
Fixpoint mem_str (s : str) (l : list str) : bool :=
  match l with [] => false | x :: r => str_eqb s x || mem_str s r end.

Fixpoint check_items (items : list pdef) (ops : option (option (list str))) (frags : list str) : outcome unit :=
  match items with
  | [] => match ops with None => Err E_MISSING_OPERATION | Some _ => Ok tt end
  | DOp o :: r =>
    match po_name o with
    | Some n =>
      match ops with
      | Some None => Err E_MULTIPLE_OPERATIONS
      | Some (Some names) => if mem_str n names then Err E_OPERATION_DUPLICATED else check_items r (Some (Some (n :: names))) frags
      | None => check_items r (Some (Some [n])) frags
      end
    | None =>
      match ops with
      | Some _ => Err E_MULTIPLE_OPERATIONS
      | None => check_items r (Some None) frags
      end
    end
  | DFrag f :: r =>
    if mem_str (pf_name f) frags then Err E_FRAGMENT_DUPLICATED else check_items r ops (pf_name f :: frags)
  end.

(* parse_query: pest first (any failure is Error::Syntax), then the builders,
   then the uniqueness loop.  [fuel] is the model's recursion budget. *)
Definition parse_query (fuel : nat) (s : str) : outcome (list pdef) :=
  match parse_rule grammar fuel R_executable_document s with
  | POof => OutOfFuel
  | PFail => Err E_SYNTAX
  | PMatch _ _ ts =>
    bindo (exactly_one ts) (fun doc =>
    bindo (expect_rule R_executable_document doc) (fun doc =>
    bindo (mapo (parse_definition_item fuel)
                (filter (fun t => negb (t_rule t =? R_EOI)) (t_kids doc))) (fun items =>
    bindo (check_items items None []) (fun _ => Ok items))))
  end.

(* ------------------------------------------- service documents ---------- *)
(* mirror of parser/src/types/service.rs (positions dropped) *)
Record sinput := { iv_desc : option str; iv_name : str; iv_ty : ptype;
                   iv_default : option pvalue; iv_dirs : list pdirective }.
Record sfield := { fd_desc : option str; fd_name : str; fd_args : list sinput;
                   fd_ty : ptype; fd_dirs : list pdirective }.
Record senumval := { ev_desc : option str; ev_name : str; ev_dirs : list pdirective }.
Inductive skind :=
| KScalar
| KObject (implements : list str) (fields : list sfield)
| KInterface (implements : list str) (fields : list sfield)
| KUnion (members : list str)
| KEnum (values : list senumval)
| KInput (fields : list sinput).
Inductive sdef :=
| SSchema (extend : bool) (dirs : list pdirective) (query mutation subscription : option str)
| SType (extend : bool) (desc : option str) (name : str) (dirs : list pdirective) (kind : skind)
| SDirective (desc : option str) (name : str) (args : list sinput) (repeatable : bool) (locations : list str).

Definition E_MULTIPLE_ROOTS : N := 7.
Definition E_MISSING_QUERY_ROOT : N := 8.

(* parse_if_rule(&mut pairs, Rule::string, parse_string) *)
Definition parse_opt_description (l : list tree) : outcome (option str) * list tree :=
  let '(d, rest) := next_if_rule R_string l in
  (match d with
   | Some d => bindo (parse_string d) (fun s => Ok (Some s))
   | None => Ok None
   end, rest).

(* service.rs parse_input_value_definition: description?, name, type,
   default_value?, const_directives?; what is left is not looked at *)
Definition parse_input_value_definition (t : tree) : outcome sinput :=
  bindo (expect_rule R_input_value_definition t) (fun t =>
  let '(desc, rest0) := parse_opt_description (t_kids t) in
  bindo desc (fun desc =>
  match rest0 with
  | n :: ty :: rest1 =>
    bindo (parse_name n) (fun name =>
    bindo (parse_type ty) (fun ty =>
    let '(dv, rest2) := next_if_rule R_default_value rest1 in
    bindo (match dv with
           | Some dv => bindo (exactly_one (t_kids dv)) (fun v =>
                        bindo (parse_value VFUEL R_const_value v) (fun x => Ok (Some x)))
           | None => Ok None
           end) (fun dv =>
    let '(dirs, _) := parse_opt_directives R_const_value rest2 in
    bindo dirs (fun dirs =>
    Ok {| iv_desc := desc; iv_name := name; iv_ty := ty; iv_default := dv; iv_dirs := dirs |}))))
  | _ => Panic
  end)).

Definition parse_field_definition (t : tree) : outcome sfield :=
  bindo (expect_rule R_field_definition t) (fun t =>
  let '(desc, rest0) := parse_opt_description (t_kids t) in
  bindo desc (fun desc =>
  match rest0 with
  | n :: rest1 =>
    bindo (parse_name n) (fun name =>
    let '(a, rest2) := next_if_rule R_arguments_definition rest1 in
    bindo (match a with
           | Some a => mapo parse_input_value_definition (t_kids a)
           | None => Ok []
           end) (fun args =>
    match rest2 with
    | ty :: rest3 =>
      bindo (parse_type ty) (fun ty =>
      let '(dirs, rest4) := parse_opt_directives R_const_value rest3 in
      bindo dirs (fun dirs =>
      match rest4 with
      | [] => Ok {| fd_desc := desc; fd_name := name; fd_args := args; fd_ty := ty; fd_dirs := dirs |}
      | _ => Panic
      end))
    | [] => Panic
    end))
  | [] => Panic
  end)).

Definition parse_enum_value_definition (t : tree) : outcome senumval :=
  bindo (expect_rule R_enum_value_definition t) (fun t =>
  let '(desc, rest0) := parse_opt_description (t_kids t) in
  bindo desc (fun desc =>
  match rest0 with
  | v :: rest1 =>
    bindo (expect_rule R_enum_value v) (fun v =>
    bindo (exactly_one (t_kids v)) (fun n =>
    bindo (parse_name n) (fun name =>
    let '(dirs, rest2) := parse_opt_directives R_const_value rest1 in
    bindo dirs (fun dirs =>
    match rest2 with
    | [] => Ok {| ev_desc := desc; ev_name := name; ev_dirs := dirs |}
    | _ => Panic
    end))))
  | [] => Panic
  end)).

Definition parse_opt_names (r : N) (l : list tree) : outcome (list str) * list tree :=
  let '(x, rest) := next_if_rule r l in
  (match x with Some x => mapo parse_name (t_kids x) | None => Ok [] end, rest).

Definition parse_opt_fields (l : list tree) : outcome (list sfield) * list tree :=
  let '(x, rest) := next_if_rule R_fields_definition l in
  (match x with Some x => mapo parse_field_definition (t_kids x) | None => Ok [] end, rest).

Definition parse_type_definition (t : tree) : outcome sdef :=
  bindo (expect_rule R_type_definition t) (fun t =>
  bindo (exactly_one (t_kids t)) (fun ty =>
  let rule := t_rule ty in
  let '(desc, rest0) := parse_opt_description (t_kids ty) in
  bindo desc (fun desc =>
  let '(ext, rest1) := next_if_rule R_extend rest0 in
  let extend := match ext with Some _ => true | None => false end in
  match rest1 with
  | n :: rest2 =>
    bindo (parse_name n) (fun name =>
    let finish (dirs : list pdirective) (kind : skind) (rest : list tree) : outcome sdef :=
        match rest with
        | [] => Ok (SType extend desc name dirs kind)
        | _ => Panic
        end in
    if rule =? R_scalar_type then
      let '(dirs, rest3) := parse_opt_directives R_const_value rest2 in
      bindo dirs (fun dirs => finish dirs KScalar rest3)
    else if (rule =? R_object_type) || (rule =? R_interface_type) then
      let '(impl, rest3) := parse_opt_names R_implements_interfaces rest2 in
      bindo impl (fun impl =>
      let '(dirs, rest4) := parse_opt_directives R_const_value rest3 in
      bindo dirs (fun dirs =>
      let '(fields, rest5) := parse_opt_fields rest4 in
      bindo fields (fun fields =>
      finish dirs (if rule =? R_object_type then KObject impl fields else KInterface impl fields) rest5)))
    else if rule =? R_union_type then
      let '(dirs, rest3) := parse_opt_directives R_const_value rest2 in
      bindo dirs (fun dirs =>
      let '(members, rest4) := parse_opt_names R_union_member_types rest3 in
      bindo members (fun members => finish dirs (KUnion members) rest4))
    else if rule =? R_enum_type then
      let '(dirs, rest3) := parse_opt_directives R_const_value rest2 in
      bindo dirs (fun dirs =>
      let '(vs, rest4) := next_if_rule R_enum_values rest3 in
      bindo (match vs with Some vs => mapo parse_enum_value_definition (t_kids vs) | None => Ok [] end) (fun vs =>
      finish dirs (KEnum vs) rest4))
    else if rule =? R_input_object_type then
      let '(dirs, rest3) := parse_opt_directives R_const_value rest2 in
      bindo dirs (fun dirs =>
      let '(fs, rest4) := next_if_rule R_input_fields_definition rest3 in
      bindo (match fs with Some fs => mapo parse_input_value_definition (t_kids fs) | None => Ok [] end) (fun fs =>
      finish dirs (KInput fs) rest4))
    else Panic)
  | [] => Panic
  end))).

(* the loop over operation_type_definition pairs of parse_schema_definition *)
Fixpoint schema_roots (l : list tree) (q m s : option str) : outcome (option str * option str * option str) :=
  match l with
  | [] => Ok (q, m, s)
  | p :: r =>
    bindo (expect_rule R_operation_type_definition p) (fun p =>
    match t_kids p with
    | [ot; n] =>
      bindo (parse_operation_type ot) (fun ot =>
      bindo (parse_name n) (fun name =>
      match ot, q, m, s with
      | POQuery, None, _, _ => schema_roots r (Some name) m s
      | POMutation, _, None, _ => schema_roots r q (Some name) s
      | POSubscription, _, _, None => schema_roots r q m (Some name)
      | _, _, _, _ => Err E_MULTIPLE_ROOTS
      end))
    | _ => Panic
    end)
  end.

Definition parse_schema_definition (t : tree) : outcome sdef :=
  let '(ext, rest0) := next_if_rule R_extend (t_kids t) in
  let extend := match ext with Some _ => true | None => false end in
  let '(dirs, rest1) := parse_opt_directives R_const_value rest0 in
  bindo dirs (fun dirs =>
  bindo (schema_roots rest1 None None None) (fun qms =>
  let '(q, m, s) := qms in
  if negb extend && match q with None => true | Some _ => false end then Err E_MISSING_QUERY_ROOT
  else Ok (SSchema extend dirs q m s))).

Definition parse_directive_definition (t : tree) : outcome sdef :=
  let '(desc, rest0) := parse_opt_description (t_kids t) in
  bindo desc (fun desc =>
  match rest0 with
  | n :: rest1 =>
    bindo (parse_name n) (fun name =>
    let '(a, rest2) := next_if_rule R_arguments_definition rest1 in
    bindo (match a with Some a => mapo parse_input_value_definition (t_kids a) | None => Ok [] end) (fun args =>
    let '(rp, rest3) := next_if_rule R_repeatable rest2 in
    (* the rule matches the empty string as well, so the pair is always there:
       the flag is whether it matched the keyword *)
    let repeatable := match rp with
                      | Some r => negb (match t_text r with [] => true | _ => false end)
                      | None => false
                      end in
    match rest3 with
    | [locs] =>
      bindo (expect_rule R_directive_locations locs) (fun locs =>
      bindo (mapo (fun l => bindo (expect_rule R_directive_location l) (fun l => Ok (t_text l))) (t_kids locs)) (fun ls =>
      Ok (SDirective desc name args repeatable ls)))
    | _ => Panic
    end))
  | [] => Panic
  end).

Definition parse_type_system_definition (t : tree) : outcome sdef :=
  bindo (expect_rule R_type_system_definition t) (fun t =>
  bindo (exactly_one (t_kids t)) (fun k =>
    if t_rule k =? R_schema_definition then parse_schema_definition k
    else if t_rule k =? R_type_definition then parse_type_definition k
    else if t_rule k =? R_directive_definition then parse_directive_definition k
    else Panic)).

(* parse_schema: pest, then the builders in document order *)
Definition parse_schema (fuel : nat) (s : str) : outcome (list sdef) :=
  match parse_rule grammar fuel R_service_document s with
  | POof => OutOfFuel
  | PFail => Err E_SYNTAX
  | PMatch _ _ ts =>
    bindo (exactly_one ts) (fun doc =>
    bindo (expect_rule R_service_document doc) (fun doc =>
    mapo parse_type_system_definition (filter (fun t => negb (t_rule t =? R_EOI)) (t_kids doc))))
  end.

(* Peg.v — an interpreter for the PEG abstract syntax that tools/factsgen/grammar.py
   regenerates from parser/src/graphql.pest (coq/gen/GrammarGen.v), with the
   semantics of the code pest_generator 2.x emits (read from
   parser/src/parse/generated.rs and pest::ParserState):

   * atomicity is a dynamic state: NonAtomic at the start, set to Atomic by an
     `@` rule and to CompoundAtomic by a `$` rule for the duration of the rule
     body, INHERITED by normal `{}` and silent `_{}` rules;
   * in NonAtomic state `a ~ b` is  a, skip, b;  [e*] is  optional(e, repeat(skip, e))  where a
     failing [skip, e] iteration gives its skip back;  [e+] is  e ~ (e star)  (so the
     skip after the first e stays consumed);  skip = repeat(WHITESPACE),
     repeat(COMMENT, repeat(WHITESPACE)), both run atomically;
   * a rule produces a pair (here a [tree] node carrying the matched text)
     unless the state is Atomic when it is entered; lookahead produces none;
   * EOI is a rule and produces a pair; SOI does not.

   Every recursive call spends one unit of fuel (fuel bounds the depth of the
   recursion, exactly like the machine stack bounds pest's); running out is
   reported as [POof], never as a parse failure.  Executable, no proofs. *)
From AG Require Export Base.
From AGgen Require Export GrammarGen.
Open Scope N_scope.

Inductive tree := Node (rule : N) (text : str) (kids : list tree).

Definition t_rule (t : tree) : N := match t with Node r _ _ => r end.
Definition t_text (t : tree) : str := match t with Node _ s _ => s end.
Definition t_kids (t : tree) : list tree := match t with Node _ _ k => k end.

Inductive atomicity := ANon | AAtomic | ACompound.

Inductive pres :=
| PFail
| POof
| PMatch (rest : str) (off : N) (ts : list tree).

Fixpoint match_prefix (p s : str) : option str :=
  match p, s with
  | [], _ => Some s
  | a :: p', b :: s' => if N.eqb a b then match_prefix p' s' else None
  | _ :: _, [] => None
  end.

Definition ascii_lower (c : N) : N := if (65 <=? c) && (c <=? 90) then c + 32 else c.

Fixpoint match_prefix_insens (p s : str) : option str :=
  match p, s with
  | [], _ => Some s
  | a :: p', b :: s' => if N.eqb (ascii_lower a) (ascii_lower b) then match_prefix_insens p' s' else None
  | _ :: _, [] => None
  end.

Definition lenN (s : str) : N := N.of_nat (length s).

Definition is_atomic (a : atomicity) : bool := match a with AAtomic => true | _ => false end.
Definition is_non (a : atomicity) : bool := match a with ANon => true | _ => false end.

(* repeat(WHITESPACE | COMMENT) — same end position as pest's skip because
   every iteration consumes input *)
Definition skip_exp : pexp := PStar (PChoice (PRef R_WHITESPACE) (PRef R_COMMENT)).

Section Interp.
  Variable G : list (rmod * pexp).

  Definition rule_of (r : N) : option (rmod * pexp) := nth_error G (N.to_nat r).

  Fixpoint run (fuel : nat) (e : pexp) (a : atomicity) (s : str) (o : N) {struct fuel} : pres :=
    match fuel with
    | O => POof
    | S f =>
      let skip (s : str) (o : N) : pres :=
        if is_non a then run f skip_exp AAtomic s o else PMatch s o [] in
      match e with
      | PStr p => match match_prefix p s with
                  | Some s' => PMatch s' (o + lenN p) []
                  | None => PFail
                  end
      | PInsens p => match match_prefix_insens p s with
                     | Some s' => PMatch s' (o + lenN p) []
                     | None => PFail
                     end
      | PRange lo hi => match s with
                        | c :: s' => if (lo <=? c) && (c <=? hi) then PMatch s' (o + 1) [] else PFail
                        | [] => PFail
                        end
      | PAny => match s with c :: s' => PMatch s' (o + 1) [] | [] => PFail end
      | PSoi => if o =? 0 then PMatch s o [] else PFail
      | PEoi => match s with
                | [] => PMatch s o (if is_atomic a then [] else [Node R_EOI [] []])
                | _ => PFail
                end
      | PRef r =>
        match rule_of r with
        | None => PFail
        | Some (m, body) =>
          let wrap (emit : bool) (res : pres) : pres :=
            match res with
            | PMatch s' o' ts =>
              if emit then PMatch s' o' [Node r (firstn (N.to_nat (o' - o)) s) ts]
              else PMatch s' o' ts
            | x => x
            end in
          match m with
          | MNormal => wrap (negb (is_atomic a)) (run f body a s o)
          | MSilent =>
            if (r =? R_WHITESPACE) || (r =? R_COMMENT) then wrap false (run f body AAtomic s o)
            else wrap false (run f body a s o)
          | MAtomic => wrap (negb (is_atomic a)) (run f body AAtomic s o)
          | MCompound => wrap true (run f body ACompound s o)
          end
        end
      | PSeq x y =>
        match run f x a s o with
        | PMatch s1 o1 t1 =>
          match skip s1 o1 with
          | PMatch s2 o2 _ =>
            match run f y a s2 o2 with
            | PMatch s3 o3 t3 => PMatch s3 o3 (t1 ++ t3)
            | r => r
            end
          | r => r
          end
        | r => r
        end
      | PChoice x y =>
        match run f x a s o with
        | PFail => run f y a s o
        | r => r
        end
      | POpt x =>
        match run f x a s o with
        | PFail => PMatch s o []
        | r => r
        end
      | PNot x =>
        match run f x a s o with
        | PFail => PMatch s o []
        | POof => POof
        | PMatch _ _ _ => PFail
        end
      | PStar x =>
        match run f x a s o with
        | PFail => PMatch s o []
        | POof => POof
        | PMatch s1 o1 t1 =>
          (fix more (k : nat) (s : str) (o : N) (acc : list tree) {struct k} : pres :=
             match k with
             | O => PMatch s o acc
             | S k' =>
               match skip s o with
               | PMatch s2 o2 _ =>
                 match run f x a s2 o2 with
                 | PFail => PMatch s o acc
                 | POof => POof
                 | PMatch s3 o3 t3 =>
                   if o3 =? o then PMatch s o acc else more k' s3 o3 (acc ++ t3)
                 end
               | PFail => PMatch s o acc
               | POof => POof
               end
             end) (length s1) s1 o1 t1
        end
      | PPlus x => run f (PSeq x (PStar x)) a s o
      end
    end.

  (* GraphQLParser::parse(rule, input): the pairs of one top-level rule *)
  Definition parse_rule (fuel : nat) (r : N) (s : str) : pres := run fuel (PRef r) ANon s 0.
End Interp.

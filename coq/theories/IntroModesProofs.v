(* IntroModesProofs.v — C19 lemmas (no model definitions).

   1. every field name falls in one of seven classes and the executing root
      treats it as the table [root_action] says (all names, all configs);
   2. the table satisfies the three clauses of the property outside four
      narrow classes (finite domain 108 configs x 3 operation types x 7
      classes = 2268 points, by vm_compute, lifted with forallb_forall), and
      violates them on every point of the classes;
   3. lifting to whole documents: the walk of a root selection set (any
      nesting of inline fragments and fragment spreads, any fuel) only emits
      table actions for the fields CollectFields collects, hence the
      response of any request satisfies the specification unless the document
      selects a field of a known class. *)
From AG Require Import IntroModes.
Open Scope N_scope.

(* ------------------------------------------------------------ finite domain *)
Lemma all_cfgs_complete : forall c, In c all_cfgs.
Proof. intros [[] [] [] [] []]; vm_compute; tauto. Qed.
Lemma all_ops_complete : forall o, In o all_ops.
Proof. intros []; vm_compute; tauto. Qed.
Lemma all_classes_complete : forall k, In k all_classes.
Proof. intros []; vm_compute; tauto. Qed.

Definition forall_points (P : cfg -> optype -> fclass -> bool) : bool :=
  forallb (fun c => forallb (fun o => forallb (fun k => P c o k) all_classes) all_ops) all_cfgs.

Lemma forall_points_spec P :
  forall_points P = true -> forall c o k, P c o k = true.
Proof.
  unfold forall_points. intros H c o k.
  rewrite forallb_forall in H. specialize (H c (all_cfgs_complete c)).
  rewrite forallb_forall in H. specialize (H o (all_ops_complete o)).
  rewrite forallb_forall in H. exact (H k (all_classes_complete k)).
Qed.

Definition impb (a b : bool) : bool := negb a || b.
Lemma impb_true a b : impb a b = true -> a = true -> b = true.
Proof. unfold impb. destruct a, b; simpl; intros; congruence. Qed.

(* disabled: no metadata, except class 1 *)
Lemma table_disabled : forall c o k,
    disabled c = true -> kc c o k <> 1 -> serves_metadata (root_action c o k) = false.
Proof.
  assert (H : forall_points (fun c o k =>
            impb (disabled c) (impb (negb (kc c o k =? 1)) (negb (serves_metadata (root_action c o k))))) = true)
    by (vm_compute; reflexivity).
  intros c o k Hd Hk. pose proof (forall_points_spec _ H c o k) as E. cbv beta in E.
  assert (Hk' : negb (kc c o k =? 1) = true) by (apply negb_true_iff; now apply N.eqb_neq).
  pose proof (impb_true _ _ (impb_true _ _ E Hd) Hk') as E1.
  now apply negb_true_iff in E1.
Qed.

(* introspection-only: no resolver, except classes 2 and 3 *)
Lemma table_only : forall c o k,
    only c = true -> kc c o k <> 2 -> kc c o k <> 3 -> runs_resolver (root_action c o k) = false.
Proof.
  assert (H : forall_points (fun c o k =>
            impb (only c) (impb (negb (kc c o k =? 2)) (impb (negb (kc c o k =? 3))
                 (negb (runs_resolver (root_action c o k)))))) = true)
    by (vm_compute; reflexivity).
  intros c o k Ho H2 H3. pose proof (forall_points_spec _ H c o k) as E. cbv beta in E.
  assert (H2' : negb (kc c o k =? 2) = true) by (apply negb_true_iff; now apply N.eqb_neq).
  assert (H3' : negb (kc c o k =? 3) = true) by (apply negb_true_iff; now apply N.eqb_neq).
  pose proof (impb_true _ _ (impb_true _ _ (impb_true _ _ E Ho) H2') H3') as E1.
  now apply negb_true_iff in E1.
Qed.

Definition action_eqb (a b : action) : bool :=
  match a, b with
  | ATypename x, ATypename y => name_eqb x y
  | AIntrospect, AIntrospect | AServiceSdl, AServiceSdl | AEntity, AEntity | AUser, AUser
  | ANull, ANull | AAbsent, AAbsent | AError, AError => true
  | _, _ => false
  end.
Lemma action_eqb_eq a b : action_eqb a b = true -> a = b.
Proof.
  destruct a, b; simpl; try discriminate; try reflexivity.
  intro H. apply name_eqb_eq in H. now subst.
Qed.

(* __typename on query and mutation roots: the root type's name, except class 4 *)
Lemma table_typename : forall c o,
    is_subscription o = false -> kc c o CTypename <> 4 ->
    root_action c o CTypename = ATypename (root_name o).
Proof.
  assert (H : forall_points (fun c o k =>
            impb (negb (is_subscription o)) (impb (negb (kc c o CTypename =? 4))
                 (action_eqb (root_action c o CTypename) (ATypename (root_name o))))) = true)
    by (vm_compute; reflexivity).
  intros c o Hs Hk. pose proof (forall_points_spec _ H c o CTypename) as E. cbv beta in E.
  assert (Hs' : negb (is_subscription o) = true) by now rewrite Hs.
  assert (Hk' : negb (kc c o CTypename =? 4) = true) by (apply negb_true_iff; now apply N.eqb_neq).
  pose proof (impb_true _ _ (impb_true _ _ E Hs') Hk') as E1.
  now apply action_eqb_eq.
Qed.

(* the classes are tight: every point of a class violates its clause *)
Lemma table_classes_tight : forall c o k,
    (kc c o k = 1 -> disabled c = true /\ root_action c o k = AServiceSdl) /\
    (kc c o k = 2 -> only c = true /\ root_action c o k = AEntity) /\
    (kc c o k = 3 -> only c = true /\ root_action c o k = AUser) /\
    (kc c o k = 4 -> only c = true /\ k = CTypename /\ root_action c o k = ATypename T_EmptyMutation) /\
    (kc c o k = 0 \/ kc c o k = 1 \/ kc c o k = 2 \/ kc c o k = 3 \/ kc c o k = 4).
Proof.
  intros [[] [] [] [] []] [] []; vm_compute;
    repeat split; try discriminate; try reflexivity; tauto.
Qed.

(* class 4 configurations: what the stand-in root does *)
Definition class4_cfg (c : cfg) (o : optype) : bool :=
  match c_flav c, o with Static, OpMutation => only c | _, _ => false end.

Lemma exec_root_name_eq c o : class4_cfg c o = false -> exec_root_name c o = root_name o.
Proof.
  unfold class4_cfg, exec_root_name, static_mutation_tn.
  destruct (c_flav c), o; try reflexivity. intros ->. reflexivity.
Qed.

Lemma class4_kc c o : class4_cfg c o = true -> kc c o CTypename = 4.
Proof.
  unfold class4_cfg, kc. destruct (c_flav c), o; try discriminate. intros ->. reflexivity.
Qed.

Lemma kc4_class4 c o k : kc c o k = 4 -> class4_cfg c o = true /\ k = CTypename.
Proof. destruct c as [[] [] [] [] []], o, k; vm_compute; intro; try discriminate; auto. Qed.

(* ------------------------------------------------- all names: classification *)
Ltac eqb_cases nm :=
  repeat match goal with
         | |- context [name_eqb nm ?x] =>
             let E := fresh "E" in
             destruct (name_eqb nm x) eqn:E;
             [apply name_eqb_eq in E; subst nm|]
         end.

(* what the executing root pushes for a field depends on its class only *)
Lemma emit_action_class : forall c o k nm,
    emit_action c o k nm = (k, root_action c o (classify o nm)).
Proof.
  intros c o k nm. unfold emit_action, root_action, emit_action, classify. f_equal.
  destruct (name_eqb nm N_typename) eqn:E0;
    [apply name_eqb_eq in E0; subst nm; reflexivity|].
  destruct (name_eqb nm N_schema) eqn:E1;
    [apply name_eqb_eq in E1; subst nm; reflexivity|].
  destruct (name_eqb nm N_type) eqn:E2;
    [apply name_eqb_eq in E2; subst nm; reflexivity|].
  destruct (name_eqb nm N_service) eqn:E3;
    [apply name_eqb_eq in E3; subst nm; reflexivity|].
  destruct (name_eqb nm N_entities) eqn:E4;
    [apply name_eqb_eq in E4; subst nm; reflexivity|].
  destruct (name_eqb nm (user_field o)) eqn:E5;
    [apply name_eqb_eq in E5; subst nm; destruct o; reflexivity|].
  cbn [class_name].
  replace (name_eqb 1000 N_typename) with false by reflexivity.
  unfold field_action, static_query_field, static_mutation_field, static_subscription_field,
    dynamic_query_field, dynamic_mutation_field, dynamic_subscription_field, inner_field.
  destruct o; cbn [user_field] in E5; rewrite ?E1, ?E2, ?E3, ?E4, ?E5;
    destruct (c_flav c); reflexivity.
Qed.

(* the subscription collectors never look at __typename specially *)
Lemma sub_field_cases : forall c nm,
    field_action c OpSubscription nm = AUser /\ classify OpSubscription nm = CUser
    \/ field_action c OpSubscription nm = AAbsent
    \/ field_action c OpSubscription nm = AError.
Proof.
  intros c nm. unfold field_action, static_subscription_field, dynamic_subscription_field.
  destruct (name_eqb nm N_s) eqn:E.
  - apply name_eqb_eq in E. subst nm.
    destruct (c_flav c), (only c); auto.
  - destruct (c_flav c), (only c); auto.
Qed.

Lemma sub_field_static_only : forall c nm,
    c_flav c = Static -> only c = true -> field_action c OpSubscription nm = AError.
Proof. intros c nm Hf Ho. unfold field_action, static_subscription_field. now rewrite Hf, Ho. Qed.

(* ---------------------------------------------------------- generic walks -- *)
Section GW.
  Context {X Y : Type}.
  Variable frags : list (name * fragment).
  Variable tn : name.

  Definition omap (f : list X -> list Y) (o : outcome (list X)) : outcome (list Y) :=
    match o with Ok l => Ok (f l) | Err e => Err e | Panic => Panic | OutOfFuel => OutOfFuel end.

  Lemma gwalk_map (emit : name -> name -> X) (f : X -> Y) : forall n sels,
      gwalk frags tn (fun k nm => f (emit k nm)) n sels = omap (map f) (gwalk frags tn emit n sels).
  Proof.
    induction n as [|n IH]; intro sels; [reflexivity|].
    destruct sels as [|[alias nm args dirs sub|fn dirs|cond dirs sub] rest]; cbn [gwalk]; [reflexivity| | |].
    - rewrite IH. destruct (gwalk frags tn emit n rest); reflexivity.
    - destruct (assoc fn frags) as [fr|]; [|reflexivity].
      destruct (name_eqb (fr_cond fr) tn); [|apply IH].
      rewrite (IH (fr_sels fr)), (IH rest).
      destruct (gwalk frags tn emit n (fr_sels fr)) as [a| | |]; try reflexivity. cbn [omap bindo].
      destruct (gwalk frags tn emit n rest) as [b| | |]; try reflexivity. cbn [omap bindo].
      now rewrite map_app.
    - destruct (match cond with None => true | Some t => name_eqb t tn end); [|apply IH].
      rewrite (IH sub), (IH rest).
      destruct (gwalk frags tn emit n sub) as [a| | |]; try reflexivity. cbn [omap bindo].
      destruct (gwalk frags tn emit n rest) as [b| | |]; try reflexivity. cbn [omap bindo].
      now rewrite map_app.
  Qed.

  (* everything a walk emits satisfies what every single emission satisfies *)
  Lemma gwalk_Forall (emit : name -> name -> X) (P : X -> Prop) :
    (forall k nm, P (emit k nm)) ->
    forall n sels l, gwalk frags tn emit n sels = Ok l -> Forall P l.
  Proof.
    intro HP. induction n as [|n IH]; intros sels l H; [discriminate|].
    destruct sels as [|[alias nm args dirs sub|fn dirs|cond dirs sub] rest]; cbn [gwalk] in H.
    - injection H as <-. constructor.
    - destruct (gwalk frags tn emit n rest) as [r| | |] eqn:E; try discriminate.
      injection H as <-. constructor; [apply HP|]. eapply IH; eauto.
    - destruct (assoc fn frags) as [fr|]; [|discriminate].
      destruct (name_eqb (fr_cond fr) tn); [|eapply IH; eauto].
      destruct (gwalk frags tn emit n (fr_sels fr)) as [a| | |] eqn:Ea; try discriminate.
      destruct (gwalk frags tn emit n rest) as [b| | |] eqn:Eb; try discriminate.
      injection H as <-. apply Forall_app. split; eapply IH; eauto.
    - destruct (match cond with None => true | Some t => name_eqb t tn end); [|eapply IH; eauto].
      destruct (gwalk frags tn emit n sub) as [a| | |] eqn:Ea; try discriminate.
      destruct (gwalk frags tn emit n rest) as [b| | |] eqn:Eb; try discriminate.
      injection H as <-. apply Forall_app. split; eapply IH; eauto.
  Qed.

  (* the fields written directly in the selection set are all collected *)
  Lemma gwalk_direct (emit : name -> name -> X) :
    forall n sels l, gwalk frags tn emit n sels = Ok l ->
    forall alias nm args dirs sub, In (SField alias nm args dirs sub) sels -> In (emit (key alias nm) nm) l.
  Proof.
    induction n as [|n IH]; intros sels l H alias nm args dirs sub Hin; [discriminate|].
    destruct sels as [|[alias' nm' args' dirs' sub'|fn dirs'|cond dirs' sub'] rest]; cbn [gwalk] in H;
      [destruct Hin| | |].
    - destruct (gwalk frags tn emit n rest) as [r| | |] eqn:E; try discriminate.
      injection H as <-. destruct Hin as [Hh|Ht].
      + injection Hh as -> -> _ _ _. now left.
      + right. eapply IH; eauto.
    - destruct Hin as [Hh|Ht]; [discriminate|].
      destruct (assoc fn frags) as [fr|]; [|discriminate].
      destruct (name_eqb (fr_cond fr) tn); [|eapply IH; eauto].
      destruct (gwalk frags tn emit n (fr_sels fr)) as [a| | |] eqn:Ea; try discriminate.
      destruct (gwalk frags tn emit n rest) as [b| | |] eqn:Eb; try discriminate.
      injection H as <-. apply in_or_app. right. eapply IH; eauto.
    - destruct Hin as [Hh|Ht]; [discriminate|].
      destruct (match cond with None => true | Some t => name_eqb t tn end); [|eapply IH; eauto].
      destruct (gwalk frags tn emit n sub') as [a| | |] eqn:Ea; try discriminate.
      destruct (gwalk frags tn emit n rest) as [b| | |] eqn:Eb; try discriminate.
      injection H as <-. apply in_or_app. right. eapply IH; eauto.
  Qed.
End GW.

(* refinement: outside class 4 the executing root's walk is the table applied
   to the fields CollectFields collects on the root type *)
Definition table_of (c : cfg) (o : optype) (x : name * fclass) : name * action :=
  (fst x, root_action c o (snd x)).

Lemma walk_refines_flat_ext : forall c o frags tn n sels,
    gwalk frags tn (emit_action c o) n sels =
    gwalk frags tn (fun k nm => table_of c o (k, classify o nm)) n sels.
Proof.
  intros c o frags tn. induction n as [|n IH]; intro sels; [reflexivity|].
  destruct sels as [|[alias nm args dirs sub|fn dirs|cond dirs sub] rest]; cbn [gwalk]; [reflexivity| | |].
  - rewrite IH, emit_action_class. reflexivity.
  - destruct (assoc fn frags) as [fr|]; [|reflexivity].
    destruct (name_eqb (fr_cond fr) tn); [|apply IH]. now rewrite !IH.
  - destruct (match cond with None => true | Some t => name_eqb t tn end); [|apply IH]. now rewrite !IH.
Qed.

Lemma walk_table : forall c o frags n sels,
    class4_cfg c o = false ->
    walk c o frags n sels = omap (map (table_of c o)) (flat o frags n sels).
Proof.
  intros c o frags n sels H4. unfold walk, flat. rewrite (exec_root_name_eq _ _ H4).
  rewrite walk_refines_flat_ext.
  exact (gwalk_map frags (root_name o) (fun k nm => (k, classify o nm)) (table_of c o) n sels).
Qed.

(* class 4 configurations: the stand-in root answers null or its own name *)
Lemma walk_class4 : forall c o frags n sels l,
    class4_cfg c o = true -> walk c o frags n sels = Ok l ->
    Forall (fun x => snd x = ANull \/ snd x = ATypename T_EmptyMutation) l.
Proof.
  intros c o frags n sels l H4. unfold walk. apply gwalk_Forall.
  intros k nm. unfold emit_action. cbn [snd].
  unfold class4_cfg in H4. destruct (c_flav c) eqn:Ef, o; try discriminate.
  destruct (name_eqb nm N_typename).
  - right. unfold exec_root_name, static_mutation_tn. now rewrite Ef, H4.
  - left. unfold field_action, static_mutation_field. now rewrite Ef, H4.
Qed.

(* ------------------------------------------------------------ observations -- *)
Lemma values_in : forall l seen k v,
    In (k, v) (values seen l) -> exists a, In (k, a) l /\ value_of a = Some v.
Proof.
  induction l as [|[k' a'] r IH]; intros seen k v H; [destruct H|].
  cbn [values] in H. destruct (value_of a') as [v'|] eqn:Ev.
  - destruct (mem k' seen).
    + destruct (IH _ _ _ H) as [a [Hi Hv]]. exists a. split; [now right|exact Hv].
    + destruct H as [H|H].
      * injection H as -> ->. exists a'. split; [now left|exact Ev].
      * destruct (IH _ _ _ H) as [a [Hi Hv]]. exists a. split; [now right|exact Hv].
  - destruct (IH _ _ _ H) as [a [Hi Hv]]. exists a. split; [now right|exact Hv].
Qed.

Lemma mem_false_neq k k' seen : mem k (k' :: seen) = false -> k <> k' /\ mem k seen = false.
Proof.
  cbn [mem]. destruct (name_eqb k k') eqn:E; [discriminate|].
  intro H. split; [|exact H]. intro Heq. subst. rewrite name_eqb_refl in E. discriminate.
Qed.

(* a key all of whose occurrences carry the value v is answered v *)
Lemma assocv_values : forall l seen k v,
    mem k seen = false ->
    (forall a, In (k, a) l -> value_of a = Some v) ->
    (exists a, In (k, a) l) ->
    assocv k (values seen l) = Some v.
Proof.
  induction l as [|[k' a'] r IH]; intros seen k v Hs Hall [a Hin]; [destruct Hin|].
  cbn [values].
  destruct (name_eqb k k') eqn:Ek.
  - apply name_eqb_eq in Ek. subst k'.
    rewrite (Hall a' (or_introl eq_refl)). rewrite Hs.
    cbn [assocv]. now rewrite name_eqb_refl.
  - assert (Hne : k <> k') by (intro; subst; rewrite name_eqb_refl in Ek; discriminate).
    assert (Hin' : exists a0, In (k, a0) r).
    { destruct Hin as [H|H]; [injection H as -> _; congruence|eauto]. }
    assert (Hall' : forall a0, In (k, a0) r -> value_of a0 = Some v) by (intros; apply Hall; now right).
    destruct (value_of a') as [v'|].
    + destruct (mem k' seen).
      * apply IH; auto.
      * cbn [assocv]. rewrite Ek. apply IH; auto.
        cbn [mem]. now rewrite Ek.
    + apply IH; auto.
Qed.

Lemma count_zero p l : Forall (fun x => p (snd x) = false) l -> count p l = 0.
Proof.
  intro H. unfold count. replace (filter (fun x => p (snd x)) l) with (@nil (name * action)); [reflexivity|].
  induction H as [|x l Hx _ IH]; [reflexivity|]. cbn [filter]. now rewrite Hx.
Qed.

Lemma log_zero_of op l :
  Forall (fun x => runs_resolver (snd x) = false) l -> log_zero (log_of op l) = true.
Proof.
  intro H. unfold log_of.
  rewrite (count_zero is_user), (count_zero is_entity).
  - destruct op; reflexivity.
  - eapply Forall_impl; [|exact H]. intros x Hx. unfold runs_resolver in Hx. now apply orb_false_elim in Hx.
  - eapply Forall_impl; [|exact H]. intros x Hx. unfold runs_resolver in Hx. now apply orb_false_elim in Hx.
Qed.

Lemma first_kc_zero c o fl : first_kc c o fl = 0 <-> forall x, In x fl -> kc c o (snd x) = 0.
Proof.
  induction fl as [|x r IH]; cbn [first_kc]; [split; [intros _ ? []|reflexivity]|].
  destruct (kc c o (snd x) =? 0) eqn:E.
  - apply N.eqb_eq in E. rewrite IH. split.
    + intros H y [<-|Hy]; auto.
    + intros H y Hy. apply H. now right.
  - apply N.eqb_neq in E. split; [congruence|]. intro H. exfalso. apply E. apply H. now left.
Qed.

Lemma sub_walk_in : forall c sels k a,
    In (k, a) (sub_walk c sels) ->
    exists alias nm args dirs sub,
      In (SField alias nm args dirs sub) sels /\ k = key alias nm /\ a = field_action c OpSubscription nm.
Proof.
  induction sels as [|[alias nm args dirs sub|fn dirs|cond dirs sub] rest IH]; intros k a H;
    cbn [sub_walk] in H; [destruct H| | |].
  - destruct H as [H|H].
    + injection H as <- <-. exists alias, nm, args, dirs, sub. repeat split. now left.
    + destruct (IH _ _ H) as (al & n0 & ar & di & su & Hi & Hk & Ha).
      exists al, n0, ar, di, su. repeat split; auto. now right.
  - destruct (IH _ _ H) as (al & n0 & ar & di & su & Hi & Hk & Ha).
    exists al, n0, ar, di, su. repeat split; auto. now right.
  - destruct (IH _ _ H) as (al & n0 & ar & di & su & Hi & Hk & Ha).
    exists al, n0, ar, di, su. repeat split; auto. now right.
Qed.

(* a document of __typename fields only passes validation on query/mutation roots *)
Lemma tn_only_valid : forall c o frags n sels b,
    is_subscription o = false ->
    tn_only o frags n sels = Ok true -> vwalk c o frags n sels = Ok b -> b = true.
Proof.
  intros c o frags. induction n as [|n IH]; intros sels b Hs Ht Hv; [discriminate|].
  destruct sels as [|[alias nm args dirs sub|fn dirs|cond dirs sub] rest]; cbn [tn_only vwalk] in Ht, Hv.
  - now injection Hv as <-.
  - destruct (tn_only o frags n rest) as [t| | |] eqn:Et; try discriminate.
    destruct (vwalk c o frags n rest) as [r| | |] eqn:Er; try discriminate.
    cbn [bindo] in Ht, Hv. injection Ht as Ht. injection Hv as <-.
    apply andb_prop in Ht as [Hn ->]. rewrite (IH rest r Hs Et Er).
    unfold classify. rewrite Hn. cbn [registered]. now rewrite Hs.
  - destruct (assoc fn frags) as [fr|]; [|discriminate].
    destruct (tn_only o frags n (fr_sels fr)) as [ta| | |] eqn:Eta; try discriminate.
    destruct (tn_only o frags n rest) as [tb| | |] eqn:Etb; try discriminate.
    destruct (vwalk c o frags n (fr_sels fr)) as [va| | |] eqn:Eva; try discriminate.
    destruct (vwalk c o frags n rest) as [vb| | |] eqn:Evb; try discriminate.
    cbn [bindo] in Ht, Hv. injection Ht as Ht. injection Hv as <-.
    apply andb_prop in Ht as [Ht ->]. apply andb_prop in Ht as [-> ->].
    now rewrite (IH _ _ Hs Eta Eva), (IH _ _ Hs Etb Evb).
  - destruct (tn_only o frags n sub) as [ta| | |] eqn:Eta; try discriminate.
    destruct (tn_only o frags n rest) as [tb| | |] eqn:Etb; try discriminate.
    destruct (vwalk c o frags n sub) as [va| | |] eqn:Eva; try discriminate.
    destruct (vwalk c o frags n rest) as [vb| | |] eqn:Evb; try discriminate.
    cbn [bindo] in Ht, Hv. injection Ht as Ht. injection Hv as <-.
    apply andb_prop in Ht as [Ht ->]. apply andb_prop in Ht as [-> ->].
    now rewrite (IH _ _ Hs Eta Eva), (IH _ _ Hs Etb Evb).
Qed.

(* a non-empty document of __typename fields collects a __typename field *)
Lemma fclass_eqb_eq a b : fclass_eqb a b = true -> a = b.
Proof. destruct a, b; simpl; congruence. Qed.

Lemma keys_ok_spec fl : keys_ok fl = true ->
  forall k a b, In (k, a) fl -> In (k, b) fl -> a = b.
Proof.
  unfold keys_ok. intros H k a b Ha Hb.
  rewrite forallb_forall in H. specialize (H _ Ha). rewrite forallb_forall in H. specialize (H _ Hb).
  cbn [fst snd] in H. rewrite name_eqb_refl in H. now apply fclass_eqb_eq.
Qed.

(* ----------------------------------------------------- document-level lift -- *)
(* the three clauses for the response of any accepted query/mutation *)
Section Object.
  Variables (c : cfg) (o : optype) (frags : list (name * fragment)) (n : nat) (sels : list selection).
  Variables (l : list (name * action)) (fl : list (name * fclass)).
  Hypothesis Hw : walk c o frags n sels = Ok l.
  Hypothesis Hf : flat o frags n sels = Ok fl.

  Lemma l_table : class4_cfg c o = false -> l = map (table_of c o) fl.
  Proof.
    intro H4. pose proof (walk_table c o frags n sels H4) as E. rewrite Hw, Hf in E.
    cbn [omap] in E. now injection E.
  Qed.

  Lemma object_no_metadata :
    disabled c = true -> (forall x, In x fl -> kc c o (snd x) <> 1) ->
    forall k v, In (k, v) (values [] l) -> is_meta_value v = false.
  Proof.
    intros Hd Hk k v Hin. destruct (values_in _ _ _ _ Hin) as [a [Ha Hv]].
    destruct (class4_cfg c o) eqn:H4.
    - pose proof (walk_class4 _ _ _ _ _ _ H4 Hw) as HF. rewrite Forall_forall in HF.
      destruct (HF _ Ha) as [E|E]; cbn [snd] in E; subst a; cbn in Hv; injection Hv as <-; reflexivity.
    - rewrite (l_table H4) in Ha. apply in_map_iff in Ha as [[k0 cls] [E Hx]].
      unfold table_of in E. cbn [fst snd] in E. injection E as -> <-.
      pose proof (table_disabled c o cls Hd (Hk _ Hx)) as Hm.
      destruct (root_action c o cls); cbn in Hv, Hm; try discriminate; injection Hv as <-; reflexivity.
  Qed.

  Lemma object_no_resolver :
    only c = true -> (forall x, In x fl -> kc c o (snd x) <> 2 /\ kc c o (snd x) <> 3) ->
    log_zero (log_of o l) = true.
  Proof.
    intros Ho Hk. apply log_zero_of. destruct (class4_cfg c o) eqn:H4.
    - pose proof (walk_class4 _ _ _ _ _ _ H4 Hw) as HF.
      eapply Forall_impl; [|exact HF]. intros x [E|E]; rewrite E; reflexivity.
    - rewrite (l_table H4). apply Forall_forall. intros x Hx.
      apply in_map_iff in Hx as [[k0 cls] [<- Hx]]. cbn [table_of fst snd].
      destruct (Hk _ Hx) as [H2 H3]. now apply table_only.
  Qed.

  Lemma object_typename :
    is_subscription o = false -> keys_ok fl = true ->
    (forall x, In x fl -> kc c o (snd x) <> 4) ->
    forall k, In (k, CTypename) fl ->
    assocv k (values [] l) = Some (VcTypename (root_name o)).
  Proof.
    intros Hs Hko Hk k Hin.
    assert (H4 : class4_cfg c o = false).
    { destruct (class4_cfg c o) eqn:E; [|reflexivity]. exfalso.
      apply (Hk _ Hin). cbn [snd]. now apply class4_kc. }
    assert (Ht : root_action c o CTypename = ATypename (root_name o)).
    { apply table_typename; [exact Hs|]. exact (Hk _ Hin). }
    rewrite (l_table H4). apply assocv_values; [reflexivity| |].
    - intros a Ha. apply in_map_iff in Ha as [[k0 cls] [E Hx]].
      unfold table_of in E. cbn [fst snd] in E. injection E as -> <-.
      rewrite (keys_ok_spec _ Hko _ _ _ Hx Hin), Ht. reflexivity.
    - exists (root_action c o CTypename). apply in_map_iff. exists (k, CTypename). now split.
  Qed.
End Object.

(* the subscription collectors *)
Lemma stream_no_metadata : forall c sels k v,
    In (k, v) (values [] (sub_walk c sels)) -> is_meta_value v = false.
Proof.
  intros c sels k v H. destruct (values_in _ _ _ _ H) as [a [Ha Hv]].
  destruct (sub_walk_in _ _ _ _ Ha) as (al & nm & ar & di & su & _ & _ & ->).
  destruct (sub_field_cases c nm) as [[E _]|[E|E]]; rewrite E in Hv; cbn in Hv; try discriminate.
  now injection Hv as <-.
Qed.

Lemma stream_no_resolver : forall c frags n sels fl,
    only c = true -> flat OpSubscription frags n sels = Ok fl ->
    (forall x, In x fl -> kc c OpSubscription (snd x) <> 3) ->
    log_zero (log_of OpSubscription (sub_walk c sels)) = true.
Proof.
  intros c frags n sels fl Ho Hf Hk. apply log_zero_of. apply Forall_forall. intros [k a] Hin.
  destruct (sub_walk_in _ _ _ _ Hin) as (al & nm & ar & di & su & Hi & -> & ->). cbn [snd].
  destruct (sub_field_cases c nm) as [[E Ec]|[E|E]]; rewrite E; try reflexivity.
  exfalso. unfold flat in Hf.
  pose proof (gwalk_direct frags (root_name OpSubscription) (fun k nm => (k, classify OpSubscription nm))
                _ _ _ Hf _ _ _ _ _ Hi) as Hx.
  apply (Hk _ Hx). cbn [snd]. rewrite Ec.
  unfold field_action in E. unfold kc.
  destruct (c_flav c) eqn:Ef.
  - unfold static_subscription_field in E. rewrite Ho in E. discriminate.
  - now rewrite Ho.
Qed.

(* ------------------------------------------------------------ main theorems *)
Lemma exec_cases : forall c o frags n sels m,
    exec c o frags n sels = Ok m ->
    m = obs_rejected
    \/ (o = OpSubscription /\ c_stream c = true /\ m = obs_of_stream (sub_walk c sels))
    \/ (is_subscription o = false /\ vwalk c o frags n sels = Ok true /\
        exists l, walk c o frags n sels = Ok l /\ m = obs_of_object o l).
Proof.
  intros c o frags n sels m H. unfold exec in H.
  destruct (vwalk c o frags n sels) as [b| | |] eqn:Ev; try discriminate. cbn [bindo] in H.
  destruct b; cbn [negb] in H; [|left; now injection H].
  unfold run_valid in H. destruct o.
  - right. right. split; [reflexivity|]. split; [reflexivity|].
    destruct (walk c OpQuery frags n sels) as [l| | |]; try discriminate. exists l. split; [reflexivity|].
    cbn [bindo] in H. now injection H.
  - right. right. split; [reflexivity|]. split; [reflexivity|].
    destruct (walk c OpMutation frags n sels) as [l| | |]; try discriminate. exists l. split; [reflexivity|].
    cbn [bindo] in H. now injection H.
  - destruct (c_stream c) eqn:Es; [right; left|left]; [|now injection H].
    repeat split. now injection H.
Qed.

(* no metadata while disabled *)
Theorem doc_disabled_no_metadata : forall c o frags n sels m fl,
    disabled c = true ->
    exec c o frags n sels = Ok m -> flat o frags n sels = Ok fl ->
    (forall x, In x fl -> kc c o (snd x) <> 1) ->
    forall k v, In (k, v) (o_fields m) -> is_meta_value v = false.
Proof.
  intros c o frags n sels m fl Hd He Hf Hk k v Hin.
  destruct (exec_cases _ _ _ _ _ _ He) as [->|[(-> & _ & ->)|(Hs & _ & l & Hw & ->)]].
  - cbn in Hin. destruct Hin.
  - cbn [o_fields obs_of_stream] in Hin. eapply stream_no_metadata; exact Hin.
  - cbn [o_fields obs_of_object] in Hin. eapply object_no_metadata; eauto.
Qed.

(* no resolver under introspection-only *)
Theorem doc_only_no_resolver : forall c o frags n sels m fl,
    only c = true ->
    exec c o frags n sels = Ok m -> flat o frags n sels = Ok fl ->
    (forall x, In x fl -> kc c o (snd x) <> 2 /\ kc c o (snd x) <> 3) ->
    o_log m = (0, 0, 0, 0).
Proof.
  intros c o frags n sels m fl Ho He Hf Hk.
  assert (Hz : log_zero (o_log m) = true).
  { destruct (exec_cases _ _ _ _ _ _ He) as [->|[(-> & _ & ->)|(Hs & _ & l & Hw & ->)]].
    - reflexivity.
    - cbn [o_log obs_of_stream]. eapply stream_no_resolver; eauto. intros x Hx. now destruct (Hk _ Hx).
    - cbn [o_log obs_of_object]. eapply object_no_resolver; eauto. }
  destruct (o_log m) as [[[a b] d] e]. unfold log_zero in Hz.
  apply andb_prop in Hz as [Hz He']. apply andb_prop in Hz as [Hz Hd']. apply andb_prop in Hz as [Ha' Hb'].
  apply N.eqb_eq in Ha', Hb', Hd', He'. now subst.
Qed.

(* __typename is answered with the root type's name *)
Theorem doc_typename_always : forall c o frags n sels m fl,
    is_subscription o = false ->
    exec c o frags n sels = Ok m -> flat o frags n sels = Ok fl ->
    keys_ok fl = true ->
    (forall x, In x fl -> kc c o (snd x) <> 4) ->
    o_data m = true ->
    forall k, In (k, CTypename) fl -> assocv k (o_fields m) = Some (VcTypename (root_name o)).
Proof.
  intros c o frags n sels m fl Hs He Hf Hko Hk Hd k Hin.
  destruct (exec_cases _ _ _ _ _ _ He) as [->|[(-> & _ & _)|(_ & _ & l & Hw & ->)]]; try discriminate.
  cbn [o_fields obs_of_object]. eapply object_typename; eauto.
Qed.

(* ... and a document of __typename fields is always answered *)
Theorem doc_typename_answered : forall c o frags n sels m,
    is_subscription o = false ->
    exec c o frags n sels = Ok m -> tn_only o frags n sels = Ok true -> o_data m = true.
Proof.
  intros c o frags n sels m Hs He Ht. unfold exec in He.
  destruct (vwalk c o frags n sels) as [b| | |] eqn:Ev; try discriminate. cbn [bindo] in He.
  rewrite (tn_only_valid _ _ _ _ _ _ Hs Ht Ev) in He. cbn [negb] in He.
  unfold run_valid in He. destruct o; try discriminate;
    match type of He with bindo ?w _ = _ => destruct w; try discriminate end;
    cbn [bindo] in He; now injection He as <-.
Qed.

(* the verdict of the correspondence files is the theorems': outside the known
   classes the model's response satisfies the whole specification *)
Theorem check_complete : forall c o frags n sels m fl pt,
    exec c o frags n sels = Ok m -> flat o frags n sels = Ok fl -> tn_only o frags n sels = Ok pt ->
    first_kc c o fl = 0 -> spec_ok c o fl pt m = true.
Proof.
  intros c o frags n sels m fl pt He Hf Ht Hk0.
  rewrite first_kc_zero in Hk0.
  assert (Hne : forall j, j <> 0 -> forall x, In x fl -> kc c o (snd x) <> j)
    by (intros j Hj x Hx; rewrite (Hk0 _ Hx); congruence).
  unfold spec_ok. apply andb_true_intro. split; [apply andb_true_intro; split|].
  - unfold spec_no_metadata. destruct (disabled c) eqn:Hd; [|reflexivity]. cbn [negb orb].
    apply forallb_forall. intros [k v] Hin. cbn [snd]. apply negb_true_iff.
    eapply doc_disabled_no_metadata; eauto. apply Hne. discriminate.
  - unfold spec_no_resolver. destruct (only c) eqn:Ho; [|reflexivity]. cbn [negb orb].
    erewrite doc_only_no_resolver; eauto. intros x Hx. split; apply Hne; auto; discriminate.
  - unfold spec_typename. destruct (is_subscription o) eqn:Hs; [reflexivity|].
    destruct (keys_ok fl) eqn:Hko; [|reflexivity]. cbn [negb orb].
    apply andb_true_intro. split.
    + destruct (o_data m) eqn:Hd; [|reflexivity]. cbn [negb orb].
      apply forallb_forall. intros [k cls] Hin. unfold typename_answered. cbn [fst snd].
      destruct cls; try reflexivity. cbn [is_typename_class negb orb].
      erewrite doc_typename_always; eauto.
      * cbn. now rewrite name_eqb_refl.
      * apply Hne. discriminate.
    + destruct pt; [|reflexivity]. cbn [negb orb]. eapply doc_typename_answered; eauto.
Qed.

(* -------------------------------------------------------------- refutations *)
(* one-field documents, fuel 5 *)
Definition doc1 (nm : name) : list selection := [SField (Some 16) nm [] [] []].
Definition mk (f : flavour) (d : fedmode) (s r : imode) (t : bool) : cfg :=
  {| c_flav := f; c_fed := d; c_smode := s; c_rmode := r; c_stream := t |}.

(* class 1: static, request-level disable, `{ k: _service }` *)
Lemma refuted_service_sdl :
  exists c m, disabled c = true /\ exec c OpQuery [] 5 (doc1 N_service) = Ok m /\
              In (16, VcSdl) (o_fields m).
Proof.
  exists (mk Static FedFlag MEnabled MDisabled false). eexists. split; [reflexivity|].
  split; [vm_compute; reflexivity|]. now left.
Qed.

(* class 2: dynamic, request-level introspection-only, `{ k: _entities }` *)
Lemma refuted_dynamic_entities :
  exists c m, only c = true /\ exec c OpQuery [] 5 (doc1 N_entities) = Ok m /\ o_log m = (0, 0, 0, 1).
Proof.
  exists (mk Dynamic FedEnt MEnabled MOnly false). eexists. split; [reflexivity|].
  split; vm_compute; reflexivity.
Qed.

(* class 3: dynamic, introspection-only schema, `subscription { k: s }` *)
Lemma refuted_dynamic_subscription :
  exists c m, only c = true /\ exec c OpSubscription [] 5 (doc1 N_s) = Ok m /\ o_log m = (0, 0, 1, 0).
Proof.
  exists (mk Dynamic FedOff MOnly MEnabled true). eexists. split; [reflexivity|].
  split; vm_compute; reflexivity.
Qed.

(* class 4: static, introspection-only, `mutation { k: __typename }` names the
   stand-in root; `mutation { ... on Mutation { k: __typename } }` loses the key *)
Lemma refuted_mutation_typename :
  exists c m m',
    exec c OpMutation [] 5 (doc1 N_typename) = Ok m /\
    assocv 16 (o_fields m) = Some (VcTypename T_EmptyMutation) /\
    exec c OpMutation [] 5 [SInline (Some T_Mutation) [] (doc1 N_typename)] = Ok m' /\
    o_data m' = true /\ assocv 16 (o_fields m') = None /\
    flat OpMutation [] 5 [SInline (Some T_Mutation) [] (doc1 N_typename)] = Ok [(16, CTypename)].
Proof.
  exists (mk Static FedOff MEnabled MOnly false). do 2 eexists.
  repeat split; vm_compute; reflexivity.
Qed.

(* ------------------------------------------------------------ non-vacuity -- *)
(* a document mixing all six classes through fragments, in a configuration and
   outside every class: the hypotheses of check_complete hold and the response
   carries data, metadata, SDL, an entity and a user value *)
Definition mixed_frags : list (name * fragment) :=
  [(30, {| fr_cond := T_Query; fr_dirs := [];
           fr_sels := [SField (Some 21) N_type [] [] []; SInline None [] [SField (Some 22) N_service [] [] []]] |})].
Definition mixed_sels : list selection :=
  [SField (Some 20) N_typename [] [] []; SSpread 30 [];
   SInline (Some T_Query) [] [SField (Some 23) N_entities [] [] []; SField (Some 24) N_q [] [] []];
   SField (Some 25) N_schema [] [] []].

Lemma nonvacuous_enabled :
  let c := mk Static FedEnt MEnabled MEnabled false in
  exists m fl, exec c OpQuery mixed_frags 20 mixed_sels = Ok m /\
               flat OpQuery mixed_frags 20 mixed_sels = Ok fl /\ first_kc c OpQuery fl = 0 /\
               length fl = 6%nat /\ o_log m = (1, 0, 0, 1) /\
               o_fields m = [(20, VcTypename T_Query); (21, VcMeta); (22, VcSdl); (23, VcEntity); (24, VcUser); (25, VcMeta)].
Proof. do 2 eexists. repeat split; vm_compute; reflexivity. Qed.

(* the same document under introspection-only (dynamic flavour would be class
   2; static is outside every class): metadata is served, nothing runs *)
Lemma nonvacuous_only :
  let c := mk Static FedEnt MOnly MEnabled false in
  exists m fl, only c = true /\ exec c OpQuery mixed_frags 20 mixed_sels = Ok m /\
               flat OpQuery mixed_frags 20 mixed_sels = Ok fl /\ first_kc c OpQuery fl = 0 /\
               o_log m = (0, 0, 0, 0) /\
               o_fields m = [(20, VcTypename T_Query); (21, VcMeta); (22, VcNull); (23, VcNull); (24, VcNull); (25, VcMeta)].
Proof. do 2 eexists. repeat split; vm_compute; reflexivity. Qed.

(* ... and with introspection disabled for the request on the dynamic flavour *)
Lemma nonvacuous_disabled :
  let c := mk Dynamic FedEnt MEnabled MDisabled false in
  exists m fl, disabled c = true /\ exec c OpQuery mixed_frags 20 mixed_sels = Ok m /\
               flat OpQuery mixed_frags 20 mixed_sels = Ok fl /\ first_kc c OpQuery fl = 0 /\
               o_log m = (1, 0, 0, 0) /\
               o_fields m = [(20, VcTypename T_Query); (24, VcUser)].
Proof. do 2 eexists. repeat split; vm_compute; reflexivity. Qed.

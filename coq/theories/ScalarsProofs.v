(* ScalarsProofs.v — lemmas about Scalars.v (no model definitions here). *)
From AG Require Import Scalars.
Open Scope Z_scope.

Ltac zcases :=
  repeat match goal with
         | |- context [Z.eqb ?a ?b] => destruct (Z.eqb_spec a b)
         | |- context [Z.gtb ?a ?b] => rewrite (Z.gtb_ltb a b); destruct (Z.ltb_spec b a)
         | |- context [Z.ltb ?a ?b] => destruct (Z.ltb_spec a b)
         | |- context [Z.leb ?a ?b] => destruct (Z.leb_spec a b)
         end.

(* what "v denotes the value x of the integer type (t, nz)" means *)
Definition denotes_int (t : ity) (nz : bool) (v : gv) (x : Z) : Prop :=
  v = GInt x /\ ity_min t <= x <= ity_max t /\ (nz = true -> x <> 0).

Lemma in_ty_spec t nz x :
  in_ty t nz x = true <-> ity_min t <= x <= ity_max t /\ (nz = true -> x <> 0).
Proof.
  unfold in_ty. rewrite !andb_true_iff, negb_true_iff, Z.leb_le, Z.leb_le.
  destruct nz; cbn [andb].
  - rewrite Z.eqb_neq. intuition.
  - intuition discriminate.
Qed.

(* one row behaves as the Rust type in its header demands *)
Definition row_ok (im : int_impl) : Prop :=
  forall v, wf_gv v = true ->
    (forall x, parse_int im v = Ok x <-> (v = GInt x /\ in_ty (ii_prim im) (ii_nonzero im) x = true)) /\
    (parse_int im v <> Panic /\ parse_int im v <> OutOfFuel).


Ltac closed_consts :=
  repeat match goal with
  | |- context [wrap ?t (ity_min ?u)] =>
      let r := eval vm_compute in (wrap t (ity_min u)) in change (wrap t (ity_min u)) with r
  | |- context [wrap ?t (ity_max ?u)] =>
      let r := eval vm_compute in (wrap t (ity_max u)) in change (wrap t (ity_max u)) with r
  end.
Ltac closed_bounds :=
  repeat match goal with
  | |- context [ity_min ?t] => let r := eval vm_compute in (ity_min t) in change (ity_min t) with r
  | |- context [ity_max ?t] => let r := eval vm_compute in (ity_max t) in change (ity_max t) with r
  | |- context [ity_half ?t] => let r := eval vm_compute in (ity_half t) in change (ity_half t) with r
  | |- context [ity_mod ?t] => let r := eval vm_compute in (ity_mod t) in change (ity_mod t) with r
  | |- context [ity_signed ?t] => let r := eval vm_compute in (ity_signed t) in change (ity_signed t) with r
  end.


Lemma wrap_id t z : ity_min t <= z <= ity_max t -> wrap t z = z.
Proof.
  intros [H1 H2]. unfold wrap.
  apply Z.leb_le in H1. apply Z.leb_le in H2. rewrite H1, H2. reflexivity.
Qed.

Ltac wrap_ok :=
  repeat match goal with
  | |- context [wrap ?t ?z] => rewrite (wrap_id t z) by (closed_bounds; lia)
  | H : context [wrap ?t ?z] |- _ => rewrite (wrap_id t z) in H by (closed_bounds; lia)
  end.

Ltac row_tac :=
  intros v Hwf; destruct v as [|z|b|s|b|l|s|l|l];
  try (split; [intros x; split; [discriminate | intros [E _]; discriminate] | split; discriminate]);
  cbn [wf_gv] in Hwf; unfold wf_int, i64_min, u64_max in Hwf;
  apply andb_true_iff in Hwf; destruct Hwf as [Hlo Hhi];
  apply Z.leb_le in Hlo; apply Z.leb_le in Hhi;
  unfold parse_int, in_ty, as_i64, as_u64, i64_max;
  cbn [ii_acc ii_conds ii_cast ii_unwrap ii_prim ii_nonzero existsb eval_cond];
  closed_consts; closed_bounds;
  split; [intros x; split; [ | intros [E H]; inversion E; subst z; clear E; revert H] | ];
  zcases; cbn [orb andb negb]; try discriminate; try (split; discriminate);
  wrap_ok; try lia;
  try (intros E; inversion E; subst; split; [reflexivity | try reflexivity; lia]);
  try (intros _; f_equal; lia).

(* ------------------------------------------------------------ integer table -- *)
(* every row of the table translated from integers.rs / non_zero_integers.rs *)
Lemma table_rows_ok : forall p, In p int_impls_gen -> row_ok (snd p).
Proof.
  intros p H. unfold int_impls_gen in H. cbn [In] in H.
  repeat (destruct H as [H|H]; [subst p; cbn [snd]; row_tac | ]).
  destruct H.
Qed.

(* the table has one row per integer scalar type, declared for that type *)
Definition table_shape : list (N * ity * bool) :=
  map (fun p => (fst p, ii_prim (snd p), ii_nonzero (snd p))) int_impls_gen.

Lemma table_complete :
  table_shape =
  [(0, I8, false); (1, I16, false); (2, I32, false); (3, I64, false); (4, Isize, false);
   (5, U8, false); (6, U16, false); (7, U32, false); (8, U64, false); (9, Usize, false);
   (10, I8, true); (11, I16, true); (12, I32, true); (13, I64, true); (14, Isize, true);
   (15, U8, true); (16, U16, true); (17, U32, true); (18, U64, true); (19, Usize, true)]%N.
Proof. reflexivity. Qed.

Lemma assoc_In {A} k (l : list (name * A)) v : assoc k l = Some v -> In (k, v) l.
Proof.
  induction l as [|[k' v'] l IH]; cbn [assoc]; [discriminate|].
  destruct (name_eqb k k') eqn:E.
  - apply name_eqb_eq in E. intros H; inversion H; subst. left; reflexivity.
  - intros H; right; auto.
Qed.

Lemma row_of_table id im : assoc id int_impls_gen = Some im -> row_ok im.
Proof.
  intros H. apply assoc_In in H.
  exact (table_rows_ok _ H).
Qed.

Theorem int_exact id im v x :
  assoc id int_impls_gen = Some im -> wf_gv v = true ->
  (parse_int im v = Ok x <-> denotes_int (ii_prim im) (ii_nonzero im) v x).
Proof.
  intros H W. destruct (row_of_table _ _ H v W) as [E _].
  unfold denotes_int. rewrite E, in_ty_spec. tauto.
Qed.

(* every other value is rejected with an error: no panic, no other outcome *)
Theorem int_rejects id im v :
  assoc id int_impls_gen = Some im -> wf_gv v = true ->
  (forall x, ~ denotes_int (ii_prim im) (ii_nonzero im) v x) ->
  exists c, parse_int im v = Err c.
Proof.
  intros H W D. destruct (row_of_table _ _ H v W) as [_ [P F]].
  destruct (parse_int im v) as [x|c| |] eqn:E.
  - exfalso. apply (D x). apply (int_exact _ _ _ _ H W). exact E.
  - eexists; reflexivity.
  - congruence.
  - congruence.
Qed.

Lemma ity_in_number t x : ity_min t <= x <= ity_max t -> wf_int x = true.
Proof.
  unfold wf_int, i64_min, u64_max. intros [H1 H2].
  apply andb_true_iff. rewrite !Z.leb_le.
  assert (A : -9223372036854775808 <= ity_min t) by (destruct t; vm_compute; discriminate).
  assert (B : ity_max t <= 18446744073709551615) by (destruct t; vm_compute; discriminate).
  lia.
Qed.

Ltac tv_tac :=
  intros x H; apply in_ty_spec in H; cbn [ii_prim ii_nonzero] in H; revert H; closed_bounds; intros [H _];
  unfold to_value_int; cbn [ii_tv_cast]; try rewrite wrap_id by (closed_bounds; lia); reflexivity.

Definition row_tv_ok (im : int_impl) : Prop :=
  forall x, in_ty (ii_prim im) (ii_nonzero im) x = true -> to_value_int im x = GInt x.

Lemma table_rows_tv_ok : forall p, In p int_impls_gen -> row_tv_ok (snd p).
Proof.
  intros p H. unfold int_impls_gen in H. cbn [In] in H.
  repeat (destruct H as [H|H]; [subst p; cbn [snd]; unfold row_tv_ok; tv_tac | ]).
  destruct H.
Qed.

Theorem int_to_value id im x :
  assoc id int_impls_gen = Some im -> in_ty (ii_prim im) (ii_nonzero im) x = true ->
  to_value_int im x = GInt x.
Proof.
  intros H. apply assoc_In in H.
  exact (table_rows_tv_ok _ H x).
Qed.

Theorem int_roundtrip id im x :
  assoc id int_impls_gen = Some im -> in_ty (ii_prim im) (ii_nonzero im) x = true ->
  parse_int im (to_value_int im x) = Ok x.
Proof.
  intros H I. rewrite (int_to_value _ _ _ H I).
  pose proof I as I'. apply in_ty_spec in I'.
  apply (int_exact _ _ _ _ H).
  - cbn [wf_gv]. apply (ity_in_number (ii_prim im)). exact (proj1 I').
  - unfold denotes_int. split; [reflexivity | exact I'].
Qed.

(* integral floats do not denote integers and are rejected by every row *)
Theorem int_rejects_float id im b :
  assoc id int_impls_gen = Some im -> exists c, parse_int im (GFloat b) = Err c.
Proof. intros _. eexists; reflexivity. Qed.

(* -------------------------------------------------- strings and their kin -- *)
Lemma str_eqb_eq a b : str_eqb a b = true <-> a = b.
Proof.
  unfold str_eqb, list_eqb. revert b.
  induction a as [|x a IH]; destruct b as [|y b]; cbn [forallb2]; try (split; congruence).
  - rewrite andb_true_iff, IH, N.eqb_eq. split; [intros [-> ->]; reflexivity | intros H; inversion H; auto].
Qed.

Lemma str_eqb_refl a : str_eqb a a = true.
Proof. apply str_eqb_eq. reflexivity. Qed.

Theorem bool_exact v b : parse_bool v = Ok b <-> v = GBool b.
Proof. destruct v; cbn; split; intros H; inversion H; reflexivity. Qed.
Theorem bool_rejects v : (forall b, v <> GBool b) -> exists c, parse_bool v = Err c.
Proof. destruct v; cbn; intros H; try (eexists; reflexivity). exfalso; eapply H; reflexivity. Qed.
Theorem bool_roundtrip b : parse_bool (to_value_bool b) = Ok b.
Proof. reflexivity. Qed.

Theorem string_exact v s : parse_string v = Ok s <-> v = GStr s.
Proof. destruct v; cbn; split; intros H; inversion H; reflexivity. Qed.
Theorem string_rejects v : (forall s, v <> GStr s) -> exists c, parse_string v = Err c.
Proof. destruct v; cbn; intros H; try (eexists; reflexivity). exfalso; eapply H; reflexivity. Qed.
Theorem string_roundtrip s : parse_string (to_value_string s) = Ok s.
Proof. reflexivity. Qed.

(* char: exactly the strings of one Unicode scalar value *)
Theorem char_exact v c : parse_char v = Ok c <-> v = GStr [c].
Proof.
  destruct v as [| | |s| | | | |];
    try (cbn [parse_char]; split; intros H; discriminate H).
  destruct s as [|a [|b s]]; cbn [parse_char]; split; intros H; try discriminate H;
    inversion H; reflexivity.
Qed.
Theorem char_rejects v : (forall c, v <> GStr [c]) -> exists e, parse_char v = Err e.
Proof.
  destruct v as [| | |s| | | | |]; cbn; intros H; try (eexists; reflexivity).
  destruct s as [|a [|b s]]; try (eexists; reflexivity). exfalso; eapply H; reflexivity.
Qed.
Theorem char_roundtrip c : parse_char (to_value_char c) = Ok c.
Proof. reflexivity. Qed.

(* ID *)
Definition denotes_id (v : gv) (s : str) : Prop :=
  v = GStr s \/ exists z, v = GInt z /\ s = dec_Z z.

Lemma spec_id_denotes v s : spec_id v = Ok s <-> denotes_id v s.
Proof.
  unfold denotes_id. destruct v as [|z|b|s0|b|l|s0|l|l]; cbn [spec_id]; split; intros H;
    try discriminate H;
    try (destruct H as [H|[z' [H _]]]; discriminate H).
  - inversion H. right. eexists; split; reflexivity.
  - destruct H as [H|[z' [H ->]]]; [discriminate H|]. inversion H; reflexivity.
  - inversion H; left; reflexivity.
  - destruct H as [H|[z' [H _]]]; [|discriminate H]. inversion H; reflexivity.
Qed.

(* every integer a Number can hold, and every string, is accepted as the ID it denotes *)
Lemma parse_id_int z : parse_id (GInt z) = Ok (dec_Z z).
Proof.
  cbn [parse_id]. unfold as_i64, as_u64.
  destruct (Z.ltb_spec z 0); [reflexivity|].
  destruct (Z.leb_spec z i64_max); reflexivity.
Qed.

Theorem id_exact v s : parse_id v = Ok s <-> denotes_id v s.
Proof.
  rewrite <- spec_id_denotes.
  destruct v as [|z|b|s0|b|l|s0|l|l]; try (cbn [spec_id parse_id]; tauto);
    try (cbn [spec_id parse_id]; split; intros H; discriminate H).
  rewrite parse_id_int. cbn [spec_id]. tauto.
Qed.

Theorem id_rejects v :
  (forall s, ~ denotes_id v s) -> exists c, parse_id v = Err c.
Proof.
  intros H. destruct v as [|z|b|s|b|l|s|l|l]; cbn [parse_id]; try (eexists; reflexivity).
  - exfalso. apply (H (dec_Z z)). right. eexists; split; reflexivity.
  - exfalso. apply (H s). left; reflexivity.
Qed.

Theorem id_roundtrip s : parse_id (to_value_id s) = Ok s.
Proof. reflexivity. Qed.

(* repaired finding (was: integers above i64::MAX rejected): the former witness is accepted *)
Theorem id_accepts_all_integers :
  (forall z, parse_id (GInt z) = Ok (dec_Z z)) /\
  (forall sc v, known_parse sc v <> 2%N) /\
  parse_id (GInt 9223372036854775808) = Ok (dec_Z 9223372036854775808).
Proof.
  split; [exact parse_id_int|]. split; [|apply parse_id_int].
  intros sc v. destruct sc; destruct v; cbn [known_parse]; try discriminate;
    destruct (num_value _) as [[[? ?] ?]|]; try discriminate;
    destruct (representable _ _ _); discriminate.
Qed.

(* ------------------------------------------------------------------- enums -- *)
Lemma find_name_In s items x : find_name s items = Some x -> In (s, x) items.
Proof.
  induction items as [|[n y] l IH]; cbn [find_name]; [discriminate|].
  destruct (str_eqb n s) eqn:E.
  - apply str_eqb_eq in E. intros H; inversion H; subst. left; reflexivity.
  - intros H; right; auto.
Qed.

Lemma In_find_name s items x :
  NoDup (map fst items) -> In (s, x) items -> find_name s items = Some x.
Proof.
  induction items as [|[n y] l IH]; cbn [find_name map fst]; [intros _ []|].
  intros ND [H|H].
  - inversion H; subst. rewrite str_eqb_refl. reflexivity.
  - inversion ND as [|? ? Hn ND']; subst.
    destruct (str_eqb n s) eqn:E.
    + apply str_eqb_eq in E; subst. exfalso. apply Hn.
      change s with (fst (s, x)). apply in_map. exact H.
    + apply IH; assumption.
Qed.

Definition denotes_enum (items : list (str * N)) (v : gv) (x : N) : Prop :=
  exists s, (v = GEnum s \/ v = GStr s) /\ In (s, x) items.

Theorem enum_exact items v x :
  NoDup (map fst items) ->
  (parse_enum items v = Ok x <-> denotes_enum items v x).
Proof.
  intros ND. unfold denotes_enum.
  destruct v; cbn [parse_enum];
    try (split; [discriminate | intros [s0 [[H|H] _]]; discriminate]).
  - destruct (find_name s items) eqn:F; split.
    + intros H; inversion H; subst. exists s. split; [right; reflexivity|]. apply find_name_In; exact F.
    + intros [s0 [[H|H] I]]; [discriminate|]. inversion H; subst.
      rewrite (In_find_name _ _ _ ND I) in F. congruence.
    + discriminate.
    + intros [s0 [[H|H] I]]; [discriminate|]. inversion H; subst.
      rewrite (In_find_name _ _ _ ND I) in F. discriminate.
  - destruct (find_name s items) eqn:F; split.
    + intros H; inversion H; subst. exists s. split; [left; reflexivity|]. apply find_name_In; exact F.
    + intros [s0 [[H|H] I]]; [|discriminate]. inversion H; subst.
      rewrite (In_find_name _ _ _ ND I) in F. congruence.
    + discriminate.
    + intros [s0 [[H|H] I]]; [|discriminate]. inversion H; subst.
      rewrite (In_find_name _ _ _ ND I) in F. discriminate.
Qed.

Theorem enum_rejects items v :
  (forall x, ~ denotes_enum items v x) -> exists c, parse_enum items v = Err c.
Proof.
  intros H. destruct v; cbn [parse_enum]; try (eexists; reflexivity);
    destruct (find_name s items) eqn:F; try (eexists; reflexivity);
    exfalso; apply (H n); exists s; (split; [auto | apply find_name_In; exact F]).
Qed.

Lemma find_value_In x items n : find_value x items = Some n -> In (n, x) items.
Proof.
  induction items as [|[m y] l IH]; cbn [find_value]; [discriminate|].
  destruct (N.eqb y x) eqn:E.
  - apply N.eqb_eq in E. intros H; inversion H; subst. left; reflexivity.
  - intros H; right; auto.
Qed.

Lemma In_find_value x items :
  In x (map snd items) -> exists n, find_value x items = Some n.
Proof.
  induction items as [|[m y] l IH]; cbn [find_value map snd]; [intros []|].
  intros [H|H].
  - subst. rewrite N.eqb_refl. eexists; reflexivity.
  - destruct (N.eqb y x); [eexists; reflexivity | auto].
Qed.

(* serialising any declared variant never panics and coerces back to it *)
Theorem enum_roundtrip items x :
  NoDup (map fst items) -> In x (map snd items) ->
  exists v, enum_value items x = Ok v /\ parse_enum items v = Ok x.
Proof.
  intros ND I. destruct (In_find_value _ _ I) as [n F].
  unfold enum_value. rewrite F. eexists; split; [reflexivity|].
  cbn [parse_enum]. rewrite (In_find_name _ _ _ ND (find_value_In _ _ _ F)). reflexivity.
Qed.

(* Crash.v — C12: models of the decoders of client-controlled data that contain
   unwrap / expect / index / arithmetic sites, each returning [Base.outcome]
   (Ok | Err | Panic), plus the recognisers of the grammar rules that guard
   them, the specification ("never Panic") and the per-case verdict functions.
   Executable definitions only, no proofs (CrashProofs.v).

   Modelled code (what the code DOES, panicking sites included):
     src/types/upload.rs      Upload::parse (strip_prefix(PREFIX), parse::<usize>().unwrap()),
                              Upload::value (ctx.query_env.uploads[self.0])
     src/request.rs           Request::set_upload / variable_path (parts.next().unwrap(),
                              parse::<u32>, uploads.len() - 1)
     src/http/multipart.rs    the product max_file_size * max_num_files (usize)
     parser/src/parse/utils.rs   string_value (expect("backslash at end"), unwrap x3, unreachable!),
                                 exactly_one (next().unwrap(), debug_assert!)
     parser/src/types/mod.rs     Type::new (used as Type::new(..).unwrap() in parse_type)
   Recognisers written from parser/src/graphql.pest: string_character /
   string_content, unicode_scalar_value_hex, name, type_.
   Rust's integer parsing (core::num from_str_radix) is Cursor.parse_int. *)
From AG Require Export Base Cursor.
From AGgen Require Import CrashConstGen.
Open Scope Z_scope.

(* ------------------------------------------------------------- basics ----- *)
Definition U64 : int_ty := {| it_signed := false; it_bits := 64 |}.
Definition U32 : int_ty := {| it_signed := false; it_bits := 32 |}.
Definition usize_max : Z := 2 ^ 64 - 1.

(* str::strip_prefix *)
Fixpoint strip_prefix (p s : str) : option str :=
  match p, s with
  | [], _ => Some s
  | a :: p', b :: s' => if (a =? b)%N then strip_prefix p' s' else None
  | _ :: _, [] => None
  end.

(* str::strip_suffix(char) *)
Definition strip_suffix_c (c : cp) (s : str) : option str :=
  match rev s with
  | c' :: r => if (c' =? c)%N then Some (rev r) else None
  | [] => None
  end.

Definition is_panic {A} (o : outcome A) : bool := match o with Panic => true | _ => false end.
(* the specification of C12 on one decoder call: whatever the input, no panic *)
Definition no_panic {A} (o : outcome A) : bool := negb (is_panic o).

Definition outcome_eqb {A} (f : A -> A -> bool) (x y : outcome A) : bool :=
  match x, y with
  | Ok a, Ok b => f a b
  | Err _, Err _ => true          (* error texts are not compared *)
  | Panic, Panic => true
  | OutOfFuel, OutOfFuel => true
  | _, _ => false
  end.

(* outcome classes used on the wire: 0 = returned a value, 1 = returned an
   error, 2 = panicked *)
Definition class_of {A} (o : outcome A) : N :=
  match o with Ok _ => 0 | Err _ => 1 | Panic => 2 | OutOfFuel => 3 end%N.

(* --------------------------------------------------------------- quirks --- *)
(* One flag per confirmed deviation; [quirks_today] is read from the source on
   every run (tools/factsgen/crashconst.py): is the panicking form still there? *)
Record quirks := { q_parse_unwrap : bool; q_value_index : bool }.
Definition quirks_today : quirks :=
  {| q_parse_unwrap := upload_parse_unwraps_gen; q_value_index := upload_value_indexes_gen |}.
Definition quirks_all : quirks := {| q_parse_unwrap := true; q_value_index := true |}.
Definition quirks_none : quirks := {| q_parse_unwrap := false; q_value_index := false |}.

(* ------------------------------------------------------ upload markers ---- *)
(* What Upload::parse distinguishes of a Value. *)
Inductive uval := UNull | UStr (s : str) | UOther.

Definition E_TYPE : N := 1%N.   (* InputValueError::expected_type *)
Definition E_INDEX : N := 2%N.  (* (corrected code only) no such upload *)

(* impl InputType for Upload :: parse *)
Definition upload_parse (q : quirks) (v : option uval) : outcome Z :=
  match v with
  | Some (UStr s) =>
      match strip_prefix upload_prefix_gen s with
      | Some filename =>
          match parse_int U64 filename with
          | Some n => Ok n
          | None => if q_parse_unwrap q then Panic (* .unwrap() *) else Err E_TYPE
          end
      | None => Err E_TYPE
      end
  | _ => Err E_TYPE               (* None -> Value::Null (unwrap_or_default) *)
  end.

(* Upload::value: ctx.query_env.uploads[self.0] *)
Definition upload_value (q : quirks) (nuploads idx : Z) : outcome Z :=
  if idx <? nuploads then Ok idx
  else if q_value_index q then Panic (* index out of bounds *) else Err E_INDEX.

(* a resolver that takes an Upload argument and reads the file *)
Definition upload_field (q : quirks) (nuploads : Z) (v : option uval) : outcome Z :=
  bindo (upload_parse q v) (upload_value q nuploads).

(* The known classes, written from the statement of the findings (and with the
   independent integer syntax [spec_parse_int]):
   1 = the string carries the marker prefix but what follows is not a usize;
   2 = it is a usize but no file with that index was uploaded. *)
Definition upload_known_class (nuploads : Z) (v : option uval) : N :=
  match v with
  | Some (UStr s) =>
      match strip_prefix upload_prefix_gen s with
      | Some rest =>
          match spec_parse_int U64 rest with
          | None => 1%N
          | Some i => if i <? nuploads then 0%N else 2%N
          end
      | None => 0%N
      end
  | _ => 0%N
  end.
Definition upload_parse_known_class (v : option uval) : N :=
  match upload_known_class 0 v with 1%N => 1%N | _ => 0%N end.

(* ----------------------------------------------------------- set_upload --- *)
(* async_graphql_value::Value as far as set_upload looks at it *)
Inductive vv :=
| VLeaf (tag : N)               (* Null, Number, Boolean, Binary, Enum *)
| VStr (s : str)
| VList (l : list vv)
| VObj (m : list (str * vv)).

Fixpoint vv_eqb (a b : vv) : bool :=
  match a, b with
  | VLeaf x, VLeaf y => N.eqb x y
  | VStr x, VStr y => str_eqb x y
  | VList x, VList y =>
      (fix go (l1 l2 : list vv) : bool :=
         match l1, l2 with
         | [], [] => true
         | u :: l1', w :: l2' => vv_eqb u w && go l1' l2'
         | _, _ => false
         end) x y
  | VObj x, VObj y =>
      (fix go (l1 l2 : list (str * vv)) : bool :=
         match l1, l2 with
         | [], [] => true
         | (k1, u) :: l1', (k2, w) :: l2' => str_eqb k1 k2 && vv_eqb u w && go l1' l2'
         | _, _ => false
         end) x y
  | _, _ => false
  end.

Fixpoint sassoc {A} (k : str) (l : list (str * A)) : option A :=
  match l with
  | [] => None
  | (k', v) :: l' => if str_eqb k k' then Some v else sassoc k l'
  end.
Fixpoint sreplace {A} (k : str) (v : A) (l : list (str * A)) : list (str * A) :=
  match l with
  | [] => []
  | (k', v') :: l' => if str_eqb k k' then (k', v) :: l' else (k', v') :: sreplace k v l'
  end.
Fixpoint replace_nth {A} (i : nat) (v : A) (l : list A) : list A :=
  match l, i with
  | [], _ => []
  | _ :: l', O => v :: l'
  | x :: l', S j => x :: replace_nth j v l'
  end.

(* str::split('.'): never empty *)
Definition C_DOT : cp := 46%N.
Fixpoint split_dot_aux (cur : str) (s : str) : list str :=
  match s with
  | [] => [rev cur]
  | c :: r => if (c =? C_DOT)%N then rev cur :: split_dot_aux [] r else split_dot_aux (c :: cur) r
  end.
Definition split_dot (s : str) : list str := split_dot_aux [] s.

Definition S_VARIABLES_DOT : str := [118; 97; 114; 105; 97; 98; 108; 101; 115; 46]%N.

(* the try_fold of variable_path, fused with the final assignment *)
Fixpoint set_at (parts : list str) (v new : vv) : option vv :=
  match parts with
  | [] => Some new
  | p :: ps =>
      match v with
      | VList l =>
          match parse_int U32 p with
          | Some i =>
              (* list.get_mut(idx); the bound test first keeps [Z.to_nat] small *)
              if negb (i <? Z.of_nat (length l)) then None else
              match nth_error l (Z.to_nat i) with
              | Some x => match set_at ps x new with
                          | Some x' => Some (VList (replace_nth (Z.to_nat i) x' l))
                          | None => None
                          end
              | None => None
              end
          | None => None
          end
      | VObj m =>
          match sassoc p m with
          | Some x => match set_at ps x new with
                      | Some x' => Some (VObj (sreplace p x' m))
                      | None => None
                      end
          | None => None
          end
      | _ => None
      end
  end.
Fixpoint get_at (parts : list str) (v : vv) : option vv :=
  match parts with
  | [] => Some v
  | p :: ps =>
      match v with
      | VList l => match parse_int U32 p with
                   | Some i => if negb (i <? Z.of_nat (length l)) then None else
                               match nth_error l (Z.to_nat i) with Some x => get_at ps x | None => None end
                   | None => None
                   end
      | VObj m => match sassoc p m with Some x => get_at ps x | None => None end
      | _ => None
      end
  end.

Definition marker (n : Z) : str := upload_marker_gen ++ print_nat n.

(* Request::set_upload on (variables, number of uploads) *)
Definition set_upload (vars : list (str * vv)) (nup : Z) (path : str) : outcome (list (str * vv) * Z) :=
  match strip_prefix S_VARIABLES_DOT path with
  | None => Ok (vars, nup)                       (* strip_prefix(..)? *)
  | Some rest =>
      match split_dot rest with
      | [] => Panic                              (* parts.next().unwrap() *)
      | first :: parts =>
          match sassoc first vars with
          | None => Ok (vars, nup)               (* variables.get_mut(..)? *)
          | Some v0 =>
              let len := nup + 1 in              (* self.uploads.push(upload) *)
              match set_at parts v0 (VStr (marker (len - 1))) with
              | None => Ok (vars, nup)
              | Some v1 => if len <? 1 then Panic (* uploads.len() - 1 *) else Ok (sreplace first v1 vars, len)
              end
          end
      end
  end.

Fixpoint set_uploads (vars : list (str * vv)) (nup : Z) (paths : list str) : outcome (list (str * vv) * Z) :=
  match paths with
  | [] => Ok (vars, nup)
  | p :: ps => bindo (set_upload vars nup p) (fun r => set_uploads (fst r) (snd r) ps)
  end.

Definition vars_eqb (a b : list (str * vv)) : bool := vv_eqb (VObj a) (VObj b).

(* ---------------------------------------------- multipart limit product --- *)
(* (max_file_size * max_num_files) as u64 — usize arithmetic: panics when the
   crate is compiled with overflow checks, wraps otherwise.  Both factors are
   server configuration, not client input. *)
Definition limit_product (overflow_checks : bool) (a b : Z) : outcome Z :=
  let p := a * b in
  if p <=? usize_max then Ok p
  else if overflow_checks then Panic else Ok (p mod 2 ^ 64).

(* ---------------------------------------------------------- string_value -- *)
Definition hex_digit (c : cp) : option Z :=       (* char::to_digit(16) *)
  let z := Z.of_N c in
  if (48 <=? z) && (z <=? 57) then Some (z - 48)
  else if (97 <=? z) && (z <=? 102) then Some (z - 87)
  else if (65 <=? z) && (z <=? 70) then Some (z - 55)
  else None.
Definition is_scalar (n : Z) : bool :=            (* char::from_u32(..).is_some() *)
  (0 <=? n) && ((n <? 55296) || ((57343 <? n) && (n <=? 1114111))).

Definition C_BACKSLASH : cp := 92%N.
Definition C_U : cp := 117%N.
Definition C_QUOTE : cp := 34%N.
Definition C_CR : cp := 13%N.
Definition C_LF : cp := 10%N.

Definition cons_ok (c : cp) (o : outcome str) : outcome str :=
  match o with Ok s => Ok (c :: s) | Err e => Err e | Panic => Panic | OutOfFuel => OutOfFuel end.

(* parser/src/parse/utils.rs::string_value on an ARBITRARY character list.
   The iterator is collected, so a panic anywhere is a panic of the call. *)
Fixpoint string_value (s : str) : outcome str :=
  match s with
  | [] => Ok []
  | c :: r =>
      if (c =? C_BACKSLASH)%N then
        match r with
        | [] => Panic                                   (* expect("backslash at end") *)
        | e :: r' =>
            match assoc e string_value_escapes_gen with
            | Some v => cons_ok v (string_value r')
            | None =>
                if (e =? C_U)%N then
                  match r' with
                  | a :: b :: c' :: d :: r'' =>
                      match hex_digit a, hex_digit b, hex_digit c', hex_digit d with
                      | Some x, Some y, Some z, Some w =>
                          let n := ((x * 16 + y) * 16 + z) * 16 + w in
                          if is_scalar n then cons_ok (Z.to_N n) (string_value r'')
                          else Panic                    (* from_u32(..).unwrap() *)
                      | _, _, _, _ => Panic             (* to_digit(16).unwrap() *)
                      end
                  | _ => Panic                          (* chars.next().unwrap() *)
                  end
                else Panic                              (* unreachable!() *)
            end
        end
      else cons_ok c (string_value r)
  end.

(* graphql.pest, one [string_character] at the head of the input (PEG ordered
   choice); the result is the remaining input.
     string_character = { (!("\"" | "\\" | line_terminator) ~ ANY)
                        | ("\\" ~ ("\"" | "\\" | "/" | "b" | "f" | "n" | "r" | "t"))
                        | ("\\u" ~ unicode_scalar_value_hex) }
     unicode_scalar_value_hex = { !(^"d" ~ ('8'..'9' | 'a'..'f' | 'A'..'F')) ~ ASCII_HEX_DIGIT{4} }
     line_terminator = @{ "\r\n" | "\r" | "\n" } *)
Definition is_hex (c : cp) : bool := match hex_digit c with Some _ => true | None => false end.
Definition surrogate_lead (a b : cp) : bool :=
  ((a =? 100) || (a =? 68))%N &&
  (((56 <=? b) && (b <=? 57)) || ((97 <=? b) && (b <=? 102)) || ((65 <=? b) && (b <=? 70)))%N.
Definition unicode_scalar_value_hex (s : str) : option str :=
  match s with
  | a :: b :: c :: d :: r =>
      if negb (surrogate_lead a b) && is_hex a && is_hex b && is_hex c && is_hex d then Some r else None
  | _ => None
  end.
Definition string_character (s : str) : option str :=
  match s with
  | [] => None
  | c :: r =>
      if negb (c =? C_QUOTE)%N && negb (c =? C_BACKSLASH)%N && negb (c =? C_CR)%N && negb (c =? C_LF)%N
      then Some r
      else if (c =? C_BACKSLASH)%N then
        match r with
        | e :: r' =>
            if mem e pest_simple_escapes_gen then Some r'
            else if (e =? C_U)%N then unicode_scalar_value_hex r' else None
        | [] => None
        end
      else None
  end.

(* string_content = @{ string_character* } matches the WHOLE of s *)
Inductive string_content : str -> Prop :=
| sc_nil : string_content []
| sc_step s r : string_character s = Some r -> string_content r -> string_content s.

(* the greedy star, executable: what is left of s after string_character* *)
Fixpoint string_chars_rest (fuel : nat) (s : str) : str :=
  match fuel with
  | O => s
  | S f => match string_character s with
           | Some r => string_chars_rest f r
           | None => s
           end
  end.
Definition string_content_b (s : str) : bool := is_nil (string_chars_rest (length s) s).

(* ------------------------------------------------------------- Type::new -- *)
Inductive gty :=
| TNamed (n : str) (nullable : bool)
| TList (t : gty) (nullable : bool).

Fixpoint gty_eqb (a b : gty) : bool :=
  match a, b with
  | TNamed x p, TNamed y r => str_eqb x y && Bool.eqb p r
  | TList x p, TList y r => gty_eqb x y && Bool.eqb p r
  | _, _ => false
  end.

Definition C_BANG : cp := 33%N.
Definition C_LBRACK : cp := 91%N.
Definition C_RBRACK : cp := 93%N.

(* parser/src/types/mod.rs::Type::new; Err = None; the recursion is on a
   strictly shorter string, [fuel] only makes it structural *)
Fixpoint type_new_f (fuel : nat) (s : str) : outcome gty :=
  match fuel with
  | O => OutOfFuel
  | S f =>
      let '(nullable, ty) := match strip_suffix_c C_BANG s with
                             | Some rest => (false, rest)
                             | None => (true, s)
                             end in
      match ty with
      | c :: ty' =>
          if (c =? C_LBRACK)%N then
            match strip_suffix_c C_RBRACK ty' with
            | Some inner => match type_new_f f inner with
                            | Ok t => Ok (TList t nullable)
                            | o => o
                            end
            | None => Err 1%N
            end
          else Ok (TNamed ty nullable)
      | [] => Ok (TNamed ty nullable)
      end
  end.
Definition type_new (s : str) : outcome gty := type_new_f (S (length s)) s.
(* parse_type: Type::new(pair.as_str()).unwrap() *)
Definition parse_type_unwrap (s : str) : outcome gty :=
  match type_new s with Err _ => Panic | o => o end.

(* impl Display for Type *)
Fixpoint print_ty (t : gty) : str :=
  match t with
  | TNamed n nl => n ++ (if nl then [] else [C_BANG])
  | TList t' nl => C_LBRACK :: print_ty t' ++ [C_RBRACK] ++ (if nl then [] else [C_BANG])
  end.

(* graphql.pest:  name_start = @{ (ASCII_ALPHA | "_") }
                  name = @{ name_start ~ (ASCII_ALPHA | ASCII_DIGIT | "_")* }
                  type_ = @{ (name | "[" ~ type_ ~ "]") ~ "!"? } *)
Definition ascii_alpha (c : cp) : bool := (((97 <=? c) && (c <=? 122)) || ((65 <=? c) && (c <=? 90)))%N.
Definition ascii_digit (c : cp) : bool := ((48 <=? c) && (c <=? 57))%N.
Definition name_start (c : cp) : bool := ascii_alpha c || (c =? 95)%N.
Definition name_cont (c : cp) : bool := ascii_alpha c || ascii_digit c || (c =? 95)%N.
Definition is_name (s : str) : bool :=
  match s with
  | c :: r => name_start c && forallb name_cont r
  | [] => false
  end.
Definition bang (b : bool) : str := if b then [C_BANG] else [].

(* the strings generated by rule type_ *)
Inductive type_shape : str -> Prop :=
| ts_name n b : is_name n = true -> type_shape (n ++ bang b)
| ts_list t b : type_shape t -> type_shape (C_LBRACK :: t ++ C_RBRACK :: bang b).

(* PEG recogniser of type_ (greedy name, optional "!"): the remaining input *)
Fixpoint name_rest (s : str) : str :=
  match s with
  | c :: r => if name_cont c then name_rest r else s
  | [] => []
  end.
Definition peg_name (s : str) : option str :=
  match s with
  | c :: r => if name_start c then Some (name_rest r) else None
  | [] => None
  end.
Definition opt_bang (s : str) : str :=
  match s with c :: r => if (c =? C_BANG)%N then r else s | [] => s end.
Fixpoint peg_type (fuel : nat) (s : str) : option str :=
  match fuel with
  | O => None
  | S f =>
      match peg_name s with
      | Some r => Some (opt_bang r)
      | None =>
          match s with
          | c :: s1 =>
              if (c =? C_LBRACK)%N then
                match peg_type f s1 with
                | Some (c2 :: r) => if (c2 =? C_RBRACK)%N then Some (opt_bang r) else None
                | _ => None
                end
              else None
          | [] => None
          end
      end
  end.
Definition type_shape_b (s : str) : bool :=
  match peg_type (S (length s)) s with Some [] => true | _ => false end.

(* ------------------------------------------------------------ exactly_one - *)
(* utils.rs::exactly_one: iter.next().unwrap(); debug_assert!(iter.next().is_none()) *)
Definition exactly_one {A} (debug_assertions : bool) (l : list A) : outcome A :=
  match l with
  | [] => Panic
  | [x] => Ok x
  | x :: _ :: _ => if debug_assertions then Panic else Ok x
  end.

(* --------------------------------------------------- per-case verdicts ---- *)
(* Every stream: the term holds the input and what the real library did. *)

(* UPARSE: <Upload as InputType>::parse called directly *)
Definition check_uparse (c : option uval * outcome Z) : N :=
  let '(v, impl) := c in
  let m := upload_parse quirks_today v in
  verdict (outcome_eqb Z.eqb impl m) (no_panic m) (no_panic impl) (upload_parse_known_class v).

(* UEXEC: a mutation with an Upload argument executed by Schema::execute with
   [nup] files attached; impl = outcome class (0 data, 1 errors, 2 panic) *)
Definition check_uexec (c : Z * uval * N) : N :=
  let '(nup, v, impl) := c in
  let m := upload_field quirks_today nup (Some v) in
  verdict (N.eqb impl (class_of m)) (no_panic m) (negb (N.eqb impl 2)) (upload_known_class nup (Some v)).

(* SETUP: Request::set_upload called for each path in turn *)
Definition check_setup (c : list (str * vv) * list str * outcome (list (str * vv) * Z)) : N :=
  let '(vars, paths, impl) := c in
  let m := set_uploads vars 0 paths in
  verdict (outcome_eqb (fun a b => vars_eqb (fst a) (fst b) && (snd a =? snd b)) impl m)
          (no_panic m) (no_panic impl) 0.

(* USZ: the model of str::parse::<usize>() against the standard library *)
Definition check_usz (c : str * option Z) : N :=
  let '(s, impl) := c in
  verdict (option_eqb Z.eqb impl (parse_int U64 s)) true true 0.

(* LIM: receive_batch_body with MultipartOptions a, b; the panic is allowed by
   the specification only for a configuration whose product does not fit usize *)
Definition check_lim (c : bool * Z * Z * N) : N :=
  let '(chk, a, b, impl) := c in
  let m := limit_product chk a b in
  let cfg_bad := negb (a * b <=? usize_max) in
  verdict (Bool.eqb (N.eqb impl 2) (is_panic m)) (no_panic m || cfg_bad) (negb (N.eqb impl 2) || cfg_bad) 0.

(* STR: the document {f(a:"<content>")} through parse_query; impl = the decoded
   string of the argument, Err when the document is rejected, Panic.  The model
   predicts the exact result when the content is a string_content, otherwise
   only "no panic". *)
Definition check_str (c : str * outcome str) : N :=
  let '(s, impl) := c in
  if string_content_b s then
    let m := string_value s in
    verdict (outcome_eqb str_eqb impl m) (no_panic m) (no_panic impl) 0
  else verdict (no_panic impl) true (no_panic impl) 0.

(* TY: Type::new on arbitrary strings; spec: strings of rule type_ give Some *)
Definition is_ok {A} (o : outcome A) : bool := match o with Ok _ => true | _ => false end.
Definition check_ty (c : str * outcome gty) : N :=
  let '(s, impl) := c in
  let m := type_new s in
  let spec (o : outcome gty) := if type_shape_b s then is_ok o else no_panic o in
  verdict (outcome_eqb gty_eqb impl m) (spec m) (spec impl) 0.

(* DEEP: a deeply nested document parsed in a child process.
   outcome: 0 parsed, 1 rejected, 2 killed by a signal (stack overflow),
   3 no answer within the time budget.  No stack model exists: below
   [deep_safe] levels a crash is unexpected (VIOLATION); above, a crash is the
   known finding (class 3). *)
Definition deep_safe : Z := 500.
Definition check_deep (c : N * Z * N) : N :=
  let '(kind, depth, impl) := c in
  let bad := (N.eqb impl 2 || N.eqb impl 3)%bool in
  if depth <=? deep_safe then verdict (negb bad) true (negb bad) 0
  else verdict true (negb bad) (negb bad) 3.

(* EXPL: exploration of entry points that have no model: outcome class only *)
Definition check_expl (c : N * N) : N :=
  let '(entry, impl) := c in
  verdict (negb (N.eqb impl 2)) true (negb (N.eqb impl 2)) 0.

(* LoaderProofs.v — C28: invariants of the DataLoader state machine over every
   sequence of steps.  Lemmas and proofs only. *)
From AG Require Import Base DLCache DLCacheProofs Loader.
Open Scope N_scope.

Ltac nlia := unfold name in *; lia.

(* ----------------------------------------------------------------- sets -- *)
Lemma In_add_key x k l : In x (add_key k l) <-> x = k \/ In x l.
Proof.
  unfold add_key. destruct (mem k l) eqn:E; cbv iota.
  - apply mem_In in E. split; [tauto|]. intros [->|H]; assumption.
  - rewrite in_app_iff. cbn [In]. intuition congruence.
Qed.

Lemma NoDup_snoc {A} (k : A) l : NoDup l -> ~ In k l -> NoDup (l ++ [k]).
Proof.
  induction l as [|x l IH]; cbn [app]; intros Hnd Hni.
  - constructor; [intros []|constructor].
  - inversion Hnd as [|? ? Hx Hl]; subst. constructor.
    + rewrite in_app_iff. cbn [In]. intros [H|[H|[]]]; [exact (Hx H)|]. apply Hni. left. symmetry. exact H.
    + apply IH; [exact Hl|]. intros H. apply Hni. right. exact H.
Qed.

Lemma NoDup_add_key k l : NoDup l -> NoDup (add_key k l).
Proof.
  intros H. unfold add_key. destruct (mem k l) eqn:E; cbv iota; [exact H|].
  apply NoDup_snoc; [exact H|]. intros Hin. apply mem_In in Hin. congruence.
Qed.

Lemma length_add_key k l : (length (add_key k l) <= S (length l))%nat.
Proof. unfold add_key. destruct (mem k l); cbv iota; [lia|]. rewrite app_length. cbn [length]. lia. Qed.

Lemma In_union x b : forall a, In x (union a b) <-> In x a \/ In x b.
Proof.
  induction b as [|k b IH]; intros a; cbn [union fold_left In]; [tauto|].
  fold (union (add_key k a) b). rewrite IH, In_add_key. intuition congruence.
Qed.

Lemma NoDup_union b : forall a, NoDup a -> NoDup (union a b).
Proof.
  induction b as [|k b IH]; intros a H; cbn [union fold_left]; [exact H|].
  apply IH. apply NoDup_add_key. exact H.
Qed.

Lemma length_union b : forall a, (length (union a b) <= length a + length b)%nat.
Proof.
  induction b as [|k b IH]; intros a; cbn [union fold_left length]; [lia|].
  fold (union (add_key k a) b). specialize (IH (add_key k a)).
  pose proof (length_add_key k a). lia.
Qed.

Lemma union_nil_r a : union a [] = a.
Proof. reflexivity. Qed.

Lemma union_not_nil a b : b <> [] -> union a b <> [].
Proof.
  destruct b as [|k b]; [congruence|]. intros _ H.
  assert (In k (union a (k :: b))) by (apply In_union; right; left; reflexivity).
  rewrite H in H0. exact H0.
Qed.

Lemma NoDup_dedup l : NoDup (dedup l).
Proof. apply NoDup_union. constructor. Qed.

Lemma In_dedup x l : In x (dedup l) <-> In x l.
Proof. unfold dedup. rewrite In_union. cbn [In]. tauto. Qed.

Lemma length_dedup_incl a b : incl a b -> (length (dedup a) <= length (dedup b))%nat.
Proof.
  intros H. apply NoDup_incl_length; [apply NoDup_dedup|].
  intros x Hx. apply In_dedup. apply H. apply (proj1 (In_dedup x a)). exact Hx.
Qed.

Lemma scan_need_incl ks : forall c use need,
  incl (snd (scan ks c use need)) (need ++ ks).
Proof.
  induction ks as [|k ks IH]; intros c use need; cbn [scan snd].
  - rewrite app_nil_r. apply incl_refl.
  - destruct (ic_get k c) as [[v|] c'].
    + intros x Hx. apply IH in Hx. rewrite in_app_iff in *. cbn [In]. tauto.
    + intros x Hx. apply IH in Hx. rewrite !in_app_iff in *. cbn [In] in *. tauto.
Qed.

(* keys_set of a request: duplicate-free, drawn from the request, no larger
   than its number of distinct keys *)
Lemma lookup_need cf c ks :
  let need := snd (lookup cf c ks) in
  NoDup need /\ incl need ks /\ (length need <= length (dedup ks))%nat.
Proof.
  unfold lookup. destruct (c_dis cf); cbn [snd].
  - split; [apply NoDup_dedup|]. split; [intros x; apply In_dedup|lia].
  - pose proof (scan_need_incl ks c [] []) as Hi. cbn [app] in Hi.
    destruct (scan ks c [] []) as [[c1 use] need]. cbn [snd] in *.
    split; [apply NoDup_dedup|]. split; [intros x Hx; apply Hi, In_dedup, Hx|].
    apply length_dedup_incl. exact Hi.
Qed.

(* ------------------------------------------------------------- task table -- *)
Lemma find_task_In t x l : find_task t l = Some x -> In (t, x) l.
Proof.
  induction l as [|[t' y] l IH]; cbn [find_task]; [discriminate|].
  destruct (N.eqb_spec t t') as [->|Hn].
  - intros [= ->]. left; reflexivity.
  - intros H. right. apply IH, H.
Qed.

Lemma In_find_task t x l : NoDup (map fst l) -> In (t, x) l -> find_task t l = Some x.
Proof.
  induction l as [|[t' y] l IH]; cbn [find_task map fst In]; [tauto|].
  intros Hnd [H|H].
  - injection H as -> ->. rewrite N.eqb_refl. reflexivity.
  - inversion Hnd as [|? ? Hni Hnd']; subst.
    destruct (N.eqb_spec t t') as [->|Hn]; [|apply IH; assumption].
    exfalso. apply Hni. apply (in_map fst) in H. exact H.
Qed.

Lemma In_remove_task x t l : In x (remove_task t l) <-> In x l /\ fst x <> t.
Proof.
  induction l as [|[t' y] l IH]; cbn [remove_task In]; [tauto|].
  destruct (N.eqb_spec t t') as [->|Hn]; cbn [In]; rewrite IH.
  - split; [tauto|]. intros [[<-|H] Hne]; [cbn in Hne; congruence|tauto].
  - split; [intros [<-|H]; [cbn; split; [tauto|congruence]|tauto]|tauto].
Qed.

Lemma remove_task_ids t l : NoDup (map fst l) -> NoDup (map fst (remove_task t l)) /\ ~ In t (map fst (remove_task t l)).
Proof.
  induction l as [|[t' y] l IH]; cbn [remove_task map fst]; [intros; split; [constructor|tauto]|].
  intros Hnd. inversion Hnd as [|? ? Hni Hnd']; subst. destruct (IH Hnd') as [H1 H2].
  destruct (N.eqb_spec t t') as [->|Hn]; [split; assumption|].
  cbn [map fst]. split.
  - constructor; [|exact H1]. intros Hin. apply Hni.
    apply in_map_iff in Hin. destruct Hin as (x & Hx & Hin). apply In_remove_task in Hin.
    rewrite <- Hx. apply in_map. tauto.
  - cbn [In]. intros [E|Hin]; [congruence|tauto].
Qed.

(* --------------------------------------------------------------- invariant -- *)
Definition task_ok (st : state) (x : N * task) : Prop :=
  match snd x with
  | TTimer => True
  | TLoad ks senders => In (fst x, ks) (st_calls st) /\ forall p, In p senders -> incl (p_keys p) ks
  end.

Record Inv (cf : cfg) (mr : nat) (st : state) : Prop := {
  inv_nodup : NoDup (st_keys st);
  inv_bound : (length (st_keys st) < c_max cf)%nat;
  inv_pend : forall p, In p (st_pending st) -> p_keys p <> [] /\ incl (p_keys p) (st_keys st);
  inv_keys : st_keys st = [] -> st_pending st = [];
  inv_timer : st_keys st <> [] -> exists t, In (t, TTimer) (st_tasks st);
  inv_calls : forall t ks, In (t, ks) (st_calls st) -> NoDup ks /\ ks <> [] /\ (length ks < c_max cf + mr)%nat;
  inv_tasks : forall x, In x (st_tasks st) -> task_ok st x;
  inv_ids : NoDup (map fst (st_tasks st)) /\ forall t, In t (map fst (st_tasks st)) -> t < st_next st
}.

Lemma Inv_mono cf mr mr' st : (mr <= mr')%nat -> Inv cf mr st -> Inv cf mr' st.
Proof.
  intros Hle [H1 H2 H3 H4 H5 H6 H7 H8]. constructor; try assumption.
  intros t ks Hin. destruct (H6 t ks Hin) as (Ha & Hb & Hc). repeat split; [assumption|assumption|lia].
Qed.

Lemma Inv_init cf : (1 <= c_max cf)%nat -> Inv cf O (init cf).
Proof.
  intros Hm. constructor; cbn [init st_keys st_pending st_tasks st_calls st_next map length].
  - constructor.
  - lia.
  - intros p [].
  - reflexivity.
  - congruence.
  - intros t ks [].
  - intros x [].
  - split; [constructor|intros t []].
Qed.

Lemma task_ok_calls st st' x :
  (forall c, In c (st_calls st) -> In c (st_calls st')) -> task_ok st x -> task_ok st' x.
Proof.
  intros H. unfold task_ok. destruct (snd x) as [|ks senders]; [tauto|].
  intros [Ha Hb]. split; [apply H, Ha|exact Hb].
Qed.

Definition req_size (s : step) : nat :=
  match s with SRequest _ ks => length (dedup ks) | _ => O end.

Lemma step_Inv cf mr st s :
  (1 <= c_max cf)%nat -> Inv cf mr st -> Inv cf (Nat.max (req_size s) mr) (mstep cf st s).
Proof.
  intros Hm HI.
  assert (HI' : Inv cf (Nat.max (req_size s) mr) st) by (apply (Inv_mono cf mr); [lia|exact HI]).
  destruct s as [w ks|t|t r|w|kvs]; cbn [mstep].
  - (* request *)
    clear HI. cbn [req_size] in *. set (mr' := Nat.max (length (dedup ks)) mr) in *.
    unfold mrequest. destruct (mem w (st_used st)); [exact HI'|].
    pose proof (lookup_need cf (st_cache st) ks) as Hn. cbv zeta in Hn.
    destruct (lookup cf (st_cache st) ks) as [[c1 use] need]. cbn [snd] in Hn.
    destruct Hn as (Hnd & Hincl & Hlen).
    destruct HI' as [H1 H2 H3 H4 H5 H6 H7 H8].
    destruct need as [|n0 nl] eqn:En.
    + constructor; cbn [st_keys st_pending st_tasks st_calls st_next]; try assumption.
    + rewrite <- En in *. assert (Hne : need <> []) by (rewrite En; discriminate).
      set (keys' := union (st_keys st) need).
      assert (Hk1 : NoDup keys') by (apply NoDup_union; exact H1).
      assert (Hk2 : (length keys' < c_max cf + mr')%nat).
      { pose proof (length_union need (st_keys st)). subst keys' mr'. lia. }
      assert (Hk3 : keys' <> []) by (apply union_not_nil; exact Hne).
      assert (Hp : forall p, In p (st_pending st ++ [{| p_w := w; p_keys := need; p_use := use |}]) ->
                   p_keys p <> [] /\ incl (p_keys p) keys').
      { intros p Hp. apply in_app_iff in Hp. destruct Hp as [Hp|[<-|[]]].
        - destruct (H3 p Hp) as [Ha Hb]. split; [exact Ha|].
          intros x Hx. apply In_union. left. apply Hb, Hx.
        - cbn [p_keys]. split; [exact Hne|]. intros x Hx. apply In_union. right. exact Hx. }
      destruct (Nat.leb_spec (c_max cf) (length keys')) as [Hge|Hlt].
      * (* immediate load *)
        constructor; cbn [st_keys st_pending st_tasks st_calls st_next length].
        -- constructor.
        -- lia.
        -- intros p [].
        -- reflexivity.
        -- congruence.
        -- intros t ks0 Hin. apply in_app_iff in Hin. destruct Hin as [Hin|[[= <- <-]|[]]]; [apply (H6 t), Hin|].
           repeat split; assumption.
        -- intros x Hx. apply in_app_iff in Hx. destruct Hx as [Hx|[<-|[]]].
           ++ apply (task_ok_calls st); [|apply H7, Hx].
              intros c Hc. cbn [st_calls]. apply in_app_iff. left. exact Hc.
           ++ unfold task_ok. cbn [snd fst st_calls]. split; [apply in_app_iff; right; left; reflexivity|].
              intros p Hp'. apply Hp, Hp'.
        -- destruct H8 as [Ha Hb]. rewrite map_app. cbn [map fst]. split.
           ++ apply NoDup_snoc; [exact Ha|]. intros Hin. specialize (Hb _ Hin). nlia.
           ++ intros t Hin. apply in_app_iff in Hin. destruct Hin as [Hin|[<-|[]]]; [specialize (Hb _ Hin)|]; nlia.
      * destruct (st_keys st) as [|k0 kl] eqn:Ek.
        -- (* start fetch *)
           constructor; cbn [st_keys st_pending st_tasks st_calls st_next]; try assumption.
           ++ intros E. contradiction.
           ++ intros _. exists (st_next st). apply in_app_iff. right. left. reflexivity.
           ++ intros x Hx. apply in_app_iff in Hx. destruct Hx as [Hx|[<-|[]]].
              ** apply (task_ok_calls st); [intros c Hc; exact Hc|apply H7, Hx].
              ** exact I.
           ++ destruct H8 as [Ha Hb]. rewrite map_app. cbn [map fst]. split.
              ** apply NoDup_snoc; [exact Ha|]. intros Hin. specialize (Hb _ Hin). nlia.
              ** intros t Hin. apply in_app_iff in Hin. destruct Hin as [Hin|[<-|[]]]; [specialize (Hb _ Hin)|]; nlia.
        -- (* delay *)
           constructor; cbn [st_keys st_pending st_tasks st_calls st_next]; try assumption.
           ++ intros E. contradiction.
           ++ intros _. apply H5. discriminate.
  - (* timer fires *)
    cbn [req_size] in *. clear HI. unfold mfire.
    destruct (find_task t (st_tasks st)) as [[|ks senders]|] eqn:Ef; try exact HI'.
    destruct HI' as [H1 H2 H3 H4 H5 H6 H7 H8]. destruct H8 as [Ha Hb].
    destruct (remove_task_ids t (st_tasks st) Ha) as [Hr1 Hr2].
    assert (Hlt : t < st_next st) by (apply Hb; apply find_task_In in Ef; apply (in_map fst) in Ef; exact Ef).
    destruct (st_keys st) as [|k0 kl] eqn:Ek.
    + constructor; cbn [st_keys st_pending st_tasks st_calls st_next length]; try assumption.
      * congruence.
      * intros x Hx. apply In_remove_task in Hx. destruct Hx as [Hx _]. apply (task_ok_calls st); [intros c Hc; exact Hc|apply H7, Hx].
      * split; [exact Hr1|]. intros t' Hin. apply Hb.
        apply in_map_iff in Hin. destruct Hin as (x & <- & Hx). apply In_remove_task in Hx. apply in_map. tauto.
    + rewrite <- Ek in *. constructor; cbn [st_keys st_pending st_tasks st_calls st_next length].
      * constructor.
      * lia.
      * intros p [].
      * reflexivity.
      * congruence.
      * intros t' ks0 Hin. apply in_app_iff in Hin. destruct Hin as [Hin|[[= <- <-]|[]]]; [apply (H6 t'), Hin|].
        split; [exact H1|]. split; [rewrite Ek; discriminate|lia].
      * intros x Hx. apply in_app_iff in Hx. destruct Hx as [Hx|[<-|[]]].
        -- apply In_remove_task in Hx. destruct Hx as [Hx _]. apply (task_ok_calls st); [|apply H7, Hx].
           intros c Hc. cbn [st_calls]. apply in_app_iff. left. exact Hc.
        -- unfold task_ok. cbn [snd fst st_calls]. split; [apply in_app_iff; right; left; reflexivity|].
           intros p Hp. apply H3, Hp.
      * rewrite map_app. cbn [map fst]. split.
        -- apply NoDup_snoc; [exact Hr1|exact Hr2].
        -- intros t' Hin. apply in_app_iff in Hin. destruct Hin as [Hin|[<-|[]]]; [|exact Hlt].
           apply Hb. apply in_map_iff in Hin. destruct Hin as (x & <- & Hx). apply In_remove_task in Hx. apply in_map. tauto.
  - (* loader answers *)
    cbn [req_size] in *. clear HI. unfold mdone.
    destruct (find_task t (st_tasks st)) as [[|ks senders]|] eqn:Ef; try exact HI'.
    destruct HI' as [H1 H2 H3 H4 H5 H6 H7 H8]. destruct H8 as [Ha Hb].
    destruct (remove_task_ids t (st_tasks st) Ha) as [Hr1 Hr2].
    constructor; cbn [st_keys st_pending st_tasks st_calls st_next]; try assumption.
    + intros Hne. destruct (H5 Hne) as [t' Ht']. exists t'. apply In_remove_task. split; [exact Ht'|].
      cbn [fst]. intros ->. apply (In_find_task _ _ _ Ha) in Ht'. congruence.
    + intros x Hx. apply In_remove_task in Hx. destruct Hx as [Hx _]. apply (task_ok_calls st); [intros c Hc; exact Hc|apply H7, Hx].
    + split; [exact Hr1|]. intros t' Hin. apply Hb.
      apply in_map_iff in Hin. destruct Hin as (x & <- & Hx). apply In_remove_task in Hx. apply in_map. tauto.
  - (* cancel *)
    cbn [req_size] in *. clear HI. unfold mcancel.
    destruct (mem w (waiting_ids st) && negb (mem w (st_cancelled st))); [|exact HI'].
    destruct HI' as [H1 H2 H3 H4 H5 H6 H7 H8].
    constructor; cbn [st_keys st_pending st_tasks st_calls st_next]; assumption.
  - (* feed *)
    cbn [req_size] in *. clear HI. unfold mfeed.
    destruct HI' as [H1 H2 H3 H4 H5 H6 H7 H8].
    constructor; cbn [st_keys st_pending st_tasks st_calls st_next]; assumption.
Qed.

Lemma maxreq_app a b : maxreq (a ++ b) = Nat.max (maxreq a) (maxreq b).
Proof.
  induction a as [|s a IH]; cbn [app maxreq]; [reflexivity|].
  destruct s; rewrite IH; try reflexivity. lia.
Qed.

Lemma run_Inv cf steps : (1 <= c_max cf)%nat -> Inv cf (maxreq steps) (run cf steps).
Proof.
  intros Hm. induction steps as [|s steps IH] using rev_ind.
  - apply Inv_init. exact Hm.
  - unfold run, run_from in *. rewrite fold_left_app. cbn [fold_left].
    apply (Inv_mono cf (Nat.max (req_size s) (maxreq steps))).
    + rewrite maxreq_app. cbn [maxreq]. destruct s; cbn [req_size]; lia.
    + apply step_Inv; assumption.
Qed.

(* ---------------------------------------------------------- the theorems -- *)
Theorem dl_no_dup_in_batch cf steps t ks :
  (1 <= c_max cf)%nat -> In (t, ks) (st_calls (run cf steps)) -> NoDup ks.
Proof. intros Hm Hin. apply (inv_calls _ _ _ (run_Inv cf steps Hm) t ks Hin). Qed.

Theorem dl_batch_bound cf steps t ks :
  (1 <= c_max cf)%nat -> In (t, ks) (st_calls (run cf steps)) ->
  (length ks < c_max cf + maxreq steps)%nat.
Proof. intros Hm Hin. apply (inv_calls _ _ _ (run_Inv cf steps Hm) t ks Hin). Qed.

(* keys waiting for dispatch: fewer than max_batch_size, and a timer is armed *)
Theorem dl_keys_waiting cf steps :
  (1 <= c_max cf)%nat ->
  let st := run cf steps in
  (length (st_keys st) < c_max cf)%nat /\
  (st_pending st <> [] -> exists t, find_task t (st_tasks st) = Some TTimer).
Proof.
  intros Hm st. pose proof (run_Inv cf steps Hm) as HI. fold st in HI. split; [apply HI|].
  intros Hp. destruct (inv_timer _ _ _ HI) as [t Ht].
  - intros E. apply Hp. apply (inv_keys _ _ _ HI E).
  - exists t. apply In_find_task; [apply HI|exact Ht].
Qed.

(* ------------------------------------------------- life of one request ---- *)
(* every waiting sender is a logged request; every completed load got the
   cached values of its request plus the loader's answer to the batch that
   contains its keys, or that batch's error *)
Definition logged (st : state) (p : pend) : Prop :=
  In (p_w p, (p_keys p, p_use p)) (st_reqs st).

Definition done_ok_at (st : state) (d : N * wres) : Prop :=
  exists need use, In (fst d, (need, use)) (st_reqs st) /\
    ((need = [] /\ snd d = WOk (canon_kv use)) \/
     (exists t ans ks, In (t, ans) (st_answers st) /\ In (t, ks) (st_calls st) /\ incl need ks /\
                       snd d = result {| p_w := fst d; p_keys := need; p_use := use |} ans)).

Record Inv2 (st : state) : Prop := {
  inv2_pend : forall p, In p (st_pending st) -> logged st p;
  inv2_task : forall t ks senders p, In (t, TLoad ks senders) (st_tasks st) -> In p senders -> logged st p;
  inv2_done : forall d, In d (st_done st) -> done_ok_at st d
}.

Lemma done_ok_mono st st' d :
  (forall x, In x (st_reqs st) -> In x (st_reqs st')) ->
  (forall x, In x (st_answers st) -> In x (st_answers st')) ->
  (forall x, In x (st_calls st) -> In x (st_calls st')) ->
  done_ok_at st d -> done_ok_at st' d.
Proof.
  intros Hr Ha Hc (need & use & Hin & H). exists need, use. split; [apply Hr, Hin|].
  destruct H as [H|(t & ans & ks & H1 & H2 & H3 & H4)]; [left; exact H|].
  right. exists t, ans, ks. repeat split; [apply Ha, H1|apply Hc, H2|exact H3|exact H4].
Qed.

Lemma Inv2_init cf : Inv2 (init cf).
Proof. constructor; cbn [init st_pending st_tasks st_done]; intros; contradiction. Qed.

Lemma step_Inv2 cf mr st s : Inv cf mr st -> Inv2 st -> Inv2 (mstep cf st s).
Proof.
  intros HI [Ha Hb Hc].
  destruct s as [w ks|t|t r|w|kvs]; cbn [mstep].
  - unfold mrequest. destruct (mem w (st_used st)); [constructor; assumption|].
    destruct (lookup cf (st_cache st) ks) as [[c1 use] need].
    assert (Hlog : forall p, logged st p -> forall st', st_reqs st' = st_reqs st ++ [(w, (need, use))] -> logged st' p).
    { intros p Hp st' E. unfold logged. rewrite E. apply in_app_iff. left. exact Hp. }
    assert (Hnew : forall st', st_reqs st' = st_reqs st ++ [(w, (need, use))] ->
                   logged st' {| p_w := w; p_keys := need; p_use := use |}).
    { intros st' E. unfold logged. rewrite E. apply in_app_iff. right. left. reflexivity. }
    destruct need as [|n0 nl] eqn:En.
    + constructor; cbn [st_pending st_tasks st_done].
      * intros p Hp. apply (Hlog p (Ha p Hp)). reflexivity.
      * intros t ks0 senders p Ht Hp. apply (Hlog p (Hb t ks0 senders p Ht Hp)). reflexivity.
      * intros d Hd. apply in_app_iff in Hd. destruct Hd as [Hd|[<-|[]]].
        -- apply (done_ok_mono st); [| | |apply Hc, Hd]; cbn [st_reqs st_answers st_calls]; intros x Hx;
             [apply in_app_iff; left; exact Hx|exact Hx|exact Hx].
        -- exists [], use. cbn [fst snd st_reqs]. split; [apply in_app_iff; right; left; reflexivity|].
           left. split; reflexivity.
    + rewrite <- En in *.
      assert (Hpend : forall st', st_reqs st' = st_reqs st ++ [(w, (need, use))] ->
                forall p, In p (st_pending st ++ [{| p_w := w; p_keys := need; p_use := use |}]) -> logged st' p).
      { intros st' E p Hp. apply in_app_iff in Hp. destruct Hp as [Hp|[<-|[]]]; [apply (Hlog p (Ha p Hp)), E|apply Hnew, E]. }
      assert (Hdone : forall st', st_reqs st' = st_reqs st ++ [(w, (need, use))] ->
                st_answers st' = st_answers st -> (forall x, In x (st_calls st) -> In x (st_calls st')) ->
                forall d, In d (st_done st) -> done_ok_at st' d).
      { intros st' E1 E2 E3 d Hd. apply (done_ok_mono st); [| | |apply Hc, Hd]; intros x Hx;
          [rewrite E1; apply in_app_iff; left; exact Hx|rewrite E2; exact Hx|apply E3, Hx]. }
      destruct (c_max cf <=? length (union (st_keys st) need))%nat.
      * constructor; cbn [st_pending st_tasks st_done].
        -- intros p [].
        -- intros t ks0 senders p Ht Hp. apply in_app_iff in Ht. destruct Ht as [Ht|[[= <- <- <-]|[]]].
           ++ apply (Hlog p (Hb t ks0 senders p Ht Hp)). reflexivity.
           ++ eapply Hpend; [reflexivity|exact Hp].
        -- apply Hdone; [reflexivity|reflexivity|]. intros x Hx. cbn [st_calls]. apply in_app_iff. left. exact Hx.
      * destruct (st_keys st) as [|k0 kl].
        -- constructor; cbn [st_pending st_tasks st_done].
           ++ intros p Hp; eapply Hpend; [reflexivity|exact Hp].
           ++ intros t ks0 senders p Ht Hp. apply in_app_iff in Ht. destruct Ht as [Ht|[[=]|[]]].
              apply (Hlog p (Hb t ks0 senders p Ht Hp)). reflexivity.
           ++ apply Hdone; [reflexivity|reflexivity|]. intros x Hx. exact Hx.
        -- constructor; cbn [st_pending st_tasks st_done].
           ++ intros p Hp; eapply Hpend; [reflexivity|exact Hp].
           ++ intros t ks0 senders p Ht Hp. apply (Hlog p (Hb t ks0 senders p Ht Hp)). reflexivity.
           ++ apply Hdone; [reflexivity|reflexivity|]. intros x Hx. exact Hx.
  - unfold mfire. destruct (find_task t (st_tasks st)) as [[|ks senders]|] eqn:Ef; try (constructor; assumption).
    destruct (st_keys st) as [|k0 kl].
    + constructor; cbn [st_pending st_tasks st_done]; try assumption.
      intros t' ks0 senders p Ht Hp. apply In_remove_task in Ht. destruct Ht as [Ht _]. apply (Hb t' ks0 senders p Ht Hp).
    + constructor; cbn [st_pending st_tasks st_done].
      * intros p [].
      * intros t' ks0 senders p Ht Hp. apply in_app_iff in Ht. destruct Ht as [Ht|[[= <- <- <-]|[]]].
        -- apply In_remove_task in Ht. destruct Ht as [Ht _]. apply (Hb t' ks0 senders p Ht Hp).
        -- apply Ha, Hp.
      * intros d Hd. apply (done_ok_mono st); [| | |apply Hc, Hd]; cbn [st_reqs st_answers st_calls]; intros x Hx;
          [exact Hx|exact Hx|apply in_app_iff; left; exact Hx].
  - unfold mdone. destruct (find_task t (st_tasks st)) as [[|ks senders]|] eqn:Ef; try (constructor; assumption).
    apply find_task_In in Ef.
    constructor; cbn [st_pending st_tasks st_done].
    + exact Ha.
    + intros t' ks0 senders0 p Ht Hp. apply In_remove_task in Ht. destruct Ht as [Ht _]. apply (Hb t' ks0 senders0 p Ht Hp).
    + intros d Hd. apply in_app_iff in Hd. destruct Hd as [Hd|Hd].
      * apply (done_ok_mono st); [| | |apply Hc, Hd]; cbn [st_reqs st_answers st_calls]; intros x Hx;
          [exact Hx|apply in_app_iff; left; exact Hx|exact Hx].
      * apply in_map_iff in Hd. destruct Hd as (p & <- & Hp). apply filter_In in Hp. destruct Hp as [Hp _].
        pose proof (Hb t ks senders p Ef Hp) as Hl.
        pose proof (inv_tasks _ _ _ HI _ Ef) as Hok. unfold task_ok in Hok. cbn [snd fst] in Hok.
        destruct Hok as [Hcall Hincl].
        exists (p_keys p), (p_use p). cbn [fst snd st_reqs st_answers st_calls]. split; [exact Hl|].
        right. exists t, r, ks. split; [apply in_app_iff; right; left; reflexivity|].
        split; [exact Hcall|]. split; [apply Hincl, Hp|]. destruct p; reflexivity.
  - unfold mcancel. destruct (mem w (waiting_ids st) && negb (mem w (st_cancelled st))); constructor; assumption.
  - unfold mfeed. constructor; assumption.
Qed.

Lemma run_Inv2 cf steps : (1 <= c_max cf)%nat -> Inv2 (run cf steps).
Proof.
  intros Hm. induction steps as [|s steps IH] using rev_ind.
  - apply Inv2_init.
  - pose proof (run_Inv cf steps Hm) as HI.
    unfold run, run_from in *. rewrite fold_left_app. cbn [fold_left].
    apply (step_Inv2 cf (maxreq steps)); assumption.
Qed.

Theorem dl_values cf steps w r :
  (1 <= c_max cf)%nat -> In (w, r) (st_done (run cf steps)) ->
  exists need use, In (w, (need, use)) (st_reqs (run cf steps)) /\
    ((need = [] /\ r = WOk (canon_kv use)) \/
     (exists t ans ks, In (t, ans) (st_answers (run cf steps)) /\ In (t, ks) (st_calls (run cf steps)) /\
                       incl need ks /\
                       r = match ans with
                           | LOk vals => WOk (canon_kv (picks need vals ++ use))
                           | LErr e => WErr e
                           end)).
Proof.
  intros Hm Hin. apply (inv2_done _ (run_Inv2 cf steps Hm)) in Hin.
  destruct Hin as (need & use & H1 & H2). exists need, use. split; [exact H1|].
  destruct H2 as [H2|(t & ans & ks & Ha & Hb & Hc & Hd)]; [left; exact H2|].
  right. exists t, ans, ks. repeat split; assumption.
Qed.

(* ------------------------------------------------ every key is dispatched -- *)
Lemma scan_cover ks : forall c use need k,
  (In k ks \/ In k need \/ assoc k use <> None) ->
  In k (snd (scan ks c use need)) \/ assoc k (snd (fst (scan ks c use need))) <> None.
Proof.
  induction ks as [|k0 ks IH]; intros c use need k H; cbn [scan fst snd].
  - destruct H as [[]|[H|H]]; [left; exact H|right; exact H].
  - destruct (ic_get k0 c) as [[v|] c'].
    + apply IH. destruct H as [[<-|H]|[H|H]].
      * right. right. rewrite assoc_cons, N.eqb_refl. discriminate.
      * left. exact H.
      * right. left. exact H.
      * right. right. rewrite assoc_cons. destruct (N.eqb k k0); [discriminate|exact H].
    + apply IH. destruct H as [[<-|H]|[H|H]].
      * right. left. apply in_app_iff. right. left. reflexivity.
      * left. exact H.
      * right. left. apply in_app_iff. left. exact H.
      * right. right. exact H.
Qed.

(* a requested key is in keys_set or has a cached value in use_cache_values *)
Lemma lookup_cover cf c ks k :
  In k ks -> In k (snd (lookup cf c ks)) \/ assoc k (snd (fst (lookup cf c ks))) <> None.
Proof.
  intros Hk. unfold lookup. destruct (c_dis cf); cbn [fst snd].
  - left. apply In_dedup. exact Hk.
  - pose proof (scan_cover ks c [] [] k (or_introl Hk)) as H.
    destruct (scan ks c [] []) as [[c1 use] need]. cbn [fst snd] in *.
    destruct H as [H|H]; [left; apply In_dedup; exact H|right; exact H].
Qed.

Definition dispatched (st : state) (k : key) : Prop :=
  In k (st_keys st) \/ exists t ks, In (t, ks) (st_calls st) /\ In k ks.

Definition Inv3 (st : state) : Prop :=
  forall w need use k, In (w, (need, use)) (st_reqs st) -> In k need -> dispatched st k.

Lemma step_Inv3 cf st s : Inv3 st -> Inv3 (mstep cf st s).
Proof.
  intros H3. destruct s as [w ks|t|t r|w|kvs]; cbn [mstep].
  - unfold mrequest. destruct (mem w (st_used st)); [exact H3|].
    destruct (lookup cf (st_cache st) ks) as [[c1 use] need].
    assert (Hold : forall st', (forall k, In k (st_keys st) -> dispatched st' k) ->
                   (forall c, In c (st_calls st) -> In c (st_calls st')) ->
                   forall w0 need0 use0 k, In (w0, (need0, use0)) (st_reqs st) -> In k need0 -> dispatched st' k).
    { intros st' Hk Hc w0 need0 use0 k Hin Hkn. destruct (H3 w0 need0 use0 k Hin Hkn) as [H|(t & ks0 & Ha & Hb)].
      - apply Hk, H.
      - right. exists t, ks0. split; [apply Hc, Ha|exact Hb]. }
    destruct need as [|n0 nl] eqn:En.
    + intros w0 need0 use0 k Hin Hk. cbn [st_reqs] in Hin. apply in_app_iff in Hin.
      destruct Hin as [Hin|[[= <- <- <-]|[]]]; [|destruct Hk].
      apply (Hold _ (fun k H => or_introl H) (fun c H => H) w0 need0 use0 k Hin Hk).
    + rewrite <- En in *. clear En n0 nl.
      assert (Hnew : forall st', (forall k, In k (union (st_keys st) need) -> dispatched st' k) ->
                     (forall c, In c (st_calls st) -> In c (st_calls st')) ->
                     st_reqs st' = st_reqs st ++ [(w, (need, use))] -> Inv3 st').
      { intros st' Hk Hc Er w0 need0 use0 k Hin Hkn. rewrite Er in Hin. apply in_app_iff in Hin.
        destruct Hin as [Hin|[[= <- <- <-]|[]]].
        - apply (Hold st' (fun k H => Hk k (proj2 (In_union k need (st_keys st)) (or_introl H))) Hc w0 need0 use0 k Hin Hkn).
        - apply Hk. apply In_union. right. exact Hkn. }
      destruct (c_max cf <=? length (union (st_keys st) need))%nat.
      * apply Hnew; cbn [st_keys st_calls st_reqs]; [|intros c Hc; apply in_app_iff; left; exact Hc|reflexivity].
        intros k Hk. right. exists (st_next st), (union (st_keys st) need).
        split; [apply in_app_iff; right; left; reflexivity|exact Hk].
      * destruct (st_keys st) as [|k0 kl] eqn:Ek;
          (apply Hnew; cbn [st_keys st_calls st_reqs]; [intros k Hk; left; first [exact Hk|rewrite Ek in Hk; exact Hk]|intros c Hc; exact Hc|reflexivity]).
  - unfold mfire. destruct (find_task t (st_tasks st)) as [[|ks senders]|]; try exact H3.
    destruct (st_keys st) as [|k0 kl] eqn:Ek.
    + intros w need use k Hin Hk. destruct (H3 w need use k Hin Hk) as [H|H]; [rewrite Ek in H; destruct H|right; exact H].
    + intros w need use k Hin Hk. cbn [st_reqs] in Hin. right. cbn [st_calls].
      destruct (H3 w need use k Hin Hk) as [H|(t' & ks0 & Ha & Hb)].
      * exists t, (k0 :: kl). split; [apply in_app_iff; right; left; reflexivity|rewrite <- Ek; exact H].
      * exists t', ks0. split; [apply in_app_iff; left; exact Ha|exact Hb].
  - unfold mdone. destruct (find_task t (st_tasks st)) as [[|ks senders]|]; exact H3.
  - unfold mcancel. destruct (mem w (waiting_ids st) && negb (mem w (st_cancelled st))); exact H3.
  - exact H3.
Qed.

Lemma run_Inv3 cf steps : Inv3 (run cf steps).
Proof.
  induction steps as [|s steps IH] using rev_ind.
  - intros w need use k [].
  - unfold run, run_from in *. rewrite fold_left_app. cbn [fold_left]. apply step_Inv3. exact IH.
Qed.

(* what a request logs is its lookup in the cache of that moment *)
Lemma request_logs cf st w ks :
  mem w (st_used st) = false ->
  st_reqs (mrequest cf st w ks) =
    st_reqs st ++ [(w, (snd (lookup cf (st_cache st) ks), snd (fst (lookup cf (st_cache st) ks))))].
Proof.
  intros Hw. unfold mrequest. rewrite Hw.
  destruct (lookup cf (st_cache st) ks) as [[c1 use] need]. cbn [fst snd].
  destruct need as [|n0 nl]; [reflexivity|].
  destruct (c_max cf <=? length (union (st_keys st) (n0 :: nl)))%nat; [reflexivity|].
  destruct (st_keys st); reflexivity.
Qed.

(* every requested key is served from the cache or dispatched: waiting in
   Requests.keys (a timer is armed, dl_keys_waiting) or in a batch handed to
   the loader *)
Theorem dl_every_key_loaded cf steps w ks rest k :
  mem w (st_used (run cf steps)) = false -> In k ks ->
  let st := run cf steps in
  let use := snd (fst (lookup cf (st_cache st) ks)) in
  let st' := run cf (steps ++ SRequest w ks :: rest) in
  assoc k use <> None \/ dispatched st' k.
Proof.
  intros Hw Hk st use st'.
  destruct (lookup_cover cf (st_cache st) ks k Hk) as [Hneed|Huse]; [right|left; exact Huse].
  assert (Hin : In (w, (snd (lookup cf (st_cache st) ks), use)) (st_reqs st')).
  { subst st'. unfold run, run_from. rewrite fold_left_app. cbn [fold_left mstep].
    fold (run_from cf (init cf) steps). fold (run cf steps). fold st.
    assert (Hmono : forall l s0 x, In x (st_reqs s0) -> In x (st_reqs (fold_left (mstep cf) l s0))).
    { induction l as [|s l IH]; intros s0 x Hx; cbn [fold_left]; [exact Hx|]. apply IH.
      destruct s as [w0 ks0|t|t r|w0|kvs]; cbn [mstep].
      - unfold mrequest. destruct (mem w0 (st_used s0)); [exact Hx|].
        destruct (lookup cf (st_cache s0) ks0) as [[c1 u] nd].
        destruct nd as [|n0 nl]; [cbn [st_reqs]; apply in_app_iff; left; exact Hx|].
        destruct (c_max cf <=? length (union (st_keys s0) (n0 :: nl)))%nat; [cbn [st_reqs]; apply in_app_iff; left; exact Hx|].
        destruct (st_keys s0); cbn [st_reqs]; apply in_app_iff; left; exact Hx.
      - unfold mfire. destruct (find_task t (st_tasks s0)) as [[|? ?]|]; try exact Hx. destruct (st_keys s0); exact Hx.
      - unfold mdone. destruct (find_task t (st_tasks s0)) as [[|? ?]|]; exact Hx.
      - unfold mcancel. destruct (mem w0 (waiting_ids s0) && negb (mem w0 (st_cancelled s0))); exact Hx.
      - exact Hx. }
    apply Hmono. rewrite (request_logs cf st w ks Hw). apply in_app_iff. right. left. reflexivity. }
  apply (run_Inv3 cf (steps ++ SRequest w ks :: rest) _ _ _ k Hin Hneed).
Qed.

(* the timer task takes everything that waits; the loader's answer reaches
   every sender of the batch that was not cancelled *)
Theorem dl_fire_dispatches st t :
  NoDup (map fst (st_tasks st)) ->
  find_task t (st_tasks st) = Some TTimer -> st_keys st <> [] ->
  st_calls (mfire st t) = st_calls st ++ [(t, st_keys st)] /\
  st_keys (mfire st t) = [] /\ st_pending (mfire st t) = [] /\
  find_task t (st_tasks (mfire st t)) = Some (TLoad (st_keys st) (st_pending st)).
Proof.
  intros Hnd Hf Hk.
  unfold mfire. rewrite Hf. destruct (st_keys st) as [|k0 kl] eqn:Ek; [congruence|].
  cbn [st_calls st_keys st_pending st_tasks]. repeat split.
  apply In_find_task.
  - destruct (remove_task_ids t (st_tasks st) Hnd) as [H1 H2].
    rewrite map_app. cbn [map fst]. apply NoDup_snoc; assumption.
  - apply in_app_iff. right. left. reflexivity.
Qed.

Theorem dl_done_completes cf st t r ks senders p :
  find_task t (st_tasks st) = Some (TLoad ks senders) -> In p senders ->
  mem (p_w p) (st_cancelled st) = false ->
  In (p_w p, result p r) (st_done (mdone cf st t r)).
Proof.
  intros Hf Hp Hc. unfold mdone. rewrite Hf. cbn [st_done]. apply in_app_iff. right.
  apply in_map_iff. exists p. split; [reflexivity|]. apply filter_In. split; [exact Hp|]. rewrite Hc. reflexivity.
Qed.

Theorem dl_task_ids cf steps : (1 <= c_max cf)%nat -> NoDup (map fst (st_tasks (run cf steps))).
Proof. intros Hm. apply (inv_ids _ _ _ (run_Inv cf steps Hm)). Qed.

(* a load that is waiting sits in Requests.pending with a timer armed, or in
   the batch of a task that is awaiting the loader *)
Theorem dl_progress cf steps w :
  (1 <= c_max cf)%nat -> mem w (waiting_ids (run cf steps)) = true ->
  let st := run cf steps in
  (exists p t, In p (st_pending st) /\ p_w p = w /\ find_task t (st_tasks st) = Some TTimer) \/
  (exists t ks senders p, find_task t (st_tasks st) = Some (TLoad ks senders) /\ In p senders /\ p_w p = w /\
                          In (t, ks) (st_calls st) /\ incl (p_keys p) ks).
Proof.
  intros Hm Hw st. pose proof (run_Inv cf steps Hm) as HI. fold st in HI.
  apply mem_In in Hw. unfold waiting_ids in Hw. apply in_app_iff in Hw. destruct Hw as [Hw|Hw].
  - left. apply in_map_iff in Hw. destruct Hw as (p & Hp & Hin).
    destruct (dl_keys_waiting cf steps Hm) as [_ Ht]. fold st in Ht.
    destruct Ht as [t Ht]; [intros E; unfold st in E; rewrite E in Hin; exact Hin|].
    exists p, t. repeat split; assumption.
  - right. apply in_flat_map in Hw. destruct Hw as ([t x] & Hx & Hin). unfold task_waiters in Hin. cbn [snd] in Hin.
    destruct x as [|ks senders]; [destruct Hin|]. apply in_map_iff in Hin. destruct Hin as (p & Hp & Hin).
    pose proof (inv_tasks _ _ _ HI _ Hx) as Hok. unfold task_ok in Hok. cbn [snd fst] in Hok. destruct Hok as [Hc Hi].
    exists t, ks, senders, p. split; [apply In_find_task; [apply HI|exact Hx]|].
    repeat split; [exact Hin|exact Hp|exact Hc|apply Hi, Hin].
Qed.

(* non-vacuity: four loads, batch size 2, LRU cache of 2: a cache hit, an
   immediate batch that takes an earlier waiter with it, a timer batch whose
   only waiter was cancelled and whose call fails, an eviction, a key the
   loader does not find *)
Definition demo_cfg : cfg := {| c_kind := KLru 2; c_max := 2; c_dis := false |}.
Definition demo_steps : list step :=
  [SFeed [(0, 900)]; SRequest 0 [0; 1]; SRequest 1 [1; 2]; SRequest 2 [2]; SCancel 2; SFire 0;
   SDone 1 (LOk [(1, 201); (2, 202)]); SFire 2; SDone 0 (LErr 7); SRequest 3 [1; 0; 3]; SFire 3; SDone 3 (LOk [(3, 403)])].

Theorem dl_nonvacuous :
  st_calls (run demo_cfg demo_steps) = [(1, [1; 2]); (0, [2]); (3, [0; 3])] /\
  st_done (run demo_cfg demo_steps) =
    [(0, WOk [(0, 900); (1, 201)]); (1, WOk [(1, 201); (2, 202)]); (3, WOk [(1, 201); (3, 403)])] /\
  waiting_ids (run demo_cfg demo_steps) = [] /\ st_tasks (run demo_cfg demo_steps) = [].
Proof. vm_compute. repeat split. Qed.

(* Doc.v — executable documents (mirror of parser/src/types/executable.rs,
   without positions) and GraphQL values, shared by the document-walk models. *)
From AG Require Export Base.

(* Reserved interned names: the harness interner pre-seeds exactly these. *)
Definition N_typename : name := 0%N.   (* "__typename" *)
Definition N_skip : name := 1%N.       (* "skip" *)
Definition N_include : name := 2%N.    (* "include" *)
Definition N_if : name := 3%N.         (* "if" *)
Definition N_schema : name := 4%N.     (* "__schema" *)
Definition N_type : name := 5%N.       (* "__type" *)

Inductive value :=
| VNull
| VInt (z : Z)
| VFloat (bits : N)          (* IEEE-754 binary64 bit pattern *)
| VStr (s : str)
| VBool (b : bool)
| VEnum (n : name)
| VList (l : list value)
| VObj (l : list (name * value))
| VVar (n : name).           (* only in non-const (document) values *)

Record directive := { d_name : name; d_args : list (name * value) }.

Inductive selection :=
| SField (alias : option name) (nm : name) (args : list (name * value))
         (dirs : list directive) (sels : list selection)
| SSpread (nm : name) (dirs : list directive)
| SInline (cond : option name) (dirs : list directive) (sels : list selection).

Inductive optype := OpQuery | OpMutation | OpSubscription.

Record vardef := { vd_name : name; vd_ty : str; vd_default : option value }.

Record operation := {
  op_name : option name;
  op_ty : optype;
  op_vars : list vardef;
  op_dirs : list directive;
  op_sels : list selection }.

Record fragment := { fr_cond : name; fr_dirs : list directive; fr_sels : list selection }.

Record document := {
  doc_ops : list operation;
  doc_frags : list (name * fragment) }.

(* Nested induction over selections. *)
Section selection_ind'.
  Variable P : selection -> Prop.
  Hypothesis Hfield : forall alias nm args dirs sels,
      Forall P sels -> P (SField alias nm args dirs sels).
  Hypothesis Hspread : forall nm dirs, P (SSpread nm dirs).
  Hypothesis Hinline : forall cond dirs sels,
      Forall P sels -> P (SInline cond dirs sels).

  Fixpoint selection_ind' (s : selection) : P s :=
    match s with
    | SField alias nm args dirs sels =>
        Hfield alias nm args dirs sels
          ((fix go (l : list selection) : Forall P l :=
              match l with
              | [] => Forall_nil P
              | x :: l' => Forall_cons x (selection_ind' x) (go l')
              end) sels)
    | SSpread nm dirs => Hspread nm dirs
    | SInline cond dirs sels =>
        Hinline cond dirs sels
          ((fix go (l : list selection) : Forall P l :=
              match l with
              | [] => Forall_nil P
              | x :: l' => Forall_cons x (selection_ind' x) (go l')
              end) sels)
    end.
End selection_ind'.

(* Size (number of selection nodes), used for fuel bounds and cost models. *)
Fixpoint sel_size (s : selection) : nat :=
  match s with
  | SField _ _ _ _ sels => S (fold_right (fun x acc => sel_size x + acc) 0 sels)
  | SSpread _ _ => 1
  | SInline _ _ sels => S (fold_right (fun x acc => sel_size x + acc) 0 sels)
  end.

Definition sels_size (l : list selection) : nat :=
  fold_right (fun x acc => sel_size x + acc) 0 l.

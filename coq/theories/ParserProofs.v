(* ParserProofs.v — lemmas for C13 (no model definitions). *)
From AG Require Import ParserCheck.
Open Scope N_scope.

(* ------------------------------------------------ string escapes ------- *)
Lemma string_value_raw c r : c <> 92 -> string_value (c :: r) = consr c (string_value r).
Proof.
  intros H. cbn [string_value]. destruct (N.eqb_spec c 92) as [E|E]; [contradiction|reflexivity].
Qed.

Lemma string_value_bs c r :
  string_value (92 :: c :: r) =
  (if (c =? 34) || (c =? 92) || (c =? 47) then consr c (string_value r)
   else if c =? 98 then consr 8 (string_value r)
   else if c =? 102 then consr 12 (string_value r)
   else if c =? 110 then consr 10 (string_value r)
   else if c =? 114 then consr 13 (string_value r)
   else if c =? 116 then consr 9 (string_value r)
   else if c =? 117 then
     match r with
     | h1 :: h2 :: h3 :: h4 :: r2 =>
       match hex_digit h1, hex_digit h2, hex_digit h3, hex_digit h4 with
       | Some d1, Some d2, Some d3, Some d4 =>
         match char_from_u32 (((d1 * 16 + d2) * 16 + d3) * 16 + d4) with
         | Some ch => consr ch (string_value r2)
         | None => Panic
         end
       | _, _, _, _ => Panic
       end
     | _ => Panic
     end
   else Panic).
Proof. reflexivity. Qed.

(* the four hex digits printed for c decode to c: checked for every BMP code point *)
Definition u_ok (up : bool) (c : N) : bool :=
  match u_escape up c with
  | [_; _; h1; h2; h3; h4] =>
    match hex_digit h1, hex_digit h2, hex_digit h3, hex_digit h4 with
    | Some d1, Some d2, Some d3, Some d4 =>
      match char_from_u32 (((d1 * 16 + d2) * 16 + d3) * 16 + d4) with
      | Some ch => ch =? c
      | None => false
      end
    | _, _, _, _ => false
    end
  | _ => false
  end.

Definition bmp_range : list N := map N.of_nat (seq 0 (N.to_nat 65536)).

Lemma u_ok_all : forallb (fun c => is_surrogate c || (u_ok true c && u_ok false c)) bmp_range = true.
Proof. vm_compute. reflexivity. Qed.

Lemma in_bmp_range c : c < 65536 -> In c bmp_range.
Proof.
  intros H. unfold bmp_range. apply in_map_iff. exists (N.to_nat c). split.
  - apply N2Nat.id.
  - apply in_seq. lia.
Qed.

Lemma u_ok_bmp up c : c < 65536 -> is_surrogate c = false -> u_ok up c = true.
Proof.
  intros H S. pose proof u_ok_all as A. rewrite forallb_forall in A.
  specialize (A c (in_bmp_range c H)). rewrite S in A. cbn [orb] in A.
  apply andb_true_iff in A. destruct up; tauto.
Qed.

Lemma string_value_u up c r :
  c < 65536 -> is_surrogate c = false ->
  string_value (u_escape up c ++ r) = consr c (string_value r).
Proof.
  intros H S. pose proof (u_ok_bmp up c H S) as U. unfold u_ok in U.
  unfold u_escape in *. cbn [app].
  rewrite string_value_bs. cbn [N.eqb Pos.eqb orb].
  destruct (hex_digit (hexchar up (c / 4096))) as [d1|]; [|discriminate].
  destruct (hex_digit (hexchar up ((c / 256) mod 16))) as [d2|]; [|discriminate].
  destruct (hex_digit (hexchar up ((c / 16) mod 16))) as [d3|]; [|discriminate].
  destruct (hex_digit (hexchar up (c mod 16))) as [d4|]; [|discriminate].
  destruct (char_from_u32 (((d1 * 16 + d2) * 16 + d3) * 16 + d4)) as [ch|]; [|discriminate].
  apply N.eqb_eq in U. subst ch. reflexivity.
Qed.

Lemma short_escape_sound c e r :
  short_escape c = Some e -> string_value (92 :: e :: r) = consr c (string_value r).
Proof.
  unfold short_escape. intros H. rewrite string_value_bs.
  repeat match type of H with
         | (if ?x =? ?k then _ else _) = _ =>
           destruct (N.eqb_spec x k); [inversion H; subst; reflexivity|]
         end.
  discriminate.
Qed.

Lemma short_escape_none c : short_escape c = None -> c <> 92.
Proof. intros H E. subst. discriminate. Qed.

Lemma escape_char_sound m c r :
  string_value (escape_char m c ++ r) = consr c (string_value r).
Proof.
  unfold escape_char.
  destruct ((m =? 1) && ((c <? 65536) && negb (is_surrogate c))) eqn:E1.
  { apply andb_true_iff in E1. destruct E1 as [_ E1]. apply andb_true_iff in E1. destruct E1 as [L S].
    apply N.ltb_lt in L. apply negb_true_iff in S. apply string_value_u; assumption. }
  destruct ((m =? 2) && ((c <? 65536) && negb (is_surrogate c))) eqn:E2.
  { apply andb_true_iff in E2. destruct E2 as [_ E2]. apply andb_true_iff in E2. destruct E2 as [L S].
    apply N.ltb_lt in L. apply negb_true_iff in S. apply string_value_u; assumption. }
  destruct ((m =? 3) && (c =? 47)) eqn:E3.
  { apply andb_true_iff in E3. destruct E3 as [_ E3]. apply N.eqb_eq in E3. subst c. reflexivity. }
  destruct (short_escape c) as [e|] eqn:SE.
  - cbn [app]. apply short_escape_sound. exact SE.
  - cbn [app]. apply string_value_raw. apply short_escape_none. exact SE.
Qed.

(* every escaped form of every string decodes to the string *)
Lemma string_value_escape_spec mode s : forall i, string_value (escape_spec mode i s) = Ok s.
Proof.
  induction s as [|c s IH]; intros i; [reflexivity|].
  cbn [escape_spec]. rewrite escape_char_sound. rewrite IH. reflexivity.
Qed.

(* the same for the specification's reading of the literal *)
Lemma spec_string_raw c r :
  c <> 92 -> c <> 34 -> is_line_term c = false ->
  spec_string (c :: r) = option_map (cons c) (spec_string r).
Proof.
  intros H1 H2 H3. cbn [spec_string].
  destruct (N.eqb_spec c 92); [contradiction|]. destruct (N.eqb_spec c 34); [contradiction|].
  cbn [orb]. rewrite H3. reflexivity.
Qed.

(* ------------------------------------------------ Type::new ----------- *)
Lemma strip_last_app c s : strip_last c (s ++ [c]) = Some s.
Proof.
  induction s as [|x s IH].
  - cbn. rewrite N.eqb_refl. reflexivity.
  - cbn [app]. destruct s as [|y s'].
    + cbn. rewrite N.eqb_refl. reflexivity.
    + change (strip_last c (x :: (y :: s') ++ [c])) with
          (option_map (cons x) (strip_last c ((y :: s') ++ [c]))).
      rewrite IH. reflexivity.
Qed.

Lemma strip_last_some c s r : strip_last c s = Some r -> s = r ++ [c].
Proof.
  revert r. induction s as [|x s IH]; intros r H; [discriminate|].
  destruct s as [|y s'].
  - cbn in H. destruct (N.eqb_spec x c); [|discriminate]. inversion H. subst. reflexivity.
  - change (strip_last c (x :: y :: s')) with (option_map (cons x) (strip_last c (y :: s'))) in H.
    destruct (strip_last c (y :: s')) as [r'|] eqn:E; [|discriminate].
    inversion H. subst. rewrite (IH r' eq_refl). reflexivity.
Qed.

Lemma strip_last_none c s : last s 0 <> c -> strip_last c s = None.
Proof.
  intros H. destruct (strip_last c s) as [r|] eqn:E; [|reflexivity].
  apply strip_last_some in E. subst. rewrite last_last in H. contradiction.
Qed.

Definition name_ok (n : str) : bool :=
  match n with c :: _ => negb (c =? 91) | [] => true end && negb (last n 0 =? 33).

Fixpoint type_ok (t : ptype) : bool :=
  match t with
  | TNamed n _ => name_ok n
  | TList i _ => type_ok i
  end.

Fixpoint type_depth (t : ptype) : nat :=
  match t with TNamed _ _ => 0%nat | TList i _ => S (type_depth i) end.

Lemma type_new_named f (n : str) (b : bool) : name_ok n = true -> type_new (S f) (n ++ (if b then [] else [33])) = Some (TNamed n b).
Proof.
  intros H. apply andb_true_iff in H. destruct H as [H1 H2].
  apply negb_true_iff in H2. apply N.eqb_neq in H2.
  cbn [type_new]. destruct b.
  - rewrite app_nil_r. rewrite (strip_last_none 33 n H2).
    destruct n as [|c n']; [reflexivity|]. apply negb_true_iff in H1. rewrite H1. reflexivity.
  - rewrite strip_last_app.
    destruct n as [|c n']; [reflexivity|]. apply negb_true_iff in H1. rewrite H1. reflexivity.
Qed.

Lemma type_new_print t : forall f, (type_depth t < f)%nat -> type_ok t = true ->
  type_new f (print_type t) = Some t.
Proof.
  induction t as [n b|i IH b]; intros f Hf Hok.
  - destruct f as [|f]; [lia|]. cbn [print_type]. apply type_new_named. exact Hok.
  - destruct f as [|f]; [cbn in Hf; lia|]. cbn [print_type type_depth type_ok] in *.
    assert (IH' : type_new f (print_type i) = Some i) by (apply IH; [lia|exact Hok]).
    cbn [type_new]. destruct b.
    + replace (91 :: print_type i ++ 93 :: []) with ((91 :: print_type i) ++ [93]) by reflexivity.
      rewrite (strip_last_none 33).
      2:{ rewrite last_last. discriminate. }
      cbn [app]. cbn [N.eqb Pos.eqb]. rewrite strip_last_app. rewrite IH'. reflexivity.
    + replace (91 :: print_type i ++ 93 :: [33]) with ((91 :: print_type i ++ [93]) ++ [33]).
      2:{ cbn [app]. rewrite <- app_assoc. reflexivity. }
      rewrite strip_last_app. cbn [N.eqb Pos.eqb].
      rewrite strip_last_app. rewrite IH'. reflexivity.
Qed.

Lemma type_depth_len t : (type_depth t <= length (print_type t))%nat.
Proof.
  induction t as [n b|i IH b]; cbn [type_depth print_type]; [lia|].
  cbn [length]. rewrite app_length. cbn [length]. lia.
Qed.

(* parse_type's call: Type::new(pair.as_str()) with the budget the model uses *)
Lemma type_roundtrip t : type_ok t = true ->
  type_new (S (length (print_type t))) (print_type t) = Some t.
Proof. intros H. apply type_new_print; [|exact H]. pose proof (type_depth_len t). lia. Qed.

(* ------------------------------------ block strings: line predicates --- *)
(* the builder's notion of a blank line / of indentation is the
   specification's: only TAB and SPACE are WhiteSpace *)
Lemma is_blank_ws c : is_blank c = is_ws c.
Proof. reflexivity. Qed.

Lemma is_blank_iff c : is_blank c = true <-> c = 9 \/ c = 32.
Proof.
  unfold is_blank. rewrite orb_true_iff, !N.eqb_eq. tauto.
Qed.

Lemma has_content_only_ws l : has_content l = negb (only_ws l).
Proof.
  unfold has_content, only_ws. induction l as [|c l IH]; [reflexivity|].
  cbn [existsb forallb]. rewrite IH. rewrite is_blank_ws. destruct (is_ws c); reflexivity.
Qed.

Lemma indent_of_leading_ws l :
  indent_of l = if (leading_ws l <? length l)%nat then Some (leading_ws l) else None.
Proof.
  induction l as [|c l IH]; [reflexivity|].
  cbn [indent_of leading_ws length]. rewrite is_blank_ws. destruct (is_ws c).
  - rewrite IH. change (S (leading_ws l) <? S (length l))%nat with (leading_ws l <? length l)%nat.
    destruct (leading_ws l <? length l)%nat; reflexivity.
  - reflexivity.
Qed.

Lemma leading_ws_le l : (leading_ws l <= length l)%nat.
Proof. induction l as [|c l IH]; cbn [leading_ws length]; [lia|]. destruct (is_ws c); lia. Qed.

(* a line is blank for the builder exactly when it is all TAB/SPACE *)
Lemma has_content_false_iff l :
  has_content l = false <-> forall c, In c l -> c = 9 \/ c = 32.
Proof.
  rewrite has_content_only_ws, negb_false_iff. unfold only_ws. rewrite forallb_forall.
  split; intros H c Hc; specialize (H c Hc).
  - apply is_blank_iff. rewrite is_blank_ws. exact H.
  - rewrite <- is_blank_ws. apply is_blank_iff. exact H.
Qed.

(* ------------------------------------------------ concrete strings ------ *)
Definition s_block_escape : str := [120; 92; 34; 34; 34; 121].                  (* x, backslash, three quotes, y *)
Definition s_block_blank : str := [10; 32; 32; 32; 32; 97; 10; 32; 32; 10; 32; 32; 32; 32; 98; 10].
Definition s_type_ws : str := [91; 32; 73; 110; 116; 32; 93].                   (* [ Int ] *)
Definition s_int : str := [73; 110; 116].
Definition s_trueish : str := [116; 114; 117; 101; 105; 115; 104].
Definition s_list_trueish : str := 91 :: s_trueish ++ [93].
Definition s_list_00 : str := [91; 48; 48; 93].
Definition s_1e309 : str := [49; 101; 51; 48; 57].

Lemma block_escape_refuted :
  block_string_value s_block_escape = s_block_escape /\
  spec_block s_block_escape = [120; 34; 34; 34; 121] /\
  parse_query 400 (doc_text 2 s_block_escape) = Ok (field_f_a (PVStr s_block_escape)) /\
  known_class 2 s_block_escape = 1.
Proof. vm_compute. repeat split. Qed.

Lemma block_blank_refuted :
  block_string_value s_block_blank = [97; 10; 32; 32; 10; 98] /\
  spec_block s_block_blank = [97; 10; 10; 98] /\
  parse_query 400 (doc_text 2 s_block_blank) = Ok (field_f_a (PVStr [97; 10; 32; 32; 10; 98])) /\
  known_class 2 s_block_blank = 2.
Proof. vm_compute. repeat split. Qed.

Lemma type_ws_refuted :
  spec_type s_type_ws = Some (TList (TNamed s_int true) true) /\
  parse_query 400 (doc_text 3 s_type_ws) = Err E_SYNTAX /\
  parse_query 400 (doc_text 3 [91; 73; 110; 116; 93]) = Ok (query_v (TList (TNamed s_int true) true)) /\
  known_class 3 s_type_ws = 3.
Proof. vm_compute. repeat split. Qed.

Lemma token_boundary_refuted :
  spec_value s_list_trueish = Some (PVList [PVEnum s_trueish]) /\
  parse_query 400 (doc_text 4 s_list_trueish) = Ok (field_f_a (PVList [PVBool true; PVEnum [105; 115; 104]])) /\
  spec_value s_trueish = Some (PVEnum s_trueish) /\
  parse_query 400 (doc_text 4 s_trueish) = Err E_SYNTAX /\
  spec_value s_list_00 = None /\
  parse_query 400 (doc_text 4 s_list_00) = Ok (field_f_a (PVList [PVInt 0; PVInt 0])) /\
  known_class 4 s_list_trueish = 4 /\ known_class 4 s_list_00 = 4.
Proof. vm_compute. repeat split. Qed.

Lemma float_range_refuted :
  spec_value s_1e309 = Some (PVFloat s_1e309) /\
  parse_query 400 (doc_text 4 s_1e309) = Err E_SYNTAX /\ known_class 4 s_1e309 = 5.
Proof. vm_compute. repeat split. Qed.

(* keyword glued to a name, `on` followed by a comment: accepted with a different tree *)
Definition s_queryX : str := [113; 117; 101; 114; 121; 88; 123; 97; 125].        (* queryX{a} *)
Lemma keyword_glue_refuted :
  spec_lex 20 s_queryX = Some [TName [113; 117; 101; 114; 121; 88]; TPunct 123; TName [97]; TPunct 125] /\
  parse_query 400 s_queryX =
  Ok [DOp {| po_name := Some [88]; po_ty := POQuery; po_vars := []; po_dirs := [];
             po_sels := [PField None [97] [] [] []] |}].
Proof. vm_compute. repeat split. Qed.

(* ------------------------------------------ service documents ---------- *)
Definition s_dir_plain : str :=                                   (* directive @d on FIELD *)
  [100;105;114;101;99;116;105;118;101;32;64;100;32;111;110;32;70;73;69;76;68].
Definition s_dir_rep : str :=                                     (* directive @d repeatable on FIELD *)
  [100;105;114;101;99;116;105;118;101;32;64;100;32;114;101;112;101;97;116;97;98;108;101;32;111;110;32;70;73;69;76;68].
(* the repeatable flag is the presence of the keyword (repaired; was always true) *)
Lemma repeatable_flag :
  parse_schema 400 s_dir_plain = Ok [SDirective None [100] [] false [[70;73;69;76;68]]] /\
  parse_schema 400 s_dir_rep = Ok [SDirective None [100] [] true [[70;73;69;76;68]]] /\
  spec_schema 400 s_dir_plain = parse_schema 400 s_dir_plain /\
  spec_schema 400 s_dir_rep = parse_schema 400 s_dir_rep /\
  known_class_sdl s_dir_plain = 0.
Proof. vm_compute. repeat split. Qed.

(* VariableDefinition: the specification has DefaultValue before Directives, the grammar the reverse *)
Definition s_tail_spec : str := [61; 49; 32; 64; 100].            (* =1 @d *)
Definition s_tail_rev : str := [64; 100; 32; 61; 49].             (* @d =1 *)
Lemma vardef_order_refuted :
  (exists d, spec_expect 6 s_tail_spec = Some (Ok d)) /\
  parse_query 400 (doc_text 6 s_tail_spec) = Err E_SYNTAX /\
  spec_expect 6 s_tail_rev = Some (Err E_SYNTAX) /\
  (exists d, parse_query 400 (doc_text 6 s_tail_rev) = Ok d) /\
  known_class 6 s_tail_spec = 7 /\ known_class 6 s_tail_rev = 7.
Proof. vm_compute. repeat split; eexists; reflexivity. Qed.

(* enum E{truex}: five tokens for the lexer, a syntax error for the grammar *)
Definition s_enum_truex : str := [101;110;117;109;32;69;123;116;114;117;101;120;125].
Definition s_enum_xtrue : str := [101;110;117;109;32;69;123;120;116;114;117;101;125].
Lemma enum_value_prefix_refuted :
  spec_lex 20 s_enum_truex =
    Some [TName [101;110;117;109]; TName [69]; TPunct 123; TName [116;114;117;101;120]; TPunct 125] /\
  parse_schema 400 s_enum_truex = Err E_SYNTAX /\
  parse_schema 400 s_enum_xtrue =
    Ok [SType false None [69] [] (KEnum [{| ev_desc := None; ev_name := [120;116;114;117;101]; ev_dirs := [] |}])].
Proof. vm_compute. repeat split. Qed.

(* non-vacuity: on a definition using every optional slot of an input value the
   builder model and the by-rule-name specification give the same, full tree *)
Definition s_kitchen : str :=      (* type Q{f("d" a:[T!]! = "x" @p @q(x:1)):Int @c} *)
  [116;121;112;101;32;81;123;102;40;34;100;34;32;97;58;91;84;33;93;33;32;61;32;34;120;34;32;64;112;32;64;113;40;120;58;49;41;41;58;73;110;116;32;64;99;125].
Lemma sdl_kitchen_sink :
  parse_schema 400 s_kitchen = spec_schema 400 s_kitchen /\
  parse_schema 400 s_kitchen =
  Ok [SType false None [81] []
        (KObject []
           [{| fd_desc := None; fd_name := [102];
               fd_args := [{| iv_desc := Some [100]; iv_name := [97];
                              iv_ty := TList (TNamed [84] false) false;
                              iv_default := Some (PVStr [120]);
                              iv_dirs := [{| pd_name := [112]; pd_args := [] |};
                                          {| pd_name := [113]; pd_args := [([120], PVInt 1)] |}] |}];
               fd_ty := TNamed [73;110;116] true;
               fd_dirs := [{| pd_name := [99]; pd_args := [] |}] |}])].
Proof. vm_compute. split; reflexivity. Qed.

(* ------------------------------- the grammar facts the lemmas rest on --- *)
(* rules of the regenerated grammar pinned structurally: an edit of these
   rules in graphql.pest breaks the obligation *)
Lemma grammar_string_rules :
  nth_error grammar (N.to_nat R_string_character) =
  Some (MNormal,
        PChoice (PSeq (PNot (PChoice (PStr [34]) (PChoice (PStr [92]) (PRef R_line_terminator)))) PAny)
       (PChoice (PSeq (PStr [92]) (PChoice (PStr [34]) (PChoice (PStr [92]) (PChoice (PStr [47]) (PChoice (PStr [98])
                 (PChoice (PStr [102]) (PChoice (PStr [110]) (PChoice (PStr [114]) (PStr [116])))))))))
                (PSeq (PStr [92; 117]) (PRef R_unicode_scalar_value_hex)))) /\
  nth_error grammar (N.to_nat R_string_content) = Some (MAtomic, PStar (PRef R_string_character)) /\
  nth_error grammar (N.to_nat R_block_string_content) = Some (MAtomic, PStar (PRef R_block_string_character)) /\
  nth_error grammar (N.to_nat R_block_string_character) =
  Some (MNormal, PChoice (PSeq (PNot (PChoice (PStr [34; 34; 34]) (PStr [92; 34; 34; 34]))) PAny) (PStr [92; 34; 34; 34])) /\
  nth_error grammar (N.to_nat R_type_) =
  Some (MAtomic, PSeq (PChoice (PRef R_name) (PSeq (PStr [91]) (PSeq (PRef R_type_) (PStr [93])))) (POpt (PStr [33]))) /\
  nth_error grammar (N.to_nat R_line_terminator) =
  Some (MAtomic, PChoice (PStr [13; 10]) (PChoice (PStr [13]) (PStr [10]))).
Proof. vm_compute. repeat split. Qed.

(* nesting boundary of selection sets, through the whole model *)
Fixpoint nest_doc (d : nat) (inner : str) : str :=
  match d with O => inner | S d' => 123 :: 97 :: nest_doc d' inner ++ [125] end.
Lemma nesting_boundary :
  (exists items, parse_query 4000 (nest_doc 64 [123; 97; 125]) = Ok items) /\
  parse_query 4000 (nest_doc 65 [123; 97; 125]) = Err E_RECURSION_LIMIT.
Proof. split; [eexists|]; vm_compute; reflexivity. Qed.

(* HttpProofs.v — lemmas and proofs for C23 (no model definitions). *)
From AG Require Import Http.
Open Scope N_scope.

(* ---------------------------------------------------------------- strings -- *)
Lemma str_cmp_refl a : str_cmp a a = Eq.
Proof. induction a as [|x a IH]; [reflexivity|]. cbn [str_cmp]. rewrite N.compare_refl. exact IH. Qed.

Lemma str_cmp_eq a : forall b, str_cmp a b = Eq -> a = b.
Proof.
  induction a as [|x a IH]; intros [|y b] H; try discriminate; [reflexivity|].
  cbn [str_cmp] in H. destruct (N.compare x y) eqn:C; try discriminate.
  apply N.compare_eq in C. subst. f_equal. apply IH. exact H.
Qed.

Lemma str_eqb_refl a : str_eqb a a = true.
Proof. unfold str_eqb. rewrite str_cmp_refl. reflexivity. Qed.

Lemma str_eqb_eq a b : str_eqb a b = true <-> a = b.
Proof.
  split.
  - unfold str_eqb. destruct (str_cmp a b) eqn:C; try discriminate. intros _. apply str_cmp_eq. exact C.
  - intros ->. apply str_eqb_refl.
Qed.

Lemma str_eqb_neq a b : str_eqb a b = false <-> a <> b.
Proof.
  split.
  - intros H E. subst. rewrite str_eqb_refl in H. discriminate.
  - intros H. destruct (str_eqb a b) eqn:E; [|reflexivity]. apply str_eqb_eq in E. contradiction.
Qed.

Lemma str_cmp_antisym a : forall b, str_cmp b a = CompOpp (str_cmp a b).
Proof.
  induction a as [|x a IH]; intros [|y b]; try reflexivity.
  cbn [str_cmp]. rewrite (N.compare_antisym x y).
  destruct (N.compare x y); cbn [CompOpp]; try reflexivity. apply IH.
Qed.

Lemma str_cmp_lt_trans a : forall b c, str_cmp a b = Lt -> str_cmp b c = Lt -> str_cmp a c = Lt.
Proof.
  induction a as [|x a IH]; intros [|y b] [|z c] H1 H2; try discriminate; try reflexivity.
  cbn [str_cmp] in *.
  destruct (N.compare x y) eqn:C1; try discriminate;
  destruct (N.compare y z) eqn:C2; try discriminate.
  - apply N.compare_eq in C1. apply N.compare_eq in C2. subst. rewrite N.compare_refl. eapply IH; eauto.
  - apply N.compare_eq in C1. subst. rewrite C2. reflexivity.
  - apply N.compare_eq in C2. subst. rewrite C1. reflexivity.
  - rewrite N.compare_lt_iff in C1, C2. assert (x < z) by lia.
    apply N.compare_lt_iff in H. rewrite H. reflexivity.
Qed.

(* ------------------------------------------------- sorted maps round-trip -- *)
Definition all_lt {A} (m : list (str * A)) (k : str) : Prop :=
  Forall (fun kv => str_cmp (fst kv) k = Lt) m.

Lemma bt_insert_snoc {A} (k : str) (v : A) m : all_lt m k -> bt_insert k v m = m ++ [(k, v)].
Proof.
  induction m as [|[k' v'] m IH]; intros H; [reflexivity|].
  inversion H as [|? ? H1 H2]; subst. cbn [fst] in H1.
  cbn [bt_insert]. rewrite (str_cmp_antisym k' k), H1. cbn [CompOpp].
  cbn [app]. f_equal. apply IH. exact H2.
Qed.

Lemma sorted_keys_tail {A} k (v : A) m : sorted_keys ((k, v) :: m) = true -> sorted_keys m = true.
Proof.
  cbn [sorted_keys]. destruct m as [|[k' v'] m]; [reflexivity|].
  intros H. apply andb_prop in H. apply H.
Qed.

Lemma sorted_keys_head_lt {A} k (v : A) m :
  sorted_keys ((k, v) :: m) = true -> Forall (fun kv => str_cmp k (fst kv) = Lt) m.
Proof.
  revert k v. induction m as [|[k' v'] m IH]; intros k v H; [constructor|].
  cbn [sorted_keys] in H. apply andb_prop in H. destruct H as [H1 H2].
  unfold str_ltb in H1. destruct (str_cmp k k') eqn:C; try discriminate.
  constructor; [exact C|].
  specialize (IH k' v' H2).
  eapply Forall_impl; [|exact IH]. intros [k2 v2] H3. cbn [fst] in *. eapply str_cmp_lt_trans; eauto.
Qed.

Lemma bt_collect_sorted m : forall acc,
  sorted_keys m = true ->
  Forall (fun kv => cv_of (snd kv) = snd kv) m ->
  Forall (fun kv => all_lt acc (fst kv)) m ->
  bt_collect m acc = acc ++ m.
Proof.
  induction m as [|[k v] m IH]; intros acc Hs Hn Hl.
  - cbn [bt_collect]. rewrite app_nil_r. reflexivity.
  - cbn [bt_collect].
    inversion Hn as [|? ? Hn1 Hn2]; subst. inversion Hl as [|? ? Hl1 Hl2]; subst.
    cbn [snd fst] in *. rewrite Hn1. rewrite (bt_insert_snoc k v acc Hl1).
    rewrite IH.
    + rewrite <- app_assoc. reflexivity.
    + eapply sorted_keys_tail; eauto.
    + exact Hn2.
    + pose proof (sorted_keys_head_lt k v m Hs) as Hh.
      clear - Hl2 Hh. induction m as [|[k2 v2] m IH]; [constructor|].
      inversion Hl2; inversion Hh; subst. constructor; [|apply IH; assumption].
      cbn [fst] in *. unfold all_lt in *. apply Forall_app. split; [assumption|].
      constructor; [|constructor]. cbn [fst]. assumption.
Qed.

Lemma bt_collect_wf m : wf_members m -> bt_collect m [] = m.
Proof.
  intros [Hs Hn]. rewrite bt_collect_sorted; auto.
  clear. induction m; constructor; [constructor|assumption].
Qed.

(* --------------------------------------------------------- key-table facts -- *)
Lemma routes_facts kt k :
  (routes kt k = 0 -> key_in k (k_query kt) = true) /\
  (routes kt k = 1 -> key_in k (k_query kt) = false /\ key_in k (k_op kt) = true) /\
  (routes kt k = 2 -> key_in k (k_query kt) = false /\ key_in k (k_op kt) = false /\ key_in k (k_vars kt) = true) /\
  (routes kt k = 3 -> key_in k (k_query kt) = false /\ key_in k (k_op kt) = false /\ key_in k (k_vars kt) = false /\
                      key_in k (k_exts kt) = true).
Proof.
  unfold routes.
  destruct (key_in k (k_query kt)), (key_in k (k_op kt)), (key_in k (k_vars kt)), (key_in k (k_exts kt));
    repeat split; intros; try discriminate; reflexivity.
Qed.

Ltac tab_facts H :=
  let H3 := fresh in let Ho := fresh in
  first [ (apply andb_prop in H; destruct H as [H3 Ho]; apply N.eqb_eq in Ho;
           destruct (proj1 (proj2 (routes_facts _ _)) Ho) as [?Ko0 ?Ko1])
        | pose proof H as H3 ];
  unfold tab_ok3 in H3;
  repeat (let X := fresh in apply andb_prop in H3; destruct H3 as [H3 X]; try apply N.eqb_eq in X;
          first [ pose proof (proj1 (routes_facts _ _) X)
                | destruct (proj1 (proj2 (proj2 (routes_facts _ _))) X) as [? [? ?]]
                | destruct (proj2 (proj2 (proj2 (routes_facts _ _))) X) as [? [? [? ?]]]
                | idtac ]);
  try apply N.eqb_eq in H3; try pose proof (proj1 (routes_facts _ _) H3).

(* ------------------------------------------------------ JSON body round trip -- *)
Lemma decode_map_enc kt q o v x :
  tab_ok3 kt = true -> (o <> None -> routes kt K_OPNAME = 1) ->
  wf_members v -> wf_members x ->
  decode_request_map kt
    ([(K_QUERY, JStr q)] ++ match o with Some o => [(K_OPNAME, JStr o)] | None => [] end ++
     [(K_VARIABLES, JObj v); (K_EXTENSIONS, JObj x)]) =
  Ok {| r_query := q; r_op := o; r_vars := v; r_exts := x |}.
Proof.
  intros Ht Ho Hv Hx. tab_facts Ht.
  unfold decode_request_map.
  destruct o as [o|].
  - destruct (proj1 (proj2 (routes_facts kt K_OPNAME)) (Ho ltac:(discriminate))) as [Ko0 Ko1].
    cbn [app visit_members no_slots s_q s_o s_v s_x bindo d_string d_opt_string decode_map_member].
    repeat match goal with H : key_in _ _ = _ |- _ => rewrite H; clear H end.
    cbn [app visit_members no_slots s_q s_o s_v s_x bindo d_string d_opt_string decode_map_member slot_or].
    rewrite !bt_collect_wf by assumption. reflexivity.
  - cbn [app visit_members no_slots s_q s_o s_v s_x bindo d_string d_opt_string decode_map_member].
    repeat match goal with H : key_in _ _ = _ |- _ => rewrite H end.
    cbn [app visit_members no_slots s_q s_o s_v s_x bindo d_string d_opt_string decode_map_member slot_or].
    match goal with H : m_op kt = true |- _ => rewrite H end.
    rewrite !bt_collect_wf by assumption. reflexivity.
Qed.

Lemma op_route kt (r : request) : tab_ok kt = true -> r_op r <> None -> routes kt K_OPNAME = 1.
Proof. intros H _. unfold tab_ok in H. apply andb_prop in H. apply N.eqb_eq. apply H. Qed.

Lemma tab_ok_ok3 kt : tab_ok kt = true -> tab_ok3 kt = true.
Proof. intros H. unfold tab_ok in H. apply andb_prop in H. apply H. Qed.

(* a request object decodes to the request it denotes: every key table that
   routes the protocol names (operationName only needed when one is sent) *)
Lemma json_single_gen kt r :
  tab_ok3 kt = true -> (r_op r <> None -> routes kt K_OPNAME = 1) -> wf_request r ->
  decode_request kt (enc_json r) = Ok r.
Proof.
  intros Ht Ho [Hv Hx]. destruct r as [q o v x]. unfold enc_json. cbn [decode_request r_query r_op r_vars r_exts] in *.
  apply decode_map_enc; assumption.
Qed.

Lemma json_roundtrip kt r :
  tab_ok kt = true -> wf_request r -> decode_batch kt (enc_json r) = Ok (BSingle r).
Proof.
  intros Ht Hw. unfold decode_batch.
  rewrite (json_single_gen kt r (tab_ok_ok3 _ Ht) (op_route kt r Ht) Hw). reflexivity.
Qed.

Lemma decode_all_enc kt rs :
  tab_ok kt = true -> Forall wf_request rs -> decode_all kt (map enc_json rs) = Ok rs.
Proof.
  intros Ht H. induction H as [|r rs Hr _ IH]; [reflexivity|].
  cbn [map decode_all]. rewrite (json_single_gen kt r (tab_ok_ok3 _ Ht) (op_route kt r Ht) Hr).
  cbn [bindo]. rewrite IH. reflexivity.
Qed.

(* a batch decodes to its requests, in order *)
Lemma batch_roundtrip kt rs :
  tab_ok kt = true -> Forall wf_request rs -> rs <> [] ->
  decode_batch kt (JArr (map enc_json rs)) = Ok (BBatch rs).
Proof.
  intros Ht Hw Hne. unfold decode_batch.
  destruct rs as [|r rs]; [contradiction|].
  assert (Hs : decode_request kt (JArr (map enc_json (r :: rs))) = Err E).
  { cbn [decode_request map]. unfold decode_request_seq, enc_json. cbn [seq_elem d_string bindo].
    destruct (p_query kt); reflexivity. }
  rewrite Hs. rewrite (decode_all_enc kt (r :: rs) Ht Hw). reflexivity.
Qed.

(* with the codec: serde_json parses back what the client printed *)
Section JsonCodec.
  Variable bytes : Type.
  Variable jprint_b : jv -> bytes.
  Variable jparse_b : bytes -> option jv.
  Hypothesis codec : forall v, jparse_b (jprint_b v) = Some v.

  Lemma json_body_roundtrip kt r :
    tab_ok kt = true -> wf_request r ->
    decode_body kt (jparse_b (jprint_b (enc_json r))) = Ok (BSingle r) /\
    into_single (decode_body kt (jparse_b (jprint_b (enc_json r)))) = Ok r /\
    decode_mp_operations kt CtOther (jparse_b (jprint_b (enc_json r))) = Ok (BSingle r) /\
    dispatch kt CtOther (jparse_b (jprint_b (enc_json r))) (Err E_INVALID_MULTIPART) = Ok (BSingle r).
  Proof.
    intros Ht Hw. rewrite codec. unfold decode_mp_operations, dispatch, decode_body.
    rewrite (json_roundtrip kt r Ht Hw). repeat split; reflexivity.
  Qed.

  Lemma json_batch_body_roundtrip kt rs :
    tab_ok kt = true -> Forall wf_request rs -> rs <> [] ->
    decode_body kt (jparse_b (jprint_b (JArr (map enc_json rs)))) = Ok (BBatch rs).
  Proof. intros. rewrite codec. apply batch_roundtrip; assumption. Qed.

  (* text that is not JSON is rejected *)
  Lemma json_body_not_json kt b : jparse_b b = None -> decode_body kt (jparse_b b) = Err E_INVALID_REQUEST.
  Proof. intros ->. reflexivity. Qed.
End JsonCodec.

(* ------------------------------------------------------ query string round trip -- *)
Section GetCodec.
  Variable jprint : jv -> str.
  Variable jparse : str -> option jv.
  Hypothesis codec : forall v, jparse (jprint v) = Some v.

  Lemma get_roundtrip_gen kt r :
    tab_ok3 kt = true -> (r_op r <> None -> routes kt K_OPNAME = 1) -> wf_request r ->
    decode_get kt jparse (enc_get jprint r) = Ok r.
  Proof.
    intros Ht Ho [Hv Hx]. destruct r as [q o v x]. cbn [r_op r_vars r_exts] in *. tab_facts Ht.
    unfold decode_get, enc_get. cbn [r_query r_op r_vars r_exts].
    destruct o as [o|].
    - destruct (proj1 (proj2 (routes_facts kt K_OPNAME)) (Ho ltac:(discriminate))) as [Ko0 Ko1].
      cbn [app visit_members no_slots s_q s_o s_v s_x bindo].
      repeat match goal with H : key_in _ _ = _ |- _ => rewrite H; clear H end.
      cbn [app visit_members no_slots s_q s_o s_v s_x bindo slot_or option_map get_json_member].
      rewrite !codec. cbn [decode_map_member bindo].
      rewrite !bt_collect_wf by assumption. reflexivity.
    - cbn [app visit_members no_slots s_q s_o s_v s_x bindo].
      repeat match goal with H : key_in _ _ = _ |- _ => rewrite H end.
      cbn [app visit_members no_slots s_q s_o s_v s_x bindo slot_or option_map get_json_member].
      match goal with H : m_op kt = true |- _ => rewrite H end.
      cbn [bindo get_json_member]. rewrite !codec. cbn [decode_map_member bindo].
      rewrite !bt_collect_wf by assumption. reflexivity.
  Qed.

  Lemma get_roundtrip kt r :
    tab_ok kt = true -> wf_request r -> decode_get kt jparse (enc_get jprint r) = Ok r.
  Proof. intros Ht Hw. apply get_roundtrip_gen; [apply tab_ok_ok3; exact Ht|apply op_route; exact Ht|exact Hw]. Qed.

  Lemma get_roundtrip_no_opname kt r :
    tab_ok3 kt = true -> r_op r = None -> wf_request r -> decode_get kt jparse (enc_get jprint r) = Ok r.
  Proof. intros Ht Ho Hw. apply get_roundtrip_gen; [exact Ht| |exact Hw]. intros H. contradiction. Qed.

  (* the operation name is lost whenever the table does not route operationName to it *)
  Definition opname_request : request :=
    {| r_query := [123;97;125]; r_op := Some ([88]); r_vars := []; r_exts := [] |}.

  Lemma get_opname_lost kt :
    tab_ok3 kt = true -> routes kt K_OPNAME = 4 ->
    decode_get kt jparse (enc_get jprint opname_request) =
    Ok {| r_query := [123;97;125]; r_op := None; r_vars := []; r_exts := [] |}.
  Proof.
    intros Ht Ho. tab_facts Ht.
    assert (Hk : key_in K_OPNAME (k_query kt) = false /\ key_in K_OPNAME (k_op kt) = false /\
                 key_in K_OPNAME (k_vars kt) = false /\ key_in K_OPNAME (k_exts kt) = false).
    { unfold routes in Ho.
      destruct (key_in K_OPNAME (k_query kt)), (key_in K_OPNAME (k_op kt)), (key_in K_OPNAME (k_vars kt)),
        (key_in K_OPNAME (k_exts kt)); try discriminate; repeat split; reflexivity. }
    destruct Hk as [A [B [C D]]].
    unfold decode_get, enc_get, opname_request. cbn [r_query r_op r_vars r_exts].
    cbn [app visit_members no_slots s_q s_o s_v s_x bindo].
    rewrite A, B, C, D.
    repeat match goal with H : key_in _ _ = _ |- _ => rewrite H end.
    cbn [app visit_members no_slots s_q s_o s_v s_x bindo slot_or option_map get_json_member].
    match goal with H : m_op kt = true |- _ => rewrite H end.
    cbn [bindo get_json_member]. rewrite !codec. reflexivity.
  Qed.

  Lemma get_refuted_today :
    exists r, wf_request r /\ decode_get get_tab_today jparse (enc_get jprint r) <> Ok r.
  Proof.
    exists opname_request. split.
    - split; split; try reflexivity; constructor.
    - rewrite get_opname_lost by reflexivity. discriminate.
  Qed.

  (* characterisation: a table that handles the three other members decodes
     every standard query string to its request iff it routes operationName *)
  Lemma get_iff kt :
    tab_ok3 kt = true -> (routes kt K_OPNAME = 1 \/ routes kt K_OPNAME = 4) ->
    ((forall r, wf_request r -> decode_get kt jparse (enc_get jprint r) = Ok r) <-> routes kt K_OPNAME = 1).
  Proof.
    intros Ht Hr. split.
    - intros H. destruct Hr as [Hr|Hr]; [exact Hr|].
      specialize (H opname_request ltac:(split; split; try reflexivity; constructor)).
      rewrite get_opname_lost in H by assumption. discriminate.
    - intros Ho r Hw. apply get_roundtrip_gen; auto.
  Qed.
End GetCodec.

(* the generated tables are the known ones *)
Lemma req_tab_ok : tab_ok req_tab = true.
Proof. vm_compute. reflexivity. Qed.
Lemma req_tab_std : tab_std req_tab.
Proof. repeat split; vm_compute; reflexivity. Qed.
Lemma get_tab_ok3 : tab_ok3 get_tab = true.
Proof. vm_compute. reflexivity. Qed.
Lemma get_tab_known : get_tab = get_tab_today \/ tab_ok get_tab = true.
Proof. first [ left; vm_compute; reflexivity | right; vm_compute; reflexivity ]. Qed.

(* ------------------------------------------------------------ batch order -- *)
Section OrderedProofs.
  Variables (A B : Type).
  Variable exec : A -> B.
  Open Scope nat_scope.

  Lemma take_idx_some {C} i : forall (l : list (nat * C)) c l',
    take_idx i l = Some (c, l') ->
    In (i, c) l /\ (forall x, In x l' -> In x l) /\ (forall j d, In (j, d) l -> j <> i -> In (j, d) l') /\
    length l = S (length l').
  Proof.
    induction l as [|[j d] l IH]; intros c l' H; [discriminate|].
    cbn [take_idx] in H. destruct (Nat.eqb i j) eqn:E.
    - apply Nat.eqb_eq in E. subst j. inversion H; subst. repeat split.
      + left; reflexivity.
      + intros x Hx. right; exact Hx.
      + intros j d' [Hin|Hin] Hne; [inversion Hin; subst; contradiction|exact Hin].
    - destruct (take_idx i l) as [[c' r]|] eqn:T; [|discriminate]. inversion H; subst.
      destruct (IH c r eq_refl) as [I1 [I2 [I3 I4]]]. repeat split.
      + right; exact I1.
      + intros x [Hx|Hx]; [left; exact Hx|right; apply I2; exact Hx].
      + intros j' d' [Hin|Hin] Hne; [left; exact Hin|right; apply I3; assumption].
      + cbn [length]. rewrite I4. reflexivity.
  Qed.

  Lemma take_idx_in {C} i (c : C) : forall l, In (i, c) l -> take_idx i l <> None.
  Proof.
    induction l as [|[j d] l IH]; intros H; [contradiction|].
    cbn [take_idx]. destruct (Nat.eqb i j) eqn:E; [discriminate|].
    destruct H as [H|H]; [inversion H; subst; rewrite Nat.eqb_refl in E; discriminate|].
    specialize (IH H). destruct (take_idx i l) as [[? ?]|]; [discriminate|contradiction].
  Qed.

  Lemma firstn_S_nth {C} : forall (l : list C) k a, nth_error l k = Some a -> firstn (S k) l = firstn k l ++ [a].
  Proof.
    induction l as [|x l IH]; intros [|k] a H; try discriminate.
    - inversion H; subst. reflexivity.
    - cbn [nth_error] in H. change (firstn (S (S k)) (x :: l)) with (x :: firstn (S k) l).
      rewrite (IH k a H). reflexivity.
  Qed.

  Variable rs : list A.

  Definition heap_ok (heap : list (nat * B)) : Prop :=
    forall i b, In (i, b) heap -> exists a, nth_error rs i = Some a /\ b = exec a.
  Definition pending_ok (pend : list (nat * A)) : Prop :=
    forall i a, In (i, a) pend -> nth_error rs i = Some a.
  Definition covered (pend : list (nat * A)) (heap : list (nat * B)) (next : nat) : Prop :=
    forall i, next <= i < length rs -> (exists a, In (i, a) pend) \/ (exists b, In (i, b) heap).

  Lemma drain_inv pend : forall fuel heap next out,
    length heap < fuel ->
    out = map exec (firstn next rs) -> heap_ok heap -> covered pend heap next ->
    let '(heap', next', out') := drain B fuel heap next out in
    out' = map exec (firstn next' rs) /\ heap_ok heap' /\ covered pend heap' next' /\ take_idx next' heap' = None.
  Proof.
    induction fuel as [|fuel IH]; intros heap next out Hf Ho Hh Hc; [inversion Hf|].
    cbn [drain]. destruct (take_idx next heap) as [[b heap']|] eqn:T.
    - destruct (take_idx_some next heap b heap' T) as [I1 [I2 [I3 I4]]].
      destruct (Hh next b I1) as [a [Ha Hb]].
      apply IH.
      + lia.
      + rewrite (firstn_S_nth rs next a Ha), map_app, <- Ho. cbn [map]. subst b. reflexivity.
      + intros i b' Hin. apply Hh. apply I2. exact Hin.
      + intros i Hi. destruct (Hc i ltac:(lia)) as [Hp|[b' Hb']]; [left; exact Hp|].
        right. exists b'. apply I3; [exact Hb'|lia].
    - repeat split; assumption.
  Qed.

  Record inv (st : ostate A B) : Prop := {
    inv_out : o_out st = map exec (firstn (o_next st) rs);
    inv_heap : heap_ok (o_heap st);
    inv_pend : pending_ok (o_pending st);
    inv_cov : covered (o_pending st) (o_heap st) (o_next st);
    inv_drained : take_idx (o_next st) (o_heap st) = None }.

  Lemma complete_inv i st : inv st -> inv (complete exec i st).
  Proof.
    intros [I1 I2 I3 I4 I5]. unfold complete.
    destruct (take_idx i (o_pending st)) as [[a pend']|] eqn:T; [|constructor; assumption].
    destruct (take_idx_some i _ a pend' T) as [T1 [T2 [T3 T4]]].
    pose proof (drain_inv pend' (S (length ((i, exec a) :: o_heap st))) ((i, exec a) :: o_heap st)
                  (o_next st) (o_out st) ltac:(lia) I1) as D.
    destruct (drain B (S (length ((i, exec a) :: o_heap st))) ((i, exec a) :: o_heap st) (o_next st) (o_out st))
      as [[heap' next'] out'].
    destruct D as [D1 [D2 [D3 D4]]].
    - intros j b [Hin|Hin]; [inversion Hin; subst; exists a; split; [apply I3; exact T1|reflexivity]|apply I2; exact Hin].
    - intros j Hj. destruct (Nat.eq_dec j i) as [->|Hne].
      + right. exists (exec a). left; reflexivity.
      + destruct (I4 j Hj) as [[a' Ha']|[b' Hb']].
        * left. exists a'. apply T3; assumption.
        * right. exists b'. right; exact Hb'.
    - constructor; cbn [o_out o_next o_heap o_pending]; try assumption.
      intros j a' Hin. apply I3. apply T2. exact Hin.
  Qed.

  Lemma index_from_spec {C} : forall (l : list C) k i c,
    In (i, c) (index_from k l) <-> k <= i /\ nth_error l (i - k) = Some c.
  Proof.
    induction l as [|x l IH]; intros k i c; cbn [index_from].
    - split; [contradiction|]. intros [_ H]. destruct (i - k); discriminate.
    - split.
      + intros [H|H].
        * inversion H; subst. rewrite Nat.sub_diag. split; [lia|reflexivity].
        * apply IH in H. destruct H as [H1 H2]. split; [lia|].
          replace (i - k) with (S (i - S k)) by lia. exact H2.
      + intros [H1 H2]. destruct (Nat.eq_dec i k) as [->|Hne].
        * rewrite Nat.sub_diag in H2. inversion H2; subst. left; reflexivity.
        * right. apply IH. split; [lia|]. replace (i - k) with (S (i - S k)) in H2 by lia. exact H2.
  Qed.

  Lemma init_inv : inv (o_init (B := B) rs).
  Proof.
    constructor; cbn [o_init o_out o_next o_heap o_pending].
    - reflexivity.
    - intros i b [].
    - intros i a H. apply index_from_spec in H. destruct H as [_ H]. rewrite Nat.sub_0_r in H. exact H.
    - intros i Hi. left. destruct (nth_error rs i) as [a|] eqn:Hn.
      + exists a. apply index_from_spec. split; [lia|]. rewrite Nat.sub_0_r. exact Hn.
      + apply nth_error_None in Hn. lia.
    - reflexivity.
  Qed.

  Lemma run_inv sched : forall st, inv st -> inv (fold_left (fun st i => complete exec i st) sched st).
  Proof. induction sched as [|i sched IH]; intros st H; [exact H|]. cbn [fold_left]. apply IH. apply complete_inv. exact H. Qed.

  (* whatever the order in which the executions complete, and however often
     an index is named: once every execution has completed, the responses
     are the executions of the requests, in request order *)
  Theorem batch_order_all_schedules sched out :
    batch_response exec rs sched = Some out -> out = map exec rs.
  Proof.
    unfold batch_response, run_schedule.
    pose proof (run_inv sched _ init_inv) as [I1 I2 I3 I4 I5].
    destruct (o_pending (fold_left _ sched (o_init rs))) eqn:P; [|discriminate].
    intros H. inversion H; subst out. rewrite I1.
    set (st := fold_left (fun st i => complete exec i st) sched (o_init rs)) in *.
    destruct (Nat.lt_ge_cases (o_next st) (length rs)) as [Hlt|Hge].
    - exfalso. destruct (I4 (o_next st) ltac:(lia)) as [[a Ha]|[b Hb]].
      + try rewrite P in Ha. destruct Ha.
      + apply (take_idx_in _ _ _ Hb). exact I5.
    - rewrite firstn_all2 by exact Hge. reflexivity.
  Qed.

  (* pending shrinks exactly by the completed index *)
  Definition pend_idx (st : ostate A B) : list nat := map fst (o_pending st).

  Lemma take_idx_fst {C} i : forall (l : list (nat * C)) c l',
    take_idx i l = Some (c, l') -> NoDup (map fst l) -> NoDup (map fst l') /\ ~ In i (map fst l') /\
    (forall j, In j (map fst l') -> In j (map fst l)).
  Proof.
    induction l as [|[j d] l IH]; intros c l' H Hn; [discriminate|].
    cbn [take_idx] in H. cbn [map fst] in Hn. inversion Hn as [|? ? Hn1 Hn2]; subst.
    destruct (Nat.eqb i j) eqn:E.
    - apply Nat.eqb_eq in E. subst j. inversion H; subst. repeat split; try assumption. intros j Hj. right; exact Hj.
    - destruct (take_idx i l) as [[c' r]|] eqn:T; [|discriminate]. inversion H; subst.
      destruct (IH c r eq_refl Hn2) as [J1 [J2 J3]]. cbn [map fst]. repeat split.
      + constructor; [|exact J1]. intros Hin. apply Hn1. apply J3. exact Hin.
      + intros [Hin|Hin]; [subst; rewrite Nat.eqb_refl in E; discriminate|contradiction].
      + intros j' [Hj|Hj]; [left; exact Hj|right; apply J3; exact Hj].
  Qed.

  Lemma complete_pending i st :
    NoDup (pend_idx st) ->
    NoDup (pend_idx (complete exec i st)) /\ ~ In i (pend_idx (complete exec i st)) /\
    (forall j, In j (pend_idx (complete exec i st)) -> In j (pend_idx st)).
  Proof.
    intros Hn. unfold complete, pend_idx in *.
    destruct (take_idx i (o_pending st)) as [[a pend']|] eqn:T.
    - destruct (take_idx_fst i _ a pend' T Hn) as [J1 [J2 J3]].
      destruct (drain B _ _ _ _) as [[h n] o]. cbn [o_pending]. repeat split; assumption.
    - repeat split; try assumption; [|auto].
      intros Hin. apply in_map_iff in Hin. destruct Hin as [[j a] [Hj Hin]]. cbn [fst] in Hj. subst j.
      apply (take_idx_in _ _ _ Hin). exact T.
  Qed.

  Lemma run_pending sched : forall st,
    NoDup (pend_idx st) ->
    forall j, In j (pend_idx (fold_left (fun st i => complete exec i st) sched st)) -> In j (pend_idx st) /\ ~ In j sched.
  Proof.
    induction sched as [|i sched IH]; intros st Hn j Hj; [split; [exact Hj|intros []]|].
    cbn [fold_left] in Hj. destruct (complete_pending i st Hn) as [C1 [C2 C3]].
    destruct (IH _ C1 j Hj) as [H1 H2]. split; [apply C3; exact H1|].
    intros [->|Hin]; [apply C2; exact H1|apply H2; exact Hin].
  Qed.

  Lemma index_from_fst {C} : forall (l : list C) k, map fst (index_from k l) = seq k (length l).
  Proof. induction l as [|x l IH]; intros k; [reflexivity|]. cbn [index_from map fst length seq]. rewrite IH. reflexivity. Qed.

  (* every schedule that names every request completes the batch *)
  Theorem batch_completes sched :
    (forall i, i < length rs -> In i sched) -> batch_response exec rs sched = Some (map exec rs).
  Proof.
    intros Hall.
    destruct (batch_response exec rs sched) as [out|] eqn:R.
    - f_equal. apply (batch_order_all_schedules sched). exact R.
    - exfalso. unfold batch_response, run_schedule in R.
      destruct (o_pending (fold_left _ sched (o_init rs))) as [|[j a] p] eqn:P; [discriminate|].
      assert (Hn : NoDup (pend_idx (o_init (B := B) rs))).
      { unfold pend_idx, o_init. cbn [o_pending]. rewrite index_from_fst. apply seq_NoDup. }
      destruct (run_pending sched _ Hn j) as [H1 H2].
      { unfold pend_idx. rewrite P. left; reflexivity. }
      unfold pend_idx, o_init in H1. cbn [o_pending] in H1. rewrite index_from_fst in H1.
      apply in_seq in H1. apply H2. apply Hall. lia.
  Qed.
End OrderedProofs.

(* ------------------------------------------- the derived visitor, per member -- *)
Fixpoint select {T} (kt : keytab) (i : N) (m : list (str * T)) : list T :=
  match m with
  | [] => []
  | (k, x) :: m' => if routes kt k =? i then x :: select kt i m' else select kt i m'
  end.

Definition field_res {T A} (e : N) (dec : T -> outcome A) (cur : option A) (vals : list T) : outcome (option A) :=
  match vals with
  | [] => Ok cur
  | x :: rest =>
      match cur with
      | Some _ => Err e
      | None => match rest with [] => bindo (dec x) (fun y => Ok (Some y)) | _ => Err e end
      end
  end.

Definition dec_ok {T A} (e : N) (dec : T -> outcome A) : Prop :=
  forall x, (exists y, dec x = Ok y) \/ dec x = Err e.

Definition combine4 {Q O V X} (e : N) (a : outcome (option Q)) (b : outcome (option O))
           (c : outcome (option V)) (d : outcome (option X)) : outcome (slots Q O V X) :=
  match a, b, c, d with
  | Ok a, Ok b, Ok c, Ok d => Ok (Build_slots a b c d)
  | _, _, _, _ => Err e
  end.

Lemma field_res_shape {T A} e (dec : T -> outcome A) cur vals :
  dec_ok e dec -> (exists s, field_res e dec cur vals = Ok s) \/ field_res e dec cur vals = Err e.
Proof.
  intros Hd. destruct vals as [|x rest]; [left; eexists; reflexivity|].
  cbn [field_res]. destruct cur; [right; reflexivity|]. destruct rest; [|right; reflexivity].
  destruct (Hd x) as [[y Hy]|Hy]; rewrite Hy; [left; eexists; reflexivity|right; reflexivity].
Qed.

Lemma field_res_cons_some {T A} e (dec : T -> outcome A) y x rest :
  field_res e dec (Some y) (x :: rest) = Err e.
Proof. reflexivity. Qed.

Lemma field_res_step {T A} e (dec : T -> outcome A) x y rest :
  dec x = Ok y -> field_res e dec None (x :: rest) = field_res e dec (Some y) rest.
Proof. intros H. cbn [field_res]. destruct rest; [rewrite H; reflexivity|reflexivity]. Qed.

Lemma field_res_err {T A} e (dec : T -> outcome A) x rest :
  dec x = Err e -> field_res e dec None (x :: rest) = Err e.
Proof. intros H. cbn [field_res]. destruct rest; [rewrite H; reflexivity|reflexivity]. Qed.

Section VisitSelect.
  Variables (T Q O V X : Type).
  Variable kt : keytab.
  Variable e : N.
  Variables (dq : T -> outcome Q) (dop : T -> outcome O) (dv : T -> outcome V) (dx : T -> outcome X).
  Hypothesis Hq : dec_ok e dq.
  Hypothesis Ho : dec_ok e dop.
  Hypothesis Hv : dec_ok e dv.
  Hypothesis Hx : dec_ok e dx.

  Lemma combine4_err_l (b : outcome (option O)) (c : outcome (option V)) (d : outcome (option X)) :
    combine4 (Q := Q) e (Err e) b c d = Err e.
  Proof. reflexivity. Qed.

  Lemma visit_select : forall m s,
    visit_members kt e dq dop dv dx m s =
    combine4 e (field_res e dq (s_q s) (select kt 0 m)) (field_res e dop (s_o s) (select kt 1 m))
               (field_res e dv (s_v s) (select kt 2 m)) (field_res e dx (s_x s) (select kt 3 m)).
  Proof.
    induction m as [|[k x] m IH]; intros [sq so sv sx].
    - reflexivity.
    - cbn [visit_members select s_q s_o s_v s_x]. unfold routes.
      destruct (key_in k (k_query kt)); [|destruct (key_in k (k_op kt)); [|destruct (key_in k (k_vars kt));
        [|destruct (key_in k (k_exts kt))]]]; cbn [N.eqb Pos.eqb].
      + destruct sq as [y|]; [reflexivity|].
        destruct (Hq x) as [[y Hy]|Hy]; rewrite Hy; cbn [bindo].
        * rewrite IH. cbn [s_q s_o s_v s_x]. rewrite (field_res_step e dq x y _ Hy). reflexivity.
        * rewrite (field_res_err e dq x _ Hy). reflexivity.
      + destruct so as [y|].
        { rewrite field_res_cons_some.
          destruct (field_res_shape e dq sq (select kt 0 m) Hq) as [[s ->] | ->]; reflexivity. }
        destruct (Ho x) as [[y Hy]|Hy]; rewrite Hy; cbn [bindo].
        * rewrite IH. cbn [s_q s_o s_v s_x]. rewrite (field_res_step e dop x y _ Hy). reflexivity.
        * rewrite (field_res_err e dop x _ Hy).
          destruct (field_res_shape e dq sq (select kt 0 m) Hq) as [[s ->] | ->]; reflexivity.
      + destruct sv as [y|].
        { rewrite field_res_cons_some.
          destruct (field_res_shape e dq sq (select kt 0 m) Hq) as [[s ->] | ->]; [|reflexivity].
          destruct (field_res_shape e dop so (select kt 1 m) Ho) as [[s' ->] | ->]; reflexivity. }
        destruct (Hv x) as [[y Hy]|Hy]; rewrite Hy; cbn [bindo].
        * rewrite IH. cbn [s_q s_o s_v s_x]. rewrite (field_res_step e dv x y _ Hy). reflexivity.
        * rewrite (field_res_err e dv x _ Hy).
          destruct (field_res_shape e dq sq (select kt 0 m) Hq) as [[s ->] | ->]; [|reflexivity].
          destruct (field_res_shape e dop so (select kt 1 m) Ho) as [[s' ->] | ->]; reflexivity.
      + destruct sx as [y|].
        { rewrite field_res_cons_some.
          destruct (field_res_shape e dq sq (select kt 0 m) Hq) as [[s ->] | ->]; [|reflexivity].
          destruct (field_res_shape e dop so (select kt 1 m) Ho) as [[s' ->] | ->]; [|reflexivity].
          destruct (field_res_shape e dv sv (select kt 2 m) Hv) as [[s'' ->] | ->]; reflexivity. }
        destruct (Hx x) as [[y Hy]|Hy]; rewrite Hy; cbn [bindo].
        * rewrite IH. cbn [s_q s_o s_v s_x]. rewrite (field_res_step e dx x y _ Hy). reflexivity.
        * rewrite (field_res_err e dx x _ Hy).
          destruct (field_res_shape e dq sq (select kt 0 m) Hq) as [[s ->] | ->]; [|reflexivity].
          destruct (field_res_shape e dop so (select kt 1 m) Ho) as [[s' ->] | ->]; [|reflexivity].
          destruct (field_res_shape e dv sv (select kt 2 m) Hv) as [[s'' ->] | ->]; reflexivity.
      + rewrite IH. reflexivity.
  Qed.
End VisitSelect.

Lemma str_eqb_sym a b : str_eqb a b = str_eqb b a.
Proof.
  destruct (str_eqb a b) eqn:E1, (str_eqb b a) eqn:E2; try reflexivity.
  - apply str_eqb_eq in E1. subst. rewrite str_eqb_refl in E2. discriminate.
  - apply str_eqb_eq in E2. subst. rewrite str_eqb_refl in E1. discriminate.
Qed.

Lemma std_keys_distinct :
  str_eqb K_QUERY K_OPNAME = false /\ str_eqb K_QUERY K_VARIABLES = false /\ str_eqb K_QUERY K_EXTENSIONS = false /\
  str_eqb K_OPNAME K_VARIABLES = false /\ str_eqb K_OPNAME K_EXTENSIONS = false /\ str_eqb K_VARIABLES K_EXTENSIONS = false.
Proof. vm_compute. repeat split; reflexivity. Qed.

Lemma select_std {T} kt (m : list (str * T)) :
  k_query kt = [K_QUERY] -> k_op kt = [K_OPNAME] -> k_vars kt = [K_VARIABLES] -> k_exts kt = [K_EXTENSIONS] ->
  select kt 0 m = map snd (filter (fun kv => str_eqb K_QUERY (fst kv)) m) /\
  select kt 1 m = map snd (filter (fun kv => str_eqb K_OPNAME (fst kv)) m) /\
  select kt 2 m = map snd (filter (fun kv => str_eqb K_VARIABLES (fst kv)) m) /\
  select kt 3 m = map snd (filter (fun kv => str_eqb K_EXTENSIONS (fst kv)) m).
Proof.
  intros H0 H1 H2 H3.
  destruct std_keys_distinct as [D1 [D2 [D3 [D4 [D5 D6]]]]].
  induction m as [|[k x] m [I0 [I1 [I2 I3]]]]; [repeat split; reflexivity|].
  cbn [select filter fst]. unfold routes. rewrite H0, H1, H2, H3. cbn [key_in existsb].
  rewrite !orb_false_r.
  rewrite (str_eqb_sym k K_QUERY), (str_eqb_sym k K_OPNAME), (str_eqb_sym k K_VARIABLES), (str_eqb_sym k K_EXTENSIONS).
  assert (Hsplit : forall a b c d : Prop, a -> b -> c -> d -> a /\ b /\ c /\ d) by (intros; repeat split; assumption).
  Ltac closed_eqb := repeat match goal with
    | |- context [str_eqb ?a ?b] =>
        let v := eval vm_compute in (str_eqb a b) in
        match v with true => idtac | false => idtac end; change (str_eqb a b) with v
    end.
  destruct (str_eqb K_QUERY k) eqn:E0.
  { apply str_eqb_eq in E0. subst k. closed_eqb. cbn [N.eqb Pos.eqb map snd]. rewrite I0, I1, I2, I3. repeat split; reflexivity. }
  destruct (str_eqb K_OPNAME k) eqn:E1.
  { apply str_eqb_eq in E1. subst k. closed_eqb. cbn [N.eqb Pos.eqb map snd]. rewrite I0, I1, I2, I3. repeat split; reflexivity. }
  destruct (str_eqb K_VARIABLES k) eqn:E2.
  { apply str_eqb_eq in E2. subst k. closed_eqb. cbn [N.eqb Pos.eqb map snd]. rewrite I0, I1, I2, I3. repeat split; reflexivity. }
  destruct (str_eqb K_EXTENSIONS k) eqn:E3; cbn [N.eqb Pos.eqb map snd]; rewrite I0, I1, I2, I3; repeat split; reflexivity.
Qed.

Lemma lookups_filter k m : lookups k m = map snd (filter (fun kv => str_eqb k (fst kv)) m).
Proof.
  induction m as [|[k' v] m IH]; [reflexivity|]. cbn [lookups filter fst].
  destruct (str_eqb k k'); cbn [map snd]; rewrite IH; reflexivity.
Qed.

Lemma plookups_filter k m : plookups k m = map snd (filter (fun kv => str_eqb k (fst kv)) m).
Proof.
  induction m as [|[k' v] m IH]; [reflexivity|]. cbn [plookups filter fst].
  destruct (str_eqb k k'); cbn [map snd]; rewrite IH; reflexivity.
Qed.

(* one member: visitor slot + default = the protocol's reading of the member *)
Definition conv_dec {T A} (e : N) (dec : T -> outcome A) (conv : T -> option A) : Prop :=
  forall x, dec x = match conv x with Some y => Ok y | None => Err e end.

Lemma conv_dec_ok {T A} e (dec : T -> outcome A) conv : conv_dec e dec conv -> dec_ok e dec.
Proof. intros H x. rewrite (H x). destruct (conv x); [left; eexists; reflexivity|right; reflexivity]. Qed.

Lemma member_spec {T A} e (dec : T -> outcome A) conv (d : A) l :
  conv_dec e dec conv ->
  bindo (field_res e dec None l) (slot_or e true d) =
  match spec_member d conv l with Some y => Ok y | None => Err e end.
Proof.
  intros H. destruct l as [|x [|y l]]; cbn [field_res spec_member bindo slot_or]; try reflexivity.
  rewrite (H x). destruct (conv x); reflexivity.
Qed.

Lemma combine4_chain {Q O V X R} e
      (a : outcome (option Q)) (b : outcome (option O)) (c : outcome (option V)) (d : outcome (option X))
      (fq : option Q -> outcome Q) (fo : option O -> outcome (option str)) (fv : option V -> outcome V)
      (fx : option X -> outcome X) (k : Q -> option str -> V -> X -> R) :
  ((exists s, a = Ok s) \/ a = Err e) -> ((exists s, b = Ok s) \/ b = Err e) ->
  ((exists s, c = Ok s) \/ c = Err e) -> ((exists s, d = Ok s) \/ d = Err e) ->
  (forall s, (exists y, fq s = Ok y) \/ fq s = Err e) -> (forall s, (exists y, fo s = Ok y) \/ fo s = Err e) ->
  (forall s, (exists y, fv s = Ok y) \/ fv s = Err e) -> (forall s, (exists y, fx s = Ok y) \/ fx s = Err e) ->
  bindo (combine4 e a b c d)
        (fun s => bindo (fq (s_q s)) (fun q => bindo (fo (s_o s)) (fun o => bindo (fv (s_v s)) (fun v =>
                  bindo (fx (s_x s)) (fun x => Ok (k q o v x)))))) =
  bindo (bindo a fq) (fun q => bindo (bindo b fo) (fun o => bindo (bindo c fv) (fun v =>
         bindo (bindo d fx) (fun x => Ok (k q o v x))))).
Proof.
  intros [[sa ->] | ->] [[sb ->] | ->] [[sc ->] | ->] [[sd ->] | ->] Fq Fo Fv Fx; cbn [combine4 bindo s_q s_o s_v s_x];
    try reflexivity;
    repeat match goal with
           | |- context [bindo (?f ?s) _] =>
               first [ destruct (Fq s) as [[? ->] | ->] | destruct (Fo s) as [[? ->] | ->]
                     | destruct (Fv s) as [[? ->] | ->] | destruct (Fx s) as [[? ->] | ->] ]; cbn [bindo]
           end; reflexivity.
Qed.

Lemma slot_or_shape {A} e ok (d : A) s : (exists y, slot_or e ok d s = Ok y) \/ slot_or e ok d s = Err e.
Proof. destruct s; cbn [slot_or]; [left; eexists; reflexivity|]. destruct ok; [left; eexists; reflexivity|right; reflexivity]. Qed.

Lemma cd_string : conv_dec E (d_string E) conv_string.
Proof. intros [| | | | | |]; reflexivity. Qed.
Lemma cd_opt_string : conv_dec E (d_opt_string E) conv_opt_string.
Proof. intros [| | | | | |]; reflexivity. Qed.
Lemma cd_members e : conv_dec e (decode_map_member e) conv_members.
Proof. intros [| | | | | |]; reflexivity. Qed.

Lemma chain_eq {A B C D R} (a : option A) (b : option B) (c : option C) (d : option D) (k : A -> B -> C -> D -> R) e :
  bindo (match a with Some y => Ok y | None => Err e end) (fun q =>
  bindo (match b with Some y => Ok y | None => Err e end) (fun o =>
  bindo (match c with Some y => Ok y | None => Err e end) (fun v =>
  bindo (match d with Some y => Ok y | None => Err e end) (fun x => Ok (k q o v x))))) =
  match (match a, b, c, d with
         | Some q, Some o, Some v, Some x => Some (k q o v x)
         | _, _, _, _ => None
         end) with
  | Some r => Ok r
  | None => Err e
  end.
Proof. destruct a, b, c, d; reflexivity. Qed.

(* Request::deserialize (map form) = the protocol's reading of a request object *)
Lemma decode_map_spec kt m :
  tab_std kt ->
  decode_request_map kt m = match spec_request (JObj m) with Some r => Ok r | None => Err E end.
Proof.
  intros [H0 [H1 [H2 [H3 [M0 [M1 [M2 M3]]]]]]].
  unfold decode_request_map.
  rewrite (visit_select _ _ _ _ _ kt E _ _ _ _ (conv_dec_ok _ _ _ cd_string) (conv_dec_ok _ _ _ cd_opt_string)
             (conv_dec_ok _ _ _ (cd_members E)) (conv_dec_ok _ _ _ (cd_members E))).
  destruct (select_std kt m H0 H1 H2 H3) as [S0 [S1 [S2 S3]]]. rewrite S0, S1, S2, S3.
  rewrite M0, M1, M2, M3. cbn [no_slots s_q s_o s_v s_x].
  rewrite (combine4_chain E _ _ _ _ (slot_or E true []) (slot_or E true None) (slot_or E true []) (slot_or E true [])
             (fun q o v x => {| r_query := q; r_op := o; r_vars := v; r_exts := x |}));
    try (apply field_res_shape; eapply conv_dec_ok; first [apply cd_string | apply cd_opt_string | apply cd_members]);
    try (intros; apply slot_or_shape).
  rewrite (member_spec E _ _ _ _ cd_string), (member_spec E _ _ _ _ cd_opt_string), !(member_spec E _ _ _ _ (cd_members E)).
  unfold spec_request. rewrite !lookups_filter.
  apply (chain_eq _ _ _ _ (fun q o v x => {| r_query := q; r_op := o; r_vars := v; r_exts := x |})).
Qed.

Lemma decode_request_spec kt v :
  tab_std kt -> positional_ok kt v = false ->
  match spec_request v with
  | Some r => decode_request kt v = Ok r
  | None => is_ok (decode_request kt v) = false
  end.
Proof.
  intros Ht Hp. destruct v; try reflexivity.
  - cbn [spec_request decode_request]. cbn [positional_ok] in Hp. exact Hp.
  - cbn [decode_request]. rewrite (decode_map_spec kt m Ht). destruct (spec_request (JObj m)); reflexivity.
Qed.

Lemma decode_all_spec kt l :
  tab_std kt -> existsb (positional_ok kt) l = false ->
  match spec_all l with
  | Some rs => decode_all kt l = Ok rs /\ length rs = length l
  | None => is_ok (decode_all kt l) = false
  end.
Proof.
  intros Ht. induction l as [|x l IH]; intros Hp; [split; reflexivity|].
  cbn [existsb] in Hp. apply orb_false_elim in Hp. destruct Hp as [Hx Hl].
  specialize (IH Hl). pose proof (decode_request_spec kt x Ht Hx) as Hr.
  cbn [spec_all decode_all].
  destruct (spec_request x) as [r|].
  - rewrite Hr. cbn [bindo]. destruct (spec_all l) as [rs|].
    + destruct IH as [-> Hlen]. split; [reflexivity|]. cbn [length]. rewrite Hlen. reflexivity.
    + destruct (decode_all kt l); try discriminate; reflexivity.
  - destruct (decode_request kt x); try discriminate; reflexivity.
Qed.

(* every JSON tree outside the positional-array class: accepted exactly when
   the protocol calls it a request or a non-empty batch of requests, and then
   decoded to exactly those requests in order; otherwise a request error *)
Theorem json_decode_is_spec kt v :
  tab_std kt -> json_known kt v = 0 ->
  decode_batch kt v = match spec_batch v with Some b => Ok b | None => Err E end.
Proof.
  intros Ht Hk. destruct v; try reflexivity.
  - (* array *)
    cbn [json_known] in Hk.
    destruct (positional_ok kt (JArr l) || existsb (positional_ok kt) l) eqn:Hp; [discriminate|].
    apply orb_false_elim in Hp. destruct Hp as [Hp1 Hp2].
    unfold decode_batch. cbn [decode_request]. cbn [positional_ok] in Hp1.
    destruct (decode_request_seq kt l) eqn:Hs; try discriminate;
      (pose proof (decode_all_spec kt l Ht Hp2) as Ha; destruct l as [|x l]; [reflexivity|];
       cbn [spec_batch]; destruct (spec_all (x :: l)) as [rs|];
       [destruct Ha as [-> Hlen]; destruct rs; [discriminate|reflexivity]
       |destruct (decode_all kt (x :: l)); try discriminate; reflexivity]).
  - (* object *)
    unfold decode_batch. cbn [decode_request spec_batch]. rewrite (decode_map_spec kt m Ht).
    destruct (spec_request (JObj m)); reflexivity.
Qed.

(* the class is not empty today: [] is accepted as a single request *)
Lemma positional_refuted :
  spec_batch (JArr []) = None /\
  decode_batch req_tab (JArr []) = Ok (BSingle {| r_query := []; r_op := None; r_vars := []; r_exts := [] |}) /\
  json_known req_tab (JArr []) = 2.
Proof. vm_compute. repeat split; reflexivity. Qed.

(* the operations part with a multipart content type: neither accepted nor rejected *)
Lemma mp_panic_refuted kt t : decode_mp_operations kt (CtMultipart true) t = Panic.
Proof. reflexivity. Qed.

(* non-vacuity: a well-formed request with every kind of content *)
Definition sample_request : request :=
  {| r_query := [123;97;125]; r_op := Some [81];
     r_vars := [([97], JArr [JInt 1; JStr [34;92;10]; JObj [([98], JNull); ([97], JFloat 4609434218613702656)]]); ([98], JBool true)];
     r_exts := [([112], JObj [])] |}.
Lemma sample_wf : wf_request sample_request.
Proof. split; split; try reflexivity; repeat constructor. Qed.

(* ScalarsFloatProofs.v — lemmas about the float part of Scalars.v (pure
   integer arithmetic on bit patterns; no Flocq, no axioms). *)
From AG Require Import Scalars ScalarsProofs.
Open Scope Z_scope.

Lemma round_shift_exact M sh : 0 < sh -> 0 <= M -> round_shift (M * 2 ^ sh) sh = M.
Proof.
  intros Hs HM. unfold round_shift.
  rewrite Z.shiftr_div_pow2 by lia.
  rewrite Z.div_mul by (apply Z.pow_nonzero; lia).
  rewrite !Z.shiftl_mul_pow2 by lia.
  replace (M * 2 ^ sh - M * 2 ^ sh) with 0 by lia.
  assert (0 < 2 ^ (sh - 1)) by (apply Z.pow_pos_nonneg; lia).
  destruct (Z.ltb_spec 0 (1 * 2 ^ (sh - 1))); [reflexivity | lia].
Qed.

Lemma log2_of_range M a : 0 <= a -> 2 ^ a <= M < 2 ^ (a + 1) -> Z.log2 M = a.
Proof. intros Ha H. apply Z.log2_unique; [exact Ha | exact H]. Qed.

Lemma log2_lit M a lo hi :
  lo = 2 ^ a -> hi = 2 ^ (a + 1) -> 0 <= a -> lo <= M < hi -> Z.log2 M = a.
Proof. intros -> -> Ha H. apply Z.log2_unique; assumption. Qed.

Definition inf32 : Z := 2139095040.

(* normal f32 magnitudes *)
Lemma rt_normal ef mm :
  1 <= ef <= 254 -> 0 <= mm < 8388608 ->
  let m64 := encode b64 (mm + 8388608) (ef - 150) in
  m64 = (ef + 896) * 4503599627370496 + mm * 536870912.
Proof.
  intros He Hm. cbv zeta. unfold encode. cbn [f_prec f_emin f_fmax b64].
  destruct (Z.eqb_spec (mm + 8388608) 0); [lia|].
  rewrite (log2_lit (mm + 8388608) 23 8388608 16777216) by (reflexivity || lia).
  replace (Z.max (23 + 1 + (ef - 150) - 53) (-1074)) with (ef - 179) by lia.
  replace (ef - 179 - (ef - 150)) with (-29) by lia.
  change (-29 <=? 0) with true. cbv iota. change (- -29) with 29.
  rewrite Z.shiftl_mul_pow2 by lia.
  unfold inf_bits. cbn [f_prec f_fmax b64].
  change (2 ^ (53 - 1)) with 4503599627370496. change (2 ^ 29) with 536870912.
  destruct (Z.leb_spec (2047 * 4503599627370496) ((ef - 179 - -1074) * 4503599627370496 + (mm + 8388608) * 536870912)); lia.
Qed.

Lemma decode64_normal ef mm :
  1 <= ef <= 2046 -> 0 <= mm < 4503599627370496 ->
  decode b64 (ef * 4503599627370496 + mm) = (mm + 4503599627370496, ef - 1075).
Proof.
  intros He Hm. unfold decode. cbn [f_prec f_emin b64].
  change (2 ^ (53 - 1)) with 4503599627370496.
  replace ((ef * 4503599627370496 + mm) / 4503599627370496) with ef
    by (apply Z.div_unique with mm; lia).
  replace ((ef * 4503599627370496 + mm) mod 4503599627370496) with mm
    by (apply Z.mod_unique with ef; lia).
  destruct (Z.eqb_spec ef 0); [lia|]. f_equal. lia.
Qed.

Lemma rt_normal_back ef mm :
  1 <= ef <= 254 -> 0 <= mm < 8388608 ->
  encode b32 ((mm + 8388608) * 536870912) (ef - 179) = ef * 8388608 + mm.
Proof.
  intros He Hm. unfold encode. cbn [f_prec f_emin f_fmax b32].
  destruct (Z.eqb_spec ((mm + 8388608) * 536870912) 0); [lia|].
  rewrite (log2_lit ((mm + 8388608) * 536870912) 52 4503599627370496 9007199254740992) by (reflexivity || lia).
  replace (Z.max (52 + 1 + (ef - 179) - 24) (-149)) with (ef - 150) by lia.
  replace (ef - 150 - (ef - 179)) with 29 by lia.
  change (29 <=? 0) with false. cbv iota.
  replace (round_shift ((mm + 8388608) * 536870912) 29) with (mm + 8388608)
    by (symmetry; change 536870912 with (2 ^ 29); apply round_shift_exact; lia).
  unfold inf_bits. cbn [f_prec f_fmax b32].
  change (2 ^ (24 - 1)) with 8388608.
  destruct (Z.leb_spec (255 * 8388608) ((ef - 150 - -149) * 8388608 + (mm + 8388608))); lia.
Qed.

Lemma sub_facts m :
  1 <= m < 8388608 ->
  0 <= Z.log2 m <= 22 /\
  4503599627370496 <= m * 2 ^ (52 - Z.log2 m) < 9007199254740992.
Proof.
  intros Hm.
  assert (L0 : 0 <= Z.log2 m) by apply Z.log2_nonneg.
  destruct (Z.log2_spec m) as [S1 S2]; [lia|].
  assert (L1 : Z.log2 m <= 22).
  { assert (Z.log2 m < 23); [|lia]. apply Z.log2_lt_pow2; [lia|]. change (2 ^ 23) with 8388608. lia. }
  split; [lia|].
  assert (P : 0 < 2 ^ (52 - Z.log2 m)) by (apply Z.pow_pos_nonneg; lia).
  assert (E1 : 2 ^ Z.log2 m * 2 ^ (52 - Z.log2 m) = 4503599627370496).
  { rewrite <- Z.pow_add_r by lia. replace (Z.log2 m + (52 - Z.log2 m)) with 52 by lia. reflexivity. }
  assert (E2 : 2 ^ Z.succ (Z.log2 m) * 2 ^ (52 - Z.log2 m) = 9007199254740992).
  { rewrite <- Z.pow_add_r by lia. replace (Z.succ (Z.log2 m) + (52 - Z.log2 m)) with 53 by lia. reflexivity. }
  split.
  - rewrite <- E1. apply Z.mul_le_mono_nonneg_r; lia.
  - rewrite <- E2. apply Z.mul_lt_mono_pos_r; lia.
Qed.

Lemma rt_sub_fwd m :
  1 <= m < 8388608 ->
  encode b64 m (-149) =
  (Z.log2 m + 874) * 4503599627370496 + (m * 2 ^ (52 - Z.log2 m) - 4503599627370496).
Proof.
  intros Hm. destruct (sub_facts m Hm) as [HL HP].
  unfold encode. cbn [f_prec f_emin f_fmax b64].
  destruct (Z.eqb_spec m 0); [lia|].
  replace (Z.max (Z.log2 m + 1 + -149 - 53) (-1074)) with (Z.log2 m - 201) by lia.
  replace (Z.log2 m - 201 - -149) with (Z.log2 m - 52) by lia.
  destruct (Z.leb_spec (Z.log2 m - 52) 0); [|lia].
  replace (- (Z.log2 m - 52)) with (52 - Z.log2 m) by lia.
  rewrite Z.shiftl_mul_pow2 by lia.
  unfold inf_bits. cbn [f_prec f_fmax b64].
  change (2 ^ (53 - 1)) with 4503599627370496.
  destruct (Z.leb_spec (2047 * 4503599627370496)
              ((Z.log2 m - 201 - -1074) * 4503599627370496 + m * 2 ^ (52 - Z.log2 m))); lia.
Qed.

Lemma rt_sub_back m :
  1 <= m < 8388608 ->
  encode b32 (m * 2 ^ (52 - Z.log2 m)) (Z.log2 m - 201) = m.
Proof.
  intros Hm. destruct (sub_facts m Hm) as [HL HP].
  unfold encode. cbn [f_prec f_emin f_fmax b32].
  destruct (Z.eqb_spec (m * 2 ^ (52 - Z.log2 m)) 0); [lia|].
  rewrite (log2_lit (m * 2 ^ (52 - Z.log2 m)) 52 4503599627370496 9007199254740992) by (reflexivity || lia).
  replace (Z.max (52 + 1 + (Z.log2 m - 201) - 24) (-149)) with (-149) by lia.
  replace (-149 - (Z.log2 m - 201)) with (52 - Z.log2 m) by lia.
  destruct (Z.leb_spec (52 - Z.log2 m) 0); [lia|].
  rewrite round_shift_exact by lia.
  unfold inf_bits. cbn [f_prec f_fmax b32].
  change (2 ^ (24 - 1)) with 8388608.
  destruct (Z.leb_spec (255 * 8388608) ((-149 - -149) * 8388608 + m)); lia.
Qed.

Lemma decode32_small m : 0 <= m < 8388608 -> decode b32 m = (m, -149).
Proof.
  intros Hm. unfold decode. cbn [f_prec f_emin b32].
  change (2 ^ (24 - 1)) with 8388608.
  rewrite Z.div_small by lia. rewrite Z.mod_small by lia. reflexivity.
Qed.

Lemma decode32_normal ef mm :
  1 <= ef -> 0 <= mm < 8388608 ->
  decode b32 (ef * 8388608 + mm) = (mm + 8388608, ef - 150).
Proof.
  intros He Hm. unfold decode. cbn [f_prec f_emin b32].
  change (2 ^ (24 - 1)) with 8388608.
  replace ((ef * 8388608 + mm) / 8388608) with ef by (apply Z.div_unique with mm; lia).
  replace ((ef * 8388608 + mm) mod 8388608) with mm by (apply Z.mod_unique with ef; lia).
  destruct (Z.eqb_spec ef 0); [lia|]. f_equal. lia.
Qed.

(* widening a finite f32 magnitude to f64 and narrowing it again is the identity *)
Lemma f32_rt_mag m :
  0 <= m < 2139095040 ->
  exists M E M2 E2,
    decode b32 m = (M, E) /\
    0 <= encode b64 M E < 9223372036854775808 /\
    decode b64 (encode b64 M E) = (M2, E2) /\
    encode b32 M2 E2 = m.
Proof.
  intros Hm.
  destruct (Z.eq_dec m 0) as [->|Hn].
  { exists 0, (-149), 0, (-1074). repeat split; try reflexivity; vm_compute; congruence. }
  destruct (Z_lt_le_dec m 8388608) as [Hs|Hb].
  - (* subnormal *)
    assert (Hm' : 1 <= m < 8388608) by lia.
    destruct (sub_facts m Hm') as [HL HP].
    exists m, (-149), (m * 2 ^ (52 - Z.log2 m)), (Z.log2 m - 201).
    rewrite (rt_sub_fwd m Hm').
    split; [apply decode32_small; lia|]. split; [lia|]. split.
    + rewrite decode64_normal by lia. f_equal; lia.
    + apply rt_sub_back; exact Hm'.
  - (* normal *)
    pose (ef := m / 8388608). pose (mm := m mod 8388608).
    assert (Em : m = ef * 8388608 + mm) by (unfold ef, mm; rewrite Z.mul_comm; apply Z.div_mod; lia).
    assert (Hmm : 0 <= mm < 8388608) by (unfold mm; apply Z.mod_pos_bound; lia).
    assert (Hef : 1 <= ef <= 254) by lia.
    exists (mm + 8388608), (ef - 150), ((mm + 8388608) * 536870912), (ef - 179).
    pose proof (rt_normal ef mm Hef Hmm) as F. cbv zeta in F. rewrite F.
    split; [rewrite Em; apply decode32_normal; lia|]. split; [lia|]. split.
    + replace ((ef + 896) * 4503599627370496 + mm * 536870912)
        with ((ef + 896) * 4503599627370496 + (mm * 536870912)) by lia.
      rewrite decode64_normal by lia. f_equal; lia.
    + rewrite Em. apply rt_normal_back; assumption.
Qed.

Theorem f32_bits_roundtrip b :
  (b < 4294967296)%N -> finite b32 (Z.of_N b) = true -> f64_to_f32 (f32_to_f64 b) = b.
Proof.
  intros Hb Hfin.
  assert (HB : 0 <= Z.of_N b < 4294967296) by lia.
  unfold finite, mag in Hfin. change (fmt_width b32) with 31 in Hfin.
  change (2 ^ 31) with 2147483648 in Hfin. change (inf_bits b32) with 2139095040 in Hfin.
  apply Z.ltb_lt in Hfin.
  pose (m := Z.of_N b mod 2147483648). pose (s := Z.of_N b / 2147483648).
  assert (Em : Z.of_N b = 2147483648 * s + m) by (apply Z.div_mod; lia).
  assert (Hm : 0 <= m < 2147483648) by (apply Z.mod_pos_bound; lia).
  assert (Hs : 0 <= s <= 1) by lia.
  fold m in Hfin.
  destruct (f32_rt_mag m) as (M & E & M2 & E2 & D1 & R & D2 & Enc); [lia|].
  unfold f32_to_f64, f64_to_f32, mag, sgn, with_sign.
  change (fmt_width b32) with 31. change (fmt_width b64) with 63.
  change (2 ^ 31) with 2147483648. change (2 ^ 63) with 9223372036854775808.
  fold m. fold s. rewrite D1.
  rewrite Z2N.id by lia.
  replace ((s * 9223372036854775808 + encode b64 M E) mod 9223372036854775808)
    with (encode b64 M E) by (apply Z.mod_unique with s; lia).
  replace ((s * 9223372036854775808 + encode b64 M E) / 9223372036854775808)
    with s by (apply Z.div_unique with (encode b64 M E); lia).
  rewrite D2, Enc.
  replace (s * 2147483648 + m) with (Z.of_N b) by lia.
  apply N2Z.id.
Qed.

Theorem f32_roundtrip b :
  (b < 4294967296)%N -> finite b32 (Z.of_N b) = true -> parse_f32 (to_value_f32 b) = Ok b.
Proof.
  intros Hb Hfin. unfold to_value_f32. rewrite Hfin.
  unfold parse_f32. cbn [num_as_f64]. rewrite f32_bits_roundtrip by assumption. reflexivity.
Qed.

Theorem f64_roundtrip b : finite b64 (Z.of_N b) = true -> parse_f64 (to_value_f64 b) = Ok b.
Proof. intros Hfin. unfold to_value_f64. rewrite Hfin. reflexivity. Qed.

(* which values the float mappings accept: integers and floats, nothing else *)
Definition is_number (v : gv) : Prop := (exists z, v = GInt z) \/ (exists b, v = GFloat b).

Theorem f64_accepts v : (exists b, parse_f64 v = Ok b) <-> is_number v.
Proof.
  unfold is_number, parse_f64.
  destruct v as [|z|b|s|b|l|s|l|l]; cbn [num_as_f64]; split;
    try (intros [b0 H]; discriminate H);
    try (intros [[z0 H]|[b0 H]]; discriminate H).
  - intros _. left; eexists; reflexivity.
  - intros _. eexists; reflexivity.
  - intros _. right; eexists; reflexivity.
  - intros _. eexists; reflexivity.
Qed.

Theorem f32_accepts v : (exists b, parse_f32 v = Ok b) <-> is_number v.
Proof.
  unfold is_number, parse_f32.
  destruct v as [|z|b|s|b|l|s|l|l]; cbn [num_as_f64]; split;
    try (intros [b0 H]; discriminate H);
    try (intros [[z0 H]|[b0 H]]; discriminate H).
  - intros _. left; eexists; reflexivity.
  - intros _. eexists; reflexivity.
  - intros _. right; eexists; reflexivity.
  - intros _. eexists; reflexivity.
Qed.

Theorem float_rejects v :
  ~ is_number v -> parse_f64 v = Err E_TYPE /\ parse_f32 v = Err E_TYPE.
Proof.
  unfold is_number. intros H.
  destruct v as [|z|b|s|b|l|s|l|l]; try (split; reflexivity); exfalso; apply H.
  - left; eexists; reflexivity.
  - right; eexists; reflexivity.
Qed.

(* a float offered to f64 is taken as it is *)
Theorem f64_of_float b : parse_f64 (GFloat b) = Ok b.
Proof. reflexivity. Qed.

(* known finding: non-finite floats serialise to null, which does not coerce back *)
Theorem float_nonfinite_lost :
  (forall b, finite b64 (Z.of_N b) = false ->
     to_value_f64 b = GNull /\ parse_f64 (to_value_f64 b) = Err E_TYPE) /\
  (forall b, finite b32 (Z.of_N b) = false ->
     to_value_f32 b = GNull /\ parse_f32 (to_value_f32 b) = Err E_TYPE).
Proof.
  split; intros b H.
  - unfold to_value_f64. rewrite H. split; reflexivity.
  - unfold to_value_f32. rewrite H. split; reflexivity.
Qed.

Theorem float_nonfinite_refuted :
  exists b, (b < 2 ^ 64)%N /\ known_tv SF64 (RF b) = 3%N /\ parse_f64 (to_value_f64 b) <> Ok b.
Proof.
  exists 9218868437227405312%N. (* +infinity *)
  split; [reflexivity|]. split; [reflexivity|]. vm_compute. discriminate.
Qed.

(* known finding: 1e300 (bits 0x7e37e43c8800759c) is outside the f32 range, the
   specification demands a rejection, the code answers +infinity (0x7f800000) *)
Theorem f32_overflow_refuted :
  exists v, wf_gv v = true /\ known_parse SF32 v = 1%N /\
            parse_f32 v = Ok 2139095040%N /\
            spec_float_ok b32 v (parse_f32 v) = false /\
            finite b32 2139095040 = false.
Proof.
  exists (GFloat 9094988921128908188%N).
  repeat split; vm_compute; reflexivity.
Qed.

(* ------------------------------------------------ all scalars, one statement -- *)
Definition is_float_scalar (sc : scalar) : bool :=
  match sc with SF32 | SF64 => true | _ => false end.

Lemma rv_eqb_refl x : rv_eqb x x = true.
Proof.
  destruct x; cbn [rv_eqb]; auto using Z.eqb_refl, N.eqb_refl, str_eqb_refl.
  destruct b; reflexivity.
Qed.

Lemma out_eqb_refl_ok x : out_eqb rv_eqb (Ok x) (Ok x) = true.
Proof. apply rv_eqb_refl. Qed.

(* Every non-float scalar, every value a Value can hold, outside the known
   classes: what the code answers is what the specification demands. *)
Theorem scalar_parse_meets_spec sc v :
  is_float_scalar sc = false -> wf_gv v = true -> known_parse sc v = 0%N ->
  match sc with SInt id => row_ty id <> None | _ => True end ->
  spec_parse_ok sc v (parse_scalar sc v) = true.
Proof.
  intros NF W K T.
  destruct sc as [id| | | | | | | | |items]; try discriminate NF; cbn [spec_parse_ok parse_scalar].
  - (* integers *)
    unfold row_ty in *. destruct (assoc id int_impls_gen) as [im|] eqn:A; [|congruence].
    destruct (row_of_table _ _ A v W) as [Ex [NP NO]].
    unfold spec_int.
    destruct v as [|z|b|s|b|l|s|l|l]; try reflexivity.
    destruct (in_ty (ii_prim im) (ii_nonzero im) z) eqn:I.
    + rewrite (proj2 (Ex z) (conj eq_refl I)). cbn [lift bindo out_eqb rv_eqb]. apply Z.eqb_refl.
    + destruct (parse_int im (GInt z)) as [x|c| |] eqn:P; try reflexivity; try congruence.
      destruct (proj1 (Ex x) eq_refl) as [P1 P2]. inversion P1; subst. congruence.
  - destruct v; reflexivity || (cbn; destruct b; reflexivity).
  - destruct v; try reflexivity. cbn. apply str_eqb_refl.
  - destruct v; try reflexivity. cbn. apply str_eqb_refl.
  - destruct v; try reflexivity. cbn. apply str_eqb_refl.
  - destruct v as [| | |s| | | | |]; try reflexivity. destruct s as [|a [|b s]]; try reflexivity.
    cbn. apply N.eqb_refl.
  - (* ID *)
    destruct v as [|z|b|s|b|l|s|l|l]; try reflexivity.
    + cbn [lift]. rewrite parse_id_int. cbn [spec_id bindo out_eqb rv_eqb]. apply str_eqb_refl.
    + cbn. apply str_eqb_refl.
  - (* enums *)
    destruct v as [|z|b|s|b|l|s|l|l]; try reflexivity;
      cbn [parse_enum spec_enum lift bindo]; destruct (find_name s items); try reflexivity;
      cbn; apply N.eqb_refl.
Qed.

Definition enum_names_distinct (sc : scalar) : Prop :=
  match sc with SEnum items => NoDup (map fst items) | _ => True end.

(* Every scalar, every value of its Rust type, outside the known class
   (non-finite floats): serialising and coercing back yields the value. *)
Theorem scalar_roundtrip sc x :
  wf_rv sc x = true -> known_tv sc x = 0%N -> enum_names_distinct sc ->
  exists v, to_value_scalar sc x = Ok v /\ parse_scalar sc v = Ok x.
Proof.
  intros W K ND.
  destruct sc as [id| | | | | | | | |items]; destruct x as [z|b|b|s|c|i]; try discriminate W;
    cbn [to_value_scalar parse_scalar wf_rv known_tv] in *.
  - unfold row_ty in W. destruct (assoc id int_impls_gen) as [im|] eqn:A; [|discriminate W].
    eexists; split; [reflexivity|]. rewrite (int_roundtrip _ _ _ A W). reflexivity.
  - destruct (finite b32 (Z.of_N b)) eqn:F; [|discriminate K].
    eexists; split; [reflexivity|]. apply N.ltb_lt in W.
    rewrite f32_roundtrip by assumption. reflexivity.
  - destruct (finite b64 (Z.of_N b)) eqn:F; [|discriminate K].
    eexists; split; [reflexivity|]. rewrite f64_roundtrip by assumption. reflexivity.
  - eexists; split; reflexivity.
  - eexists; split; reflexivity.
  - eexists; split; reflexivity.
  - eexists; split; reflexivity.
  - eexists; split; reflexivity.
  - eexists; split; reflexivity.
  - destruct (find_value i items) as [n|] eqn:F; [|discriminate W].
    assert (I : In i (map snd items)).
    { change i with (snd (n, i)). apply in_map. apply find_value_In. exact F. }
    destruct (enum_roundtrip items i ND I) as [v [E1 E2]].
    exists v. split; [exact E1|]. rewrite E2. reflexivity.
Qed.

Theorem nonvacuous :
  (exists im, assoc 10%N int_impls_gen = Some im /\ ii_prim im = I8 /\ ii_nonzero im = true /\
              parse_int im (GInt (-128)) = Ok (-128) /\ parse_int im (GInt 0) = Err E_RANGE /\
              parse_int im (GInt 128) = Err E_RANGE) /\
  wf_rv SF32 (RF 1%N) = true /\ known_tv SF32 (RF 1%N) = 0%N /\
  wf_rv (SEnum [([82; 69; 68]%N, 0%N); ([65]%N, 1%N)]) (RE 1%N) = true /\
  enum_names_distinct (SEnum [([82; 69; 68]%N, 0%N); ([65]%N, 1%N)]).
Proof.
  split.
  - eexists. split; [reflexivity|]. repeat split; reflexivity.
  - repeat split; try reflexivity.
    cbn. repeat constructor; cbn; intuition discriminate.
Qed.

(* ------------------------------------------- registered validators (end to end) -- *)
(* today's code: a value parse accepts is rejected by the registered validator *)
Theorem valid_registered_refuted :
  exists sc v x, wf_gv v = true /\ parse_scalar sc v = Ok x /\ valid_registered sc v = false /\
                 known_e2e sc v = 4%N /\ is_err (e2e_model sc (Some v)) = true /\
                 spec_parse_ok sc v (Ok x) = true.
Proof.
  exists (SInt 8%N), (GInt 9223372036854775808), (RI 9223372036854775808).
  repeat split; vm_compute; reflexivity.
Qed.

(* outside that class: whatever parse accepts, the registered validator lets through *)
Theorem valid_registered_of_parse sc v x :
  wf_gv v = true -> parse_scalar sc v = Ok x -> known_e2e sc v <> 4%N ->
  valid_registered sc v = true.
Proof.
  intros W P K.
  destruct sc as [id| | | | | | | | |items]; cbn [parse_scalar] in P.
  - destruct (assoc id int_impls_gen) as [im|] eqn:A; [|discriminate P].
    destruct (parse_int im v) as [z| | |] eqn:PI; try discriminate P.
    apply (int_exact _ _ _ _ A W) in PI. destruct PI as [-> [[Hlo Hhi] _]].
    cbn [valid_registered]. unfold as_i64.
    destruct (Z.ltb_spec z 0); [reflexivity|].
    destruct (Z.leb_spec z i64_max); [reflexivity|]. exfalso.
    cbn [known_e2e] in K. unfold row_ty in K. rewrite A in K.
    apply Z.ltb_lt in H0. 
    destruct (ii_prim im); cbn [ity_max ity_signed ity_half ity_mod] in Hhi; unfold i64_max in *;
      try (apply Z.ltb_lt in H0; lia); rewrite H0 in K; apply K; reflexivity.
  - destruct v; try discriminate P; reflexivity.
  - destruct v; try discriminate P; reflexivity.
  - destruct v; try discriminate P; reflexivity.
  - destruct v; try discriminate P; reflexivity.
  - destruct v; try discriminate P; reflexivity.
  - destruct v; try discriminate P; reflexivity.
  - destruct v; try discriminate P; reflexivity.
  - destruct v; try discriminate P; reflexivity.
  - destruct v; try discriminate P; cbn [parse_enum lift bindo] in P; cbn [valid_registered];
      destruct (find_name s items); try discriminate P; reflexivity.
Qed.

(* ValidatorsProofs.v — C08: lemmas and proofs about Validators.v.
   Plain Z / N / list reasoning only: no axioms. *)
From AG Require Import Validators.
Open Scope Z_scope.

Ltac consts :=
  unfold I64_MIN, I64_MAX in *;
  change (2 ^ 64) with 18446744073709551616 in *;
  change (2 ^ 63) with 9223372036854775808 in *;
  change (2 ^ 53) with 9007199254740992 in *.

(* ------------------------------------------------------------- casts ---- *)
Lemma wrap64_id z : in_i64 z -> wrap64 z = z.
Proof.
  unfold in_i64, wrap64. consts. intros H.
  rewrite Z.mod_small by lia. lia.
Qed.

Lemma wrap64_high z : 2 ^ 63 <= z < 2 ^ 64 -> wrap64 z = z - 2 ^ 64.
Proof.
  unfold wrap64. consts. intros H.
  assert (E : (z + 9223372036854775808) mod 18446744073709551616 = z + 9223372036854775808 - 18446744073709551616).
  { symmetry. apply Z.mod_unique with (q := 1); lia. }
  rewrite E. lia.
Qed.

Lemma wrap64_range z : in_i64 (wrap64 z).
Proof.
  unfold in_i64, wrap64. consts.
  pose proof (Z.mod_pos_bound (z + 9223372036854775808) 18446744073709551616 ltac:(lia)). lia.
Qed.

Lemma clamp64_id t : in_i64 t -> clamp64 t = t.
Proof. unfold in_i64, clamp64. consts. lia. Qed.

Lemma pow2_pos e : 0 <= e -> 0 < 2 ^ e.
Proof. intros. apply Z.pow_pos_nonneg; lia. Qed.

(* ------------------------------------------------------ comparisons ---- *)
Lemma cmp_z_le a b : cmp_z CLe a b = (a <=? b).
Proof. reflexivity. Qed.
Lemma cmp_z_ge a b : cmp_z CGe a b = (b <=? a).
Proof. unfold cmp_z, cmp_c. rewrite <- Z.geb_leb. reflexivity. Qed.

Lemma cmp_c_le_swap (a b : Z) :
  cmp_c CGe (Some (a ?= b)) = cmp_c CLe (Some (b ?= a)).
Proof. rewrite (Z.compare_antisym a b). destruct (a ?= b); reflexivity. Qed.

(* the two formulations of the exact comparison of m*2^e and m'*2^e' agree *)
Lemma fl_compare_spec a b : fl_compare a b = spec_cmp a b.
Proof.
  destruct a as [| s | m e], b as [| s' | m' e']; try reflexivity.
  unfold fl_compare, spec_cmp, dy_cmp. f_equal.
  destruct (Z.leb_spec e e').
  - rewrite Z.min_l by lia. rewrite Z.sub_diag. cbn [Z.pow]. rewrite Z.mul_1_r. reflexivity.
  - rewrite Z.min_r by lia. rewrite Z.sub_diag. cbn [Z.pow]. rewrite Z.mul_1_r. reflexivity.
Qed.

Lemma spec_cmp_antisym a b :
  spec_cmp b a = match spec_cmp a b with Some c => Some (CompOpp c) | None => None end.
Proof.
  rewrite <- !fl_compare_spec.
  destruct a as [| s | m e], b as [| s' | m' e']; try reflexivity.
  - cbn. destruct s, s'; reflexivity.
  - cbn. destruct s; reflexivity.
  - cbn. destruct s'; reflexivity.
  - cbn. unfold dy_cmp. rewrite (Z.min_comm e' e). rewrite Z.compare_antisym. reflexivity.
Qed.

Lemma cmp_fl_le a b : cmp_fl CLe a b = spec_le a b.
Proof.
  unfold cmp_fl, spec_le. rewrite fl_compare_spec.
  destruct (spec_cmp a b) as [[]|]; reflexivity.
Qed.
Lemma cmp_fl_ge a b : cmp_fl CGe a b = spec_le b a.
Proof.
  unfold cmp_fl, spec_le. rewrite fl_compare_spec, (spec_cmp_antisym a b).
  destruct (spec_cmp a b) as [[]|]; reflexivity.
Qed.

(* ----------------------------------------------- divisibility bridges ---- *)
Lemma rem_mod_zero a b : b <> 0 -> (Z.rem a b =? 0) = (a mod b =? 0).
Proof.
  intros Hb.
  destruct (Z.eqb_spec (Z.rem a b) 0) as [E|E]; destruct (Z.eqb_spec (a mod b) 0) as [F|F]; try reflexivity.
  - exfalso. apply F. apply Z.mod_divide; [exact Hb|]. apply Z.rem_divide; assumption.
  - exfalso. apply E. apply Z.rem_divide; [exact Hb|]. apply Z.mod_divide; assumption.
Qed.

Lemma fl_is_zero_fin r k : fl_is_zero (FFin r k) = (r =? 0).
Proof. destruct r; reflexivity. Qed.

(* ------------------------------------------------ integer value, integer bound *)
Lemma int_int_max x n : in_i64 x -> run_num OMax (BI n) (NI x) = of_bool (x <=? n).
Proof. intros H. unfold run_num, as_i64. rewrite wrap64_id by exact H. reflexivity. Qed.

Lemma int_int_min x n : in_i64 x -> run_num OMin (BI n) (NI x) = of_bool (n <=? x).
Proof.
  intros H. unfold run_num, as_i64. rewrite wrap64_id by exact H.
  unfold minimum_cmp_gen. rewrite cmp_z_ge. reflexivity.
Qed.

Lemma int_int_mul x n :
  in_i64 x -> x <> 0 -> n <> 0 -> ~ (x = I64_MIN /\ n = -1) ->
  run_num OMul (BI n) (NI x) = of_bool (Z.rem x n =? 0).
Proof.
  intros H Hx Hn Hp. unfold run_num, as_i64. rewrite wrap64_id by exact H.
  destruct (Z.eqb_spec x 0) as [|_]; [contradiction|]. rewrite andb_false_r.
  destruct (Z.eqb_spec n 0) as [|_]; [contradiction|].
  destruct (Z.eqb_spec x I64_MIN) as [E1|_]; destruct (Z.eqb_spec n (-1)) as [E2|_]; cbn [andb]; try reflexivity.
  exfalso. apply Hp. split; assumption.
Qed.

(* stated with the mathematical predicates *)
Lemma of_bool_accept b : of_bool b = Accept <-> b = true.
Proof. destruct b; cbn; split; intros; try reflexivity; discriminate. Qed.
Lemma of_bool_reject b : of_bool b = Reject <-> b = false.
Proof. destruct b; cbn; split; intros; try reflexivity; discriminate. Qed.

Lemma int_int_max_iff x n : in_i64 x -> (run_num OMax (BI n) (NI x) = Accept <-> x <= n).
Proof. intros H. rewrite int_int_max by exact H. rewrite of_bool_accept. apply Z.leb_le. Qed.
Lemma int_int_min_iff x n : in_i64 x -> (run_num OMin (BI n) (NI x) = Accept <-> n <= x).
Proof. intros H. rewrite int_int_min by exact H. rewrite of_bool_accept. apply Z.leb_le. Qed.
Lemma int_int_mul_iff x n :
  in_i64 x -> x <> 0 -> n <> 0 -> ~ (x = I64_MIN /\ n = -1) ->
  (run_num OMul (BI n) (NI x) = Accept <-> exists k, x = k * n).
Proof.
  intros H Hx Hn Hp. rewrite int_int_mul by assumption. rewrite of_bool_accept, Z.eqb_eq.
  rewrite Z.rem_divide by exact Hn. reflexivity.
Qed.
(* ------------------------------------------------------ the known classes *)
(* u64 / usize above i64::MAX: the comparison is made on value - 2^64 < 0, so for
   every bound the macro can express (0 <= n <= i64::MAX) maximum accepts and
   minimum refuses — always the opposite of the exact answer. *)
Lemma u64_wrap_always x n :
  2 ^ 63 <= x < 2 ^ 64 -> 0 <= n < 2 ^ 63 ->
  run_num OMax (BI n) (NI x) = Accept /\ ~ x <= n /\
  run_num OMin (BI n) (NI x) = Reject /\ n <= x.
Proof.
  intros Hx Hn. unfold run_num, as_i64. rewrite wrap64_high by exact Hx.
  unfold maximum_cmp_gen, minimum_cmp_gen. rewrite cmp_z_le, cmp_z_ge. consts.
  destruct (Z.leb_spec (x - 18446744073709551616) n); [|lia].
  destruct (Z.leb_spec n (x - 18446744073709551616)); [lia|].
  cbn. repeat split; lia.
Qed.

Lemma multiple_of_zero_rejected n : run_num OMul (BI n) (NI 0) = Reject.
Proof. reflexivity. Qed.
Lemma multiple_of_zero_spec n : spec_num OMul (BI n) (NI 0) = true.
Proof.
  unfold spec_num, spec_multiple, ext_of_num, ext_of_bound.
  rewrite Z.min_id, Z.sub_diag. cbn [Z.pow]. rewrite Z.mul_1_r. cbn [Z.mul].
  destruct (n =? 0); [reflexivity|]. rewrite Zmod_0_l. reflexivity.
Qed.

Lemma multiple_of_bound_zero_panics x : in_i64 x -> x <> 0 -> run_num OMul (BI 0) (NI x) = Panicked.
Proof.
  intros H Hx. unfold run_num, as_i64. rewrite wrap64_id by exact H.
  destruct (Z.eqb_spec x 0); [contradiction|]. rewrite andb_false_r. reflexivity.
Qed.

(* ------------------------------------------------ exactness, numeric pairs *)
Lemma spec_le_int a b : spec_le (FFin a 0) (FFin b 0) = (a <=? b).
Proof.
  unfold spec_le, spec_cmp. cbn. rewrite Z.mul_1_r. unfold Z.leb. destruct (a ?= b); reflexivity.
Qed.
Lemma spec_multiple_int a b :
  spec_multiple (FFin a 0) (FFin b 0) = (if b =? 0 then a =? 0 else a mod b =? 0).
Proof. unfold spec_multiple. cbn. rewrite !Z.mul_1_r. reflexivity. Qed.

Lemma num_exact_int op n z :
  in_i64 z ->
  (op = OMul -> z <> 0 /\ n <> 0 /\ ~ (z = I64_MIN /\ n = -1)) ->
  run_num op (BI n) (NI z) = of_bool (spec_num op (BI n) (NI z)).
Proof.
  intros H Hm. destruct op.
  - destruct (Hm eq_refl) as (Hz & Hn & Hp).
    rewrite int_int_mul by assumption.
    unfold spec_num, ext_of_num, ext_of_bound. rewrite spec_multiple_int.
    destruct (Z.eqb_spec n 0); [contradiction|]. rewrite rem_mod_zero by assumption. reflexivity.
  - rewrite int_int_max by exact H. unfold spec_num, ext_of_num, ext_of_bound. rewrite spec_le_int. reflexivity.
  - rewrite int_int_min by exact H. unfold spec_num, ext_of_num, ext_of_bound. rewrite spec_le_int. reflexivity.
Qed.

(* a float that is an integer t inside the i64 range behaves, against integer
   bounds, exactly like the integer t — in the casts and in the specification *)
Lemma integral_fin m e :
  fl_integral_i64 (FFin m e) = true ->
  let t := f2i (FFin m e) in
  in_i64 t /\
  (forall n, spec_cmp (FFin m e) (FFin n 0) = Some (t ?= n)) /\
  (forall n, spec_cmp (FFin n 0) (FFin m e) = Some (n ?= t)) /\
  (forall n, spec_multiple (FFin m e) (FFin n 0) = (if n =? 0 then t =? 0 else t mod n =? 0)) /\
  (t =? 0) = (m =? 0).
Proof.
  unfold fl_integral_i64, f2i. destruct (Z.leb_spec 0 e) as [He|He].
  - intros H. apply andb_true_iff in H. destruct H as [H1 H2].
    apply Z.leb_le in H1. apply Z.leb_le in H2.
    assert (Hin : in_i64 (m * 2 ^ e)) by (split; assumption).
    rewrite clamp64_id by exact Hin. cbv zeta.
    pose proof (pow2_pos e He) as Hp.
    split; [exact Hin|]. split; [|split; [|split]].
    + intros n. unfold spec_cmp. destruct (Z.leb_spec e 0).
      * assert (e = 0) by lia. subst e. cbn. rewrite !Z.mul_1_r. reflexivity.
      * rewrite Z.sub_0_r. reflexivity.
    + intros n. unfold spec_cmp. destruct (Z.leb_spec 0 e); [|lia]. rewrite Z.sub_0_r. reflexivity.
    + intros n. unfold spec_multiple. rewrite Z.min_r by lia. rewrite !Z.sub_0_r.
      cbn [Z.pow]. rewrite Z.mul_1_r. reflexivity.
    + destruct (Z.eqb_spec (m * 2 ^ e) 0) as [E|E]; destruct (Z.eqb_spec m 0) as [F|F]; try reflexivity.
      * apply Z.mul_eq_0 in E. destruct E; [contradiction|lia].
      * subst m. cbn in E. contradiction.
  - intros H. apply andb_true_iff in H. destruct H as [H H2]. apply andb_true_iff in H. destruct H as [H0 H1].
    apply Z.eqb_eq in H0. apply Z.leb_le in H1. apply Z.leb_le in H2.
    set (p := 2 ^ (- e)) in *.
    assert (Hp : 0 < p) by (apply pow2_pos; lia).
    set (q := m / p) in *.
    assert (Hm : m = q * p).
    { unfold q. rewrite Z.mul_comm. apply Z_div_exact_full_2; [lia|exact H0]. }
    assert (Hq : Z.quot m p = q).
    { rewrite Hm. apply Z.quot_mul. lia. }
    rewrite Hq.
    assert (Hin : in_i64 q) by (split; assumption).
    rewrite clamp64_id by exact Hin. cbv zeta.
    split; [exact Hin|]. split; [|split; [|split]].
    + intros n. unfold spec_cmp. destruct (Z.leb_spec e 0); [|lia].
      rewrite Z.sub_0_l. fold p. rewrite Hm. rewrite <- Zmult_compare_compat_r by lia. reflexivity.
    + intros n. unfold spec_cmp. destruct (Z.leb_spec 0 e); [lia|].
      rewrite Z.sub_0_l. fold p. rewrite Hm. rewrite <- Zmult_compare_compat_r by lia. reflexivity.
    + intros n. unfold spec_multiple. rewrite Z.min_l by lia. rewrite Z.sub_diag.
      cbn [Z.pow]. rewrite Z.mul_1_r. rewrite Z.sub_0_l. fold p. rewrite Hm.
      destruct (Z.eqb_spec n 0) as [En|En].
      * subst n. cbn [Z.mul Z.eqb].
        destruct (Z.eqb_spec (q * p) 0) as [E|E]; destruct (Z.eqb_spec q 0) as [F|F]; try reflexivity.
        -- apply Z.mul_eq_0 in E. destruct E; [contradiction|lia].
        -- subst q. rewrite F in E. cbn in E. contradiction.
      * destruct (Z.eqb_spec (n * p) 0) as [E|_].
        { apply Z.mul_eq_0 in E. destruct E; [contradiction|lia]. }
        rewrite Z.mul_mod_distr_r by lia.
        destruct (Z.eqb_spec (q mod n * p) 0) as [E|E]; destruct (Z.eqb_spec (q mod n) 0) as [F|F]; try reflexivity.
        -- apply Z.mul_eq_0 in E. destruct E; [contradiction|lia].
        -- rewrite F in E. cbn in E. contradiction.
    + rewrite Hm.
      destruct (Z.eqb_spec q 0) as [E|E]; destruct (Z.eqb_spec (q * p) 0) as [F|F]; try reflexivity.
      * rewrite E in F. cbn in F. contradiction.
      * apply Z.mul_eq_0 in F. destruct F; [contradiction|lia].
Qed.

Lemma as_i64_range x : in_i64 (as_i64 x).
Proof.
  destruct x as [z|b]; cbn [as_i64]; [apply wrap64_range|].
  destruct (decode b) as [| s | m e]; cbn [f2i].
  - unfold in_i64. consts. lia.
  - destruct s; unfold in_i64; consts; lia.
  - unfold in_i64, clamp64. consts. lia.
Qed.

Lemma run_num_int_cast op n x :
  run_num op (BI n) x = run_num op (BI n) (NI (as_i64 x)).
Proof.
  unfold run_num. cbn [as_i64]. rewrite (wrap64_id (as_i64 x)) by apply as_i64_range. reflexivity.
Qed.

(* ------------------------------------------------ float bounds *)
Lemma fl_rem_spec v n : fl_is_zero v = false -> fl_is_zero (fl_rem v n) = spec_multiple v n.
Proof.
  intros Hv. destruct v as [| s | m e], n as [| s' | m' e']; try reflexivity.
  - cbn [fl_rem]. rewrite Hv. reflexivity.
  - rewrite fl_is_zero_fin in Hv. apply Z.eqb_neq in Hv.
    unfold fl_rem, spec_multiple.
    set (k := Z.min e e').
    assert (H1 : 0 < 2 ^ (e - k)) by (apply pow2_pos; unfold k; lia).
    assert (H2 : 0 < 2 ^ (e' - k)) by (apply pow2_pos; unfold k; lia).
    destruct (Z.eqb_spec m' 0) as [E|E].
    + subst m'. cbn [Z.mul Z.eqb fl_is_zero].
      destruct (Z.eqb_spec (m * 2 ^ (e - k)) 0) as [F|F]; [|reflexivity].
      apply Z.mul_eq_0 in F. destruct F; [contradiction|lia].
    + rewrite fl_is_zero_fin.
      destruct (Z.eqb_spec (m' * 2 ^ (e' - k)) 0) as [F|F].
      { apply Z.mul_eq_0 in F. destruct F; [contradiction|lia]. }
      apply rem_mod_zero. exact F.
Qed.

Lemma num_is_zero_as_f64 x : as_f64 x = ext_of_num x -> fl_is_zero (as_f64 x) = num_is_zero x.
Proof.
  intros E. rewrite E. destruct x as [z|b]; cbn [ext_of_num num_is_zero]; [apply fl_is_zero_fin|reflexivity].
Qed.

Lemma num_exact_float op f x :
  as_f64 x = ext_of_num x ->
  (op = OMul -> num_is_zero x = false) ->
  run_num op (BF f) x = of_bool (spec_num op (BF f) x).
Proof.
  intros E Hm. unfold run_num, spec_num, ext_of_bound. destruct op.
  - rewrite (num_is_zero_as_f64 x E), (Hm eq_refl), andb_false_r.
    rewrite fl_rem_spec by (rewrite (num_is_zero_as_f64 x E); exact (Hm eq_refl)).
    rewrite E. reflexivity.
  - unfold maximum_cmp_gen. rewrite cmp_fl_le, E. reflexivity.
  - unfold minimum_cmp_gen. rewrite cmp_fl_ge, E. reflexivity.
Qed.

Lemma rne_small z : Z.abs z < 2 ^ 53 -> rne z = FFin z 0.
Proof. intros H. unfold rne. destruct (Z.ltb_spec (Z.abs z) (2 ^ 53)); [reflexivity|lia]. Qed.

(* ------------------------------------------------ all numeric pairs *)
Lemma class2_zero strict op b x :
  pair_class2 strict (KNum op b) (ANum x) = 0%N ->
  pair_class strict (KNum op b) (ANum x) = 0%N /\
  (op = OMul ->
   num_is_zero x = false /\
   match b with BI n => n <> 0 /\ ~ (as_i64 x = I64_MIN /\ n = -1) | BF _ => True end).
Proof.
  unfold pair_class2. destruct (pair_class strict (KNum op b) (ANum x)); [|discriminate].
  intros H. split; [reflexivity|]. intros ->.
  unfold multiple_of_zero_guard_gen in H. cbn [andb] in H.
  destruct (num_is_zero x); [discriminate|]. split; [reflexivity|].
  destruct b as [n|f]; [|exact I].
  destruct (Z.eqb_spec n 0) as [|Hn]; [discriminate|]. cbn [orb] in H.
  split; [exact Hn|]. intros [E1 E2].
  rewrite E1, E2 in H. rewrite !Z.eqb_refl in H. discriminate.
Qed.

Lemma spec_num_integral op n f m e :
  decode f = FFin m e -> fl_integral_i64 (FFin m e) = true ->
  spec_num op (BI n) (NF f) = spec_num op (BI n) (NI (f2i (FFin m e))).
Proof.
  intros D Hi. destruct (integral_fin m e Hi) as (_ & C1 & C2 & C3 & _).
  unfold spec_num, ext_of_num, ext_of_bound. rewrite D. destruct op.
  - rewrite C3, spec_multiple_int. reflexivity.
  - rewrite spec_le_int. unfold spec_le. rewrite C1. unfold Z.leb. destruct (f2i (FFin m e) ?= n); reflexivity.
  - rewrite spec_le_int. unfold spec_le. rewrite C2. unfold Z.leb. destruct (n ?= f2i (FFin m e)); reflexivity.
Qed.

Theorem num_exact strict op b x :
  pair_class2 strict (KNum op b) (ANum x) = 0%N ->
  run_num op b x = of_bool (spec_num op b x).
Proof.
  intros H. apply class2_zero in H. destruct H as [PC Hm].
  destruct b as [n|f]; destruct x as [z|g]; cbn [pair_class] in PC.
  - (* integer value, integer bound *)
    assert (Hin : in_i64 z).
    { destruct (Z.ltb_spec z I64_MIN); [discriminate|]. destruct (Z.ltb_spec I64_MAX z); [discriminate|].
      split; lia. }
    apply num_exact_int; [exact Hin|]. intros ->. destruct (Hm eq_refl) as (Hz & Hn & Hp).
    cbn [num_is_zero] in Hz. apply Z.eqb_neq in Hz.
    cbn [as_i64] in Hp. rewrite wrap64_id in Hp by exact Hin. auto.
  - (* float value, integer bound: an integer inside the i64 range *)
    destruct (fl_integral_i64 (decode g)) eqn:Hi; [|discriminate].
    destruct (decode g) as [| s | m e] eqn:D; [discriminate|discriminate|].
    destruct (integral_fin m e Hi) as (Hin & _ & _ & _ & Hz0).
    rewrite run_num_int_cast. cbn [as_i64]. rewrite D.
    rewrite (spec_num_integral op n g m e D Hi).
    apply num_exact_int; [exact Hin|]. intros ->. destruct (Hm eq_refl) as (Hz & Hn & Hp).
    cbn [num_is_zero] in Hz. rewrite D, fl_is_zero_fin in Hz. rewrite <- Hz0 in Hz. apply Z.eqb_neq in Hz.
    cbn [as_i64] in Hp. rewrite D in Hp. auto.
  - (* integer value, float bound: below 2^53 the conversion is exact *)
    apply num_exact_float.
    + cbn [as_f64 ext_of_num]. apply rne_small.
      destruct (strict && ((z <? I64_MIN) || (I64_MAX <? z))); [discriminate|].
      destruct (Z.leb_spec (2 ^ 53) (Z.abs z)); [discriminate|lia].
    + intros ->. exact (proj1 (Hm eq_refl)).
  - (* float value, float bound *)
    apply num_exact_float; [reflexivity|]. intros ->. exact (proj1 (Hm eq_refl)).
Qed.

(* ------------------------------------------------ list utilities *)
Lemma first_fail_of_bool {A} (g : A -> bool) (f : A -> res) l :
  (forall x, In x l -> f x = of_bool (g x)) -> first_fail (map f l) = of_bool (forallb g l).
Proof.
  induction l as [|x l IH]; intros H; [reflexivity|].
  cbn [map first_fail forallb]. rewrite (H x (or_introl eq_refl)).
  destruct (g x); cbn [of_bool andb]; [|reflexivity].
  apply IH. intros y Hy. apply H. right. exact Hy.
Qed.

Lemma forallb_true {A} (l : list A) : forallb (fun _ => true) l = true.
Proof. induction l; [reflexivity|exact IHl]. Qed.

Lemma forallb_andb {A} (f g : A -> bool) l :
  forallb (fun x => f x && g x) l = forallb f l && forallb g l.
Proof.
  induction l as [|x l IH]; [reflexivity|]. cbn [forallb]. rewrite IH.
  destruct (f x), (g x), (forallb f l), (forallb g l); reflexivity.
Qed.

Lemma forallb_ext_in {A} (f g : A -> bool) l :
  (forall x, In x l -> f x = g x) -> forallb f l = forallb g l.
Proof.
  induction l as [|x l IH]; intros H; [reflexivity|]. cbn [forallb].
  rewrite (H x (or_introl eq_refl)), IH; [reflexivity|]. intros y Hy. apply H. right. exact Hy.
Qed.

Lemma forallb_filter {A} (p g : A -> bool) l :
  forallb g (filter p l) = forallb (fun x => implb (p x) (g x)) l.
Proof.
  induction l as [|x l IH]; [reflexivity|]. cbn [filter forallb].
  destruct (p x); cbn [forallb implb]; rewrite IH; reflexivity.
Qed.

Lemma forallb_swap {A B} (h : A -> B -> bool) (la : list A) (lb : list B) :
  forallb (fun a => forallb (fun b => h a b) lb) la = forallb (fun b => forallb (fun a => h a b) la) lb.
Proof.
  induction la as [|a la IH].
  - cbn [forallb]. symmetry. apply forallb_true.
  - cbn [forallb]. rewrite IH. symmetry. apply forallb_andb.
Qed.

Lemma first_nz_zero l : first_nz l = 0%N -> forall c, In c l -> c = 0%N.
Proof.
  induction l as [|x l IH]; intros H c Hc; [destruct Hc|].
  cbn [first_nz] in H. destruct x; [|discriminate].
  destruct Hc as [<-|Hc]; [reflexivity|]. apply IH; assumption.
Qed.

Lemma forallb_pick (g : vkind -> bool) cfg order :
  forallb g (pick cfg order) = forallb (fun k => implb (existsb (N.eqb (tag_of k)) order) (g k)) cfg.
Proof.
  unfold pick. induction order as [|t o IH].
  - cbn [flat_map forallb existsb implb]. symmetry. apply forallb_true.
  - cbn [flat_map existsb]. rewrite forallb_app, IH, forallb_filter, <- forallb_andb.
    apply forallb_ext_in. intros k _.
    destruct (N.eqb (tag_of k) t), (existsb (N.eqb (tag_of k)) o), (g k); reflexivity.
Qed.

Lemma In_pick k cfg order : In k (pick cfg order) -> In k cfg /\ existsb (N.eqb (tag_of k)) order = true.
Proof.
  unfold pick. intros H. apply in_flat_map in H. destruct H as (t & Ht & Hk).
  apply filter_In in Hk. destruct Hk as [Hk E]. split; [exact Hk|].
  apply existsb_exists. exists t. split; assumption.
Qed.

(* the order tables of create_validators cover every validator exactly in its group *)
Lemma list_order_tags k : existsb (N.eqb (tag_of k)) list_order_gen = is_list_kind k.
Proof. destruct k as [[] b|[] n|r|[] n]; reflexivity. Qed.
Lemma elem_order_tags k : existsb (N.eqb (tag_of k)) elem_order_gen = negb (is_list_kind k).
Proof. destruct k as [[] b|[] n|r|[] n]; reflexivity. Qed.

(* ------------------------------------------------ one validator on one raw value *)
Section Slots.
  Variable matches : N -> str -> bool.
  Variable strict : bool.

  Lemma len_exact op n s : run_len op n s = of_bool (spec_len op n s).
  Proof.
    destruct op; unfold run_len, spec_len, measure_of;
      unfold max_length_cmp_gen, min_length_cmp_gen, chars_max_length_cmp_gen, chars_min_length_cmp_gen,
             max_length_measure_gen, min_length_measure_gen, chars_max_length_measure_gen, chars_min_length_measure_gen;
      rewrite ?cmp_z_le, ?cmp_z_ge; reflexivity.
  Qed.

  Lemma kind_exact k a :
    wt_kind k a = true -> pair_class2 strict k a = 0%N ->
    run_kind matches k a = of_bool (spec_kind matches k a).
  Proof.
    intros W C. destruct k as [op b|op n|r|mx n]; destruct a as [|x|s|l]; try discriminate W; cbn [run_kind spec_kind].
    - apply (num_exact strict). exact C.
    - apply len_exact.
    - reflexivity.
    - unfold run_items. destruct mx; unfold max_items_cmp_gen, min_items_cmp_gen; rewrite ?cmp_z_le, ?cmp_z_ge; reflexivity.
  Qed.

  Lemma class_nonnum k a :
    match k with KNum _ _ => False | _ => True end -> pair_class2 strict k a = 0%N.
  Proof. destruct k; intros H; try contradiction; reflexivity. Qed.
  Lemma class_none k : pair_class2 strict k ANone = 0%N.
  Proof. destruct k as [[] b| | |]; reflexivity. Qed.

  Definition ok (k : vkind) (a : arg) : Prop := wt_nonnull k a = true /\ pair_class2 strict k a = 0%N.

  Lemma on_raw_exact ks a :
    (forall k, In k ks -> ok k a) ->
    on_raw a (run_kinds matches ks) = of_bool (forallb (fun k => holds_nonnull matches k a) ks).
  Proof.
    intros H. destruct a as [|x|s|l]; cbn [on_raw holds_nonnull].
    - rewrite forallb_true. reflexivity.
    - unfold run_kinds. apply first_fail_of_bool. intros k Hk. destruct (H k Hk). apply kind_exact; assumption.
    - unfold run_kinds. apply first_fail_of_bool. intros k Hk. destruct (H k Hk). apply kind_exact; assumption.
    - unfold run_kinds. apply first_fail_of_bool. intros k Hk. destruct (H k Hk). apply kind_exact; assumption.
  Qed.

  Lemma match_nil_on_raw ks a :
    match ks with [] => Accept | _ => on_raw a (run_kinds matches ks) end = on_raw a (run_kinds matches ks).
  Proof. destruct ks; [destruct a; reflexivity|reflexivity]. Qed.

  (* ---------------------------------------------- one argument / input field *)
  Theorem slot_exact s :
    wt_slot s = true -> slot_class strict s = 0%N ->
    run_slot matches s = of_bool (spec_slot matches s).
  Proof.
    destruct s as [[cfg lm] a]. intros W C.
    unfold wt_slot in W. rewrite forallb_forall in W.
    unfold slot_class in C. pose proof (first_nz_zero _ C) as C'. clear C.
    assert (CE : forall k it, In k cfg -> is_list_kind k = false -> In it (items_of lm a) -> pair_class2 strict k it = 0%N).
    { intros k it Hk Hl Hit. apply C'. apply in_flat_map. exists k. split; [exact Hk|].
      rewrite Hl. apply in_map. exact Hit. }
    clear C'.
    (* the specification, split by group *)
    assert (S : spec_slot matches (cfg, lm, a) =
                forallb (fun k => holds_nonnull matches k a) (pick cfg list_order_gen) &&
                forallb (fun k => if lm then match a with
                                             | ANone => true
                                             | AList l => forallb (holds_nonnull matches k) l
                                             | _ => false
                                             end
                                  else holds_nonnull matches k a) (pick cfg elem_order_gen)).
    { rewrite !forallb_pick, <- forallb_andb. unfold spec_slot. apply forallb_ext_in. intros k _.
      rewrite list_order_tags, elem_order_tags. destruct (is_list_kind k); cbn [implb negb].
      - rewrite andb_true_r. reflexivity.
      - reflexivity. }
    rewrite S. clear S.
    unfold run_slot. rewrite match_nil_on_raw.
    (* list-level validators *)
    assert (RL : on_raw a (run_kinds matches (pick cfg list_order_gen)) =
                 of_bool (forallb (fun k => holds_nonnull matches k a) (pick cfg list_order_gen))).
    { apply on_raw_exact. intros k Hk. apply In_pick in Hk. destruct Hk as [Hk Ht].
      rewrite list_order_tags in Ht. split.
      - specialize (W k Hk). rewrite Ht in W. exact W.
      - destruct k; try discriminate Ht. apply class_nonnum. exact I. }
    rewrite RL. clear RL.
    set (A := forallb (fun k => holds_nonnull matches k a) (pick cfg list_order_gen)).
    (* element-level validators *)
    assert (HE : forall k, In k (pick cfg elem_order_gen) -> In k cfg /\ is_list_kind k = false).
    { intros k Hk. apply In_pick in Hk. destruct Hk as [Hk Ht]. rewrite elem_order_tags in Ht.
      split; [exact Hk|]. destruct (is_list_kind k); [discriminate|reflexivity]. }
    assert (RE : match pick cfg elem_order_gen with
                 | [] => Accept
                 | _ => if lm
                        then match a with
                             | ANone => Accept
                             | AList l => first_fail (map (fun it => on_raw it (run_kinds matches (pick cfg elem_order_gen))) l)
                             | _ => IllTyped
                             end
                        else on_raw a (run_kinds matches (pick cfg elem_order_gen))
                 end =
                 of_bool (forallb (fun k => if lm then match a with
                                                       | ANone => true
                                                       | AList l => forallb (holds_nonnull matches k) l
                                                       | _ => false
                                                       end
                                            else holds_nonnull matches k a) (pick cfg elem_order_gen))).
    { destruct lm.
      - destruct a as [|x|s|l].
        + rewrite forallb_true. destruct (pick cfg elem_order_gen); reflexivity.
        + destruct (pick cfg elem_order_gen) as [|k ks] eqn:P; [reflexivity|].
          exfalso. destruct (HE k (or_introl eq_refl)) as [Hk Hl]. specialize (W k Hk). rewrite Hl in W. discriminate.
        + destruct (pick cfg elem_order_gen) as [|k ks] eqn:P; [reflexivity|].
          exfalso. destruct (HE k (or_introl eq_refl)) as [Hk Hl]. specialize (W k Hk). rewrite Hl in W. discriminate.
        + assert (R : first_fail (map (fun it => on_raw it (run_kinds matches (pick cfg elem_order_gen))) l) =
                      of_bool (forallb (fun it => forallb (fun k => holds_nonnull matches k it) (pick cfg elem_order_gen)) l)).
          { apply first_fail_of_bool. intros it Hit. apply on_raw_exact. intros k Hk.
            destruct (HE k Hk) as [Hkc Hl]. split.
            - specialize (W k Hkc). rewrite Hl in W. rewrite forallb_forall in W. apply W. exact Hit.
            - apply CE; [exact Hkc|exact Hl|exact Hit]. }
          rewrite (forallb_swap (fun it k => holds_nonnull matches k it)) in R.
          rewrite R. destruct (pick cfg elem_order_gen); reflexivity.
      - rewrite match_nil_on_raw. apply on_raw_exact. intros k Hk.
        destruct (HE k Hk) as [Hkc Hl]. split.
        + specialize (W k Hkc). rewrite Hl in W. exact W.
        + apply CE; [exact Hkc|exact Hl|left; reflexivity]. }
    rewrite RE. clear RE.
    destruct A; cbn [of_bool first_fail andb]; [|reflexivity].
    match goal with |- match of_bool ?b with _ => _ end = _ => destruct b end; reflexivity.
  Qed.

  (* ---------------------------------------------- a whole field (all its validated arguments) *)
  Lemma exec_exact ss :
    forallb wt_slot ss = true -> first_nz (map (slot_class strict) ss) = 0%N ->
    run_exec matches ss = of_bool (spec_req matches ss).
  Proof.
    intros W C. unfold run_exec, spec_req. apply first_fail_of_bool. intros s Hs.
    apply slot_exact.
    - rewrite forallb_forall in W. apply W. exact Hs.
    - apply (first_nz_zero _ C). apply in_map. exact Hs.
  Qed.

  Theorem req_exact ss :
    forallb wt_slot ss = true -> req_class strict ss = 0%N ->
    run_req matches strict ss = of_bool (spec_req matches ss).
  Proof.
    intros W C. unfold req_class in C.
    destruct (first_nz (map (slot_class strict) ss)) eqn:F; [|discriminate].
    unfold run_req. destruct (strict && req_big ss); [discriminate|].
    apply exec_exact; assumption.
  Qed.

  Lemma sat_of_bool b : sat (of_bool b) b = true.
  Proof. destruct b; reflexivity. Qed.
End Slots.

(* ------------------------------------------------ the verdict of the correspondence files *)
Theorem check_sound tbl strict ss code :
  forallb wt_slot ss = true -> req_class strict ss = 0%N ->
  check_case (tbl, strict, ss, code) <> 2%N /\
  (res_of_code code = run_req (lookup tbl) strict ss -> check_case (tbl, strict, ss, code) = 0%N).
Proof.
  intros W C. unfold check_case.
  rewrite (req_exact (lookup tbl) strict ss W C), sat_of_bool. unfold verdict.
  split.
  - destruct (res_eqb (res_of_code code) (of_bool (spec_req (lookup tbl) ss))); [discriminate|].
    destruct (sat (res_of_code code) (spec_req (lookup tbl) ss)); [discriminate|].
    try rewrite C; discriminate.
  - intros ->. destruct (of_bool (spec_req (lookup tbl) ss)); reflexivity.
Qed.

(* ------------------------------------------------ list mode, stated pointwise *)
Lemma holds_nonnull_iff m k it : holds_nonnull m k it = true <-> it = ANone \/ spec_kind m k it = true.
Proof.
  destruct it; cbn [holds_nonnull]; split; intros H; try (left; reflexivity); try (right; exact H);
    try reflexivity; destruct H as [H|H]; try discriminate H; try exact H.
Qed.

Theorem list_mode_iff m strict cfg l :
  wt_slot (cfg, true, AList l) = true -> slot_class strict (cfg, true, AList l) = 0%N ->
  (forall k, In k cfg -> is_list_kind k = false) ->
  (run_slot m (cfg, true, AList l) = Accept <->
   forall k it, In k cfg -> In it l -> it = ANone \/ spec_kind m k it = true).
Proof.
  intros W C HL. rewrite (slot_exact m strict _ W C), of_bool_accept.
  unfold spec_slot. rewrite forallb_forall. split.
  - intros H k it Hk Hit. specialize (H k Hk). rewrite (HL k Hk) in H.
    rewrite forallb_forall in H. apply holds_nonnull_iff. apply H. exact Hit.
  - intros H k Hk. rewrite (HL k Hk). rewrite forallb_forall. intros it Hit.
    apply holds_nonnull_iff. apply H; assumption.
Qed.

(* ------------------------------------------------ strings *)
Lemma utf8_len_bounds c : 1 <= utf8_len c <= 4.
Proof. unfold utf8_len. destruct (c <? 128)%N, (c <? 2048)%N, (c <? 65536)%N; lia. Qed.

Lemma byte_len_cons c s : byte_len (c :: s) = utf8_len c + byte_len s.
Proof. reflexivity. Qed.

Lemma byte_len_app s t : byte_len (s ++ t) = byte_len s + byte_len t.
Proof.
  induction s as [|c s IH]; [reflexivity|].
  rewrite <- app_comm_cons, !byte_len_cons, IH. lia.
Qed.

Lemma byte_char_len s : char_len s <= byte_len s <= 4 * char_len s.
Proof.
  unfold char_len. induction s as [|c s IH]; [cbn; lia|].
  rewrite byte_len_cons. cbn [length]. rewrite Nat2Z.inj_succ. pose proof (utf8_len_bounds c). lia.
Qed.

Lemma byte_len_ascii s : Forall (fun c => (c < 128)%N) s -> byte_len s = char_len s.
Proof.
  unfold char_len. induction 1 as [|c s Hc _ IH]; [reflexivity|].
  rewrite byte_len_cons, IH. cbn [length]. rewrite Nat2Z.inj_succ. unfold utf8_len.
  destruct (N.ltb_spec c 128); lia.
Qed.

Lemma len_iff op n s :
  run_len op n s = Accept <->
  match op with
  | LMaxLength => byte_len s <= n
  | LMinLength => n <= byte_len s
  | LCharsMax => Z.of_nat (length s) <= n
  | LCharsMin => n <= Z.of_nat (length s)
  end.
Proof. rewrite len_exact, of_bool_accept. destruct op; cbn [spec_len]; unfold char_len; apply Z.leb_le. Qed.

Lemma items_iff mx n l :
  run_items mx n l = Accept <-> if mx then Z.of_nat (length l) <= n else n <= Z.of_nat (length l).
Proof.
  unfold run_items. rewrite of_bool_accept.
  destruct mx; unfold max_items_cmp_gen, min_items_cmp_gen; rewrite ?cmp_z_le, ?cmp_z_ge; apply Z.leb_le.
Qed.

(* ------------------------------------------------ witnesses *)
Definition no_match : N -> str -> bool := fun _ _ => false.

Lemma u64_wrap_refuted :
  exists x n, 0 <= x < 2 ^ 64 /\ 0 <= n /\
    run_num OMax (BI n) (NI x) = Accept /\ spec_num OMax (BI n) (NI x) = false /\
    run_req no_match false [([KNum OMax (BI n)], false, ANum (NI x))] = Accept /\
    spec_req no_match [([KNum OMax (BI n)], false, ANum (NI x))] = false /\
    run_req no_match true [([KNum OMin (BI n)], false, ANum (NI x))] = Reject /\
    spec_req no_match [([KNum OMin (BI n)], false, ANum (NI x))] = true.
Proof. exists (2 ^ 64 - 1), 10. vm_compute. repeat split; intros; discriminate. Qed.

(* 10.5 <= 10 accepted; -0.5 >= 0 accepted; 6.5 a multiple of 3 *)
Lemma float_value_int_bound_refuted :
  run_num OMax (BI 10) (NF 4622100592565682176) = Accept /\ spec_num OMax (BI 10) (NF 4622100592565682176) = false /\
  run_num OMin (BI 0) (NF 13826050856027422720) = Accept /\ spec_num OMin (BI 0) (NF 13826050856027422720) = false /\
  run_num OMul (BI 3) (NF 4619004367821864960) = Accept /\ spec_num OMul (BI 3) (NF 4619004367821864960) = false.
Proof. vm_compute. repeat split. Qed.

(* 2^53 + 1 <= 2^53 accepted; 2^53 + 1 = 3 * 3002399751580331 refused by multiple_of = 3.0 *)
Lemma int_value_float_bound_refuted :
  run_num OMax (BF 4845873199050653696) (NI (2 ^ 53 + 1)) = Accept /\
  spec_num OMax (BF 4845873199050653696) (NI (2 ^ 53 + 1)) = false /\
  run_num OMul (BF 4613937818241073152) (NI (2 ^ 53 + 1)) = Reject /\
  spec_num OMul (BF 4613937818241073152) (NI (2 ^ 53 + 1)) = true.
Proof. vm_compute. repeat split. Qed.

Lemma multiple_of_zero_refuted n :
  run_num OMul (BI n) (NI 0) = Reject /\ spec_num OMul (BI n) (NI 0) = true.
Proof. split; [apply multiple_of_zero_rejected|apply multiple_of_zero_spec]. Qed.

Lemma multiple_of_panic_refuted :
  run_req no_match false [([KNum OMul (BI 0)], false, ANum (NI 5))] = Panicked /\
  run_num OMul (BI (-1)) (NI I64_MIN) = Panicked.
Proof. vm_compute. split; reflexivity. Qed.

(* max_length counts UTF-8 bytes, chars_max_length scalar values: "你好" *)
Lemma length_measures_differ :
  run_len LMaxLength 5 [20320; 22909]%N = Reject /\ run_len LCharsMax 5 [20320; 22909]%N = Accept.
Proof. vm_compute. split; reflexivity. Qed.

(* non-vacuity: a request with numeric, string and list validators in class 0 *)
Definition demo_req : list slot :=
  [ ([KNum OMin (BI 1); KNum OMax (BI 100); KNum OMul (BI 5)], false, ANum (NI 35));
    ([KLen LMinLength 2; KLen LCharsMax 4; KRegex 0], false, AStr [97; 20320]%N);
    ([KItems true 3; KNum OMax (BF 4622100592565682176)], true, AList [ANum (NI 10); ANone; ANum (NF 4602678819172646912)]) ].
Lemma demo_req_ok :
  forallb wt_slot demo_req = true /\ req_class true demo_req = 0%N /\
  run_req (fun _ _ => true) true demo_req = Accept /\ spec_req (fun _ _ => true) demo_req = true /\
  run_req no_match true demo_req = Reject.
Proof. vm_compute. repeat split. Qed.

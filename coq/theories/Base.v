(* Base.v — shared vocabulary of the async-graphql models.
   Only definitions and small lemmas used by several properties. *)
From Coq Require Export List Bool Arith ZArith NArith Lia.
Export ListNotations.

(* Names (type names, field names, fragment names, ...) travel as numbers:
   the harness interns every distinct string of a case into an [N].  Where the
   characters of a string matter (C13, C14, C15, C17, C34) strings are lists
   of Unicode scalar values instead ([str]). *)
Definition name := N.
Definition cp := N.
Definition str := list cp.

Definition name_eqb (a b : name) : bool := N.eqb a b.

Lemma name_eqb_eq a b : name_eqb a b = true <-> a = b.
Proof. apply N.eqb_eq. Qed.

Lemma name_eqb_refl a : name_eqb a a = true.
Proof. apply N.eqb_refl. Qed.

(* Association lists = IndexMap / BTreeMap / HashMap lookups (first match). *)
Fixpoint assoc {A} (k : name) (l : list (name * A)) : option A :=
  match l with
  | [] => None
  | (k', v) :: l' => if name_eqb k k' then Some v else assoc k l'
  end.

Fixpoint mem (k : name) (l : list name) : bool :=
  match l with
  | [] => false
  | k' :: l' => if name_eqb k k' then true else mem k l'
  end.

Lemma mem_In k l : mem k l = true <-> In k l.
Proof.
  induction l as [|x l IH]; simpl; [split; [discriminate|tauto]|].
  destruct (name_eqb k x) eqn:E.
  - apply name_eqb_eq in E; subst; tauto.
  - rewrite IH. split; [tauto|]. intros [H|H]; [|exact H].
    subst. rewrite name_eqb_refl in E. discriminate.
Qed.

(* Outcome of a modelled function: the real code either returns, returns an
   error, panics, or (model only) runs out of fuel. *)
Inductive outcome (A : Type) :=
| Ok (a : A)
| Err (code : N)
| Panic
| OutOfFuel.
Arguments Ok {A} a.
Arguments Err {A} code.
Arguments Panic {A}.
Arguments OutOfFuel {A}.

Definition bindo {A B} (x : outcome A) (f : A -> outcome B) : outcome B :=
  match x with
  | Ok a => f a
  | Err c => Err c
  | Panic => Panic
  | OutOfFuel => OutOfFuel
  end.

(* Verdict codes printed by the correspondence files (cases.v). *)
Definition V_OK : N := 0.          (* impl = model = spec                         *)
Definition V_KNOWN : N := 1.       (* impl = model <> spec, inside a known class  *)
Definition V_THEOREM_GAP : N := 2. (* impl = model <> spec, outside known classes *)
Definition V_STALE_OK : N := 3.    (* impl <> model, impl = spec                  *)
Definition V_VIOLATION : N := 4.   (* impl <> model, impl <> spec, not known      *)
Definition V_STALE_KNOWN : N := 5. (* impl <> model, impl <> spec, known class    *)

(* [known] = 0: the case lies in no known-finding class; k > 0: class k.
   Known classes are reported as 100+k (impl = model) or 500+k (impl <> model).
   A known class never excuses an implementation answer that differs from the
   specification on an input where today's MODEL agrees with the specification
   (the class is decided from the input; the defect it records does not show on
   such an input), so that case is a violation whatever [known] says. *)
Definition verdict (impl_eq_model model_eq_spec impl_eq_spec : bool) (known : N) : N :=
  if impl_eq_model then
    (if model_eq_spec then V_OK
     else if N.eqb known 0 then V_THEOREM_GAP else (100 + known)%N)
  else
    (if impl_eq_spec then V_STALE_OK
     else if model_eq_spec then V_VIOLATION
     else if N.eqb known 0 then V_VIOLATION else (500 + known)%N).

Fixpoint forallb2 {A B} (f : A -> B -> bool) (l1 : list A) (l2 : list B) : bool :=
  match l1, l2 with
  | [], [] => true
  | a :: l1', b :: l2' => f a b && forallb2 f l1' l2'
  | _, _ => false
  end.

Definition option_eqb {A} (f : A -> A -> bool) (x y : option A) : bool :=
  match x, y with
  | None, None => true
  | Some a, Some b => f a b
  | _, _ => false
  end.

Definition list_eqb {A} (f : A -> A -> bool) (x y : list A) : bool := forallb2 f x y.

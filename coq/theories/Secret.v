(* Secret.v — C21: model of Registry::stringify_exec_doc
   (src/registry/stringify_exec_doc.rs), the printer behind
   ExtensionContext::stringify_execute_doc used by the Logger / Tracing /
   OpenTelemetry extensions, and the specification "the printed text does not
   depend on what is supplied at secret positions" (non-interference).

   Executable definitions only; proofs are in SecretProofs.v.

   The output is the text itself ([str] = list of code points).  Names are
   interned numbers; the text of a name is given by [nm : name -> str], the
   text of a float by [fl : N -> str] (Rust's float formatting is outside the
   model).  Every theorem holds for all [nm] and [fl]. *)
From AG Require Export Base Doc.
Require Coq.Strings.String Coq.Strings.Ascii.

(* ------------------------------------------------------------- literals -- *)
Module L.
  Import Coq.Strings.String Coq.Strings.Ascii.
  Definition lit (s : string) : str := List.map N_of_ascii (list_ascii_of_string s).
  Definition secret : str := lit """<secret>""".
  Definition null : str := lit "null".
  Definition true_ : str := lit "true".
  Definition false_ : str := lit "false".
  Definition comma : str := lit ", ".
  Definition colon : str := lit ": ".
  Definition colon1 : str := lit ":".
  Definition lbrack : str := lit "[".
  Definition rbrack : str := lit "]".
  Definition lbrace : str := lit "{".
  Definition rbrace : str := lit "}".
  Definition lpar : str := lit "(".
  Definition rpar : str := lit ")".
  Definition sp : str := lit " ".
  Definition open : str := lit "{ ".
  Definition close : str := lit " }".
  Definition dots : str := lit "... ".
  Definition on : str := lit "on ".
  Definition dollar : str := lit "$".
  Definition eq : str := lit " = ".
  Definition fragment : str := lit "fragment ".
  Definition on_ : str := lit " on ".
  Definition fragend : str := [125; 10; 10]%N.       (* "}\n\n" *)
  Definition query : str := lit "query".
  Definition mutation : str := lit "mutation".
  Definition subscription : str := lit "subscription".
  Definition bs_r : str := lit "\r".
  Definition bs_n : str := lit "\n".
  Definition bs_t : str := lit "\t".
  Definition bs_q : str := lit "\""".
  Definition bs_bs : str := lit "\\".
  Definition bs_u : str := lit "\u".
  (* sentinel patterns placed by the harness in every secret value *)
  Definition sentinels : list str := [lit "SECa"; lit "SECb"; lit "91007"; lit "92007"].
End L.

(* --------------------------------------------------------------- helpers -- *)
Section All2.
  Context {A B : Type} (f : A -> B -> bool).
  Fixpoint all2 (l1 : list A) (l2 : list B) : bool :=
    match l1, l2 with
    | [], [] => true
    | a :: l1', b :: l2' => f a b && all2 l1' l2'
    | _, _ => false
    end.
End All2.

Definition str_eqb (a b : str) : bool := all2 N.eqb a b.

Fixpoint join (sep : str) (l : list str) : str :=
  match l with
  | [] => []
  | x :: l' => match l' with [] => x | _ => x ++ sep ++ join sep l' end
  end.

(* decimal text of an integer (Display for i64/u64) *)
Fixpoint uint_str (u : Decimal.uint) : str :=
  match u with
  | Decimal.Nil => []
  | Decimal.D0 u => 48%N :: uint_str u
  | Decimal.D1 u => 49%N :: uint_str u
  | Decimal.D2 u => 50%N :: uint_str u
  | Decimal.D3 u => 51%N :: uint_str u
  | Decimal.D4 u => 52%N :: uint_str u
  | Decimal.D5 u => 53%N :: uint_str u
  | Decimal.D6 u => 54%N :: uint_str u
  | Decimal.D7 u => 55%N :: uint_str u
  | Decimal.D8 u => 56%N :: uint_str u
  | Decimal.D9 u => 57%N :: uint_str u
  end.

Definition dec_z (z : Z) : str :=
  match Z.to_int z with
  | Decimal.Pos u => uint_str u
  | Decimal.Neg u => 45%N :: uint_str u
  end.

(* value/src/lib.rs::write_quoted *)
Definition is_control (c : cp) : bool := (c <? 32)%N || ((127 <=? c)%N && (c <=? 159)%N).

Definition pad4 (s : str) : str := repeat 48%N (4 - length s) ++ s.

Definition esc (c : cp) : str :=
  if (c =? 13)%N then L.bs_r
  else if (c =? 10)%N then L.bs_n
  else if (c =? 9)%N then L.bs_t
  else if (c =? 34)%N then L.bs_q
  else if (c =? 92)%N then L.bs_bs
  else if is_control c then L.bs_u ++ pad4 (dec_z (Z.of_N c))   (* "\\u{:04}": decimal, as the code does *)
  else [c].

Definition quoted (s : str) : str := 34%N :: flat_map esc s ++ [34%N].

Fixpoint value_eqb (a b : value) : bool :=
  match a, b with
  | VNull, VNull => true
  | VInt x, VInt y => Z.eqb x y
  | VFloat x, VFloat y => N.eqb x y
  | VStr x, VStr y => str_eqb x y
  | VBool x, VBool y => Bool.eqb x y
  | VEnum x, VEnum y => N.eqb x y
  | VList x, VList y => all2 value_eqb x y
  | VObj x, VObj y =>
      all2 (fun p q => match p, q with (k1, v1), (k2, v2) => N.eqb k1 k2 && value_eqb v1 v2 end) x y
  | VVar x, VVar y => N.eqb x y
  | _, _ => false
  end.

(* --------------------------------------------------------------- registry -- *)
(* MetaInputValue: concrete (unwrapped) type name and the secret flag. *)
Record minput := { iv_ty : name; iv_secret : bool }.
(* MetaField: concrete type name and arguments (IndexMap). *)
Record mfield := { mf_ty : name; mf_args : list (name * minput) }.

Inductive mtype :=
| MObject (fields : list (name * mfield))
| MInterface (fields : list (name * mfield))
| MInput (fields : list (name * minput))
| MOther.

Record schema := {
  s_types : list (name * mtype);
  s_query : name;
  s_mutation : option name;
  s_subscription : option name }.

Definition ometa := option minput.

Definition is_secret (m : ometa) : bool :=
  match m with Some i => iv_secret i | None => false end.

Definition vars_t := list (name * value).

(* Value::into_const_with(|n| variables.get(n).cloned().ok_or(())).unwrap_or_default():
   the whole argument becomes null when any variable inside it is missing. *)
Fixpoint closed (vars : vars_t) (a : value) : bool :=
  match a with
  | VVar p => match assoc p vars with Some _ => true | None => false end
  | VList l => forallb (closed vars) l
  | VObj kv => forallb (fun p => match p with (_, x) => closed vars x end) kv
  | _ => true
  end.

Fixpoint subst (vars : vars_t) (a : value) : value :=
  match a with
  | VVar p => match assoc p vars with Some c => c | None => VVar p end
  | VList l => VList (map (subst vars) l)
  | VObj kv => VObj (map (fun p => match p with (k, x) => (k, subst vars x) end) kv)
  | x => x
  end.

Definition resolve (vars : vars_t) (a : value) : value :=
  if closed vars a then subst vars a else VNull.

Section Print.
  Variable nm : name -> str.
  Variable fl : N -> str.
  Variable S : schema.

  (* Display for ConstValue (write_list / write_object / write_quoted) *)
  Fixpoint display (v : value) : str :=
    match v with
    | VNull => L.null
    | VInt z => dec_z z
    | VFloat b => fl b
    | VStr s => quoted s
    | VBool b => if b then L.true_ else L.false_
    | VEnum n => nm n
    | VList l => L.lbrack ++ join L.comma (map display l) ++ L.rbrack
    | VObj kv =>
        L.lbrace ++ join L.comma (map (fun p => match p with (k, x) => nm k ++ L.colon ++ display x end) kv)
                 ++ L.rbrace
    | VVar n => L.dollar ++ nm n
    end.

  Definition input_fields (m : ometa) : option (list (name * minput)) :=
    match m with
    | Some i => match assoc (iv_ty i) (s_types S) with Some (MInput fs) => Some fs | _ => None end
    | None => None
    end.

  (* ---------------------------------------------------------------- impl -- *)
  (* stringify_input_value: masks only when the MetaInputValue at hand is
     secret; recurses only through Object values whose type is a known input
     object; everything else (lists included) is printed with Display. *)
  Fixpoint siv (m : ometa) (v : value) : str :=
    if is_secret m then L.secret else
    match v with
    | VObj kv =>
        match input_fields m with
        | Some fs =>
            L.lbrace ++ join L.comma (map (fun p => match p with (k, x) =>
                                             nm k ++ L.colon ++ siv (assoc k fs) x end) kv)
                     ++ L.rbrace
        | None => display v
        end
    | _ => display v
    end.

  Definition fields_of (t : mtype) : option (list (name * mfield)) :=
    match t with MObject f => Some f | MInterface f => Some f | _ => None end.

  (* MetaType::field_by_name on an optional parent type *)
  Definition field_by_name (p : option mtype) (n : name) : option mfield :=
    match p with
    | Some t => match fields_of t with Some f => assoc n f | None => None end
    | None => None
    end.

  Definition arg_meta (p : option mtype) (fname k : name) : ometa :=
    match field_by_name p fname with Some f => assoc k (mf_args f) | None => None end.

  Definition field_type (p : option mtype) (fname : name) : option mtype :=
    match field_by_name p fname with Some f => assoc (mf_ty f) (s_types S) | None => None end.

  Definition type_named (c : name) : option mtype := assoc c (s_types S).

  Definition selset (items : list str) : str := L.open ++ join L.sp items ++ L.close.

  Definition alias_str (al : option name) : str :=
    match al with Some a => nm a ++ L.colon1 | None => [] end.

  Definition args_str (items : list str) : str :=
    match items with [] => [] | _ => L.lpar ++ join L.comma items ++ L.rpar end.

  Definition sub_str (sub : list selection) (items : list str) : str :=
    match sub with [] => [] | _ => L.sp ++ selset items end.

  Definition cond_str (c : option name) : str :=
    match c with Some c => L.on ++ nm c ++ L.sp | None => [] end.

  (* stringify_selection_set, one selection; [p] is parent_type.  Directives
     are not printed.  An inline fragment without type condition continues
     with parent_type = None. *)
  Fixpoint impl_sel (vars : vars_t) (p : option mtype) (s : selection) : str :=
    match s with
    | SField al n args _ sub =>
        alias_str al ++ nm n ++
        args_str (map (fun kv => match kv with (k, a) =>
                         nm k ++ L.colon ++ siv (arg_meta p n k) (resolve vars a) end) args) ++
        sub_str sub (map (impl_sel vars (field_type p n)) sub)
    | SSpread n _ => L.dots ++ nm n
    | SInline c _ sub =>
        L.dots ++ cond_str c ++
        selset (map (impl_sel vars (match c with Some c => type_named c | None => None end)) sub)
    end.

  Definition impl_frag (vars : vars_t) (nf : name * fragment) : str :=
    L.fragment ++ nm (fst nf) ++ L.on_ ++ nm (fr_cond (snd nf)) ++
    selset (map (impl_sel vars (type_named (fr_cond (snd nf)))) (fr_sels (snd nf))) ++ L.fragend.

  Definition optype_str (t : optype) : str :=
    match t with OpQuery => L.query | OpMutation => L.mutation | OpSubscription => L.subscription end.

  Definition root_type (t : optype) : option mtype :=
    match t with
    | OpQuery => type_named (s_query S)
    | OpMutation => match s_mutation S with Some n => type_named n | None => None end
    | OpSubscription => match s_subscription S with Some n => type_named n | None => None end
    end.

  Definition vardef_str (dflt : vardef -> str) (vd : vardef) : str :=
    L.dollar ++ nm (vd_name vd) ++ L.colon ++ vd_ty vd ++ dflt vd.

  Definition header_str (o : operation) (dflt : vardef -> str) : str :=
    optype_str (op_ty o) ++ L.sp ++
    match op_name o with
    | Some n =>
        nm n ++
        (match op_vars o with
         | [] => []
         | _ => L.lpar ++ join L.comma (map (vardef_str dflt) (op_vars o)) ++ L.rpar
         end) ++ L.sp
    | None => []     (* variable definitions of an anonymous operation are not printed *)
    end.

  (* the default value of a variable is printed with plain Display *)
  Definition impl_default (vd : vardef) : str :=
    match vd_default vd with Some x => L.eq ++ display x | None => [] end.

  Definition impl_op (vars : vars_t) (o : operation) : str :=
    header_str o impl_default ++
    selset (map (impl_sel vars (root_type (op_ty o))) (op_sels o)).

  (* stringify_exec_doc: fragments first, then operations, in map order *)
  Definition impl_doc (vars : vars_t) (d : document) : str :=
    concat (map (impl_frag vars) (doc_frags d)) ++ concat (map (impl_op vars) (doc_ops d)).

  (* ---------------------------------------------------------------- spec -- *)
  (* Spec typing of input values: a value supplied for an argument / input
     field described by [m] is a secret position when [m] is secret; list
     items are typed like the list; the fields of an object value are typed by
     the input object type named by [m]. *)
  Definition fmeta (m : ometa) (k : name) : ometa :=
    match input_fields m with Some fs => assoc k fs | None => None end.

  (* does the constant [v], supplied for [m], occupy a secret position? *)
  Fixpoint hs (m : ometa) (v : value) : bool :=
    if is_secret m then true else
    match v with
    | VList l => existsb (hs m) l
    | VObj kv => existsb (fun p => match p with (k, x) => hs (fmeta m k) x end) kv
    | _ => false
    end.

  (* ... a secret position that lies inside a list? *)
  Fixpoint leaky (m : ometa) (v : value) : bool :=
    if is_secret m then false else
    match v with
    | VList l => existsb (hs m) l
    | VObj kv => existsb (fun p => match p with (k, x) => leaky (fmeta m k) x end) kv
    | _ => false
    end.

  (* two constants supplied for [m] are the same except at secret positions *)
  Fixpoint simc (m : ometa) (a b : value) : bool :=
    if is_secret m then true else
    match a with
    | VList l1 => match b with VList l2 => all2 (simc m) l1 l2 | _ => false end
    | VObj k1 =>
        match b with
        | VObj k2 => all2 (fun p q => match p, q with (ka, xa), (kb, xb) =>
                                        name_eqb ka kb && simc (fmeta m ka) xa xb end) k1 k2
        | _ => false
        end
    | _ => value_eqb a b
    end.

  (* the same for argument values of two requests (variables looked up in
     each request's own variables).  At a secret position anything may be
     supplied, but both requests must agree on whether every variable
     mentioned there is bound (binding is not a value). *)
  Fixpoint simv (v1 v2 : vars_t) (m : ometa) (a b : value) : bool :=
    if is_secret m then Bool.eqb (closed v1 a) (closed v2 b) else
    match a with
    | VVar p =>
        match b with
        | VVar q =>
            name_eqb p q &&
            match assoc p v1, assoc p v2 with
            | Some x, Some y => simc m x y
            | None, None => true
            | _, _ => false
            end
        | _ => false
        end
    | VList l1 => match b with VList l2 => all2 (simv v1 v2 m) l1 l2 | _ => false end
    | VObj k1 =>
        match b with
        | VObj k2 => all2 (fun p q => match p, q with (ka, xa), (kb, xb) =>
                                        name_eqb ka kb && simv v1 v2 (fmeta m ka) xa xb end) k1 k2
        | _ => false
        end
    | _ => value_eqb a b
    end.

  (* The reference printer: like the implementation, but masking follows the
     spec typing (through lists, below inline fragments without type
     condition) and a default value that occupies a secret position of some
     use of its variable is masked as a whole.  It is a proof device: the
     property is stated about the implementation model (C21 theorems). *)
  Fixpoint mask (m : ometa) (v : value) : str :=
    if is_secret m then L.secret else
    match v with
    | VList l => L.lbrack ++ join L.comma (map (mask m) l) ++ L.rbrack
    | VObj kv =>
        L.lbrace ++ join L.comma (map (fun p => match p with (k, x) =>
                                         nm k ++ L.colon ++ mask (fmeta m k) x end) kv)
                 ++ L.rbrace
    | _ => display v
    end.

  Definition spec_parent (p : option mtype) (c : option name) : option mtype :=
    match c with Some c => type_named c | None => p end.

  Fixpoint ideal_sel (vars : vars_t) (p : option mtype) (s : selection) : str :=
    match s with
    | SField al n args _ sub =>
        alias_str al ++ nm n ++
        args_str (map (fun kv => match kv with (k, a) =>
                         nm k ++ L.colon ++ mask (arg_meta p n k) (resolve vars a) end) args) ++
        sub_str sub (map (ideal_sel vars (field_type p n)) sub)
    | SSpread n _ => L.dots ++ nm n
    | SInline c _ sub =>
        L.dots ++ cond_str c ++ selset (map (ideal_sel vars (spec_parent p c)) sub)
    end.

  (* the spec typings under which variable [x] is used in a value / selection *)
  Fixpoint vuses (x : name) (m : ometa) (a : value) : list ometa :=
    match a with
    | VVar q => if name_eqb q x then [m] else []
    | VList l => flat_map (vuses x m) l
    | VObj kv => flat_map (fun p => match p with (k, y) =>
                             vuses x (if is_secret m then m else fmeta m k) y end) kv
    | _ => []
    end.

  Definition dir_uses (x : name) (ds : list directive) : list ometa :=
    flat_map (fun d => flat_map (fun kv => vuses x None (snd kv)) (d_args d)) ds.

  Fixpoint uses_sel (x : name) (p : option mtype) (s : selection) : list ometa :=
    match s with
    | SField _ n args ds sub =>
        flat_map (fun kv => match kv with (k, a) => vuses x (arg_meta p n k) a end) args ++
        dir_uses x ds ++ flat_map (uses_sel x (field_type p n)) sub
    | SSpread _ ds => dir_uses x ds
    | SInline c ds sub => dir_uses x ds ++ flat_map (uses_sel x (spec_parent p c)) sub
    end.

  Definition uses_frags (x : name) (frags : list (name * fragment)) : list ometa :=
    flat_map (fun nf => dir_uses x (fr_dirs (snd nf)) ++
                        flat_map (uses_sel x (type_named (fr_cond (snd nf)))) (fr_sels (snd nf))) frags.

  (* uses of [x] by operation [o]: its own selections and every fragment *)
  Definition uses_op (d : document) (o : operation) (x : name) : list ometa :=
    dir_uses x (op_dirs o) ++ flat_map (uses_sel x (root_type (op_ty o))) (op_sels o) ++
    uses_frags x (doc_frags d).

  Definition dflt_secret (us : list ometa) (x : value) : bool := existsb (fun u => hs u x) us.

  Definition ideal_default (d : document) (o : operation) (vd : vardef) : str :=
    match vd_default vd with
    | Some x => L.eq ++ (if dflt_secret (uses_op d o (vd_name vd)) x then L.secret else display x)
    | None => []
    end.

  Definition ideal_frag (vars : vars_t) (nf : name * fragment) : str :=
    L.fragment ++ nm (fst nf) ++ L.on_ ++ nm (fr_cond (snd nf)) ++
    selset (map (ideal_sel vars (type_named (fr_cond (snd nf)))) (fr_sels (snd nf))) ++ L.fragend.

  Definition ideal_op (vars : vars_t) (d : document) (o : operation) : str :=
    header_str o (ideal_default d o) ++
    selset (map (ideal_sel vars (root_type (op_ty o))) (op_sels o)).

  Definition ideal_doc (vars : vars_t) (d : document) : str :=
    concat (map (ideal_frag vars) (doc_frags d)) ++ concat (map (ideal_op vars d) (doc_ops d)).

  (* ------------------------------------------------- same except secrets -- *)
  (* Directives are not compared at all: a larger relation makes the
     non-interference theorem stronger. *)
  Fixpoint sim_sel (v1 v2 : vars_t) (p : option mtype) (a b : selection) : bool :=
    match a with
    | SField al1 n1 args1 _ sub1 =>
        match b with
        | SField al2 n2 args2 _ sub2 =>
            option_eqb name_eqb al1 al2 && name_eqb n1 n2 &&
            all2 (fun x y => match x, y with (k1, a1), (k2, a2) =>
                               name_eqb k1 k2 && simv v1 v2 (arg_meta p n1 k1) a1 a2 end) args1 args2 &&
            all2 (sim_sel v1 v2 (field_type p n1)) sub1 sub2
        | _ => false
        end
    | SSpread n1 _ => match b with SSpread n2 _ => name_eqb n1 n2 | _ => false end
    | SInline c1 _ sub1 =>
        match b with
        | SInline c2 _ sub2 =>
            option_eqb name_eqb c1 c2 && all2 (sim_sel v1 v2 (spec_parent p c1)) sub1 sub2
        | _ => false
        end
    end.

  Definition sim_frag (v1 v2 : vars_t) (a b : name * fragment) : bool :=
    name_eqb (fst a) (fst b) && name_eqb (fr_cond (snd a)) (fr_cond (snd b)) &&
    all2 (sim_sel v1 v2 (type_named (fr_cond (snd a)))) (fr_sels (snd a)) (fr_sels (snd b)).

  (* default values: both masked-as-secret-used or neither; if neither they
     are equal, otherwise they agree outside secret positions under every use *)
  Definition sim_default (us1 us2 : list ometa) (x1 x2 : option value) : bool :=
    match x1, x2 with
    | None, None => true
    | Some a, Some b =>
        Bool.eqb (dflt_secret us1 a) (dflt_secret us2 b) &&
        (if dflt_secret us1 a then forallb (fun u => simc u a b) (us1 ++ us2) else value_eqb a b)
    | _, _ => false
    end.

  Definition sim_vardef (d1 d2 : document) (o1 o2 : operation) (a b : vardef) : bool :=
    name_eqb (vd_name a) (vd_name b) && str_eqb (vd_ty a) (vd_ty b) &&
    sim_default (uses_op d1 o1 (vd_name a)) (uses_op d2 o2 (vd_name b)) (vd_default a) (vd_default b).

  Definition optype_eqb (a b : optype) : bool :=
    match a, b with
    | OpQuery, OpQuery | OpMutation, OpMutation | OpSubscription, OpSubscription => true
    | _, _ => false
    end.

  Definition sim_op (v1 v2 : vars_t) (d1 d2 : document) (a b : operation) : bool :=
    option_eqb name_eqb (op_name a) (op_name b) && optype_eqb (op_ty a) (op_ty b) &&
    all2 (sim_vardef d1 d2 a b) (op_vars a) (op_vars b) &&
    all2 (sim_sel v1 v2 (root_type (op_ty a))) (op_sels a) (op_sels b).

  Definition sim_doc (d1 : document) (v1 : vars_t) (d2 : document) (v2 : vars_t) : bool :=
    all2 (sim_frag v1 v2) (doc_frags d1) (doc_frags d2) &&
    all2 (sim_op v1 v2 d1 d2) (doc_ops d1) (doc_ops d2).

  (* --------------------------------------------------------- known classes -- *)
  (* [lost] = below an inline fragment without type condition and not yet
     below one with a type condition (the implementation has no parent type
     there).  An argument is bad when a secret position of its (resolved)
     value lies inside a list, or - in the lost region, if [cl] - when it
     occupies any secret position. *)
  Fixpoint bad_sel (vars : vars_t) (cl lost : bool) (p : option mtype) (s : selection) : bool :=
    match s with
    | SField _ n args _ sub =>
        existsb (fun kv => match kv with (k, a) =>
                   if lost then cl && hs (arg_meta p n k) (resolve vars a)
                   else leaky (arg_meta p n k) (resolve vars a) end) args ||
        existsb (bad_sel vars cl lost (field_type p n)) sub
    | SSpread _ _ => false
    | SInline c _ sub =>
        existsb (bad_sel vars cl (match c with Some _ => false | None => true end) (spec_parent p c)) sub
    end.

  Definition bad_doc (vars : vars_t) (cl : bool) (d : document) : bool :=
    existsb (fun nf => existsb (bad_sel vars cl false (type_named (fr_cond (snd nf)))) (fr_sels (snd nf)))
            (doc_frags d) ||
    existsb (fun o => existsb (bad_sel vars cl false (root_type (op_ty o))) (op_sels o)) (doc_ops d).

  (* a printed default value (named operation) occupies a secret position *)
  Definition bad_default (d : document) : bool :=
    existsb (fun o => match op_name o with
                      | Some _ => existsb (fun vd => match vd_default vd with
                                                     | Some x => dflt_secret (uses_op d o (vd_name vd)) x
                                                     | None => false end) (op_vars o)
                      | None => false
                      end) (doc_ops d).

  (* 0 = in no known class; 1 = secret inside a list; 2 = secret below an
     inline fragment without type condition; 3 = secret as a variable default *)
  Definition known_class (d : document) (vars : vars_t) : N :=
    if bad_doc vars false d then 1%N
    else if bad_doc vars true d then 2%N
    else if bad_default d then 3%N
    else 0%N.
End Print.

(* ------------------------------------------------------------ per case -- *)
Fixpoint is_prefix (p s : str) : bool :=
  match p with
  | [] => true
  | c :: p' => match s with d :: s' => N.eqb c d && is_prefix p' s' | [] => false end
  end.

Fixpoint is_infix (p s : str) : bool :=
  is_prefix p s || match s with [] => false | _ :: s' => is_infix p s' end.

Definition sentinels : list str := L.sentinels.

Definition leaks (out : str) : bool := existsb (fun s => is_infix s out) sentinels.

Fixpoint assocN {A} (k : N) (l : list (N * A)) : option A :=
  match l with [] => None | (k', v) :: l' => if N.eqb k k' then Some v else assocN k l' end.

Inductive cdef := DSchema (s : schema) | DNames (l : list str).

Record pcase := {
  c_schema : cdef; c_names : cdef; c_floats : list (N * str);
  c_d1 : document; c_v1 : vars_t; c_d2 : document; c_v2 : vars_t;
  c_o1 : str; c_o2 : str }.

Definition check_pair (sc : schema) (names : list str) (floats : list (N * str))
           (d1 : document) (v1 : vars_t) (d2 : document) (v2 : vars_t) (o1 o2 : str) : N :=
  let nm := fun n : name => nth (N.to_nat n) names [] in
  let fl := fun b : N => match assocN b floats with Some s => s | None => [] end in
  let m1 := impl_doc nm fl sc v1 d1 in
  let m2 := impl_doc nm fl sc v2 d2 in
  if negb (sim_doc sc d1 v1 d2 v2) then 9%N    (* the generator produced an unrelated pair *)
  else
    let k := match known_class sc d1 v1 with 0%N => known_class sc d2 v2 | k => k end in
    verdict (str_eqb o1 m1 && str_eqb o2 m2)
            (str_eqb m1 m2 && negb (leaks m1) && negb (leaks m2))
            (str_eqb o1 o2 && negb (leaks o1) && negb (leaks o2))
            k.

Definition check_case (c : pcase) : N :=
  match c_schema c, c_names c with
  | DSchema sc, DNames names =>
      check_pair sc names (c_floats c) (c_d1 c) (c_v1 c) (c_d2 c) (c_v2 c) (c_o1 c) (c_o2 c)
  | _, _ => 8%N
  end.

(* SchedProofs.v — theorems about the scheduler model Sched.v, for ALL future
   trees and ALL schedules (no model definitions here). *)
From AG Require Import Sched.
From Coq Require Import Permutation.
Open Scope N_scope.

(* ------------------------------------------------------ induction on trees --- *)
Section FutInd.
  Variable P : fut -> Prop.
  Hypothesis HDone : forall r, P (FDone r).
  Hypothesis HRes : forall p g ph k, P k -> P (FRes p g ph k).
  Hypothesis HAll : forall kd cs, Forall P cs -> P (FAll kd cs).
  Hypothesis HSeq : forall kd done cs, Forall P cs -> P (FSeq kd done cs).
  Hypothesis HCatch : forall f, P f -> P (FCatch f).
  Hypothesis HMapErr : forall p f, P f -> P (FMapErr p f).

  Fixpoint fut_ind' (f : fut) : P f :=
    match f with
    | FDone r => HDone r
    | FRes p g ph k => HRes p g ph k (fut_ind' k)
    | FAll kd cs =>
        HAll kd cs ((fix go (l : list fut) : Forall P l :=
                       match l with [] => Forall_nil P | c :: r => Forall_cons c (fut_ind' c) (go r) end) cs)
    | FSeq kd done cs =>
        HSeq kd done cs ((fix go (l : list fut) : Forall P l :=
                            match l with [] => Forall_nil P | c :: r => Forall_cons c (fut_ind' c) (go r) end) cs)
    | FCatch f1 => HCatch f1 (fut_ind' f1)
    | FMapErr p f1 => HMapErr p f1 (fut_ind' f1)
    end.
End FutInd.

(* unfolding equations *)
Lemma poll_FAll g kd cs n :
  poll g (FAll kd cs) n =
  let '(cs', e, n', l) := walk (poll g) cs n in
  match e with
  | Some p => (FDone (IFail p), n', l)
  | None => match all_done cs' with
            | Some vs => (FDone (IVal (build_val kd vs)), n', l)
            | None => (FAll kd cs', n', l)
            end
  end.
Proof. reflexivity. Qed.
Lemma poll_FSeq g kd done cs n : poll g (FSeq kd done cs) n = seq (poll g) kd done cs n.
Proof. reflexivity. Qed.
Lemma poll_FCatch g f1 n :
  poll g (FCatch f1) n =
  let '(f', n', l) := poll g f1 n in
  match f' with
  | FDone (IVal v) => (FDone (IVal v), n', l)
  | FDone (IFail p) => (FDone (IVal VNull), n', l ++ [IErr p])
  | _ => (FCatch f', n', l)
  end.
Proof. reflexivity. Qed.
Lemma poll_FMapErr g p f1 n :
  poll g (FMapErr p f1) n =
  let '(f', n', l) := poll g f1 n in
  match f' with
  | FDone (IVal v) => (FDone (IVal v), n', l)
  | FDone (IFail _) => (FDone (IFail p), n', l)
  | _ => (FMapErr p f', n', l)
  end.
Proof. reflexivity. Qed.
Lemma poll_FRes g p gated ph k n :
  poll g (FRes p gated ph k) n =
  match ph with
  | PNew =>
      if gated then (FRes p gated (PWait n) k, S n, [IStart p])
      else let '(k', n', l) := poll g k n in (k', n', IStart p :: IEnd p :: l)
  | PWait id =>
      if opened g id then let '(k', n', l) := poll g k n in (k', n', IEnd p :: l)
      else (FRes p gated ph k, n, [])
  end.
Proof. reflexivity. Qed.
Lemma walk_cons pl c r n :
  walk pl (c :: r) n =
  let '(c', n1, l1) := pl c n in
  match c' with
  | FDone (IFail p) => (c' :: r, Some p, n1, l1)
  | _ => let '(r', e, n2, l2) := walk pl r n1 in (c' :: r', e, n2, l1 ++ l2)
  end.
Proof. reflexivity. Qed.
Lemma seq_cons pl kd done c r n :
  seq pl kd done (c :: r) n =
  let '(c', n1, l1) := pl c n in
  match c' with
  | FDone (IVal v) => let '(f, n2, l2) := seq pl kd (done ++ [v]) r n1 in (f, n2, l1 ++ l2)
  | FDone (IFail p) => (FDone (IFail p), n1, l1)
  | _ => (FSeq kd done (c' :: r), n1, l1)
  end.
Proof. reflexivity. Qed.

Lemma den_FAll kd cs :
  den (FAll kd cs) = match den_list den cs [] with inl vs => IVal (build_val kd vs) | inr p => IFail p end.
Proof. reflexivity. Qed.
Lemma den_FSeq kd done cs :
  den (FSeq kd done cs) = match den_list den cs done with inl vs => IVal (build_val kd vs) | inr p => IFail p end.
Proof. reflexivity. Qed.
Lemma den_list_cons dn c r acc :
  den_list dn (c :: r) acc = match dn c with IVal v => den_list dn r (acc ++ [v]) | IFail p => inr p end.
Proof. reflexivity. Qed.

Definition lval (x : list value + path) : option (list value) :=
  match x with inl vs => Some vs | inr _ => None end.

Lemma dvalue_den_FAll kd cs :
  dvalue (den (FAll kd cs)) = option_map (build_val kd) (lval (den_list den cs [])).
Proof. rewrite den_FAll. destruct (den_list den cs []); reflexivity. Qed.
Lemma dvalue_den_FSeq kd done cs :
  dvalue (den (FSeq kd done cs)) = option_map (build_val kd) (lval (den_list den cs done)).
Proof. rewrite den_FSeq. destruct (den_list den cs done); reflexivity. Qed.

Lemma den_FCatch_dv x :
  dvalue (den (FCatch x)) = Some (match dvalue (den x) with Some v => v | None => VNull end).
Proof. cbn [den]. destruct (den x); reflexivity. Qed.
Lemma den_FMapErr_dv p x : dvalue (den (FMapErr p x)) = dvalue (den x).
Proof. cbn [den]. destruct (den x); reflexivity. Qed.

Lemma all_done_den cs : forall vs acc, all_done cs = Some vs -> den_list den cs acc = inl (acc ++ vs).
Proof.
  induction cs as [|c r IH]; intros vs acc H.
  - cbn in H. injection H as <-. cbn. now rewrite app_nil_r.
  - cbn [all_done] in H. destruct c as [[v|p]| | | | |]; try discriminate.
    destruct (all_done r) as [l|] eqn:E; [|discriminate]. injection H as <-.
    rewrite den_list_cons. cbn [den]. rewrite (IH l (acc ++ [v]) eq_refl).
    now rewrite <- app_assoc.
Qed.

(* ------------------------------------------------------------ (a) the data --- *)
(* One poll never changes whether a future will succeed nor the value it will
   succeed with. *)
Definition data_inv (g : option nat) (f : fut) : Prop :=
  forall n f' n' l, poll g f n = (f', n', l) -> dvalue (den f') = dvalue (den f).

Lemma walk_data g cs :
  Forall (data_inv g) cs ->
  forall n acc cs' e n' l, walk (poll g) cs n = (cs', e, n', l) ->
    match e with
    | Some _ => lval (den_list den cs acc) = None
    | None => lval (den_list den cs' acc) = lval (den_list den cs acc)
    end.
Proof.
  induction 1 as [|c r Hc Hr IH]; intros n acc cs' e n' l W.
  - cbn in W. injection W as <- <- <- <-. reflexivity.
  - rewrite walk_cons in W. destruct (poll g c n) as [[c' n1] l1] eqn:Pc.
    specialize (Hc _ _ _ _ Pc).
    assert (Hgen : forall r' e n2 l2, walk (poll g) r n1 = (r', e, n2, l2) ->
                   (c' :: r', e, n2, l1 ++ l2) = (cs', e, n', l) -> e = e ->
                   match e with
                   | Some _ => lval (den_list den (c :: r) acc) = None
                   | None => lval (den_list den (c' :: r') acc) = lval (den_list den (c :: r) acc)
                   end).
    { intros r' e0 n2 l2 Wr _ _. rewrite !den_list_cons.
      destruct (den c') as [v'|p'] eqn:Dc'; destruct (den c) as [v|p] eqn:Dc; cbn in Hc; try discriminate.
      - injection Hc as ->. exact (IH _ (acc ++ [v]) _ _ _ _ Wr).
      - destruct e0; reflexivity. }
    destruct c' as [[v|p]| | | | |];
      try (destruct (walk (poll g) r n1) as [[[r' e0] n2] l2] eqn:Wr; injection W as <- <- <- <-;
           exact (Hgen _ _ _ _ eq_refl eq_refl eq_refl)).
    injection W as <- <- <- <-. rewrite den_list_cons.
    cbn in Hc. destruct (den c); [discriminate|reflexivity].
Qed.

Lemma seq_data g kd cs :
  Forall (data_inv g) cs ->
  forall done n f' n' l, seq (poll g) kd done cs n = (f', n', l) ->
    dvalue (den f') = option_map (build_val kd) (lval (den_list den cs done)).
Proof.
  induction 1 as [|c r Hc Hr IH]; intros done n f' n' l Sq.
  - cbn in Sq. injection Sq as <- <- <-. reflexivity.
  - rewrite seq_cons in Sq. destruct (poll g c n) as [[c' n1] l1] eqn:Pc.
    specialize (Hc _ _ _ _ Pc). rewrite den_list_cons.
    assert (Hpend : f' = FSeq kd done (c' :: r) ->
                    dvalue (den f') = option_map (build_val kd)
                      (lval match den c with IVal v => den_list den r (done ++ [v]) | IFail p => inr p end)).
    { intros ->. rewrite dvalue_den_FSeq, den_list_cons.
      destruct (den c') as [v'|p'] eqn:Dc'; destruct (den c) as [v|p] eqn:Dc; cbn in Hc; try discriminate.
      - injection Hc as ->. reflexivity.
      - reflexivity. }
    destruct c' as [[v|p]| | | | |]; try (injection Sq as <- <- <-; exact (Hpend eq_refl)).
    + destruct (seq (poll g) kd (done ++ [v]) r n1) as [[f2 n2] l2] eqn:Sr. injection Sq as <- <- <-.
      cbn in Hc. destruct (den c) as [v0|]; [|discriminate]. injection Hc as <-.
      exact (IH _ _ _ _ _ Sr).
    + injection Sq as <- <- <-. cbn in Hc. destruct (den c); [discriminate|reflexivity].
Qed.

Lemma poll_data g : forall f, data_inv g f.
Proof.
  induction f as [r|p gt ph k IH|kd cs IH|kd done cs IH|f1 IH|p f1 IH] using fut_ind'; intros n f' n' l Pf.
  - cbn in Pf. injection Pf as <- <- <-. reflexivity.
  - rewrite poll_FRes in Pf. destruct ph as [|id].
    + destruct gt.
      * injection Pf as <- <- <-. reflexivity.
      * destruct (poll g k n) as [[k' n1] l1] eqn:Pk. injection Pf as <- <- <-. exact (IH _ _ _ _ Pk).
    + destruct (opened g id).
      * destruct (poll g k n) as [[k' n1] l1] eqn:Pk. injection Pf as <- <- <-. exact (IH _ _ _ _ Pk).
      * injection Pf as <- <- <-. reflexivity.
  - rewrite poll_FAll in Pf. destruct (walk (poll g) cs n) as [[[cs' e] n1] l1] eqn:W.
    pose proof (walk_data g cs IH n [] _ _ _ _ W) as HW. rewrite dvalue_den_FAll.
    destruct e as [p|].
    + injection Pf as <- <- <-. rewrite HW. reflexivity.
    + destruct (all_done cs') as [vs|] eqn:AD.
      * injection Pf as <- <- <-. rewrite <- HW, (all_done_den _ _ [] AD). reflexivity.
      * injection Pf as <- <- <-. rewrite dvalue_den_FAll, HW. reflexivity.
  - rewrite poll_FSeq in Pf. rewrite dvalue_den_FSeq. exact (seq_data g kd cs IH _ _ _ _ _ Pf).
  - rewrite poll_FCatch in Pf. destruct (poll g f1 n) as [[f2 n1] l1] eqn:P1.
    specialize (IH _ _ _ _ P1). rewrite den_FCatch_dv, <- IH.
    destruct f2 as [[v|p]| | | | |]; injection Pf as <- <- <-; try rewrite den_FCatch_dv; reflexivity.
  - rewrite poll_FMapErr in Pf. destruct (poll g f1 n) as [[f2 n1] l1] eqn:P1.
    specialize (IH _ _ _ _ P1). rewrite den_FMapErr_dv, <- IH.
    destruct f2 as [[v|p0]| | | | |]; injection Pf as <- <- <-; try rewrite den_FMapErr_dv; reflexivity.
Qed.

Lemma run_st_data s : forall f n l f' n' l',
  run_st s (f, n, l) = (f', n', l') -> dvalue (den f') = dvalue (den f).
Proof.
  induction s as [|g s IH]; intros f n l f' n' l' R.
  - cbn in R. now injection R as <- <- <-.
  - cbn [run_st] in R. destruct (poll (Some g) f n) as [[f1 n1] l1] eqn:P1.
    rewrite (IH _ _ _ _ _ _ R). exact (poll_data _ _ _ _ _ _ P1).
Qed.

Lemma run_log_data s t f n l : run_log s t = (f, n, l) -> dvalue (den f) = dvalue (den t).
Proof.
  unfold run_log, start. destruct (poll None t 0) as [[f0 n0] l0] eqn:P0. intros R.
  rewrite (run_st_data _ _ _ _ _ _ _ R). exact (poll_data _ _ _ _ _ _ P0).
Qed.

(* (a): whatever the schedule, a completed run answers the data read off the tree *)
Theorem run_data s t r : run s t = Some r -> sr_data r = ref_data t.
Proof.
  unfold run, resp_of, ref_data. destruct (run_log s t) as [[f n] l] eqn:R.
  pose proof (run_log_data _ _ _ _ _ R) as H.
  destruct f as [[v|p]| | | | |]; try discriminate; intros E; injection E as <-; cbn in *;
    destruct (den t); cbn in H; try discriminate; try injection H as <-; reflexivity.
Qed.

Theorem data_schedule_independent t s1 s2 r1 r2 :
  run s1 t = Some r1 -> run s2 t = Some r2 -> sr_data r1 = sr_data r2.
Proof. intros H1 H2. rewrite (run_data _ _ _ H1), (run_data _ _ _ H2). reflexivity. Qed.

(* ------------------------------------------------- case analysis of one step --- *)
Lemma walk_cons_cases pl c r n cs' e n' l :
  walk pl (c :: r) n = (cs', e, n', l) ->
  exists c' n1 l1, pl c n = (c', n1, l1) /\
    ((exists p, c' = FDone (IFail p) /\ cs' = c' :: r /\ e = Some p /\ n' = n1 /\ l = l1) \/
     ((forall p, c' <> FDone (IFail p)) /\
      exists r' l2, walk pl r n1 = (r', e, n', l2) /\ cs' = c' :: r' /\ l = l1 ++ l2)).
Proof.
  rewrite walk_cons. destruct (pl c n) as [[c' n1] l1]. intros W. exists c', n1, l1. split; [reflexivity|].
  destruct c' as [[v|p]| | | | |];
    try (right; split; [intros p0; discriminate|];
         destruct (walk pl r n1) as [[[r' e0] n2] l2]; injection W as <- <- <- <-; eauto).
  left. exists p. injection W as <- <- <- <-. auto.
Qed.

Lemma seq_cons_cases pl kd done c r n f' n' l :
  seq pl kd done (c :: r) n = (f', n', l) ->
  exists c' n1 l1, pl c n = (c', n1, l1) /\
    ((exists v l2, c' = FDone (IVal v) /\ seq pl kd (done ++ [v]) r n1 = (f', n', l2) /\ l = l1 ++ l2) \/
     (exists p, c' = FDone (IFail p) /\ f' = FDone (IFail p) /\ n' = n1 /\ l = l1) \/
     ((forall x, c' <> FDone x) /\ f' = FSeq kd done (c' :: r) /\ n' = n1 /\ l = l1)).
Proof.
  rewrite seq_cons. destruct (pl c n) as [[c' n1] l1]. intros W. exists c', n1, l1. split; [reflexivity|].
  destruct c' as [[v|p]| | | | |];
    try (right; right; split; [intros x0; discriminate|]; injection W as <- <- <-; auto).
  - left. destruct (seq pl kd (done ++ [v]) r n1) as [[f2 n2] l2] eqn:Sr. injection W as <- <- <-.
    exists v, l2. rewrite Sr. repeat split.
  - right; left. injection W as <- <- <-. exists p. repeat split.
Qed.

Lemma errs_of_app a b : errs_of (a ++ b) = errs_of a ++ errs_of b.
Proof. unfold errs_of. apply flat_map_app. Qed.
Lemma evs_of_app a b : evs_of (a ++ b) = evs_of a ++ evs_of b.
Proof. unfold evs_of. apply filter_app. Qed.

(* --------------------------------------------------------- quiet subtrees --- *)
Lemma quiet_den_list cs :
  Forall (fun c => quiet c = true -> exists v, den c = IVal v) cs ->
  forallb quiet cs = true -> forall acc, exists vs, den_list den cs acc = inl vs.
Proof.
  induction 1 as [|c r Hc Hr IH]; intros Q acc.
  - eexists; reflexivity.
  - cbn [forallb] in Q. apply andb_prop in Q as [Qc Qr]. destruct (Hc Qc) as [v Dv].
    rewrite den_list_cons, Dv. apply IH, Qr.
Qed.

Lemma quiet_den f : quiet f = true -> exists v, den f = IVal v.
Proof.
  induction f as [r|p gt ph k IH|kd cs IH|kd done cs IH|f1 IH|p f1 IH] using fut_ind'; intros Q.
  - destruct r; [eexists; reflexivity|discriminate].
  - cbn [den]. apply IH, Q.
  - rewrite den_FAll. destruct (quiet_den_list cs IH Q []) as [vs ->]. eauto.
  - rewrite den_FSeq. destruct (quiet_den_list cs IH Q done) as [vs ->]. eauto.
  - cbn [den]. destruct (IH Q) as [v ->]. eauto.
  - cbn [den]. destruct (IH Q) as [v ->]. eauto.
Qed.

Lemma quiet_not_fails f : quiet f = true -> failsb f = false.
Proof. intros Q. unfold failsb. destruct (quiet_den f Q) as [v ->]. reflexivity. Qed.

Lemma quiet_derrs f : quiet f = true -> derrs f = [].
Proof.
  induction f as [r|p gt ph k IH|kd cs IH|kd done cs IH|f1 IH|p f1 IH] using fut_ind'; intros Q.
  - reflexivity.
  - cbn [derrs]. apply IH, Q.
  - cbn [derrs]. cbn [quiet] in Q. induction IH as [|c r Hc Hr IHr]; [reflexivity|].
    cbn [forallb] in Q. apply andb_prop in Q as [Qc Qr]. cbn [flat_map]. rewrite (Hc Qc), (IHr Qr). reflexivity.
  - cbn [derrs]. cbn [quiet] in Q. induction IH as [|c r Hc Hr IHr]; [reflexivity|].
    cbn [forallb] in Q. apply andb_prop in Q as [Qc Qr]. cbn [derrs_seq]. rewrite (Hc Qc).
    destruct (quiet_den c Qc) as [v ->]. apply IHr, Qr.
  - cbn [derrs]. cbn [quiet] in Q. rewrite (IH Q). destruct (quiet_den f1 Q) as [v ->]. reflexivity.
  - cbn [derrs]. apply IH, Q.
Qed.

Definition quiet_inv (g : option nat) (f : fut) : Prop :=
  forall n f' n' l, quiet f = true -> poll g f n = (f', n', l) -> quiet f' = true /\ errs_of l = [].

Lemma all_done_quiet cs vs : all_done cs = Some vs -> forallb quiet cs = true.
Proof.
  revert vs. induction cs as [|c r IH]; intros vs H; [reflexivity|].
  cbn [all_done] in H. destruct c as [[v|p]| | | | |]; try discriminate.
  destruct (all_done r) eqn:E; [|discriminate]. cbn. eauto.
Qed.

Lemma walk_quiet g cs :
  Forall (quiet_inv g) cs -> forallb quiet cs = true ->
  forall n cs' e n' l, walk (poll g) cs n = (cs', e, n', l) ->
    e = None /\ forallb quiet cs' = true /\ errs_of l = [].
Proof.
  induction 1 as [|c r Hc Hr IH]; intros Q n cs' e n' l W.
  - cbn in W. injection W as <- <- <- <-. auto.
  - cbn [forallb] in Q. apply andb_prop in Q as [Qc Qr].
    apply walk_cons_cases in W as (c' & n1 & l1 & Pc & [(p & -> & _)|(_ & r' & l2 & Wr & -> & ->)]).
    + destruct (Hc _ _ _ _ Qc Pc) as [Q' _]. discriminate.
    + destruct (Hc _ _ _ _ Qc Pc) as [Q' E1]. destruct (IH Qr _ _ _ _ _ Wr) as (-> & Q2 & E2).
      rewrite errs_of_app, E1, E2. cbn [forallb]. rewrite Q', Q2. auto.
Qed.

Lemma seq_quiet g kd cs :
  Forall (quiet_inv g) cs -> forallb quiet cs = true ->
  forall done n f' n' l, seq (poll g) kd done cs n = (f', n', l) -> quiet f' = true /\ errs_of l = [].
Proof.
  induction 1 as [|c r Hc Hr IH]; intros Q done n f' n' l W.
  - cbn in W. injection W as <- <- <-. auto.
  - cbn [forallb] in Q. apply andb_prop in Q as [Qc Qr].
    apply seq_cons_cases in W as (c' & n1 & l1 & Pc & [(v & l2 & -> & Sr & ->)|[(p & -> & _)|(_ & -> & -> & ->)]]);
      destruct (Hc _ _ _ _ Qc Pc) as [Q' E1].
    + destruct (IH Qr _ _ _ _ _ Sr) as [Q2 E2]. rewrite errs_of_app, E1, E2. auto.
    + discriminate.
    + cbn [quiet forallb]. rewrite Q', Qr. auto.
Qed.

Lemma poll_quiet g : forall f, quiet_inv g f.
Proof.
  induction f as [r|p gt ph k IH|kd cs IH|kd done cs IH|f1 IH|p f1 IH] using fut_ind'; intros n f' n' l Q Pf.
  - cbn in Pf. injection Pf as <- <- <-. auto.
  - rewrite poll_FRes in Pf. cbn [quiet] in Q. destruct ph as [|id].
    + destruct gt.
      * injection Pf as <- <- <-. auto.
      * destruct (poll g k n) as [[k' n1] l1] eqn:Pk. injection Pf as <- <- <-. exact (IH _ _ _ _ Q Pk).
    + destruct (opened g id).
      * destruct (poll g k n) as [[k' n1] l1] eqn:Pk. injection Pf as <- <- <-. exact (IH _ _ _ _ Q Pk).
      * injection Pf as <- <- <-. auto.
  - rewrite poll_FAll in Pf. destruct (walk (poll g) cs n) as [[[cs' e] n1] l1] eqn:W.
    destruct (walk_quiet g cs IH Q _ _ _ _ _ W) as (-> & Q' & E).
    destruct (all_done cs'); injection Pf as <- <- <-; auto.
  - rewrite poll_FSeq in Pf. exact (seq_quiet g kd cs IH Q _ _ _ _ _ Pf).
  - rewrite poll_FCatch in Pf. destruct (poll g f1 n) as [[f2 n1] l1] eqn:P1.
    destruct (IH _ _ _ _ Q P1) as [Q' E].
    destruct f2 as [[v|p]| | | | |]; try discriminate; injection Pf as <- <- <-; auto.
  - rewrite poll_FMapErr in Pf. destruct (poll g f1 n) as [[f2 n1] l1] eqn:P1.
    destruct (IH _ _ _ _ Q P1) as [Q' E].
    destruct f2 as [[v|p0]| | | | |]; try discriminate; injection Pf as <- <- <-; auto.
Qed.

(* ------------------------------------------------------- (b) the error list --- *)
Definition rel_child (c c' : fut) : Prop :=
  den c' = den c /\ race_free c' = true /\ (quiet c = true -> quiet c' = true).

Lemma failsb_den c c' : den c' = den c -> failsb c' = failsb c.
Proof. unfold failsb. now intros ->. Qed.

Lemma den_list_F2 cs cs' : Forall2 rel_child cs cs' -> forall acc, den_list den cs' acc = den_list den cs acc.
Proof.
  induction 1 as [|c c' r r' (D & _) _ IH]; intros acc; [reflexivity|].
  rewrite !den_list_cons, D. destruct (den c); [apply IH|reflexivity].
Qed.

Lemma rf_F2 cs cs' : Forall2 rel_child cs cs' -> forallb race_free cs' = true.
Proof. induction 1 as [|c c' r r' (_ & R & _) _ IH]; [reflexivity|]. cbn. now rewrite R, IH. Qed.

Lemma compat_F2 c c' r r' :
  rel_child c c' -> Forall2 rel_child r r' -> forallb (compat c) r = true -> forallb (compat c') r' = true.
Proof.
  intros (Dc & _ & Qc). induction 1 as [|d d' r r' (Dd & _ & Qd) _ IH]; intros H; [reflexivity|].
  cbn [forallb] in *. apply andb_prop in H as [Hd Hr]. rewrite (IH Hr), andb_true_r.
  unfold compat in *. rewrite (failsb_den _ _ Dc), (failsb_den _ _ Dd).
  apply andb_prop in Hd as [H1 H2]. apply andb_true_intro. split.
  - destruct (failsb c); [|reflexivity]. cbn in *. auto.
  - destruct (failsb d); [|reflexivity]. cbn in *. auto.
Qed.

Lemma pairwise_F2 cs cs' : Forall2 rel_child cs cs' -> pairwise cs = true -> pairwise cs' = true.
Proof.
  induction 1 as [|c c' r r' Hc Hr IH]; intros H; [reflexivity|].
  cbn [pairwise] in *. apply andb_prop in H as [H1 H2].
  now rewrite (compat_F2 _ _ _ _ Hc Hr H1), (IH H2).
Qed.

Lemma den_list_inr_fail cs : forall acc p, den_list den cs acc = inr p -> exists d, In d cs /\ failsb d = true.
Proof.
  induction cs as [|c r IH]; intros acc p H; [discriminate|].
  rewrite den_list_cons in H. destruct (den c) as [v|q] eqn:D.
  - destruct (IH _ _ H) as (d & I & F). exists d. split; [now right|exact F].
  - exists c. split; [now left|]. unfold failsb. now rewrite D.
Qed.

Lemma flat_map_quiet cs : forallb quiet cs = true -> flat_map derrs cs = [].
Proof.
  induction cs as [|c r IH]; intros Q; [reflexivity|].
  cbn [forallb] in Q. apply andb_prop in Q as [Qc Qr]. cbn [flat_map]. now rewrite (quiet_derrs _ Qc), (IH Qr).
Qed.

Lemma all_done_derrs cs vs : all_done cs = Some vs -> flat_map derrs cs = [].
Proof. intros H. apply flat_map_quiet. eapply all_done_quiet, H. Qed.

Definition rf_inv (g : option nat) (f : fut) : Prop :=
  forall n f' n' l, race_free f = true -> poll g f n = (f', n', l) ->
    race_free f' = true /\ den f' = den f /\ Permutation (errs_of l ++ derrs f') (derrs f).

Lemma perm_4 {A} (a b c d : list A) : Permutation ((a ++ b) ++ c ++ d) ((a ++ c) ++ (b ++ d)).
Proof.
  rewrite <- !app_assoc. apply Permutation_app_head. rewrite !app_assoc. apply Permutation_app_tail.
  apply Permutation_app_comm.
Qed.

Lemma walk_rf g cs :
  Forall (rf_inv g) cs -> forallb race_free cs = true -> pairwise cs = true ->
  forall n cs' e n' l, walk (poll g) cs n = (cs', e, n', l) ->
    match e with
    | Some p => (forall acc, den_list den cs acc = inr p) /\ Permutation (errs_of l) (flat_map derrs cs)
    | None => Forall2 rel_child cs cs' /\ Permutation (errs_of l ++ flat_map derrs cs') (flat_map derrs cs)
    end.
Proof.
  induction 1 as [|c r Hc Hr IH]; intros R PW n cs' e n' l W.
  - cbn in W. injection W as <- <- <- <-. split; [constructor|constructor].
  - cbn [forallb pairwise] in R, PW. apply andb_prop in R as [Rc Rr]. apply andb_prop in PW as [Cc PWr].
    apply walk_cons_cases in W as (c' & n1 & l1 & Pc & [(p & -> & -> & -> & -> & ->)|(_ & r' & l2 & Wr & -> & ->)]);
      destruct (Hc _ _ _ _ Rc Pc) as (R' & D & P1).
    + (* the head fails now: every other child is quiet *)
      cbn [den derrs] in D, P1. rewrite app_nil_r in P1.
      assert (F : failsb c = true) by (unfold failsb; now rewrite <- D).
      assert (Qr : forallb quiet r = true).
      { apply forallb_forall. intros d Hd. rewrite forallb_forall in Cc. specialize (Cc d Hd).
        unfold compat in Cc. rewrite F in Cc. cbn in Cc. now apply andb_prop in Cc as [? _]. }
      split.
      * intros acc. rewrite den_list_cons, <- D. reflexivity.
      * cbn [flat_map]. now rewrite (flat_map_quiet _ Qr), app_nil_r.
    + specialize (IH Rr PWr _ _ _ _ _ Wr). destruct e as [p|].
      * destruct IH as [DL P2]. destruct (den_list_inr_fail r [] p (DL [])) as (d & Hd & Fd).
        assert (Qc : quiet c = true).
        { rewrite forallb_forall in Cc. specialize (Cc d Hd). unfold compat in Cc. rewrite Fd in Cc.
          cbn in Cc. now apply andb_prop in Cc as [_ ?]. }
        destruct (poll_quiet g c _ _ _ _ Qc Pc) as [_ E1]. destruct (quiet_den c Qc) as [v Dv].
        split.
        -- intros acc. rewrite den_list_cons, Dv. apply DL.
        -- rewrite errs_of_app, E1. cbn [flat_map app]. now rewrite (quiet_derrs _ Qc).
      * destruct IH as [F2 P2]. split.
        -- constructor; [|exact F2]. repeat split; auto.
           intros Qc. now destruct (poll_quiet g c _ _ _ _ Qc Pc).
        -- rewrite errs_of_app. cbn [flat_map]. rewrite <- P1, <- P2. apply perm_4.
Qed.

Lemma seq_rf g kd cs :
  Forall (rf_inv g) cs ->
  forall done n f' n' l, rf_seq race_free cs = true -> seq (poll g) kd done cs n = (f', n', l) ->
    race_free f' = true /\ den f' = den (FSeq kd done cs) /\
    Permutation (errs_of l ++ derrs f') (derrs_seq den derrs cs).
Proof.
  induction 1 as [|c r Hc Hr IH]; intros done n f' n' l R W.
  - cbn in W. injection W as <- <- <-. repeat split. constructor.
  - cbn [rf_seq] in R. apply andb_prop in R as [Rc Rr].
    apply seq_cons_cases in W as (c' & n1 & l1 & Pc & [(v & l2 & -> & Sr & ->)|[(p & -> & -> & -> & ->)|(_ & -> & -> & ->)]]);
      destruct (Hc _ _ _ _ Rc Pc) as (R' & D & P1); rewrite den_FSeq, den_list_cons; cbn [derrs_seq].
    + cbn [den derrs] in D, P1. rewrite app_nil_r in P1. rewrite <- D.
      assert (F : failsb c = false) by (unfold failsb; now rewrite <- D). rewrite F in Rr.
      destruct (IH _ _ _ _ _ Rr Sr) as (R2 & D2 & P2). rewrite den_FSeq in D2.
      repeat split; [exact R2|exact D2|]. rewrite errs_of_app, <- app_assoc, <- P1, <- P2. reflexivity.
    + cbn [den derrs] in D, P1. rewrite app_nil_r in P1. rewrite <- D.
      repeat split. now rewrite !app_nil_r.
    + cbn [race_free rf_seq derrs derrs_seq]. rewrite den_FSeq, den_list_cons, D, (failsb_den _ _ D), R', Rr.
      repeat split. rewrite app_assoc, P1. reflexivity.
Qed.

Lemma poll_rf g : forall f, rf_inv g f.
Proof.
  induction f as [r|p gt ph k IH|kd cs IH|kd done cs IH|f1 IH|p f1 IH] using fut_ind'; intros n f' n' l R Pf.
  - cbn in Pf. injection Pf as <- <- <-. repeat split. constructor.
  - rewrite poll_FRes in Pf. cbn [race_free] in R. destruct ph as [|id].
    + destruct gt.
      * injection Pf as <- <- <-. repeat split; auto.
      * destruct (poll g k n) as [[k' n1] l1] eqn:Pk. injection Pf as <- <- <-. exact (IH _ _ _ _ R Pk).
    + destruct (opened g id).
      * destruct (poll g k n) as [[k' n1] l1] eqn:Pk. injection Pf as <- <- <-. exact (IH _ _ _ _ R Pk).
      * injection Pf as <- <- <-. repeat split; auto.
  - rewrite poll_FAll in Pf. destruct (walk (poll g) cs n) as [[[cs' e] n1] l1] eqn:W.
    cbn [race_free] in R. apply andb_prop in R as [Rc PW].
    pose proof (walk_rf g cs IH Rc PW _ _ _ _ _ W) as HW. cbn [derrs]. rewrite den_FAll.
    destruct e as [p|].
    + destruct HW as [DL P1]. injection Pf as <- <- <-. rewrite (DL []). repeat split.
      cbn [derrs]. now rewrite app_nil_r.
    + destruct HW as [F2 P1]. rewrite <- (den_list_F2 _ _ F2).
      destruct (all_done cs') as [vs|] eqn:AD; injection Pf as <- <- <-.
      * rewrite (all_done_den _ _ [] AD). repeat split. cbn [derrs app].
        now rewrite (all_done_derrs _ _ AD) in P1.
      * cbn [race_free derrs]. rewrite den_FAll, (rf_F2 _ _ F2), (pairwise_F2 _ _ F2 PW). repeat split. exact P1.
  - rewrite poll_FSeq in Pf. cbn [race_free] in R. cbn [derrs]. exact (seq_rf g kd cs IH _ _ _ _ _ R Pf).
  - rewrite poll_FCatch in Pf. destruct (poll g f1 n) as [[f2 n1] l1] eqn:P1. cbn [race_free] in R.
    destruct (IH _ _ _ _ R P1) as (R' & D & PM). cbn [den derrs]. rewrite <- D.
    destruct f2 as [[v|p]| | | | |]; injection Pf as <- <- <-; cbn [race_free den derrs] in *;
      try (repeat split; auto; rewrite app_assoc, PM; reflexivity).
    + repeat split. now rewrite !app_nil_r in *.
    + repeat split. rewrite app_nil_r in *. rewrite errs_of_app. cbn. now rewrite PM.
  - rewrite poll_FMapErr in Pf. destruct (poll g f1 n) as [[f2 n1] l1] eqn:P1. cbn [race_free] in R.
    destruct (IH _ _ _ _ R P1) as (R' & D & PM). cbn [den derrs]. rewrite <- D.
    destruct f2 as [[v|p0]| | | | |]; injection Pf as <- <- <-; cbn [race_free den derrs] in *;
      repeat split; auto.
Qed.

Lemma run_st_rf t s : forall f n l f' n' l',
  race_free f = true -> den f = den t -> Permutation (errs_of l ++ derrs f) (derrs t) ->
  run_st s (f, n, l) = (f', n', l') ->
  race_free f' = true /\ den f' = den t /\ Permutation (errs_of l' ++ derrs f') (derrs t).
Proof.
  induction s as [|g s IH]; intros f n l f' n' l' R D P Run.
  - cbn in Run. injection Run as <- <- <-. auto.
  - cbn [run_st] in Run. destruct (poll (Some g) f n) as [[f1 n1] l1] eqn:P1.
    destruct (poll_rf _ _ _ _ _ _ R P1) as (R1 & D1 & PM1).
    apply (IH _ _ _ _ _ _ R1) in Run; [exact Run|congruence|].
    rewrite errs_of_app, <- app_assoc, PM1. exact P.
Qed.

Lemma run_log_rf s t f n l :
  race_free t = true -> run_log s t = (f, n, l) ->
  race_free f = true /\ den f = den t /\ Permutation (errs_of l ++ derrs f) (derrs t).
Proof.
  unfold run_log, start. intros R Run. destruct (poll None t 0) as [[f0 n0] l0] eqn:P0.
  destruct (poll_rf _ _ _ _ _ _ R P0) as (R0 & D0 & PM0).
  exact (run_st_rf t s _ _ _ _ _ _ R0 D0 PM0 Run).
Qed.

(* (b): outside the race class, a completed run reports exactly the errors read off the tree *)
Theorem run_errors s t r :
  race_free t = true -> run s t = Some r -> Permutation (sr_errors r) (ref_errors t).
Proof.
  unfold run, resp_of, ref_errors. intros R. destruct (run_log s t) as [[f n] l] eqn:Run.
  destruct (run_log_rf _ _ _ _ _ R Run) as (_ & D & PM).
  destruct f as [[v|p]| | | | |]; try discriminate; intros E; injection E as <-; cbn [sr_errors];
    cbn [den derrs] in D, PM; rewrite <- D, app_nil_r in *; cbn [app].
  - exact PM.
  - now constructor.
Qed.

Theorem errors_schedule_independent t s1 s2 r1 r2 :
  race_free t = true -> run s1 t = Some r1 -> run s2 t = Some r2 ->
  Permutation (sr_errors r1) (sr_errors r2).
Proof.
  intros R H1 H2. rewrite (run_errors _ _ _ R H1). symmetry. exact (run_errors _ _ _ R H2).
Qed.

(* ------------------------------------------- the all-ready run as reference --- *)
Lemma map_ext_Forall {A B} (f g : A -> B) l : Forall (fun x => f x = g x) l -> map f l = map g l.
Proof. induction 1; cbn; congruence. Qed.

Lemma den_list_ungate cs : Forall (fun c => den (ungate c) = den c) cs ->
  forall acc, den_list den (map ungate cs) acc = den_list den cs acc.
Proof.
  induction 1 as [|c r Hc Hr IH]; intros acc; [reflexivity|].
  cbn [map]. rewrite !den_list_cons, Hc. destruct (den c); [apply IH|reflexivity].
Qed.

Lemma den_ungate f : den (ungate f) = den f.
Proof.
  induction f as [r|p gt ph k IH|kd cs IH|kd done cs IH|f1 IH|p f1 IH] using fut_ind'; cbn [ungate].
  - reflexivity.
  - cbn [den]. exact IH.
  - now rewrite !den_FAll, (den_list_ungate _ IH).
  - now rewrite !den_FSeq, (den_list_ungate _ IH).
  - cbn [den]. now rewrite IH.
  - cbn [den]. now rewrite IH.
Qed.

Lemma failsb_ungate f : failsb (ungate f) = failsb f.
Proof. unfold failsb. now rewrite den_ungate. Qed.

Lemma derrs_ungate f : derrs (ungate f) = derrs f.
Proof.
  induction f as [r|p gt ph k IH|kd cs IH|kd done cs IH|f1 IH|p f1 IH] using fut_ind'; cbn [ungate derrs].
  - reflexivity.
  - exact IH.
  - induction IH as [|c r Hc Hr IHr]; [reflexivity|]. cbn [map flat_map]. now rewrite Hc, IHr.
  - induction IH as [|c r Hc Hr IHr]; [reflexivity|]. cbn [map derrs_seq]. now rewrite Hc, den_ungate, IHr.
  - now rewrite IH, den_ungate.
  - exact IH.
Qed.

Lemma quiet_ungate f : quiet (ungate f) = quiet f.
Proof.
  induction f as [r|p gt ph k IH|kd cs IH|kd done cs IH|f1 IH|p f1 IH] using fut_ind'; cbn [ungate quiet]; auto.
  - induction IH as [|c r Hc Hr IHr]; [reflexivity|]. cbn [map forallb]. now rewrite Hc, IHr.
  - induction IH as [|c r Hc Hr IHr]; [reflexivity|]. cbn [map forallb]. now rewrite Hc, IHr.
Qed.

Lemma compat_ungate c d : compat (ungate c) (ungate d) = compat c d.
Proof. unfold compat. now rewrite !failsb_ungate, !quiet_ungate. Qed.

Lemma pairwise_ungate cs : pairwise (map ungate cs) = pairwise cs.
Proof.
  induction cs as [|c r IH]; [reflexivity|]. cbn [map pairwise]. rewrite IH. f_equal.
  clear IH. induction r as [|d r IH]; [reflexivity|]. cbn [map forallb]. now rewrite compat_ungate, IH.
Qed.

Lemma race_free_ungate f : race_free (ungate f) = race_free f.
Proof.
  induction f as [r|p gt ph k IH|kd cs IH|kd done cs IH|f1 IH|p f1 IH] using fut_ind'; cbn [ungate race_free]; auto.
  - rewrite pairwise_ungate. f_equal. induction IH as [|c r Hc Hr IHr]; [reflexivity|]. cbn [map forallb]. now rewrite Hc, IHr.
  - induction IH as [|c r Hc Hr IHr]; [reflexivity|]. cbn [map rf_seq]. now rewrite Hc, failsb_ungate, IHr.
Qed.

(* a tree in which no resolver is gated and none has started completes in one poll *)
Fixpoint ready_tree (f : fut) : bool :=
  match f with
  | FDone _ => true
  | FRes _ gt ph k => negb gt && match ph with PNew => true | PWait _ => false end && ready_tree k
  | FAll _ cs => forallb ready_tree cs
  | FSeq _ _ cs => forallb ready_tree cs
  | FCatch f1 => ready_tree f1
  | FMapErr _ f1 => ready_tree f1
  end.

Definition ready_inv (g : option nat) (f : fut) : Prop :=
  ready_tree f = true -> forall n, exists r l, poll g f n = (FDone r, n, l).

Lemma walk_ready g cs :
  Forall (ready_inv g) cs -> forallb ready_tree cs = true ->
  forall n, exists cs' e l, walk (poll g) cs n = (cs', e, n, l) /\
                            (e = None -> exists vs, all_done cs' = Some vs).
Proof.
  induction 1 as [|c r Hc Hr IH]; intros R n.
  - exists [], None, []. split; [reflexivity|]. intros _. now exists [].
  - cbn [forallb] in R. apply andb_prop in R as [Rc Rr]. destruct (Hc Rc n) as (rc & l1 & Pc).
    rewrite walk_cons, Pc. destruct rc as [v|p].
    + destruct (IH Rr n) as (r' & e & l2 & Wr & AD). rewrite Wr.
      exists (FDone (IVal v) :: r'), e, (l1 ++ l2). split; [reflexivity|].
      intros E. destruct (AD E) as [vs A]. exists (v :: vs). cbn [all_done]. now rewrite A.
    + exists (FDone (IFail p) :: r), (Some p), l1. split; [reflexivity|discriminate].
Qed.

Lemma seq_ready g kd cs :
  Forall (ready_inv g) cs -> forallb ready_tree cs = true ->
  forall done n, exists r l, seq (poll g) kd done cs n = (FDone r, n, l).
Proof.
  induction 1 as [|c r Hc Hr IH]; intros R done n.
  - cbn. eauto.
  - cbn [forallb] in R. apply andb_prop in R as [Rc Rr]. destruct (Hc Rc n) as (rc & l1 & Pc).
    rewrite seq_cons, Pc. destruct rc as [v|p].
    + destruct (IH Rr (done ++ [v]) n) as (r2 & l2 & ->). eauto.
    + eauto.
Qed.

Lemma poll_ready g : forall f, ready_inv g f.
Proof.
  induction f as [r|p gt ph k IH|kd cs IH|kd done cs IH|f1 IH|p f1 IH] using fut_ind'; intros R n.
  - cbn. eauto.
  - cbn [ready_tree] in R. apply andb_prop in R as [R1 Rk]. apply andb_prop in R1 as [Rg Rp].
    destruct gt; [discriminate|]. destruct ph; [|discriminate].
    rewrite poll_FRes. destruct (IH Rk n) as (r & l & ->). eauto.
  - rewrite poll_FAll. destruct (walk_ready g cs IH R n) as (cs' & e & l & -> & AD).
    destruct e as [p|]; [eauto|]. destruct (AD eq_refl) as [vs ->]. eauto.
  - rewrite poll_FSeq. exact (seq_ready g kd cs IH R done n).
  - rewrite poll_FCatch. destruct (IH R n) as (r & l & ->). destruct r; eauto.
  - rewrite poll_FMapErr. destruct (IH R n) as (r & l & ->). destruct r; eauto.
Qed.

Theorem ready_run_completes t : ready_tree t = true -> exists r, run [] t = Some r.
Proof.
  intros R. unfold run, run_log, start. cbn [run_st]. destruct (poll_ready None t R 0%nat) as (r & l & ->).
  cbn. destruct r; eauto.
Qed.

Lemma ready_ungate f : fresh f = true -> ready_tree (ungate f) = true.
Proof.
  induction f as [r|p gt ph k IH|kd cs IH|kd done cs IH|f1 IH|p f1 IH] using fut_ind'; cbn [ungate fresh ready_tree]; auto.
  - destruct ph; [|discriminate]. cbn. exact IH.
  - intros F. induction IH as [|c r Hc Hr IHr]; [reflexivity|]. cbn [forallb map] in *.
    apply andb_prop in F as [Fc Fr]. now rewrite (Hc Fc), (IHr Fr).
  - destruct done; [|discriminate]. intros F. induction IH as [|c r Hc Hr IHr]; [reflexivity|]. cbn [forallb map] in *.
    apply andb_prop in F as [Fc Fr]. now rewrite (Hc Fc), (IHr Fr).
Qed.

(* every completed run of a race-free tree answers what the all-ready run answers *)
Theorem same_as_ready_run t s r :
  fresh t = true -> run s t = Some r ->
  exists r0, run [] (ungate t) = Some r0 /\ sr_data r = sr_data r0 /\
             (race_free t = true -> Permutation (sr_errors r) (sr_errors r0)).
Proof.
  intros F H. destruct (ready_run_completes _ (ready_ungate _ F)) as [r0 H0]. exists r0.
  split; [exact H0|]. split.
  - rewrite (run_data _ _ _ H), (run_data _ _ _ H0). unfold ref_data. now rewrite den_ungate.
  - intros R. rewrite (run_errors _ _ _ R H).
    assert (R0 : race_free (ungate t) = true) by now rewrite race_free_ungate.
    rewrite (run_errors _ _ _ R0 H0). unfold ref_errors. now rewrite den_ungate, derrs_ungate.
Qed.

(* ------------------------------------------------ (c) serial mutation roots --- *)
(* a poll logs only events of resolvers below the future, and the new state can
   only log events the old one could *)
Definition ev_inv (g : option nat) (f : fut) : Prop :=
  forall n f' n' l, poll g f n = (f', n', l) ->
    incl (evs_of l) (all_events f) /\ incl (all_events f') (all_events f).

Lemma incl_app_app {A} (a b c d : list A) : incl a c -> incl b d -> incl (a ++ b) (c ++ d).
Proof. intros H1 H2 x Hx. apply in_app_or in Hx as [Hx|Hx]; apply in_or_app; auto. Qed.

Lemma walk_ev g cs :
  Forall (ev_inv g) cs ->
  forall n cs' e n' l, walk (poll g) cs n = (cs', e, n', l) ->
    incl (evs_of l) (flat_map all_events cs) /\ incl (flat_map all_events cs') (flat_map all_events cs).
Proof.
  induction 1 as [|c r Hc Hr IH]; intros n cs' e n' l W.
  - cbn in W. injection W as <- <- <- <-. split; apply incl_refl.
  - apply walk_cons_cases in W as (c' & n1 & l1 & Pc & [(p & -> & -> & -> & -> & ->)|(_ & r' & l2 & Wr & -> & ->)]);
      destruct (Hc _ _ _ _ Pc) as [E1 A1]; cbn [flat_map].
    + split; [now apply incl_appl|]. apply incl_app_app; [exact A1|apply incl_refl].
    + destruct (IH _ _ _ _ _ Wr) as [E2 A2]. rewrite evs_of_app. split; apply incl_app_app; assumption.
Qed.

Lemma seq_ev g kd cs :
  Forall (ev_inv g) cs ->
  forall done n f' n' l, seq (poll g) kd done cs n = (f', n', l) ->
    incl (evs_of l) (flat_map all_events cs) /\ incl (all_events f') (flat_map all_events cs).
Proof.
  induction 1 as [|c r Hc Hr IH]; intros done n f' n' l W.
  - cbn in W. injection W as <- <- <-. split; apply incl_refl.
  - apply seq_cons_cases in W as (c' & n1 & l1 & Pc & [(v & l2 & -> & Sr & ->)|[(p & -> & -> & -> & ->)|(_ & -> & -> & ->)]]);
      destruct (Hc _ _ _ _ Pc) as [E1 A1]; cbn [flat_map].
    + destruct (IH _ _ _ _ _ Sr) as [E2 A2]. rewrite evs_of_app. split.
      * apply incl_app_app; assumption.
      * now apply incl_appr.
    + split; [now apply incl_appl|]. cbn. intros x [].
    + split; [now apply incl_appl|]. cbn [all_events flat_map]. apply incl_app_app; [exact A1|apply incl_refl].
Qed.

Lemma poll_ev g : forall f, ev_inv g f.
Proof.
  induction f as [r|p gt ph k IH|kd cs IH|kd done cs IH|f1 IH|p f1 IH] using fut_ind'; intros n f' n' l Pf.
  - cbn in Pf. injection Pf as <- <- <-. split; apply incl_refl.
  - rewrite poll_FRes in Pf. cbn [all_events]. destruct ph as [|id].
    + destruct gt.
      * injection Pf as <- <- <-. split; [|apply incl_refl]. cbn. intros x [<-|[]]. now left.
      * destruct (poll g k n) as [[k' n1] l1] eqn:Pk. injection Pf as <- <- <-. destruct (IH _ _ _ _ Pk) as [E A].
        split.
        -- cbn. intros x [<-|[<-|Hx]]; [now left|right; now left|right; right; now apply E].
        -- intros x Hx. right; right. now apply A.
    + destruct (opened g id).
      * destruct (poll g k n) as [[k' n1] l1] eqn:Pk. injection Pf as <- <- <-. destruct (IH _ _ _ _ Pk) as [E A].
        split.
        -- cbn. intros x [<-|Hx]; [right; now left|right; right; now apply E].
        -- intros x Hx. right; right. now apply A.
      * injection Pf as <- <- <-. split; [intros x []|apply incl_refl].
  - rewrite poll_FAll in Pf. destruct (walk (poll g) cs n) as [[[cs' e] n1] l1] eqn:W.
    destruct (walk_ev g cs IH _ _ _ _ _ W) as [E A]. cbn [all_events].
    destruct e as [p|]; [|destruct (all_done cs')]; injection Pf as <- <- <-; split; auto; intros x [].
  - rewrite poll_FSeq in Pf. exact (seq_ev g kd cs IH _ _ _ _ _ Pf).
  - rewrite poll_FCatch in Pf. destruct (poll g f1 n) as [[f2 n1] l1] eqn:P1. destruct (IH _ _ _ _ P1) as [E A].
    cbn [all_events].
    destruct f2 as [[v|p]| | | | |]; injection Pf as <- <- <-; split; auto; try (intros x []).
    rewrite evs_of_app. cbn. now rewrite app_nil_r.
  - rewrite poll_FMapErr in Pf. destruct (poll g f1 n) as [[f2 n1] l1] eqn:P1. destruct (IH _ _ _ _ P1) as [E A].
    cbn [all_events].
    destruct f2 as [[v|p0]| | | | |]; injection Pf as <- <- <-; split; auto; intros x [].
Qed.

Lemma seg_prefix s ss X : incl X s -> forall Y, seg_ok (s :: ss) Y -> seg_ok (s :: ss) (X ++ Y).
Proof.
  induction X as [|x X IH]; intros HX Y HY; [exact HY|].
  cbn. apply seg_here; [apply HX; now left|]. apply IH; [|exact HY]. intros y Hy. apply HX. now right.
Qed.

Lemma seg_mono_head s s' ss L : incl s' s -> seg_ok (s' :: ss) L -> seg_ok (s :: ss) L.
Proof.
  intros Hs H. remember (s' :: ss) as sets eqn:E. revert E.
  induction H as [sets|s0 ss0 e l He Hl IH|s0 ss0 l Hl IH]; intros E.
  - constructor.
  - injection E as -> ->. apply seg_here; [now apply Hs|]. now apply IH.
  - injection E as -> ->. now apply seg_next.
Qed.

Definition rem_of (f : fut) : list fut := match f with FSeq _ _ cs => cs | _ => [] end.
Definition seq_state (kd : kind) (f : fut) : Prop := (exists done cs, f = FSeq kd done cs) \/ (exists r, f = FDone r).

(* one poll of the serial loop: what it logs, followed by anything the remaining
   fields may log serially, is serial for the fields it started from *)
Lemma seq_seg g kd cs : forall done n f' n' l,
  seq (poll g) kd done cs n = (f', n', l) ->
  seq_state kd f' /\
  forall L, seg_ok (map all_events (rem_of f')) L -> seg_ok (map all_events cs) (evs_of l ++ L).
Proof.
  induction cs as [|c r IH]; intros done n f' n' l W.
  - cbn in W. injection W as <- <- <-. split; [right; eauto|]. intros L HL. exact HL.
  - apply seq_cons_cases in W as (c' & n1 & l1 & Pc & [(v & l2 & -> & Sr & ->)|[(p & -> & -> & -> & ->)|(_ & -> & -> & ->)]]);
      destruct (poll_ev g c _ _ _ _ Pc) as [E1 A1]; cbn [map].
    + destruct (IH _ _ _ _ _ Sr) as [St HL]. split; [exact St|]. intros L H.
      rewrite evs_of_app, <- app_assoc. apply seg_prefix; [exact E1|]. apply seg_next. now apply HL.
    + split; [right; eauto|]. intros L H. cbn [rem_of map] in H. inversion H; subst.
      rewrite app_nil_r. rewrite <- (app_nil_r (evs_of l1)). apply seg_prefix; [exact E1|constructor].
    + split; [left; eauto|]. intros L H. cbn [rem_of map] in H.
      apply seg_prefix; [exact E1|]. eapply seg_mono_head; [exact A1|exact H].
Qed.

Lemma run_st_seg kd cs0 s : forall f n l f' n' l',
  seq_state kd f ->
  (forall L, seg_ok (map all_events (rem_of f)) L -> seg_ok (map all_events cs0) (evs_of l ++ L)) ->
  run_st s (f, n, l) = (f', n', l') ->
  forall L, seg_ok (map all_events (rem_of f')) L -> seg_ok (map all_events cs0) (evs_of l' ++ L).
Proof.
  induction s as [|g s IH]; intros f n l f' n' l' St Inv Run.
  - cbn in Run. injection Run as <- <- <-. exact Inv.
  - cbn [run_st] in Run. destruct (poll (Some g) f n) as [[f1 n1] l1] eqn:P1.
    destruct St as [(done & cs & ->)|(r & ->)].
    + rewrite poll_FSeq in P1. destruct (seq_seg _ _ _ _ _ _ _ _ P1) as [St1 H1].
      refine (IH _ _ _ _ _ _ St1 _ Run).
      intros L HL. rewrite evs_of_app, <- app_assoc. apply Inv. cbn [rem_of]. now apply H1.
    + cbn in P1. injection P1 as <- <- <-. 
      refine (IH _ _ _ _ _ _ (or_intror (ex_intro _ r eq_refl)) _ Run).
      intros L HL. rewrite app_nil_r. now apply Inv.
Qed.

(* (c): after ANY schedule (complete or not), the event log of a serial root is
   serial in the root fields *)
Theorem serial_log kd done cs s f n l :
  run_log s (FSeq kd done cs) = (f, n, l) -> seg_ok (map all_events cs) (evs_of l).
Proof.
  unfold run_log, start. intros Run. destruct (poll None (FSeq kd done cs) 0) as [[f0 n0] l0] eqn:P0.
  rewrite poll_FSeq in P0. destruct (seq_seg _ _ _ _ _ _ _ _ P0) as [St0 H0].
  rewrite <- (app_nil_r (evs_of l)).
  apply (run_st_seg kd cs s _ _ _ _ _ _ St0 H0 Run []). constructor.
Qed.

(* the boolean test used on the real library's log is complete for seg_ok *)
Lemma item_eqb_refl a : item_eqb a a = true.
Proof.
  assert (P : forall p, path_eqb p p = true).
  { induction p as [|x p IH]; [reflexivity|]. unfold path_eqb, list_eqb in *. cbn. rewrite IH, andb_true_r.
    destruct x; cbn; [apply name_eqb_refl|apply N.eqb_refl]. }
  destruct a; cbn; apply P.
Qed.

Lemma memi_In e s : In e s -> memi e s = true.
Proof. intros H. unfold memi. apply existsb_exists. exists e. split; [exact H|apply item_eqb_refl]. Qed.

Lemma seg_ok_tail sets e l : seg_ok sets (e :: l) -> seg_ok sets l.
Proof.
  intros H. remember (e :: l) as L eqn:E. revert E.
  induction H as [sets|s ss e0 l0 He Hl IH|s ss l0 Hl IH]; intros E.
  - discriminate.
  - injection E as -> ->. exact Hl.
  - apply seg_next. now apply IH.
Qed.

Lemma seg_ok_skip s ss l : seg_ok (s :: ss) l -> seg_ok ss (skipseg s l).
Proof.
  intros H. remember (s :: ss) as sets eqn:E. revert E.
  induction H as [sets|s0 ss0 e l He Hl IH|s0 ss0 l Hl IH]; intros E.
  - constructor.
  - injection E as -> ->. cbn [skipseg]. rewrite (memi_In _ _ He). now apply IH.
  - injection E as -> ->. clear IH. induction l as [|e l IHl]; [constructor|].
    cbn [skipseg]. destruct (memi e s); [|exact Hl]. apply IHl. eapply seg_ok_tail, Hl.
Qed.

Lemma seg_ok_serial_okb sets : forall l, seg_ok sets l -> serial_okb sets l = true.
Proof.
  induction sets as [|s ss IH]; intros l H.
  - inversion H. reflexivity.
  - cbn [serial_okb]. apply IH. now apply seg_ok_skip.
Qed.

Theorem serial_log_okb kd done cs s f n l :
  run_log s (FSeq kd done cs) = (f, n, l) -> serial_okb (map all_events cs) (evs_of l) = true.
Proof. intros H. apply seg_ok_serial_okb. eapply serial_log, H. Qed.

(* ------------------------------------------- the per-case verdict is sound --- *)
Section value_ind2.
  Variable P : value -> Prop.
  Hypothesis Hnull : P VNull.
  Hypothesis Hint : forall z, P (VInt z).
  Hypothesis Hfloat : forall b, P (VFloat b).
  Hypothesis Hstr : forall s, P (VStr s).
  Hypothesis Hbool : forall b, P (VBool b).
  Hypothesis Henum : forall n, P (VEnum n).
  Hypothesis Hvar : forall n, P (VVar n).
  Hypothesis Hlist : forall l, Forall P l -> P (VList l).
  Hypothesis Hobj : forall l, Forall (fun kv => P (snd kv)) l -> P (VObj l).
  Fixpoint value_ind2 (v : value) : P v :=
    match v with
    | VNull => Hnull | VInt z => Hint z | VFloat b => Hfloat b | VStr s => Hstr s | VBool b => Hbool b
    | VEnum n => Henum n | VVar n => Hvar n
    | VList l => Hlist l ((fix go (l : list value) : Forall P l :=
                             match l with [] => Forall_nil _ | x :: r => Forall_cons x (value_ind2 x) (go r) end) l)
    | VObj l => Hobj l ((fix go (l : list (name * value)) : Forall (fun kv => P (snd kv)) l :=
                           match l with [] => Forall_nil _ | x :: r => Forall_cons x (value_ind2 (snd x)) (go r) end) l)
    end.
End value_ind2.

Lemma value_eqb_refl v : value_eqb v v = true.
Proof.
  induction v as [|z|b|s|b|n|n|l IH|l IH] using value_ind2; cbn [value_eqb].
  - reflexivity.
  - apply Z.eqb_refl.
  - apply N.eqb_refl.
  - induction s as [|c s IHs]; [reflexivity|]. unfold list_eqb in *. cbn. now rewrite N.eqb_refl, IHs.
  - destruct b; reflexivity.
  - apply name_eqb_refl.
  - apply name_eqb_refl.
  - induction IH as [|x r Hx Hr IHr]; [reflexivity|]. now rewrite Hx, IHr.
  - induction IH as [|[k x] r Hx Hr IHr]; [reflexivity|]. cbn in Hx. now rewrite name_eqb_refl, Hx, IHr.
Qed.

Lemma count_path_perm p a b : Permutation a b -> count_path p a = count_path p b.
Proof.
  unfold count_path. induction 1 as [|x a b H IH|x y a|a b c H1 IH1 H2 IH2]; cbn [fold_right].
  - reflexivity.
  - now rewrite IH.
  - destruct (path_eqb y p), (path_eqb x p); reflexivity.
  - congruence.
Qed.

Lemma paths_same_perm a b : Permutation a b -> paths_same a b = true.
Proof.
  intros H. unfold paths_same, paths_sub. apply andb_true_intro. split; apply forallb_forall; intros p _; cbv beta;
    rewrite (count_path_perm p _ _ H); apply N.leb_refl.
Qed.

Lemma run_serial_okb s t r sets :
  root_sets t = Some sets -> run s t = Some r -> serial_okb sets (sr_events r) = true.
Proof.
  unfold root_sets. destruct t as [| |? ?|kd done cs| |]; try discriminate. intros E. injection E as <-.
  unfold run, resp_of. destruct (run_log s (FSeq kd done cs)) as [[f n] l] eqn:R.
  pose proof (serial_log_okb _ _ _ _ _ _ _ R) as H.
  destruct f as [[v|p]| | | | |]; try discriminate; intros E; injection E as <-; exact H.
Qed.

(* verdict code 2 ("model breaks the property outside the known classes") cannot occur *)
Theorem verdict_sound t s m ready :
  fresh t = true -> known_class t = 0 -> run s t = Some m -> run [] (ungate t) = Some ready ->
  meets t ready m = true.
Proof.
  intros F K Hm Hr. unfold known_class in K. destruct (race_free t) eqn:R; [|destruct (two_failing t); discriminate].
  destruct (same_as_ready_run t s m F Hm) as (r0 & H0 & D & P). rewrite Hr in H0. injection H0 as <-.
  unfold meets. rewrite D, value_eqb_refl, (paths_same_perm _ _ (P R)). cbn [andb].
  destruct (root_sets t) as [sets|] eqn:RS; [|reflexivity]. exact (run_serial_okb _ _ _ _ RS Hm).
Qed.

(* ------------------------------------------------------------- witnesses --- *)
(* names: types 10 Query, 11 A, 15 Int, 16 Float, 17 String; fields 20 a, 23 id, 24 name, 25 score *)
Definition x_fields : list (name * ty) :=
  [ (20, TNamed 11); (23, TNonNull (TNamed 15)); (24, TNamed 17); (25, TNonNull (TNamed 16)) ].
Definition x_schema : schema :=
  {| s_types := [ (10, DObject x_fields []); (11, DObject x_fields []); (15, DScalar 0); (16, DScalar 1); (17, DScalar 2) ];
     s_query := 10; s_mutation := Some 10; s_tname := [(10, [81]); (11, [65])] |}.
Definition x_world (root a : list (name * outv)) : world :=
  {| w_nodes := [ (0, {| n_ty := 10; n_fields := root |}); (1, {| n_ty := 10; n_fields := root |});
                  (2, {| n_ty := 11; n_fields := a |}) ];
     w_defaults := [(25, OFloat 4609434218613702656)]; w_idname := 23 |}.
Definition x_fld (nm : name) (sub : list selection) : selection := SField None nm [] [] sub.
Definition x_doc (ty : optype) (sels : list selection) : document :=
  {| doc_ops := [ {| op_name := None; op_ty := ty; op_vars := []; op_dirs := []; op_sels := sels |} ]; doc_frags := [] |}.
Definition x_tree (w : world) (d : document) (gated : list path) : option fut :=
  match build quirks_today x_schema w d None [] gated 50 with Ok t => Some t | _ => None end.

(* { id score }, both resolvers fail, both gated *)
Definition x_race : option fut :=
  x_tree (x_world [(23, OErr); (25, OErr)] []) (x_doc OpQuery [x_fld 23 []; x_fld 25 []]) [[PF 23]; [PF 25]].
(* { a { id } score }, a.id and score fail, both gated *)
Definition x_drop : option fut :=
  x_tree (x_world [(20, ORef 2); (25, OErr)] [(23, OErr)]) (x_doc OpQuery [x_fld 20 [x_fld 23 []]; x_fld 25 []])
         [[PF 20; PF 23]; [PF 25]].
(* { a { id } k: a { id } name }: two errors caught at nullable positions, all five resolvers gated *)
Definition x_caught : option fut :=
  x_tree (x_world [(20, ORef 2); (24, OStr [110])] [(23, OErr)])
         (x_doc OpQuery [x_fld 20 [x_fld 23 []]; SField (Some 30) 20 [] [] [x_fld 23 []]; x_fld 24 []])
         [[PF 20]; [PF 30]; [PF 20; PF 23]; [PF 30; PF 23]; [PF 24]].
(* mutation { a { id name } k: a { id } name } *)
Definition x_mut : option fut :=
  x_tree (x_world [(20, ORef 2); (24, OStr [110])] [])
         (x_doc OpMutation [x_fld 20 [x_fld 23 []; x_fld 24 []]; SField (Some 30) 20 [] [] [x_fld 23 []]; x_fld 24 []])
         [[PF 20]; [PF 20; PF 23]; [PF 20; PF 24]; [PF 30; PF 23]].

Definition errors_under (s : list nat) (t : option fut) : option (list path) :=
  match t with Some t => match run s t with Some r => Some (sr_errors r) | None => None end | None => None end.
Definition data_under (s : list nat) (t : option fut) : option value :=
  match t with Some t => match run s t with Some r => Some (sr_data r) | None => None end | None => None end.
Definition class_of (t : option fut) : option N := match t with Some t => Some (known_class t) | None => None end.

Lemma w_uncaught_race :
  errors_under [0%nat] x_race = Some [[PF 23]] /\ errors_under [1%nat] x_race = Some [[PF 25]] /\
  class_of x_race = Some 1.
Proof. repeat split; vm_compute; reflexivity. Qed.

Lemma w_sibling_drop :
  errors_under [0%nat; 1%nat] x_drop = Some [[PF 25]; [PF 20; PF 23]] /\
  errors_under [1%nat] x_drop = Some [[PF 25]] /\
  class_of x_drop = Some 2.
Proof. repeat split; vm_compute; reflexivity. Qed.

(* non-vacuity: a race-free tree with five gates and errors; two fair schedules
   give the same data and the two caught errors in different ORDER *)
Lemma w_caught_reordered :
  class_of x_caught = Some 0 /\
  errors_under [0; 1; 3; 2; 4]%nat x_caught = Some [[PF 20; PF 23]; [PF 30; PF 23]] /\
  errors_under [1; 0; 3; 2; 4]%nat x_caught = Some [[PF 30; PF 23]; [PF 20; PF 23]] /\
  data_under [0; 1; 3; 2; 4]%nat x_caught = Some (VObj [(20, VNull); (30, VNull); (24, VStr [110])]) /\
  data_under [1; 0; 3; 2; 4]%nat x_caught = Some (VObj [(20, VNull); (30, VNull); (24, VStr [110])]) /\
  errors_under [0; 1]%nat x_caught = None.     (* an unfair schedule: resolvers still waiting *)
Proof. repeat split; vm_compute; reflexivity. Qed.

Definition events_under (s : list nat) (t : option fut) : option (list item) :=
  match t with Some t => let '(_, _, l) := run_log s t in Some (evs_of l) | None => None end.

(* non-vacuity of the serial theorem: the two gated resolvers below the first root
   field complete in either order; the second root field starts after both *)
Lemma w_serial :
  events_under [0; 2; 1; 3]%nat x_mut =
    Some [IStart [PF 20]; IEnd [PF 20]; IStart [PF 20; PF 23]; IStart [PF 20; PF 24];
          IEnd [PF 20; PF 24]; IEnd [PF 20; PF 23];
          IStart [PF 30]; IEnd [PF 30]; IStart [PF 30; PF 23]; IEnd [PF 30; PF 23];
          IStart [PF 24]; IEnd [PF 24]] /\
  events_under [0; 1; 2; 3]%nat x_mut =
    Some [IStart [PF 20]; IEnd [PF 20]; IStart [PF 20; PF 23]; IStart [PF 20; PF 24];
          IEnd [PF 20; PF 23]; IEnd [PF 20; PF 24];
          IStart [PF 30]; IEnd [PF 30]; IStart [PF 30; PF 23]; IEnd [PF 30; PF 23];
          IStart [PF 24]; IEnd [PF 24]].
Proof. split; vm_compute; reflexivity. Qed.

(* ----------------------------------- serial order, stated on positions --- *)
Definition before {A} (x y : A) (l : list A) : Prop := exists l1 l2 l3, l = l1 ++ x :: l2 ++ y :: l3.
Definition disjoint_sets (sets : list (list item)) : Prop :=
  forall i j e, i <> j -> In e (nth i sets []) -> In e (nth j sets []) -> False.

Lemma seg_ok_in sets l : seg_ok sets l -> forall e, In e l -> exists k, In e (nth k sets []).
Proof.
  induction 1 as [sets|s ss e0 l He Hl IH|s ss l Hl IH]; intros e Hin.
  - destruct Hin.
  - destruct Hin as [<-|Hin]; [now exists 0%nat|now apply IH].
  - destruct (IH e Hin) as [k Hk]. now exists (S k).
Qed.

Lemma disjoint_tail s ss : disjoint_sets (s :: ss) -> disjoint_sets ss.
Proof. intros D i j e Hij Hi Hj. apply (D (S i) (S j) e); auto. Qed.

Lemma before_in {A} (x y : A) l : before x y l -> In x l /\ In y l.
Proof.
  intros (l1 & l2 & l3 & ->). split; apply in_or_app; right; [now left|].
  right. apply in_or_app. right. now left.
Qed.

(* no event of a later root field precedes an event of an earlier one *)
Lemma seg_ok_order sets l :
  seg_ok sets l -> disjoint_sets sets ->
  forall i j x y, (i < j)%nat -> In x (nth i sets []) -> In y (nth j sets []) -> ~ before y x l.
Proof.
  induction 1 as [sets|s ss e l He Hl IH|s ss l Hl IH]; intros D i j x y Hij Hx Hy B.
  - destruct B as (l1 & l2 & l3 & E). destruct l1; discriminate.
  - destruct B as (l1 & l2 & l3 & E). destruct l1 as [|e1 l1].
    + cbn in E. injection E as E1 E2. subst e l. apply (D 0%nat j y); [lia|exact He|exact Hy].
    + cbn in E. injection E as E1 E2. subst e1 l. apply (IH D i j x y Hij Hx Hy). now exists l1, l2, l3.
  - destruct i as [|i].
    + destruct (before_in _ _ _ B) as [_ Hxl]. destruct (seg_ok_in _ _ Hl x Hxl) as [k Hk].
      apply (D 0%nat (S k) x); [lia|exact Hx|exact Hk].
    + destruct j as [|j]; [lia|]. apply (IH (disjoint_tail _ _ D) i j x y); [lia|exact Hx|exact Hy|exact B].
Qed.

Theorem serial_order kd done cs s f n l :
  run_log s (FSeq kd done cs) = (f, n, l) -> disjoint_sets (map all_events cs) ->
  forall i j x y, (i < j)%nat ->
    In x (all_events (nth i cs (FDone (IVal VNull)))) -> In y (all_events (nth j cs (FDone (IVal VNull)))) ->
    ~ before y x (evs_of l).
Proof.
  intros R D i j x y Hij Hx Hy. apply (seg_ok_order _ _ (serial_log _ _ _ _ _ _ _ R) D i j x y Hij).
  - change (@nil item) with (all_events (FDone (IVal VNull))). now rewrite map_nth.
  - change (@nil item) with (all_events (FDone (IVal VNull))). now rewrite map_nth.
Qed.

(* --------------------------------------- every tree has a fair schedule --- *)
(* (so the theorems above, which quantify over the schedules that let the request
   complete, are not vacuous for any tree) *)
Fixpoint nres (f : fut) : nat :=
  match f with
  | FDone _ => 0
  | FRes _ _ _ k => S (nres k)
  | FAll _ cs => list_sum (map nres cs)
  | FSeq _ _ cs => list_sum (map nres cs)
  | FCatch f1 => nres f1
  | FMapErr _ f1 => nres f1
  end.
Definition is_done (f : fut) : bool := match f with FDone _ => true | _ => false end.
Definition is_val (f : fut) : bool := match f with FDone (IVal _) => true | _ => false end.
(* pending after a poll: the frontier consists of registered gates *)
Fixpoint live (f : fut) : bool :=
  match f with
  | FDone _ => false
  | FRes _ _ ph _ => match ph with PWait _ => true | PNew => false end
  | FAll _ cs => forallb (fun c => live c || is_val c) cs && existsb live cs
  | FSeq _ _ cs => match cs with c :: _ => live c | [] => false end
  | FCatch f1 => live f1
  | FMapErr _ f1 => live f1
  end.

Definition settled (f : fut) : Prop := is_done f = true \/ live f = true.

Lemma settled_not_done f : settled f -> (forall x, f <> FDone x) -> live f = true.
Proof. intros [D|L] H; [|exact L]. destruct f; try discriminate. now destruct (H r). Qed.

Lemma walk_live g cs :
  Forall (fun c => forall n f' n' l, poll g c n = (f', n', l) -> settled f') cs ->
  forall n cs' n' l, walk (poll g) cs n = (cs', None, n', l) ->
    forallb (fun c => live c || is_val c) cs' = true.
Proof.
  induction 1 as [|c r Hc Hr IH]; intros n cs' n' l W.
  - cbn in W. injection W as <- <- <-. reflexivity.
  - apply walk_cons_cases in W as (c' & n1 & l1 & Pc & [(p & _ & _ & E & _)|(NF & r' & l2 & Wr & -> & ->)]); [discriminate|].
    cbn [forallb]. rewrite (IH _ _ _ _ Wr), andb_true_r.
    destruct (Hc _ _ _ _ Pc) as [D|L]; [|now rewrite L].
    destruct c' as [[v|p]| | | | |]; try discriminate; [now rewrite orb_true_r|now destruct (NF p)].
Qed.

Lemma not_all_done_live cs :
  forallb (fun c => live c || is_val c) cs = true -> all_done cs = None -> existsb live cs = true.
Proof.
  induction cs as [|c r IH]; intros F A; [discriminate|].
  cbn [forallb existsb] in *. apply andb_prop in F as [Fc Fr].
  destruct (live c) eqn:L; [reflexivity|]. cbn in Fc |- *.
  destruct c as [[v|p]| | | | |]; try discriminate. cbn [all_done] in A.
  destruct (all_done r); [discriminate|]. now apply IH.
Qed.

Lemma seq_live g kd cs :
  Forall (fun c => forall n f' n' l, poll g c n = (f', n', l) -> settled f') cs ->
  forall done n f' n' l, seq (poll g) kd done cs n = (f', n', l) -> settled f'.
Proof.
  induction 1 as [|c r Hc Hr IH]; intros done n f' n' l W.
  - cbn in W. injection W as <- <- <-. now left.
  - apply seq_cons_cases in W as (c' & n1 & l1 & Pc & [(v & l2 & -> & Sr & ->)|[(p & -> & -> & -> & ->)|(ND & -> & -> & ->)]]).
    + exact (IH _ _ _ _ _ Sr).
    + now left.
    + right. cbn [live]. exact (settled_not_done _ (Hc _ _ _ _ Pc) ND).
Qed.

Lemma poll_settled g : forall f n f' n' l, poll g f n = (f', n', l) -> settled f'.
Proof.
  induction f as [r|p gt ph k IH|kd cs IH|kd done cs IH|f1 IH|p f1 IH] using fut_ind'; intros n f' n' l Pf.
  - cbn in Pf. injection Pf as <- <- <-. now left.
  - rewrite poll_FRes in Pf. destruct ph as [|id].
    + destruct gt.
      * injection Pf as <- <- <-. now right.
      * destruct (poll g k n) as [[k' n1] l1] eqn:Pk. injection Pf as <- <- <-. exact (IH _ _ _ _ Pk).
    + destruct (opened g id).
      * destruct (poll g k n) as [[k' n1] l1] eqn:Pk. injection Pf as <- <- <-. exact (IH _ _ _ _ Pk).
      * injection Pf as <- <- <-. now right.
  - rewrite poll_FAll in Pf. destruct (walk (poll g) cs n) as [[[cs' e] n1] l1] eqn:W.
    destruct e as [p|]; [injection Pf as <- <- <-; now left|].
    pose proof (walk_live g cs IH _ _ _ _ W) as F.
    destruct (all_done cs') eqn:AD; injection Pf as <- <- <-; [now left|].
    right. cbn [live]. now rewrite F, (not_all_done_live _ F AD).
  - rewrite poll_FSeq in Pf. exact (seq_live g kd cs IH _ _ _ _ _ Pf).
  - rewrite poll_FCatch in Pf. destruct (poll g f1 n) as [[f2 n1] l1] eqn:P1. pose proof (IH _ _ _ _ P1) as S2.
    destruct f2 as [[v|p]| | | | |]; injection Pf as <- <- <-; try (now left);
      (right; cbn [live]; apply (settled_not_done _ S2); intros x; discriminate).
  - rewrite poll_FMapErr in Pf. destruct (poll g f1 n) as [[f2 n1] l1] eqn:P1. pose proof (IH _ _ _ _ P1) as S2.
    destruct f2 as [[v|p0]| | | | |]; injection Pf as <- <- <-; try (now left);
      (right; cbn [live]; apply (settled_not_done _ S2); intros x; discriminate).
Qed.

Lemma live_waiting f : live f = true -> waiting f <> [].
Proof.
  induction f as [r|p gt ph k IH|kd cs IH|kd done cs IH|f1 IH|p f1 IH] using fut_ind'; cbn [live waiting]; intros L.
  - discriminate.
  - destruct ph; [discriminate|]. discriminate.
  - apply andb_prop in L as [_ E]. apply existsb_exists in E as (c & Hc & Lc).
    rewrite Forall_forall in IH. specialize (IH c Hc Lc). intros Z. apply IH.
    destruct (waiting c) as [|x w] eqn:Wc; [reflexivity|].
    assert (In x (flat_map waiting cs)) by (apply in_flat_map; exists c; split; [exact Hc|rewrite Wc; now left]).
    rewrite Z in H. destruct H.
  - destruct cs as [|c r]; [discriminate|]. inversion IH; subst. auto.
  - now apply IH.
  - now apply IH.
Qed.

Ltac nsum := cbn [nres] in *; unfold list_sum in *; cbn [nres map fold_right flat_map] in *.

Definition le_inv (g : option nat) (f : fut) : Prop :=
  forall n f' n' l, poll g f n = (f', n', l) -> (nres f' <= nres f)%nat.

Lemma walk_le g cs :
  Forall (le_inv g) cs ->
  forall n cs' e n' l, walk (poll g) cs n = (cs', e, n', l) ->
    (list_sum (map nres cs') <= list_sum (map nres cs))%nat.
Proof.
  induction 1 as [|c r Hc Hr IH]; intros n cs' e n' l W.
  - cbn in W. injection W as <- <- <- <-. lia.
  - apply walk_cons_cases in W as (c' & n1 & l1 & Pc & [(p & -> & -> & _)|(_ & r' & l2 & Wr & -> & ->)]);
      specialize (Hc _ _ _ _ Pc); nsum.
    + lia.
    + specialize (IH _ _ _ _ _ Wr). lia.
Qed.

Lemma seq_le g kd cs :
  Forall (le_inv g) cs ->
  forall done n f' n' l, seq (poll g) kd done cs n = (f', n', l) -> (nres f' <= list_sum (map nres cs))%nat.
Proof.
  induction 1 as [|c r Hc Hr IH]; intros done n f' n' l W.
  - cbn in W. injection W as <- <- <-. cbn. lia.
  - apply seq_cons_cases in W as (c' & n1 & l1 & Pc & [(v & l2 & -> & Sr & ->)|[(p & -> & -> & -> & ->)|(_ & -> & -> & ->)]]);
      specialize (Hc _ _ _ _ Pc); nsum.
    + specialize (IH _ _ _ _ _ Sr). lia.
    + lia.
    + lia.
Qed.

Lemma poll_le g : forall f, le_inv g f.
Proof.
  induction f as [r|p gt ph k IH|kd cs IH|kd done cs IH|f1 IH|p f1 IH] using fut_ind'; intros n f' n' l Pf.
  - cbn in Pf. injection Pf as <- <- <-. lia.
  - rewrite poll_FRes in Pf. cbn [nres]. destruct ph as [|id].
    + destruct gt.
      * injection Pf as <- <- <-. cbn [nres]. lia.
      * destruct (poll g k n) as [[k' n1] l1] eqn:Pk. injection Pf as <- <- <-. specialize (IH _ _ _ _ Pk). lia.
    + destruct (opened g id).
      * destruct (poll g k n) as [[k' n1] l1] eqn:Pk. injection Pf as <- <- <-. specialize (IH _ _ _ _ Pk). lia.
      * injection Pf as <- <- <-. cbn [nres]. lia.
  - rewrite poll_FAll in Pf. destruct (walk (poll g) cs n) as [[[cs' e] n1] l1] eqn:W.
    pose proof (walk_le g cs IH _ _ _ _ _ W) as H. cbn [nres].
    destruct e as [p|]; [|destruct (all_done cs')]; injection Pf as <- <- <-; cbn [nres]; lia.
  - rewrite poll_FSeq in Pf. cbn [nres]. exact (seq_le g kd cs IH _ _ _ _ _ Pf).
  - rewrite poll_FCatch in Pf. destruct (poll g f1 n) as [[f2 n1] l1] eqn:P1. specialize (IH _ _ _ _ P1).
    destruct f2 as [[v|p]| | | | |]; injection Pf as <- <- <-; cbn [nres] in *; lia.
  - rewrite poll_FMapErr in Pf. destruct (poll g f1 n) as [[f2 n1] l1] eqn:P1. specialize (IH _ _ _ _ P1).
    destruct f2 as [[v|p0]| | | | |]; injection Pf as <- <- <-; cbn [nres] in *; lia.
Qed.

(* opening a gate that is waiting makes progress *)
Definition lt_inv (g0 : nat) (f : fut) : Prop :=
  forall n f' n' l, live f = true -> In g0 (waiting f) -> poll (Some g0) f n = (f', n', l) ->
    (nres f' < nres f)%nat.

Lemma waiting_nres f : waiting f <> [] -> (1 <= nres f)%nat.
Proof.
  induction f as [r|p gt ph k IH|kd cs IH|kd done cs IH|f1 IH|p f1 IH] using fut_ind'; cbn [waiting nres]; intros W.
  - now destruct W.
  - lia.
  - induction IH as [|c r Hc Hr IHr]; [now destruct W|]. nsum.
    destruct (waiting c) eqn:Wc.
    + cbn in W. specialize (IHr W). lia.
    + assert (1 <= nres c)%nat by (apply Hc; discriminate). lia.
  - destruct cs as [|c r]; [now destruct W|]. inversion IH; subst. nsum.
    assert (1 <= nres c)%nat by auto. lia.
  - auto.
  - auto.
Qed.

Lemma walk_lt g0 cs :
  Forall (lt_inv g0) cs ->
  forallb (fun c => live c || is_val c) cs = true -> In g0 (flat_map waiting cs) ->
  forall n cs' n' l, walk (poll (Some g0)) cs n = (cs', None, n', l) ->
    (list_sum (map nres cs') < list_sum (map nres cs))%nat.
Proof.
  induction 1 as [|c r Hc Hr IH]; intros F I n cs' n' l W.
  - destruct I.
  - cbn [forallb] in F. apply andb_prop in F as [Fc Fr].
    apply walk_cons_cases in W as (c' & n1 & l1 & Pc & [(p & _ & _ & E & _)|(_ & r' & l2 & Wr & -> & ->)]); [discriminate|].
    pose proof (poll_le _ c _ _ _ _ Pc) as Lc.
    assert (Forall (le_inv (Some g0)) r) as Ler by (apply Forall_forall; intros; apply poll_le).
    pose proof (walk_le _ r Ler _ _ _ _ _ Wr) as Lr. nsum.
    apply in_app_or in I as [I|I].
    + assert (live c = true).
      { destruct (live c); [reflexivity|]. cbn in Fc. destruct c as [[v|p]| | | | |]; try discriminate. destruct I. }
      specialize (Hc _ _ _ _ H I Pc). lia.
    + specialize (IH Fr I _ _ _ _ Wr). lia.
Qed.

Lemma poll_lt g0 : forall f, lt_inv g0 f.
Proof.
  induction f as [r|p gt ph k IH|kd cs IH|kd done cs IH|f1 IH|p f1 IH] using fut_ind'; intros n f' n' l L I Pf.
  - discriminate.
  - cbn [live waiting] in L, I. destruct ph as [|id]; [discriminate|]. destruct I as [<-|[]].
    rewrite poll_FRes in Pf. cbn [opened] in Pf. rewrite Nat.eqb_refl in Pf.
    destruct (poll (Some id) k n) as [[k' n1] l1] eqn:Pk. injection Pf as <- <- <-.
    pose proof (poll_le _ k _ _ _ _ Pk). cbn [nres]. lia.
  - cbn [live waiting] in L, I. apply andb_prop in L as [F _].
    assert (1 <= nres (FAll kd cs))%nat as Pos.
    { apply waiting_nres. cbn [waiting]. intros Z. rewrite Z in I. destruct I. }
    rewrite poll_FAll in Pf. destruct (walk (poll (Some g0)) cs n) as [[[cs' e] n1] l1] eqn:W.
    destruct e as [p|]; [injection Pf as <- <- <-; cbn [nres] in *; lia|].
    pose proof (walk_lt g0 cs IH F I _ _ _ _ W) as H.
    destruct (all_done cs'); injection Pf as <- <- <-; cbn [nres] in *; lia.
  - cbn [live waiting] in L, I. destruct cs as [|c r]; [discriminate|]. inversion IH as [|? ? Hc Hr]; subst.
    rewrite poll_FSeq in Pf.
    apply seq_cons_cases in Pf as (c' & n1 & l1 & Pc & [(v & l2 & -> & Sr & ->)|[(p & -> & -> & -> & ->)|(_ & -> & -> & ->)]]);
      specialize (Hc _ _ _ _ L I Pc); nsum.
    + assert (Forall (le_inv (Some g0)) r) as Ler by (apply Forall_forall; intros; apply poll_le).
      pose proof (seq_le _ kd r Ler _ _ _ _ _ Sr). nsum. lia.
    + lia.
    + lia.
  - cbn [live waiting] in L, I. rewrite poll_FCatch in Pf. destruct (poll (Some g0) f1 n) as [[f2 n1] l1] eqn:P1.
    specialize (IH _ _ _ _ L I P1).
    destruct f2 as [[v|p]| | | | |]; injection Pf as <- <- <-; cbn [nres] in *; lia.
  - cbn [live waiting] in L, I. rewrite poll_FMapErr in Pf. destruct (poll (Some g0) f1 n) as [[f2 n1] l1] eqn:P1.
    specialize (IH _ _ _ _ L I P1).
    destruct f2 as [[v|p0]| | | | |]; injection Pf as <- <- <-; cbn [nres] in *; lia.
Qed.

Lemma complete_from k : forall f n l, (nres f <= k)%nat -> settled f ->
  exists s f' n' l', run_st s (f, n, l) = (f', n', l') /\ is_done f' = true.
Proof.
  induction k as [|k IH]; intros f n l Hk St.
  - destruct St as [D|L]; [exists [], f, n, l; auto|].
    pose proof (waiting_nres f (live_waiting f L)). lia.
  - destruct St as [D|L]; [exists [], f, n, l; auto|].
    destruct (waiting f) as [|g0 w] eqn:Wf; [now destruct (live_waiting f L)|].
    destruct (poll (Some g0) f n) as [[f1 n1] l1] eqn:P1.
    assert (In g0 (waiting f)) as I by (rewrite Wf; now left).
    pose proof (poll_lt g0 f _ _ _ _ L I P1) as Lt.
    destruct (IH f1 n1 (l ++ l1)) as (s & f' & n' & l' & R & D); [lia|exact (poll_settled _ _ _ _ _ _ P1)|].
    exists (g0 :: s), f', n', l'. split; [|exact D]. cbn [run_st]. now rewrite P1.
Qed.

Theorem fair_schedule_exists t : exists s r, run s t = Some r.
Proof.
  unfold run, run_log, start. destruct (poll None t 0) as [[f0 n0] l0] eqn:P0.
  destruct (complete_from (nres f0) f0 n0 l0 (le_n _) (poll_settled _ _ _ _ _ _ P0)) as (s & f' & n' & l' & R & D).
  exists s. rewrite R. destruct f' as [[v|p]| | | | |]; try discriminate; cbn; eauto.
Qed.

(* SchedProofs.v — theorems about the scheduler model Sched.v, for ALL future
   trees and ALL schedules (no model definitions here). *)
From AG Require Import Sched.
From Coq Require Import Permutation.
Open Scope N_scope.

(* ------------------------------------------------------ induction on trees --- *)
Section FutInd.
  Variable P : fut -> Prop.
  Hypothesis HDone : forall r, P (FDone r).
  Hypothesis HRes : forall p g ph k, P k -> P (FRes p g ph k).
  Hypothesis HAll : forall kd cs, Forall P cs -> P (FAll kd cs).
  Hypothesis HSeq : forall kd done cs, Forall P cs -> P (FSeq kd done cs).
  Hypothesis HCatch : forall f, P f -> P (FCatch f).
  Hypothesis HMapErr : forall p f, P f -> P (FMapErr p f).

  Fixpoint fut_ind' (f : fut) : P f :=
    match f with
    | FDone r => HDone r
    | FRes p g ph k => HRes p g ph k (fut_ind' k)
    | FAll kd cs =>
        HAll kd cs ((fix go (l : list fut) : Forall P l :=
                       match l with [] => Forall_nil P | c :: r => Forall_cons c (fut_ind' c) (go r) end) cs)
    | FSeq kd done cs =>
        HSeq kd done cs ((fix go (l : list fut) : Forall P l :=
                            match l with [] => Forall_nil P | c :: r => Forall_cons c (fut_ind' c) (go r) end) cs)
    | FCatch f1 => HCatch f1 (fut_ind' f1)
    | FMapErr p f1 => HMapErr p f1 (fut_ind' f1)
    end.
End FutInd.

(* unfolding equations *)
Lemma poll_FAll g kd cs n :
  poll g (FAll kd cs) n =
  let '(cs', e, n', l) := walk (poll g) cs n in
  match e with
  | Some p => (FDone (IFail p), n', l)
  | None => match all_done cs' with
            | Some vs => (FDone (IVal (build_val kd vs)), n', l)
            | None => (FAll kd cs', n', l)
            end
  end.
Proof. reflexivity. Qed.
Lemma poll_FSeq g kd done cs n : poll g (FSeq kd done cs) n = seq (poll g) kd done cs n.
Proof. reflexivity. Qed.
Lemma poll_FCatch g f1 n :
  poll g (FCatch f1) n =
  let '(f', n', l) := poll g f1 n in
  match f' with
  | FDone (IVal v) => (FDone (IVal v), n', l)
  | FDone (IFail p) => (FDone (IVal VNull), n', l ++ [IErr p])
  | _ => (FCatch f', n', l)
  end.
Proof. reflexivity. Qed.
Lemma poll_FMapErr g p f1 n :
  poll g (FMapErr p f1) n =
  let '(f', n', l) := poll g f1 n in
  match f' with
  | FDone (IVal v) => (FDone (IVal v), n', l)
  | FDone (IFail _) => (FDone (IFail p), n', l)
  | _ => (FMapErr p f', n', l)
  end.
Proof. reflexivity. Qed.
Lemma poll_FRes g p gated ph k n :
  poll g (FRes p gated ph k) n =
  match ph with
  | PNew =>
      if gated then (FRes p gated (PWait n) k, S n, [IStart p])
      else let '(k', n', l) := poll g k n in (k', n', IStart p :: IEnd p :: l)
  | PWait id =>
      if opened g id then let '(k', n', l) := poll g k n in (k', n', IEnd p :: l)
      else (FRes p gated ph k, n, [])
  end.
Proof. reflexivity. Qed.
Lemma walk_cons pl c r n :
  walk pl (c :: r) n =
  let '(c', n1, l1) := pl c n in
  match c' with
  | FDone (IFail p) => (c' :: r, Some p, n1, l1)
  | _ => let '(r', e, n2, l2) := walk pl r n1 in (c' :: r', e, n2, l1 ++ l2)
  end.
Proof. reflexivity. Qed.
Lemma seq_cons pl kd done c r n :
  seq pl kd done (c :: r) n =
  let '(c', n1, l1) := pl c n in
  match c' with
  | FDone (IVal v) => let '(f, n2, l2) := seq pl kd (done ++ [v]) r n1 in (f, n2, l1 ++ l2)
  | FDone (IFail p) => (FDone (IFail p), n1, l1)
  | _ => (FSeq kd done (c' :: r), n1, l1)
  end.
Proof. reflexivity. Qed.

Lemma den_FAll kd cs :
  den (FAll kd cs) = match den_list den cs [] with inl vs => IVal (build_val kd vs) | inr p => IFail p end.
Proof. reflexivity. Qed.
Lemma den_FSeq kd done cs :
  den (FSeq kd done cs) = match den_list den cs done with inl vs => IVal (build_val kd vs) | inr p => IFail p end.
Proof. reflexivity. Qed.
Lemma den_list_cons dn c r acc :
  den_list dn (c :: r) acc = match dn c with IVal v => den_list dn r (acc ++ [v]) | IFail p => inr p end.
Proof. reflexivity. Qed.

Definition lval (x : list value + path) : option (list value) :=
  match x with inl vs => Some vs | inr _ => None end.

Lemma dvalue_den_FAll kd cs :
  dvalue (den (FAll kd cs)) = option_map (build_val kd) (lval (den_list den cs [])).
Proof. rewrite den_FAll. destruct (den_list den cs []); reflexivity. Qed.
Lemma dvalue_den_FSeq kd done cs :
  dvalue (den (FSeq kd done cs)) = option_map (build_val kd) (lval (den_list den cs done)).
Proof. rewrite den_FSeq. destruct (den_list den cs done); reflexivity. Qed.

Lemma den_FCatch_dv x :
  dvalue (den (FCatch x)) = Some (match dvalue (den x) with Some v => v | None => VNull end).
Proof. cbn [den]. destruct (den x); reflexivity. Qed.
Lemma den_FMapErr_dv p x : dvalue (den (FMapErr p x)) = dvalue (den x).
Proof. cbn [den]. destruct (den x); reflexivity. Qed.

Lemma all_done_den cs : forall vs acc, all_done cs = Some vs -> den_list den cs acc = inl (acc ++ vs).
Proof.
  induction cs as [|c r IH]; intros vs acc H.
  - cbn in H. injection H as <-. cbn. now rewrite app_nil_r.
  - cbn [all_done] in H. destruct c as [[v|p]| | | | |]; try discriminate.
    destruct (all_done r) as [l|] eqn:E; [|discriminate]. injection H as <-.
    rewrite den_list_cons. cbn [den]. rewrite (IH l (acc ++ [v]) eq_refl).
    now rewrite <- app_assoc.
Qed.

(* ------------------------------------------------------------ (a) the data --- *)
(* One poll never changes whether a future will succeed nor the value it will
   succeed with. *)
Definition data_inv (g : option nat) (f : fut) : Prop :=
  forall n f' n' l, poll g f n = (f', n', l) -> dvalue (den f') = dvalue (den f).

Lemma walk_data g cs :
  Forall (data_inv g) cs ->
  forall n acc cs' e n' l, walk (poll g) cs n = (cs', e, n', l) ->
    match e with
    | Some _ => lval (den_list den cs acc) = None
    | None => lval (den_list den cs' acc) = lval (den_list den cs acc)
    end.
Proof.
  induction 1 as [|c r Hc Hr IH]; intros n acc cs' e n' l W.
  - cbn in W. injection W as <- <- <- <-. reflexivity.
  - rewrite walk_cons in W. destruct (poll g c n) as [[c' n1] l1] eqn:Pc.
    specialize (Hc _ _ _ _ Pc).
    assert (Hgen : forall r' e n2 l2, walk (poll g) r n1 = (r', e, n2, l2) ->
                   (c' :: r', e, n2, l1 ++ l2) = (cs', e, n', l) -> e = e ->
                   match e with
                   | Some _ => lval (den_list den (c :: r) acc) = None
                   | None => lval (den_list den (c' :: r') acc) = lval (den_list den (c :: r) acc)
                   end).
    { intros r' e0 n2 l2 Wr _ _. rewrite !den_list_cons.
      destruct (den c') as [v'|p'] eqn:Dc'; destruct (den c) as [v|p] eqn:Dc; cbn in Hc; try discriminate.
      - injection Hc as ->. exact (IH _ (acc ++ [v]) _ _ _ _ Wr).
      - destruct e0; reflexivity. }
    destruct c' as [[v|p]| | | | |];
      try (destruct (walk (poll g) r n1) as [[[r' e0] n2] l2] eqn:Wr; injection W as <- <- <- <-;
           exact (Hgen _ _ _ _ eq_refl eq_refl eq_refl)).
    injection W as <- <- <- <-. rewrite den_list_cons.
    cbn in Hc. destruct (den c); [discriminate|reflexivity].
Qed.

Lemma seq_data g kd cs :
  Forall (data_inv g) cs ->
  forall done n f' n' l, seq (poll g) kd done cs n = (f', n', l) ->
    dvalue (den f') = option_map (build_val kd) (lval (den_list den cs done)).
Proof.
  induction 1 as [|c r Hc Hr IH]; intros done n f' n' l Sq.
  - cbn in Sq. injection Sq as <- <- <-. reflexivity.
  - rewrite seq_cons in Sq. destruct (poll g c n) as [[c' n1] l1] eqn:Pc.
    specialize (Hc _ _ _ _ Pc). rewrite den_list_cons.
    assert (Hpend : f' = FSeq kd done (c' :: r) ->
                    dvalue (den f') = option_map (build_val kd)
                      (lval match den c with IVal v => den_list den r (done ++ [v]) | IFail p => inr p end)).
    { intros ->. rewrite dvalue_den_FSeq, den_list_cons.
      destruct (den c') as [v'|p'] eqn:Dc'; destruct (den c) as [v|p] eqn:Dc; cbn in Hc; try discriminate.
      - injection Hc as ->. reflexivity.
      - reflexivity. }
    destruct c' as [[v|p]| | | | |]; try (injection Sq as <- <- <-; exact (Hpend eq_refl)).
    + destruct (seq (poll g) kd (done ++ [v]) r n1) as [[f2 n2] l2] eqn:Sr. injection Sq as <- <- <-.
      cbn in Hc. destruct (den c) as [v0|]; [|discriminate]. injection Hc as <-.
      exact (IH _ _ _ _ _ Sr).
    + injection Sq as <- <- <-. cbn in Hc. destruct (den c); [discriminate|reflexivity].
Qed.

Lemma poll_data g : forall f, data_inv g f.
Proof.
  induction f as [r|p gt ph k IH|kd cs IH|kd done cs IH|f1 IH|p f1 IH] using fut_ind'; intros n f' n' l Pf.
  - cbn in Pf. injection Pf as <- <- <-. reflexivity.
  - rewrite poll_FRes in Pf. destruct ph as [|id].
    + destruct gt.
      * injection Pf as <- <- <-. reflexivity.
      * destruct (poll g k n) as [[k' n1] l1] eqn:Pk. injection Pf as <- <- <-. exact (IH _ _ _ _ Pk).
    + destruct (opened g id).
      * destruct (poll g k n) as [[k' n1] l1] eqn:Pk. injection Pf as <- <- <-. exact (IH _ _ _ _ Pk).
      * injection Pf as <- <- <-. reflexivity.
  - rewrite poll_FAll in Pf. destruct (walk (poll g) cs n) as [[[cs' e] n1] l1] eqn:W.
    pose proof (walk_data g cs IH n [] _ _ _ _ W) as HW. rewrite dvalue_den_FAll.
    destruct e as [p|].
    + injection Pf as <- <- <-. rewrite HW. reflexivity.
    + destruct (all_done cs') as [vs|] eqn:AD.
      * injection Pf as <- <- <-. rewrite <- HW, (all_done_den _ _ [] AD). reflexivity.
      * injection Pf as <- <- <-. rewrite dvalue_den_FAll, HW. reflexivity.
  - rewrite poll_FSeq in Pf. rewrite dvalue_den_FSeq. exact (seq_data g kd cs IH _ _ _ _ _ Pf).
  - rewrite poll_FCatch in Pf. destruct (poll g f1 n) as [[f2 n1] l1] eqn:P1.
    specialize (IH _ _ _ _ P1). rewrite den_FCatch_dv, <- IH.
    destruct f2 as [[v|p]| | | | |]; injection Pf as <- <- <-; try rewrite den_FCatch_dv; reflexivity.
  - rewrite poll_FMapErr in Pf. destruct (poll g f1 n) as [[f2 n1] l1] eqn:P1.
    specialize (IH _ _ _ _ P1). rewrite den_FMapErr_dv, <- IH.
    destruct f2 as [[v|p0]| | | | |]; injection Pf as <- <- <-; try rewrite den_FMapErr_dv; reflexivity.
Qed.

Lemma run_st_data s : forall f n l f' n' l',
  run_st s (f, n, l) = (f', n', l') -> dvalue (den f') = dvalue (den f).
Proof.
  induction s as [|g s IH]; intros f n l f' n' l' R.
  - cbn in R. now injection R as <- <- <-.
  - cbn [run_st] in R. destruct (poll (Some g) f n) as [[f1 n1] l1] eqn:P1.
    rewrite (IH _ _ _ _ _ _ R). exact (poll_data _ _ _ _ _ _ P1).
Qed.

Lemma run_log_data s t f n l : run_log s t = (f, n, l) -> dvalue (den f) = dvalue (den t).
Proof.
  unfold run_log, start. destruct (poll None t 0) as [[f0 n0] l0] eqn:P0. intros R.
  rewrite (run_st_data _ _ _ _ _ _ _ R). exact (poll_data _ _ _ _ _ _ P0).
Qed.

(* (a): whatever the schedule, a completed run answers the data read off the tree *)
Theorem run_data s t r : run s t = Some r -> sr_data r = ref_data t.
Proof.
  unfold run, resp_of, ref_data. destruct (run_log s t) as [[f n] l] eqn:R.
  pose proof (run_log_data _ _ _ _ _ R) as H.
  destruct f as [[v|p]| | | | |]; try discriminate; intros E; injection E as <-; cbn in *;
    destruct (den t); cbn in H; try discriminate; try injection H as <-; reflexivity.
Qed.

Theorem data_schedule_independent t s1 s2 r1 r2 :
  run s1 t = Some r1 -> run s2 t = Some r2 -> sr_data r1 = sr_data r2.
Proof. intros H1 H2. rewrite (run_data _ _ _ H1), (run_data _ _ _ H2). reflexivity. Qed.

(* ------------------------------------------------- case analysis of one step --- *)
Lemma walk_cons_cases pl c r n cs' e n' l :
  walk pl (c :: r) n = (cs', e, n', l) ->
  exists c' n1 l1, pl c n = (c', n1, l1) /\
    ((exists p, c' = FDone (IFail p) /\ cs' = c' :: r /\ e = Some p /\ n' = n1 /\ l = l1) \/
     ((forall p, c' <> FDone (IFail p)) /\
      exists r' l2, walk pl r n1 = (r', e, n', l2) /\ cs' = c' :: r' /\ l = l1 ++ l2)).
Proof.
  rewrite walk_cons. destruct (pl c n) as [[c' n1] l1]. intros W. exists c', n1, l1. split; [reflexivity|].
  destruct c' as [[v|p]| | | | |];
    try (right; split; [intros p0; discriminate|];
         destruct (walk pl r n1) as [[[r' e0] n2] l2]; injection W as <- <- <- <-; eauto).
  left. exists p. injection W as <- <- <- <-. auto.
Qed.

Lemma seq_cons_cases pl kd done c r n f' n' l :
  seq pl kd done (c :: r) n = (f', n', l) ->
  exists c' n1 l1, pl c n = (c', n1, l1) /\
    ((exists v l2, c' = FDone (IVal v) /\ seq pl kd (done ++ [v]) r n1 = (f', n', l2) /\ l = l1 ++ l2) \/
     (exists p, c' = FDone (IFail p) /\ f' = FDone (IFail p) /\ n' = n1 /\ l = l1) \/
     ((forall x, c' <> FDone x) /\ f' = FSeq kd done (c' :: r) /\ n' = n1 /\ l = l1)).
Proof.
  rewrite seq_cons. destruct (pl c n) as [[c' n1] l1]. intros W. exists c', n1, l1. split; [reflexivity|].
  destruct c' as [[v|p]| | | | |];
    try (right; right; split; [intros x0; discriminate|]; injection W as <- <- <-; auto).
  - left. destruct (seq pl kd (done ++ [v]) r n1) as [[f2 n2] l2] eqn:Sr. injection W as <- <- <-.
    exists v, l2. rewrite Sr. repeat split.
  - right; left. injection W as <- <- <-. exists p. repeat split.
Qed.

Lemma errs_of_app a b : errs_of (a ++ b) = errs_of a ++ errs_of b.
Proof. unfold errs_of. apply flat_map_app. Qed.
Lemma evs_of_app a b : evs_of (a ++ b) = evs_of a ++ evs_of b.
Proof. unfold evs_of. apply filter_app. Qed.

(* --------------------------------------------------------- quiet subtrees --- *)
Lemma quiet_den_list cs :
  Forall (fun c => quiet c = true -> exists v, den c = IVal v) cs ->
  forallb quiet cs = true -> forall acc, exists vs, den_list den cs acc = inl vs.
Proof.
  induction 1 as [|c r Hc Hr IH]; intros Q acc.
  - eexists; reflexivity.
  - cbn [forallb] in Q. apply andb_prop in Q as [Qc Qr]. destruct (Hc Qc) as [v Dv].
    rewrite den_list_cons, Dv. apply IH, Qr.
Qed.

Lemma quiet_den f : quiet f = true -> exists v, den f = IVal v.
Proof.
  induction f as [r|p gt ph k IH|kd cs IH|kd done cs IH|f1 IH|p f1 IH] using fut_ind'; intros Q.
  - destruct r; [eauto|discriminate].
  - cbn [den]. apply IH, Q.
  - rewrite den_FAll. destruct (quiet_den_list cs IH Q []) as [vs ->]. eauto.
  - rewrite den_FSeq. destruct (quiet_den_list cs IH Q done) as [vs ->]. eauto.
  - cbn [den]. destruct (IH Q) as [v ->]. eauto.
  - cbn [den]. destruct (IH Q) as [v ->]. eauto.
Qed.

Lemma quiet_not_fails f : quiet f = true -> failsb f = false.
Proof. intros Q. unfold failsb. destruct (quiet_den f Q) as [v ->]. reflexivity. Qed.

Lemma quiet_derrs f : quiet f = true -> derrs f = [].
Proof.
  induction f as [r|p gt ph k IH|kd cs IH|kd done cs IH|f1 IH|p f1 IH] using fut_ind'; intros Q.
  - reflexivity.
  - cbn [derrs]. apply IH, Q.
  - cbn [derrs]. cbn [quiet] in Q. induction IH as [|c r Hc Hr IHr]; [reflexivity|].
    cbn [forallb] in Q. apply andb_prop in Q as [Qc Qr]. cbn [flat_map]. rewrite (Hc Qc), (IHr Qr). reflexivity.
  - cbn [derrs]. cbn [quiet] in Q. induction IH as [|c r Hc Hr IHr]; [reflexivity|].
    cbn [forallb] in Q. apply andb_prop in Q as [Qc Qr]. cbn [derrs_seq]. rewrite (Hc Qc).
    destruct (quiet_den c Qc) as [v ->]. apply IHr, Qr.
  - cbn [derrs]. cbn [quiet] in Q. rewrite (IH Q). destruct (quiet_den f1 Q) as [v ->]. reflexivity.
  - cbn [derrs]. apply IH, Q.
Qed.

Definition quiet_inv (g : option nat) (f : fut) : Prop :=
  forall n f' n' l, quiet f = true -> poll g f n = (f', n', l) -> quiet f' = true /\ errs_of l = [].

Lemma all_done_quiet cs vs : all_done cs = Some vs -> forallb quiet cs = true.
Proof.
  revert vs. induction cs as [|c r IH]; intros vs H; [reflexivity|].
  cbn [all_done] in H. destruct c as [[v|p]| | | | |]; try discriminate.
  destruct (all_done r) eqn:E; [|discriminate]. cbn. eauto.
Qed.

Lemma walk_quiet g cs :
  Forall (quiet_inv g) cs -> forallb quiet cs = true ->
  forall n cs' e n' l, walk (poll g) cs n = (cs', e, n', l) ->
    e = None /\ forallb quiet cs' = true /\ errs_of l = [].
Proof.
  induction 1 as [|c r Hc Hr IH]; intros Q n cs' e n' l W.
  - cbn in W. injection W as <- <- <- <-. auto.
  - cbn [forallb] in Q. apply andb_prop in Q as [Qc Qr].
    apply walk_cons_cases in W as (c' & n1 & l1 & Pc & [(p & -> & _)|(_ & r' & l2 & Wr & -> & ->)]).
    + destruct (Hc _ _ _ _ Qc Pc) as [Q' _]. discriminate.
    + destruct (Hc _ _ _ _ Qc Pc) as [Q' E1]. destruct (IH Qr _ _ _ _ _ Wr) as (-> & Q2 & E2).
      rewrite errs_of_app, E1, E2. cbn [forallb]. rewrite Q', Q2. auto.
Qed.

Lemma seq_quiet g kd cs :
  Forall (quiet_inv g) cs -> forallb quiet cs = true ->
  forall done n f' n' l, seq (poll g) kd done cs n = (f', n', l) -> quiet f' = true /\ errs_of l = [].
Proof.
  induction 1 as [|c r Hc Hr IH]; intros Q done n f' n' l W.
  - cbn in W. injection W as <- <- <-. auto.
  - cbn [forallb] in Q. apply andb_prop in Q as [Qc Qr].
    apply seq_cons_cases in W as (c' & n1 & l1 & Pc & [(v & l2 & -> & Sr & ->)|[(p & -> & _)|(_ & -> & -> & ->)]]);
      destruct (Hc _ _ _ _ Qc Pc) as [Q' E1].
    + destruct (IH Qr _ _ _ _ _ Sr) as [Q2 E2]. rewrite errs_of_app, E1, E2. auto.
    + discriminate.
    + cbn [quiet forallb]. rewrite Q', Qr. auto.
Qed.

Lemma poll_quiet g : forall f, quiet_inv g f.
Proof.
  induction f as [r|p gt ph k IH|kd cs IH|kd done cs IH|f1 IH|p f1 IH] using fut_ind'; intros n f' n' l Q Pf.
  - cbn in Pf. injection Pf as <- <- <-. auto.
  - rewrite poll_FRes in Pf. cbn [quiet] in Q. destruct ph as [|id].
    + destruct gt.
      * injection Pf as <- <- <-. auto.
      * destruct (poll g k n) as [[k' n1] l1] eqn:Pk. injection Pf as <- <- <-. exact (IH _ _ _ _ Q Pk).
    + destruct (opened g id).
      * destruct (poll g k n) as [[k' n1] l1] eqn:Pk. injection Pf as <- <- <-. exact (IH _ _ _ _ Q Pk).
      * injection Pf as <- <- <-. auto.
  - rewrite poll_FAll in Pf. destruct (walk (poll g) cs n) as [[[cs' e] n1] l1] eqn:W.
    destruct (walk_quiet g cs IH Q _ _ _ _ _ W) as (-> & Q' & E).
    destruct (all_done cs'); injection Pf as <- <- <-; auto.
  - rewrite poll_FSeq in Pf. exact (seq_quiet g kd cs IH Q _ _ _ _ _ Pf).
  - rewrite poll_FCatch in Pf. destruct (poll g f1 n) as [[f2 n1] l1] eqn:P1.
    destruct (IH _ _ _ _ Q P1) as [Q' E].
    destruct f2 as [[v|p]| | | | |]; try discriminate; injection Pf as <- <- <-; auto.
  - rewrite poll_FMapErr in Pf. destruct (poll g f1 n) as [[f2 n1] l1] eqn:P1.
    destruct (IH _ _ _ _ Q P1) as [Q' E].
    destruct f2 as [[v|p0]| | | | |]; try discriminate; injection Pf as <- <- <-; auto.
Qed.

(* ExecProofs.v — the executor model with every deviation switched off
   computes the data of the specification's algorithm (C01 refinement). *)
From AG Require Import ExecCheck.
Open Scope N_scope.

Lemma bindo_ok {A B} (x : outcome A) (f : A -> outcome B) y :
  bindo x f = Ok y -> exists a, x = Ok a /\ f a = Ok y.
Proof. destruct x; cbn; try discriminate. intros H. eauto. Qed.

Ltac inv_bind H :=
  let a := fresh "a" in let Ha := fresh "Ha" in
  apply bindo_ok in H; destruct H as (a & Ha & H).

Definition strip (o : occ) : occ :=
  {| o_key := o_key o; o_name := o_name o; o_sels := o_sels o; o_iface := false |}.

Definition omap {A B} (f : A -> B) (x : outcome A) : outcome B :=
  match x with Ok a => Ok (f a) | Err c => Err c | Panic => Panic | OutOfFuel => OutOfFuel end.

Lemma omap_bindo {A B C} (f : B -> C) (x : outcome A) (g : A -> outcome B) :
  omap f (bindo x g) = bindo x (fun a => omap f (g a)).
Proof. destruct x; reflexivity. Qed.

Section Refine.
  Variable S : schema.
  Variable w : world.
  Variable frags : list (name * fragment).
  Variable vars : list (name * value).
  Variable vdefs : list vardef.

  Notation q0 := quirks_none.

  (* registry consistency: an object lists an interface exactly when the
     interface lists the object (what the derive macros register) *)
  Hypothesis wf_implements : forall rt c,
      mem c (implements_of S rt) =
      match tdef_of S c with Some (DInterface _ p) => mem rt p | _ => false end.

  Ltac fold_collect :=
    fold (s_collect S frags vars vdefs) (i_collect q0 S frags vars vdefs) in *.

  Lemma applies_eq c rt : applies_concrete q0 S c rt = applies_spec S c rt.
  Proof.
    unfold applies_concrete, applies_spec. cbn [q_union_cond quirks_none].
    rewrite wf_implements. destruct (name_eqb c rt); cbn [orb]; [reflexivity|].
    destruct (tdef_of S c) as [[| | | |]|]; cbn [orb]; try reflexivity.
    now rewrite orb_false_r.
  Qed.

  (* [st] is the runtime object itself or an abstract type it inhabits *)
  Definition st_ok (st rt : name) : Prop := st = rt \/ applies_spec S st rt = true.

  Lemma skipped_eq dirs : i_skipped q0 vars vdefs dirs = spec_skipped vars vdefs dirs.
  Proof. reflexivity. Qed.

  Lemma collect_eq n : forall st rt sels, st_ok st rt ->
      omap (map strip) (i_collect q0 S frags vars vdefs n st rt sels) = s_collect S frags vars vdefs n rt sels.
  Proof.
    induction n as [|n IH]; intros st rt sels Hst.
    - destruct sels; reflexivity.
    - destruct sels as [|s r]; [reflexivity|].
      cbn [i_collect s_collect]. fold_collect.
      rewrite skipped_eq.
      rewrite omap_bindo.
      assert (Hhead :
        omap (map strip)
          (match spec_skipped vars vdefs (sel_dirs s) with
           | Some true => Ok []
           | Some false =>
               match s with
               | SField al nm _ _ sub =>
                   Ok [{| o_key := key_of al nm; o_name := nm; o_sels := sub;
                          o_iface := negb (name_eqb st rt) && is_iface S st |}]
               | SSpread nm _ =>
                   match assoc nm frags with
                   | Some fr =>
                       if applies_concrete q0 S (fr_cond fr) rt then i_collect q0 S frags vars vdefs n rt rt (fr_sels fr)
                       else if name_eqb (fr_cond fr) st then i_collect q0 S frags vars vdefs n st rt (fr_sels fr)
                       else Ok []
                   | None => Ok []
                   end
               | SInline (Some c) _ sub =>
                   if applies_concrete q0 S c rt then i_collect q0 S frags vars vdefs n rt rt sub
                   else if name_eqb c st then i_collect q0 S frags vars vdefs n st rt sub
                   else Ok []
               | SInline None _ sub => i_collect q0 S frags vars vdefs n st rt sub
               end
           | None => Err 8
           end) =
        match spec_skipped vars vdefs (sel_dirs s) with
        | Some true => Ok []
        | Some false =>
            match s with
            | SField al nm _ _ sub =>
                Ok [{| o_key := key_of al nm; o_name := nm; o_sels := sub; o_iface := false |}]
            | SSpread nm _ =>
                match assoc nm frags with
                | Some fr => if applies_spec S (fr_cond fr) rt then s_collect S frags vars vdefs n rt (fr_sels fr) else Ok []
                | None => Ok []
                end
            | SInline c _ sub =>
                if match c with Some c => applies_spec S c rt | None => true end
                then s_collect S frags vars vdefs n rt sub else Ok []
            end
        | None => Err 8
        end).
      { destruct (spec_skipped vars vdefs (sel_dirs s)) as [[|]|]; try reflexivity.
        destruct s as [al nm args dirs sub|nm dirs|c dirs sub].
        - reflexivity.
        - destruct (assoc nm frags) as [fr|]; [|reflexivity].
          rewrite applies_eq. destruct (applies_spec S (fr_cond fr) rt) eqn:Ea.
          + apply IH. left; reflexivity.
          + destruct (name_eqb (fr_cond fr) st) eqn:Ec; [|reflexivity].
            exfalso. apply name_eqb_eq in Ec. destruct Hst as [->|Hst].
            * unfold applies_spec in Ea. rewrite Ec, name_eqb_refl in Ea. discriminate.
            * rewrite Ec in Ea. congruence.
        - destruct c as [c|].
          + rewrite applies_eq. destruct (applies_spec S c rt) eqn:Ea.
            * apply IH. left; reflexivity.
            * destruct (name_eqb c st) eqn:Ec; [|reflexivity].
              exfalso. apply name_eqb_eq in Ec. destruct Hst as [->|Hst].
              -- unfold applies_spec in Ea. rewrite Ec, name_eqb_refl in Ea. discriminate.
              -- rewrite Ec in Ea. congruence.
          + apply IH. exact Hst. }
      (* combine head and tail *)
      match goal with
      | |- bindo ?x _ = bindo ?y _ => remember x as X eqn:EX in *; remember y as Y eqn:EY in *
      end.
      clear EX EY. destruct X as [a| | |]; cbn [omap] in Hhead; subst Y; cbn [bindo]; try reflexivity.
      rewrite omap_bindo.
      specialize (IH st rt r Hst).
      destruct (i_collect q0 S frags vars vdefs n st rt r) as [b| | |]; cbn [omap] in IH; rewrite <- IH; cbn [bindo omap]; try reflexivity.
      now rewrite map_app.
  Qed.

  (* ---- grouping and merging --------------------------------------------- *)
  Lemma add_group_strip g o : add_group g (strip o) = add_group g o.
  Proof. induction g as [|[k [nm sels]] g IH]; cbn [add_group strip o_key o_name o_sels]; [reflexivity|]. now rewrite IH. Qed.

  Lemma group_strip l : group (map strip l) = group l.
  Proof.
    unfold group. generalize (@nil (name * (name * list selection))).
    induction l as [|o l IH]; intro acc; cbn [map fold_left]; [reflexivity|].
    rewrite add_group_strip. apply IH.
  Qed.

  Lemma add_group_keys g o :
    map fst (add_group g o) = if mem (o_key o) (map fst g) then map fst g else map fst g ++ [o_key o].
  Proof.
    induction g as [|[k [nm sels]] g IH]; cbn [add_group map fst mem app]; [reflexivity|].
    destruct (name_eqb k (o_key o)) eqn:E.
    - apply name_eqb_eq in E. subst k. now rewrite name_eqb_refl.
    - cbn [map fst]. rewrite IH.
      assert (name_eqb (o_key o) k = false) as ->.
      { destruct (name_eqb (o_key o) k) eqn:E'; [|reflexivity]. apply name_eqb_eq in E'. subst. now rewrite name_eqb_refl in E. }
      destruct (mem (o_key o) (map fst g)); reflexivity.
  Qed.

  Lemma nodup_snoc {A} (l : list A) x : NoDup l -> ~ In x l -> NoDup (l ++ [x]).
  Proof.
    induction l as [|y l IH]; intros Hn Hx; cbn [app].
    - constructor; [intros []|constructor].
    - inversion Hn as [|? ? Hy Hl]; subst. constructor.
      + intros Hin. apply in_app_or in Hin. destruct Hin as [Hin|[->|[]]]; [contradiction|].
        apply Hx. now left.
      + apply IH; [exact Hl|]. intros Hin. apply Hx. now right.
  Qed.

  Lemma add_group_nodup g o : NoDup (map fst g) -> NoDup (map fst (add_group g o)).
  Proof.
    intros H. rewrite add_group_keys. destruct (mem (o_key o) (map fst g)) eqn:E; [exact H|].
    apply nodup_snoc; [exact H|]. intros Hin. apply mem_In in Hin. congruence.
  Qed.

  Lemma group_nodup l : NoDup (map fst (group l)).
  Proof.
    unfold group.
    assert (H : forall acc, NoDup (map fst acc) -> NoDup (map fst (fold_left add_group l acc))).
    { induction l as [|o l IH]; intros acc Ha; cbn [fold_left]; [exact Ha|]. apply IH. now apply add_group_nodup. }
    apply H. constructor.
  Qed.

  (* inserting a fresh key appends *)
  Lemma insert_fresh : forall target fuel k v,
      ~ In k (map fst target) -> (length target < fuel)%nat ->
      insert_value fuel target k v = target ++ [(k, v)].
  Proof.
    induction target as [|[k' pv] r IH]; intros fuel k v Hk Hf.
    - destruct fuel; [inversion Hf|]. reflexivity.
    - destruct fuel as [|f']; [inversion Hf|]. cbn [insert_value app].
      assert (name_eqb k' k = false) as ->.
      { destruct (name_eqb k' k) eqn:E; [|reflexivity]. apply name_eqb_eq in E. subst. exfalso. apply Hk. now left. }
      f_equal. apply IH.
      + intros Hin. apply Hk. now right.
      + cbn [length] in Hf. apply Nat.succ_lt_mono. exact Hf.
  Qed.

  Lemma cvo_nodup fuel l : NoDup (map fst l) -> (length l <= fuel)%nat ->
      create_value_object fuel l = VObj l.
  Proof.
    intros Hn Hl. unfold create_value_object. f_equal.
    assert (H : forall l acc, NoDup (map fst (acc ++ l)) -> (length (acc ++ l) <= fuel)%nat ->
                fold_left (fun t kv => insert_value fuel t (fst kv) (snd kv)) l acc = acc ++ l).
    { clear. induction l as [|[k v] l IH]; intros acc Hn Hl; cbn [fold_left].
      - now rewrite app_nil_r.
      - cbn [fst snd]. rewrite insert_fresh.
        + rewrite IH; rewrite <- app_assoc; cbn [app]; [reflexivity|exact Hn|exact Hl].
        + rewrite map_app in Hn. cbn [map fst] in Hn. apply NoDup_remove_2 in Hn.
          intros Hin. apply Hn. apply in_or_app. now left.
        + rewrite app_length in Hl. cbn [length] in Hl. lia. }
    apply (H l []); assumption.
  Qed.

  (* ---- conformance facts ------------------------------------------------- *)
  Fixpoint wf_ty (t : ty) : Prop :=
    match t with
    | TNamed _ => True
    | TList t' => wf_ty t'
    | TNonNull t' => is_nonnull t' = false /\ wf_ty t'
    end.

  Lemma conforms_nonnull t' ov :
    is_nonnull t' = false -> conforms S w (TNonNull t') ov = true ->
    ov <> ONull /\ conforms S w t' ov = true.
  Proof.
    intros Hn H. destruct t' as [tn|t''|t'']; [| |discriminate Hn];
      destruct ov; cbn in H |- *; try discriminate H; (split; [discriminate|exact H]).
  Qed.

  Lemma conforms_list t' l :
    conforms S w (TList t') (OList l) = true -> Forall (fun x => conforms S w t' x = true) l.
  Proof.
    cbn. induction l as [|x l IH]; intros H; [constructor|].
    apply andb_true_iff in H. destruct H as [H1 H2]. constructor; [exact H1|now apply IH].
  Qed.

  Lemma conforms_ref tn k :
    conforms S w (TNamed tn) (ORef k) = true ->
    exists nt, node_ty w k = Some nt /\ inhabits S nt tn = true.
  Proof. cbn. destruct (node_ty w k) as [nt|]; [|discriminate]. eauto. Qed.

  Lemma inhabits_st_ok nt tn :
    inhabits S nt tn = true ->
    st_ok (match tdef_of S tn with Some (DObject _ _) => nt | _ => tn end) nt.
  Proof.
    unfold inhabits, st_ok, applies_spec.
    destruct (tdef_of S tn) as [[fs imp|fs poss|poss|k|vs]|] eqn:E; intros H; try discriminate H.
    - now left.
    - right. rewrite E, H. apply orb_true_r.
    - right. rewrite E, H. apply orb_true_r.
  Qed.

  (* ---- relations between implementation and specification results ---------- *)
  Definition rel_top (ri : ires) (rs : res) : Prop :=
    match ri, rs with
    | IVal v, RVal v' => v = v'
    | IFail _, RFail => True
    | _, _ => False
    end.
  (* inside a non-null wrapper: the implementation propagates, the
     specification's nullable completion yields null *)
  Definition rel_strict (ri : ires) (rs : res) : Prop :=
    match ri, rs with
    | IVal v, RVal v' => v = v' /\ v <> VNull
    | IFail _, RVal VNull => True
    | _, _ => False
    end.
  Definition rel_list {A} (ri : list A + path) (rs : option (list A)) : Prop :=
    match ri, rs with
    | inl l, Some l' => l = l'
    | inr _, None => True
    | _, _ => False
    end.
  Definition occ_grp (o : occ) (g : name * (name * list selection)) : Prop :=
    o_key o = fst g /\ o_name o = fst (snd g) /\ o_sels o = snd (snd g).

  Hypothesis wf_types : forall rt f t, obj_field_ty S rt f = Some t -> wf_ty t.

  Ltac fold_all :=
    fold (i_set q0 S w frags vars vdefs) (i_occs q0 S w frags vars vdefs) (i_field q0 S w frags vars vdefs)
         (i_comp q0 S w frags vars vdefs) (i_items q0 S w frags vars vdefs)
         (s_set S w frags vars vdefs) (s_groups S w frags vars vdefs) (s_field S w frags vars vdefs)
         (s_complete S w frags vars vdefs) (s_items S w frags vars vdefs) in *.

  Definition P_set (n : nat) : Prop := forall st rt nid sels p ri ei ti rs es ts,
      st_ok st rt ->
      i_set q0 S w frags vars vdefs n st rt nid sels p = Ok (ri, ei, ti) ->
      s_set S w frags vars vdefs n rt nid sels p = Ok (rs, es, ts) ->
      rel_top ri rs /\ (forall v, ri = IVal v -> exists l, v = VObj l).
  Definition P_occs (n : nat) : Prop := forall rt nid occs gs p ri ei ti rs es ts,
      Forall2 occ_grp occs gs ->
      i_occs q0 S w frags vars vdefs n rt nid occs p = Ok (ri, ei, ti) ->
      s_groups S w frags vars vdefs n rt nid gs p = Ok (rs, es, ts) ->
      rel_list ri rs /\ (forall l, ri = inl l -> map fst l = map fst gs /\ (length gs <= n)%nat).
  Definition P_field (n : nat) : Prop := forall rt nid o g p ri ei ti rs es ts,
      occ_grp o g ->
      i_field q0 S w frags vars vdefs n rt nid o p = Ok (ri, ei, ti) ->
      s_field S w frags vars vdefs n rt nid (fst g) (fst (snd g)) (snd (snd g)) p = Ok (rs, es, ts) ->
      rel_top ri rs.
  Definition P_comp (n : nat) : Prop := forall t ov sub p,
      wf_ty t -> conforms S w t ov = true ->
      (forall ri ei ti rs es ts,
          i_comp q0 S w frags vars vdefs n true t ov sub p = Ok (ri, ei, ti) ->
          s_complete S w frags vars vdefs n t ov sub p = Ok (rs, es, ts) -> rel_top ri rs) /\
      (is_nonnull t = false -> ov <> ONull ->
       forall ri ei ti rs es ts,
          i_comp q0 S w frags vars vdefs n false t ov sub p = Ok (ri, ei, ti) ->
          s_complete S w frags vars vdefs n t ov sub p = Ok (rs, es, ts) -> rel_strict ri rs).
  Definition P_items (n : nat) : Prop := forall t l i sub p ri ei ti rs es ts,
      wf_ty t -> Forall (fun x => conforms S w t x = true) l ->
      i_items q0 S w frags vars vdefs n t l i sub p = Ok (ri, ei, ti) ->
      s_items S w frags vars vdefs n t l i sub p = Ok (rs, es, ts) ->
      rel_list ri rs.

  Lemma leaf_nonnull ov :
    match ov with OInt _ | OFloat _ | OStr _ | OBool _ | OEnum _ => True | _ => False end ->
    leaf_value false ov <> VNull.
  Proof. destruct ov; cbn; intros H; try contradiction; discriminate. Qed.

  Lemma comp_step n : P_set n -> P_items n -> P_comp n -> P_comp (Datatypes.S n).
  Proof.
    intros IHset IHitems IHcomp t ov sub p Hwf Hc. split.
    - (* catching position *)
      intros ri ei ti rs es ts Hi Hs.
      cbn [i_comp] in Hi. cbn [s_complete] in Hs. fold_all.
      destruct t as [tn|t'|t'].
      + (* named *)
        destruct ov as [| |z|b|str0|b|e|k|l]; try (injection Hi as <- _ _; injection Hs as <- _ _; reflexivity).
        destruct (conforms_ref _ _ Hc) as (nt & Hnt & Hin). rewrite Hnt in Hi, Hs.
        inv_bind Hi. inv_bind Hs. destruct a as [[vi e1] t1]. destruct a0 as [[vs e2] t2].
        destruct (IHset _ _ _ _ _ _ _ _ _ _ _ (inhabits_st_ok _ _ Hin) Ha Ha0) as [Hr _].
        destruct vi as [v|ep]; destruct vs as [v'|]; cbn [rel_top] in Hr; try contradiction;
          cbn [catch_res] in Hi; injection Hi as <- _ _; injection Hs as <- _ _; cbn [rel_top]; congruence.
      + (* list *)
        destruct ov as [| |z|b|str0|b|e|k|l]; try (injection Hi as <- _ _; injection Hs as <- _ _; reflexivity).
        inv_bind Hi. inv_bind Hs. destruct a as [[vi e1] t1]. destruct a0 as [[vs e2] t2].
        pose proof (IHitems t' l 0 sub p _ _ _ _ _ _ Hwf (conforms_list _ _ Hc) Ha Ha0) as Hr.
        destruct vi as [lv|ep]; destruct vs as [lv'|]; cbn [rel_list] in Hr; try contradiction;
          cbn [catch_res] in Hi; injection Hi as <- _ _; injection Hs as <- _ _; cbn [rel_top]; congruence.
      + (* non-null *)
        destruct Hwf as [Hnn Hwf']. destruct (conforms_nonnull _ _ Hnn Hc) as [Hov Hc'].
        inv_bind Hs. destruct a as [[vs e2] t2].
        pose proof (proj2 (IHcomp t' ov sub p Hwf' Hc') Hnn Hov _ _ _ _ _ _ Hi Ha) as Hr.
        injection Hs as <- _ _.
        destruct ri as [v|ep]; destruct vs as [v'|]; cbn [rel_strict] in Hr; try contradiction.
        * destruct Hr as [-> Hv]. destruct v'; cbn [rel_top]; try reflexivity. contradiction.
        * destruct v'; try contradiction. exact I.
    - (* inside a non-null wrapper *)
      intros Hnn Hov ri ei ti rs es ts Hi Hs.
      cbn [i_comp] in Hi. cbn [s_complete] in Hs. fold_all.
      destruct t as [tn|t'|t']; [| |discriminate Hnn].
      + destruct ov as [| |z|b|str0|b|e|k|l]; try congruence;
          try (injection Hi as <- _ _; injection Hs as <- _ _; cbn; split; [reflexivity|discriminate]);
          try (cbn in Hc; discriminate Hc).
        destruct (conforms_ref _ _ Hc) as (nt & Hnt & Hin). rewrite Hnt in Hi, Hs.
        inv_bind Hi. inv_bind Hs. destruct a as [[vi e1] t1]. destruct a0 as [[vs e2] t2].
        destruct (IHset _ _ _ _ _ _ _ _ _ _ _ (inhabits_st_ok _ _ Hin) Ha Ha0) as [Hr Hobj].
        destruct vi as [v|ep]; destruct vs as [v'|]; cbn [rel_top] in Hr; try contradiction;
          cbn [catch_res] in Hi; injection Hi as <- _ _; injection Hs as <- _ _; cbn [rel_strict].
        * subst v'. split; [reflexivity|]. destruct (Hobj v eq_refl) as [l ->]. discriminate.
        * exact I.
      + destruct ov as [| |z|b|str0|b|e|k|l]; try congruence; try (cbn in Hc; discriminate Hc).
        inv_bind Hi. inv_bind Hs. destruct a as [[vi e1] t1]. destruct a0 as [[vs e2] t2].
        pose proof (IHitems t' l 0 sub p _ _ _ _ _ _ Hwf (conforms_list _ _ Hc) Ha Ha0) as Hr.
        destruct vi as [lv|ep]; destruct vs as [lv'|]; cbn [rel_list] in Hr; try contradiction;
          cbn [catch_res] in Hi; injection Hi as <- _ _; injection Hs as <- _ _; cbn [rel_strict].
        * subst. split; [reflexivity|discriminate].
        * exact I.
  Qed.

  Lemma items_nil n t i sub p ri ei ti rs es ts :
    i_items q0 S w frags vars vdefs n t [] i sub p = Ok (ri, ei, ti) ->
    s_items S w frags vars vdefs n t [] i sub p = Ok (rs, es, ts) -> rel_list ri rs.
  Proof. destruct n; cbn; intros Hi Hs; injection Hi as <- _ _; injection Hs as <- _ _; reflexivity. Qed.

  Lemma items_step n : P_comp n -> P_items n -> P_items (Datatypes.S n).
  Proof.
    intros IHcomp IHitems t l i sub p ri ei ti rs es ts Hwf Hall Hi Hs.
    destruct l as [|ov r]; [exact (items_nil _ _ _ _ _ _ _ _ _ _ _ Hi Hs)|].
    inversion Hall as [|? ? Hc Hr]; subst.
    cbn [i_items] in Hi. cbn [s_items] in Hs. fold_all.
    inv_bind Hi. inv_bind Hs. destruct a as [[ra ea] ta]. destruct a0 as [[rsa esa] tsa].
    pose proof (proj1 (IHcomp t ov sub (p ++ [PI i]) Hwf Hc) _ _ _ _ _ _ Ha Ha0) as Hrel.
    inv_bind Hs. destruct a as [[rb eb] tb].
    destruct ra as [v|ep]; destruct rsa as [v'|]; cbn [rel_top] in Hrel; try contradiction.
    - subst v'. inv_bind Hi. destruct a as [[rb' eb'] tb'].
      pose proof (IHitems t r (i + 1) sub p _ _ _ _ _ _ Hwf Hr Ha2 Ha1) as Hrl.
      injection Hi as <- _ _. injection Hs as <- _ _.
      destruct rb' as [lv|ep]; destruct rb as [lv'|]; cbn [rel_list] in Hrl |- *; try contradiction; [now subst|exact I].
    - injection Hi as <- _ _. injection Hs as <- _ _. exact I.
  Qed.

  Lemma field_step n : P_comp n -> P_field (Datatypes.S n).
  Proof.
    intros IHcomp rt nid o g p ri ei ti rs es ts (Hk & Hn & Hsel) Hi Hs.
    cbn [i_field] in Hi. cbn [s_field] in Hs. fold_all.
    rewrite Hk, Hn, Hsel in Hi.
    destruct (name_eqb (fst (snd g)) N_typename).
    - injection Hi as <- _ _. injection Hs as <- _ _. reflexivity.
    - destruct (obj_field_ty S rt (fst (snd g))) as [t|] eqn:Et; [|discriminate Hi].
      destruct (resolver_fails S w t (out w nid (fst (snd g)))) eqn:Ef.
      + cbn [q_field_err_parent quirks_none orb] in Hi.
        destruct (is_nonnull t); injection Hi as <- _ _; injection Hs as <- _ _; reflexivity.
      + assert (Hc : conforms S w t (out w nid (fst (snd g))) = true).
        { unfold resolver_fails in Ef. destruct (out w nid (fst (snd g))); try discriminate Ef;
            apply negb_false_iff in Ef; exact Ef. }
        inv_bind Hi. inv_bind Hs. destruct a as [[vi e1] t1]. destruct a0 as [[vs e2] t2].
        injection Hi as <- _ _. injection Hs as <- _ _.
        exact (proj1 (IHcomp t _ _ _ (wf_types _ _ _ Et) Hc) _ _ _ _ _ _ Ha Ha0).
  Qed.

  Lemma occs_nil n rt nid p ri ei ti rs es ts :
    i_occs q0 S w frags vars vdefs n rt nid [] p = Ok (ri, ei, ti) ->
    s_groups S w frags vars vdefs n rt nid [] p = Ok (rs, es, ts) ->
    rel_list ri rs /\ (forall l, ri = inl l -> map fst l = map fst (@nil (name * (name * list selection))) /\ (0 <= n)%nat).
  Proof.
    destruct n; cbn; intros Hi Hs; injection Hi as <- _ _; injection Hs as <- _ _;
      (split; [reflexivity|intros l Hl; injection Hl as <-; split; [reflexivity|lia]]).
  Qed.

  Lemma occs_step n : P_field n -> P_occs n -> P_occs (Datatypes.S n).
  Proof.
    intros IHfield IHoccs rt nid occs gs p ri ei ti rs es ts Hall Hi Hs.
    destruct Hall as [|o g occs' gs' Hog Hrest].
    - destruct (occs_nil _ _ _ _ _ _ _ _ _ _ Hi Hs) as [H1 H2]. split; [exact H1|].
      intros l Hl. destruct (H2 l Hl). split; [assumption|cbn; lia].
    - destruct g as [k [nm sub]].
      cbn [i_occs] in Hi. cbn [s_groups] in Hs. fold_all.
      inv_bind Hi. inv_bind Hs. destruct a as [[ra ea] ta]. destruct a0 as [[rsa esa] tsa].
      pose proof (IHfield rt nid o (k, (nm, sub)) p _ _ _ _ _ _ Hog Ha Ha0) as Hrel.
      inv_bind Hs. destruct a as [[rb eb] tb].
      destruct ra as [v|ep]; destruct rsa as [v'|]; cbn [rel_top] in Hrel; try contradiction.
      + subst v'. inv_bind Hi. destruct a as [[rb' eb'] tb'].
        destruct (IHoccs rt nid occs' gs' p _ _ _ _ _ _ Hrest Ha2 Ha1) as [Hrl Hkeys].
        injection Hi as <- _ _. injection Hs as <- _ _.
        destruct Hog as (Hk & _ & _). cbn [fst] in Hk.
        destruct rb' as [lv|ep]; destruct rb as [lv'|]; cbn [rel_list] in Hrl |- *; try contradiction.
        * subst lv'. split; [now rewrite Hk|]. intros l Hl. injection Hl as <-.
          destruct (Hkeys lv eq_refl) as [Hm Hlen]. cbn [map fst length]. rewrite Hk, Hm. split; [reflexivity|lia].
        * split; [exact I|]. intros l Hl. discriminate Hl.
      + injection Hi as <- _ _. injection Hs as <- _ _. split; [exact I|]. intros l Hl. discriminate Hl.
  Qed.

  Lemma occ_grp_map (f : occ -> occ) gs :
    (forall o, o_key (f o) = o_key o /\ o_name (f o) = o_name o /\ o_sels (f o) = o_sels o) ->
    Forall2 occ_grp
      (map f (map (fun g => {| o_key := fst g; o_name := fst (snd g); o_sels := snd (snd g); o_iface := false |}) gs)) gs.
  Proof.
    intros Hf. induction gs as [|g gs IH]; cbn [map]; constructor; [|exact IH].
    destruct (Hf {| o_key := fst g; o_name := fst (snd g); o_sels := snd (snd g); o_iface := false |}) as (H1 & H2 & H3).
    unfold occ_grp. rewrite H1, H2, H3. cbn. auto.
  Qed.

  Lemma set_step n : P_occs n -> P_set (Datatypes.S n).
  Proof.
    intros IHoccs st rt nid sels p ri ei ti rs es ts Hst Hi Hs.
    cbn [i_set] in Hi. cbn [s_set] in Hs. fold_all.
    inv_bind Hi. inv_bind Hs.
    pose proof (collect_eq n st rt sels Hst) as Hcol. rewrite Ha in Hcol. cbn [omap] in Hcol.
    rewrite Ha0 in Hcol. injection Hcol as Hcol. subst a0.
    rewrite group_strip in Hs.
    cbn [q_per_occurrence quirks_none] in Hi. unfold dedup_occs in Hi.
    inv_bind Hi. inv_bind Hs. destruct a0 as [[kv e1] t1]. destruct a1 as [[kvs e2] t2].
    match type of Ha1 with i_occs _ _ _ _ _ _ _ _ _ (map ?f _) _ = _ =>
      assert (Hall : Forall2 occ_grp (map f (map (fun g => {| o_key := fst g; o_name := fst (snd g); o_sels := snd (snd g); o_iface := false |}) (group a))) (group a))
        by (apply occ_grp_map; intros o; cbn; auto)
    end.
    destruct (IHoccs rt nid _ _ p _ _ _ _ _ _ Hall Ha1 Ha2) as [Hrl Hkeys].
    injection Hi as <- _ _. injection Hs as <- _ _.
    destruct kv as [l|ep]; destruct kvs as [l'|]; cbn [rel_list] in Hrl; try contradiction.
    - subst l'. destruct (Hkeys l eq_refl) as [Hm Hlen].
      assert (Hcvo : create_value_object n l = VObj l).
      { apply cvo_nodup.
        - rewrite Hm. apply group_nodup.
        - rewrite <- (map_length fst l), Hm, map_length. exact Hlen. }
      rewrite Hcvo. split; [reflexivity|]. intros v Hv. injection Hv as <-. eauto.
    - split; [exact I|]. intros v Hv. discriminate Hv.
  Qed.

  Theorem sim n : P_set n /\ P_occs n /\ P_field n /\ P_comp n /\ P_items n.
  Proof.
    induction n as [|n (IHset & IHoccs & IHfield & IHcomp & IHitems)].
    - split; [|split; [|split; [|split]]].
      + intros st rt nid sels p ri ei ti rs es ts _ Hi. discriminate Hi.
      + intros rt nid occs gs p ri ei ti rs es ts Hall Hi Hs.
        destruct Hall as [|o g occs' gs' Hog Hrest]; [|discriminate Hi].
        destruct (occs_nil _ _ _ _ _ _ _ _ _ _ Hi Hs) as [H1 H2]. split; [exact H1|].
        intros l Hl. destruct (H2 l Hl). split; [assumption|cbn; lia].
      + intros rt nid o g p ri ei ti rs es ts _ Hi. discriminate Hi.
      + intros t ov sub p _ _. split.
        * intros ri ei ti rs es ts Hi. discriminate Hi.
        * intros _ _ ri ei ti rs es ts Hi. discriminate Hi.
      + intros t l i sub p ri ei ti rs es ts _ _ Hi Hs. destruct l; [|discriminate Hi].
        exact (items_nil _ _ _ _ _ _ _ _ _ _ _ Hi Hs).
    - assert (Hc : P_comp (Datatypes.S n)) by (apply comp_step; assumption).
      assert (Hf : P_field (Datatypes.S n)) by (apply field_step; assumption).
      assert (Ho : P_occs (Datatypes.S n)) by (apply occs_step; assumption).
      split; [|split; [|split; [|split]]]; try assumption.
      + apply set_step; assumption.
      + apply items_step; assumption.
  Qed.
End Refine.

(* ---- request level ---------------------------------------------------------- *)
Definition wf_implements (S : schema) : Prop := forall rt c,
    mem c (implements_of S rt) =
    match tdef_of S c with Some (DInterface _ p) => mem rt p | _ => false end.
Definition wf_types (S : schema) : Prop := forall rt f t, obj_field_ty S rt f = Some t -> wf_ty t.

(* C01 for the corrected executor: with every recorded deviation switched off,
   the executor model returns exactly the data of the specification's
   algorithm — any schema, world, document, operation, variables and fuel. *)
Theorem corrected_refines_spec S w d opname vars n r1 r2 :
  wf_implements S -> wf_types S ->
  impl_exec quirks_none S w d opname vars n = Ok r1 ->
  spec_exec S w d opname vars n = Ok r2 ->
  rs_data r1 = rs_data r2.
Proof.
  intros Hi Ht H1 H2. unfold impl_exec, spec_exec in *.
  destruct (select_op d opname) as [o|]; [|discriminate H1].
  destruct (root_name S o) as [rt|]; [|discriminate H1].
  apply bindo_ok in H1. destruct H1 as ([[v1 e1] t1] & Ha & H1).
  apply bindo_ok in H2. destruct H2 as ([[v2 e2] t2] & Hb & H2).
  destruct (sim S w (doc_frags d) vars (op_vars o) Hi Ht n) as (Hset & _).
  destruct (Hset rt rt _ _ _ _ _ _ _ _ _ (or_introl eq_refl) Ha Hb) as [Hrel _].
  injection H2 as <-.
  destruct v1 as [x|ep]; destruct v2 as [y|]; cbn [rel_top] in Hrel; try contradiction;
    injection H1 as <-; cbn [rs_data]; congruence.
Qed.

(* a position whose type is non-null never holds null: stated on the
   specification side and transported by the theorem above.  Completion of a
   non-null type never returns a null value. *)
Lemma spec_nonnull_never_null S w frags vars vdefs n t' o sub p v es tr :
  s_complete S w frags vars vdefs n (TNonNull t') o sub p = Ok (RVal v, es, tr) -> v <> VNull.
Proof.
  destruct n as [|n]; [discriminate|]. cbn [s_complete].
  fold (s_complete S w frags vars vdefs).
  intros H. apply bindo_ok in H. destruct H as ([[r e] t] & _ & H).
  injection H as H _ _. destruct r as [x|]; [|discriminate H].
  destruct x; try discriminate H; injection H as <-; discriminate.
Qed.

(* Validators.v — C08: model of the built-in input validators
   (src/validators/*.rs) as invoked by the code that derive/src/validators.rs
   ::create_validators emits, and the specification "accepted iff every stated
   predicate holds under exact arithmetic on the value of the declared type".
   Executable definitions only; proofs are in ValidatorsProofs.v.

   What comes from the source on every run (ValidatorGen.v): the comparison
   operator of every validator, the measure (bytes / chars) of the string
   validators, the zero guard of multiple_of, the order and grouping of the
   validators in the generated code.  What is hand-modelled: the numeric
   conversions performed by `value.as_()` (num_traits::AsPrimitive = Rust `as`)
   into the type of the bound (i64 for an integer literal, f64 for a float
   literal), `%` on i64 / f64, str::len, chars().count(), as_raw_value. *)
From AG Require Export Base.
From AGgen Require Export ValidatorGen.
Open Scope Z_scope.

Definition I64_MIN : Z := - 2 ^ 63.
Definition I64_MAX : Z := 2 ^ 63 - 1.

(* ------------------------------------------------------------- f64 values -- *)
(* A double is carried as its 64-bit pattern and decoded to the extended real
   it denotes: m * 2^e (the sign of zero is dropped: no validator observes it). *)
Inductive fl := FNaN | FInf (neg : bool) | FFin (m e : Z).

Definition decode (bits : N) : fl :=
  let b := Z.of_N bits in
  let s := Z.odd (b / 2 ^ 63) in
  let E := (b / 2 ^ 52) mod 2 ^ 11 in
  let F := b mod 2 ^ 52 in
  if E =? 2047 then (if F =? 0 then FInf s else FNaN)
  else
    let m := if E =? 0 then F else 2 ^ 52 + F in
    let e := (if E =? 0 then 1 else E) - 1075 in
    FFin (if s then - m else m) e.

(* IEEE-754 comparison of two doubles = exact comparison of the denoted values;
   unordered when a NaN is involved. *)
Definition dy_cmp (m e m' e' : Z) : comparison :=
  let k := Z.min e e' in (m * 2 ^ (e - k)) ?= (m' * 2 ^ (e' - k)).

Definition fl_compare (a b : fl) : option comparison :=
  match a, b with
  | FNaN, _ | _, FNaN => None
  | FInf s, FInf s' => Some (if Bool.eqb s s' then Eq else if s then Lt else Gt)
  | FInf s, FFin _ _ => Some (if s then Lt else Gt)
  | FFin _ _, FInf s => Some (if s then Gt else Lt)
  | FFin m e, FFin m' e' => Some (dy_cmp m e m' e')
  end.

(* a Rust comparison operator applied to an (un)ordered comparison result *)
Definition cmp_c (c : cmp) (o : option comparison) : bool :=
  match o with
  | None => match c with CNe => true | _ => false end
  | Some r =>
    match c, r with
    | CLe, Gt => false | CLe, _ => true
    | CGe, Lt => false | CGe, _ => true
    | CLt, Lt => true | CLt, _ => false
    | CGt, Gt => true | CGt, _ => false
    | CEq, Eq => true | CEq, _ => false
    | CNe, Eq => false | CNe, _ => true
    end
  end.
Definition cmp_z (c : cmp) (a b : Z) : bool := cmp_c c (Some (a ?= b)).
Definition cmp_fl (c : cmp) (a b : fl) : bool := cmp_c c (fl_compare a b).

(* ------------------------------------------------------------ `as` casts -- *)
(* integer -> i64: identity on i8..i64/isize and on u8..u32; two's complement
   wrap for u64/usize values above i64::MAX. *)
Definition wrap64 (z : Z) : Z := (z + 2 ^ 63) mod 2 ^ 64 - 2 ^ 63.
Definition clamp64 (t : Z) : Z := Z.max I64_MIN (Z.min I64_MAX t).
(* float -> i64: truncate toward zero, saturate, NaN -> 0 *)
Definition f2i (f : fl) : Z :=
  match f with
  | FNaN => 0
  | FInf s => if s then I64_MIN else I64_MAX
  | FFin m e => clamp64 (if 0 <=? e then m * 2 ^ e else Z.quot m (2 ^ (- e)))
  end.
(* integer -> f64: round to nearest, ties to even (53-bit significand; every
   64-bit integer is far below the overflow threshold) *)
Definition rne (z : Z) : fl :=
  let a := Z.abs z in
  if a <? 2 ^ 53 then FFin z 0
  else
    let s := Z.log2 a - 52 in
    let q := a / 2 ^ s in
    let r := a mod 2 ^ s in
    let h := 2 ^ (s - 1) in
    let q' := if r <? h then q else if h <? r then q + 1 else if Z.even q then q else q + 1 in
    FFin (Z.sgn z * q') s.

Inductive num := NI (z : Z) | NF (bits : N).   (* f32 values travel widened to f64 (exact) *)
Inductive bound := BI (n : Z) | BF (bits : N).

Definition as_i64 (x : num) : Z := match x with NI z => wrap64 z | NF b => f2i (decode b) end.
Definition as_f64 (x : num) : fl := match x with NI z => rne z | NF b => decode b end.

Definition fl_is_zero (f : fl) : bool := match f with FFin 0 _ => true | _ => false end.
(* f64 `%` (fmod): exact *)
Definition fl_rem (x n : fl) : fl :=
  match x, n with
  | FNaN, _ | _, FNaN | FInf _, _ => FNaN
  | FFin _ _, FInf _ => x
  | FFin m e, FFin m' e' =>
      if m' =? 0 then FNaN
      else let k := Z.min e e' in FFin (Z.rem (m * 2 ^ (e - k)) (m' * 2 ^ (e' - k))) k
  end.

(* ----------------------------------------------------------- the validators -- *)
Inductive res := Accept | Reject | Panicked | IllTyped.
Definition of_bool (b : bool) : res := if b then Accept else Reject.
Definition res_eqb (a b : res) : bool :=
  match a, b with
  | Accept, Accept | Reject, Reject | Panicked, Panicked | IllTyped, IllTyped => true
  | _, _ => false
  end.

Inductive numop := OMul | OMax | OMin.
Inductive lenop := LMaxLength | LMinLength | LCharsMax | LCharsMin.
Inductive vkind :=
| KNum (op : numop) (b : bound)
| KLen (op : lenop) (n : Z)
| KRegex (id : N)
| KItems (is_max : bool) (n : Z).

(* tags of ValidatorGen.v *)
Definition tag_of (k : vkind) : N :=
  match k with
  | KNum OMul _ => 0 | KNum OMax _ => 1 | KNum OMin _ => 2
  | KLen LMaxLength _ => 3 | KLen LMinLength _ => 4 | KLen LCharsMax _ => 5 | KLen LCharsMin _ => 6
  | KRegex _ => 7 | KItems true _ => 8 | KItems false _ => 9
  end%N.

(* the value of an argument / input field after InputType::parse, seen through
   as_raw_value: None for Option::None / MaybeUndefined::{Null,Undefined}. *)
Inductive arg := ANone | ANum (x : num) | AStr (s : str) | AList (l : list arg).

(* maximum / minimum / multiple_of (src/validators/{maximum,minimum,multiple_of}.rs) *)
Definition run_num (op : numop) (b : bound) (x : num) : res :=
  match b with
  | BI n =>
      let v := as_i64 x in
      match op with
      | OMax => of_bool (cmp_z maximum_cmp_gen v n)
      | OMin => of_bool (cmp_z minimum_cmp_gen v n)
      | OMul =>
          if multiple_of_zero_guard_gen && (v =? 0) then Reject
          else if n =? 0 then Panicked                          (* i64 `%` by zero *)
          else if (v =? I64_MIN) && (n =? -1) then Panicked     (* i64::MIN % -1 overflows *)
          else of_bool (Z.rem v n =? 0)
      end
  | BF f =>
      let v := as_f64 x in
      let n := decode f in
      match op with
      | OMax => of_bool (cmp_fl maximum_cmp_gen v n)
      | OMin => of_bool (cmp_fl minimum_cmp_gen v n)
      | OMul =>
          if multiple_of_zero_guard_gen && fl_is_zero v then Reject
          else of_bool (fl_is_zero (fl_rem v n))
      end
  end.

(* str::len = UTF-8 bytes; chars().count() = scalar values *)
Definition utf8_len (c : cp) : Z :=
  if (c <? 128)%N then 1 else if (c <? 2048)%N then 2 else if (c <? 65536)%N then 3 else 4.
Definition byte_len (s : str) : Z := fold_right (fun c a => utf8_len c + a) 0 s.
Definition char_len (s : str) : Z := Z.of_nat (length s).
Definition measure_of (m : measure) (s : str) : Z :=
  match m with MBytes => byte_len s | MChars => char_len s end.

Definition run_len (op : lenop) (n : Z) (s : str) : res :=
  match op with
  | LMaxLength => of_bool (cmp_z max_length_cmp_gen (measure_of max_length_measure_gen s) n)
  | LMinLength => of_bool (cmp_z min_length_cmp_gen (measure_of min_length_measure_gen s) n)
  | LCharsMax => of_bool (cmp_z chars_max_length_cmp_gen (measure_of chars_max_length_measure_gen s) n)
  | LCharsMin => of_bool (cmp_z chars_min_length_cmp_gen (measure_of chars_min_length_measure_gen s) n)
  end.

Definition run_items (is_max : bool) (n : Z) (l : list arg) : res :=
  of_bool (cmp_z (if is_max then max_items_cmp_gen else min_items_cmp_gen) (Z.of_nat (length l)) n).

Fixpoint first_fail (l : list res) : res :=
  match l with
  | [] => Accept
  | Accept :: t => first_fail t
  | r :: _ => r
  end.

Definition slot := (list vkind * bool * arg)%type.   (* validator(...) contents, `list` flag, value *)

Section Model.
  (* regex::Regex::new(re).map(|re| re.is_match(s)) == Ok(true), per pattern id *)
  Variable matches : N -> str -> bool.

  Definition run_kind (k : vkind) (a : arg) : res :=
    match k, a with
    | KNum op b, ANum x => run_num op b x
    | KLen op n, AStr s => run_len op n s
    | KRegex r, AStr s => of_bool (regex_requires_compile_gen && matches r s)
    | KItems mx n, AList l => run_items mx n l
    | _, _ => IllTyped            (* does not compile in Rust *)
    end.

  (* the validators of one group, in the order create_validators pushes them *)
  Definition pick (cfg : list vkind) (order : list N) : list vkind :=
    flat_map (fun t => filter (fun k => N.eqb (tag_of k) t) cfg) order.
  Definition run_kinds (ks : list vkind) (a : arg) : res :=
    first_fail (map (fun k => run_kind k a) ks).
  Definition on_raw (a : arg) (f : arg -> res) : res :=
    match a with ANone => Accept | _ => f a end.

  (* the code create_validators emits for one argument / input field *)
  Definition run_slot (s : slot) : res :=
    let '(cfg, lm, a) := s in
    let lks := pick cfg list_order_gen in
    let eks := pick cfg elem_order_gen in
    let r_list := match lks with [] => Accept | _ => on_raw a (run_kinds lks) end in
    let r_elem :=
      match eks with
      | [] => Accept
      | _ => if lm
             then match a with
                  | ANone => Accept
                  | AList l => first_fail (map (fun it => on_raw it (run_kinds eks)) l)
                  | _ => IllTyped
                  end
             else on_raw a (run_kinds eks)
      end in
    first_fail [r_list; r_elem].

  (* arguments are extracted (and validated) one after the other; the first
     error is returned and the resolver body does not run *)
  Definition run_exec (ss : list slot) : res := first_fail (map run_slot ss).

  (* Strict validation (rules::ArgumentsOfCorrectType, before execution) checks
     every number offered to an `Int` position with the is_valid function the
     registry holds for "Int" — always i32's (`n.is_i64()`, registered first by
     Registry::add_system_types) — so an unsigned value above i64::MAX is
     rejected there; fast mode has no such rule. *)
  Fixpoint arg_big (a : arg) : bool :=
    match a with
    | ANum (NI z) => (z <? I64_MIN) || (I64_MAX <? z)
    | AList l => existsb arg_big l
    | _ => false
    end.
  Definition req_big (ss : list slot) : bool := existsb (fun s : slot => arg_big (snd s)) ss.
  Definition run_req (strict : bool) (ss : list slot) : res :=
    if strict && req_big ss then Reject else run_exec ss.

  (* ---------------------------------------------------------------- spec -- *)
  (* Exact arithmetic on the denoted values; written without reference to
     ValidatorGen.v or to the casts above. *)
  Definition ext_of_num (x : num) : fl := match x with NI z => FFin z 0 | NF b => decode b end.
  Definition ext_of_bound (b : bound) : fl := match b with BI n => FFin n 0 | BF f => decode f end.

  Definition spec_cmp (a b : fl) : option comparison :=
    match a, b with
    | FNaN, _ | _, FNaN => None
    | FInf s, FInf s' => Some (if Bool.eqb s s' then Eq else if s then Lt else Gt)
    | FInf s, FFin _ _ => Some (if s then Lt else Gt)
    | FFin _ _, FInf s => Some (if s then Gt else Lt)
    | FFin m e, FFin m' e' =>
        Some (if e <=? e' then m ?= m' * 2 ^ (e' - e) else m * 2 ^ (e - e') ?= m')
    end.
  Definition spec_le (a b : fl) : bool :=
    match spec_cmp a b with Some Lt | Some Eq => true | _ => false end.
  (* v = k * n for some integer k *)
  Definition spec_multiple (v n : fl) : bool :=
    match v, n with
    | FFin m e, FFin m' e' =>
        let k := Z.min e e' in
        let X := m * 2 ^ (e - k) in
        let D := m' * 2 ^ (e' - k) in
        if D =? 0 then X =? 0 else X mod D =? 0
    | _, _ => false
    end.
  Definition spec_num (op : numop) (b : bound) (x : num) : bool :=
    let v := ext_of_num x in
    let n := ext_of_bound b in
    match op with
    | OMax => spec_le v n
    | OMin => spec_le n v
    | OMul => spec_multiple v n
    end.
  Definition spec_len (op : lenop) (n : Z) (s : str) : bool :=
    match op with
    | LMaxLength => byte_len s <=? n
    | LMinLength => n <=? byte_len s
    | LCharsMax => char_len s <=? n
    | LCharsMin => n <=? char_len s
    end.
  Definition spec_kind (k : vkind) (a : arg) : bool :=
    match k, a with
    | KNum op b, ANum x => spec_num op b x
    | KLen op n, AStr s => spec_len op n s
    | KRegex r, AStr s => matches r s
    | KItems true n, AList l => Z.of_nat (length l) <=? n
    | KItems false n, AList l => n <=? Z.of_nat (length l)
    | _, _ => false
    end.
  Definition is_list_kind (k : vkind) : bool := match k with KItems _ _ => true | _ => false end.
  Definition holds_nonnull (k : vkind) (a : arg) : bool :=
    match a with ANone => true | _ => spec_kind k a end.
  Definition spec_slot (s : slot) : bool :=
    let '(cfg, lm, a) := s in
    forallb (fun k =>
      if is_list_kind k then holds_nonnull k a
      else if lm then match a with
                      | ANone => true
                      | AList l => forallb (holds_nonnull k) l
                      | _ => false
                      end
           else holds_nonnull k a) cfg.
  Definition spec_req (ss : list slot) : bool := forallb spec_slot ss.

  (* -------------------------------------------------------- known classes -- *)
  Variable strict : bool.
  (* 1 unsigned value above i64::MAX against an integer bound (wraps), or offered in strict mode (rejected before execution)
     2 float value that is not an integer inside the i64 range, against an integer bound (truncates / saturates)
     3 integer value of magnitude >= 2^53 against a float bound (rounds)
     4 multiple_of applied to zero (rejected by the zero guard)
     5 multiple_of = 0 (integer bound) applied to a non-zero value, or multiple_of = -1 applied to i64::MIN (`%` panics)  *)
  Definition fl_integral_i64 (f : fl) : bool :=
    match f with
    | FFin m e =>
        if 0 <=? e then (I64_MIN <=? m * 2 ^ e) && (m * 2 ^ e <=? I64_MAX)
        else (m mod 2 ^ (- e) =? 0) && (I64_MIN <=? m / 2 ^ (- e)) && (m / 2 ^ (- e) <=? I64_MAX)
    | _ => false
    end.
  Definition num_is_zero (x : num) : bool :=
    match x with NI z => z =? 0 | NF b => fl_is_zero (decode b) end.
  Definition pair_class (k : vkind) (a : arg) : N :=
    match k, a with
    | KNum op b, ANum x =>
        match b, x with
        | BI _, NI z => if (z <? I64_MIN) || (I64_MAX <? z) then 1%N else 0%N
        | BI _, NF f => if fl_integral_i64 (decode f) then 0%N else 2%N
        | BF _, NI z => if strict && ((z <? I64_MIN) || (I64_MAX <? z)) then 1%N
                        else if 2 ^ 53 <=? Z.abs z then 3%N else 0%N
        | BF _, NF _ => 0%N
        end
    | _, _ => 0%N
    end.
  Definition pair_class2 (k : vkind) (a : arg) : N :=
    match pair_class k a with
    | 0%N =>
        match k, a with
        | KNum OMul b, ANum x =>
            if multiple_of_zero_guard_gen && num_is_zero x then 4%N
            else match b with
                 | BI n => if (n =? 0) || ((n =? -1) && (as_i64 x =? I64_MIN)) then 5%N else 0%N
                 | BF _ => 0%N
                 end
        | _, _ => 0%N
        end
    | c => c
    end.
  Fixpoint first_nz (l : list N) : N :=
    match l with [] => 0%N | 0%N :: t => first_nz t | c :: _ => c end.
  Definition items_of (lm : bool) (a : arg) : list arg :=
    if lm then match a with AList l => l | _ => [a] end else [a].
  Definition slot_class (s : slot) : N :=
    let '(cfg, lm, a) := s in
    first_nz (flat_map (fun k => if is_list_kind k then [] else map (pair_class2 k) (items_of lm a)) cfg).
  Definition req_class (ss : list slot) : N :=
    match first_nz (map slot_class ss) with
    | 0%N => if strict && req_big ss then 1%N else 0%N
    | c => c
    end.

  (* a request outcome satisfies the specification: accepted iff every predicate holds,
     otherwise an error (a panic or an ill-typed outcome satisfies nothing) *)
  Definition sat (r : res) (s : bool) : bool :=
    match r with Accept => s | Reject => negb s | _ => false end.
End Model.

(* ----------------------------------------------------- correspondence cases -- *)
Definition str_eqb (a b : str) : bool := list_eqb N.eqb a b.
Fixpoint lookup (tbl : list (N * str * bool)) (r : N) (s : str) : bool :=
  match tbl with
  | [] => false
  | (r', s', m) :: t => if N.eqb r r' && str_eqb s s' then m else lookup t r s
  end.

Definition res_of_code (c : N) : res :=
  match c with 0%N => Accept | 1%N => Reject | 2%N => Panicked | _ => IllTyped end.

(* tbl: regex results computed by the harness with the regex crate;
   impl: 0 resolver ran / Ok(()), 1 error reported for the field / Err, 2 panic, 3 anything else *)
Definition check_case (c : list (N * str * bool) * bool * list slot * N) : N :=
  let '(tbl, strict, ss, code) := c in
  let mt := lookup tbl in
  let impl := res_of_code code in
  let m := run_req mt strict ss in
  let s := spec_req mt ss in
  verdict (res_eqb impl m) (sat m s) (sat impl s) (req_class strict ss).

(* ------------------------------------------- predicates used by the theorems -- *)
Definition in_i64 (z : Z) : Prop := I64_MIN <= z <= I64_MAX.

(* the validator applies to a value of this shape (otherwise the Rust code does not compile) *)
Definition wt_kind (k : vkind) (a : arg) : bool :=
  match k, a with
  | KNum _ _, ANum _ | KLen _ _, AStr _ | KRegex _, AStr _ | KItems _ _, AList _ => true
  | _, _ => false
  end.
Definition wt_nonnull (k : vkind) (a : arg) : bool :=
  match a with ANone => true | _ => wt_kind k a end.
Definition wt_slot (s : slot) : bool :=
  let '(cfg, lm, a) := s in
  forallb (fun k =>
    if is_list_kind k then wt_nonnull k a
    else if lm then match a with
                    | ANone => true
                    | AList l => forallb (wt_nonnull k) l
                    | _ => false
                    end
         else wt_nonnull k a) cfg.

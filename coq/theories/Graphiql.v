(* Graphiql.v — C34: model of GraphiQLSource::finish (src/http/graphiql_source.rs):
   the askama template (translated on every run into TemplateGen.template_gen)
   rendered with askama's HTML escaper on every {{ }} hole; and the
   specification: what a browser makes of each hole — an ECMAScript
   single-quoted string literal inside <script>, RCDATA text inside <title>.
   Executable definitions only, no proofs. *)
From AG Require Export Base.
From AGgen Require Export TemplateGen.
Open Scope N_scope.

Definition gstr_eqb (a b : str) : bool := list_eqb N.eqb a b.

(* ----------------------------------------------------- askama::html escape -- *)
(* askama-0.15 src/html.rs: CHARS = ampersand, apostrophe, less-than,
   greater-than and the double quote; each is written as &#NN; with NN the
   decimal code point (two digits) *)
Definition esc_special (c : cp) : bool := (c =? 34) || (c =? 38) || (c =? 39) || (c =? 60) || (c =? 62).
Definition esc_char (c : cp) : str :=
  if esc_special c then [38; 35; 48 + c / 10; 48 + c mod 10; 59] else [c].
Definition html_escape (s : str) : str := flat_map esc_char s.

(* ------------------------------------------------------------- rendering ---- *)
Record config := {
  c_endpoint : str;
  c_sub : option str;
  c_version : str;
  c_headers : option (list (str * str));   (* in the map's iteration order *)
  c_ws : option (list (str * str));
  c_title : option str;
  c_cred : N }.                            (* index into credentials_gen *)

(* variables: 0 title, 1 version, 2 credentials, 3 endpoint, 4 subscription_endpoint,
   5 headers, 6 ws_connection_params, 7 key, 8 value *)
Definition var_str (cfg : config) (kv : str * str) (v : N) : str :=
  if v =? 0 then match c_title cfg with Some t => t | None => [] end
  else if v =? 1 then c_version cfg
  else if v =? 2 then nth (N.to_nat (c_cred cfg)) credentials_gen []
  else if v =? 3 then c_endpoint cfg
  else if v =? 4 then match c_sub cfg with Some t => t | None => [] end
  else if v =? 7 then fst kv
  else if v =? 8 then snd kv
  else [].
Definition is_some {A} (o : option A) : bool := match o with Some _ => true | None => false end.
Definition var_some (cfg : config) (v : N) : bool :=
  if v =? 0 then is_some (c_title cfg)
  else if v =? 4 then is_some (c_sub cfg)
  else if v =? 5 then is_some (c_headers cfg)
  else if v =? 6 then is_some (c_ws cfg)
  else false.
Definition var_map (cfg : config) (v : N) : list (str * str) :=
  match (if v =? 5 then c_headers cfg else if v =? 6 then c_ws cfg else None) with
  | Some m => m
  | None => []
  end.

(* the generated `render_into`: literals verbatim, holes through the escaper *)
Fixpoint render_node (cfg : config) (kv : str * str) (n : tnode) (tail : str) {struct n} : str :=
  let fix go (kv : str * str) (l : list tnode) (tail : str) {struct l} : str :=
      match l with
      | [] => tail
      | x :: r => render_node cfg kv x (go kv r tail)
      end in
  match n with
  | TLit s => s ++ tail
  | TVar v _ => html_escape (var_str cfg kv v) ++ tail
  | TIfSome v th el => if var_some cfg v then go kv th tail else go kv el tail
  | TFor v body => fold_right (fun kv' t => go kv' body t) tail (var_map cfg v)
  end.
Fixpoint render_nodes (cfg : config) (kv : str * str) (l : list tnode) (tail : str) : str :=
  match l with
  | [] => tail
  | x :: r => render_node cfg kv x (render_nodes cfg kv r tail)
  end.
Definition render (cfg : config) : str := render_nodes cfg ([], []) template_gen [].

(* ------------------------------------------------ what the browser sees ----- *)
Definition lower (c : cp) : cp := if (65 <=? c) && (c <=? 90) then c + 32 else c.
(* [pat] is lower case *)
Fixpoint starts_ci (pat s : str) : bool :=
  match pat, s with
  | [], _ => true
  | p :: pat', c :: s' => (lower c =? p) && starts_ci pat' s'
  | _ :: _, [] => false
  end.
Fixpoint strip_prefix (pat s : str) : option str :=
  match pat, s with
  | [], _ => Some s
  | p :: pat', c :: s' => if c =? p then strip_prefix pat' s' else None
  | _ :: _, [] => None
  end.

Definition P_SCRIPT_END : str := [47; 115; 99; 114; 105; 112; 116].   (* /script *)
Definition P_COMMENT : str := [33; 45; 45].                           (* !--     *)
Definition P_TITLE_END : str := [47; 116; 105; 116; 108; 101].        (* /title  *)
Definition S_TITLE_END : str := [60; 47; 116; 105; 116; 108; 101; 62]. (* </title> *)

Definition hexval (c : cp) : option N :=
  if (48 <=? c) && (c <=? 57) then Some (c - 48)
  else if (65 <=? c) && (c <=? 70) then Some (c - 55)
  else if (97 <=? c) && (c <=? 102) then Some (c - 87)
  else None.
Definition is_digit (c : cp) : bool := (48 <=? c) && (c <=? 57).

Inductive jsres := JOk (v rest : str) | JErr (code : N).
Definition jcons (c : cp) (r : jsres) : jsres :=
  match r with JOk v rest => JOk (c :: v) rest | JErr e => JErr e end.

(* \u{H+}: hex digits up to the closing brace *)
Fixpoint hex_braced (s : str) (acc : N) (any : bool) : option (N * str) :=
  match s with
  | [] => None
  | c :: r => if c =? 125 then (if any && (acc <=? 1114111) then Some (acc, r) else None)
              else match hexval c with
                   | Some h => hex_braced r (acc * 16 + h) true
                   | None => None
                   end
  end.

(* ECMAScript StringLiteral after the opening single quote, module (strict)
   code.  JOk value rest: the literal ended at a quote, [rest] follows it.
   Errors: 1 unterminated, 2 raw line terminator, 3 the HTML tokenizer would
   leave the script context here (</script or <!--), 4 octal escape,
   5 malformed \x / \u escape, 9 out of fuel. *)
Fixpoint js_sq_f (fuel : nat) (s : str) : jsres :=
  match fuel with
  | O => JErr 9
  | S f =>
    match s with
    | [] => JErr 1
    | c :: r =>
      if c =? 39 then JOk [] r
      else if (c =? 10) || (c =? 13) then JErr 2
      else if (c =? 60) && (starts_ci P_SCRIPT_END r || starts_ci P_COMMENT r) then JErr 3
      else if c =? 92 then
        match r with
        | [] => JErr 1
        | e :: r' =>
          if (e =? 39) || (e =? 34) || (e =? 92) then jcons e (js_sq_f f r')
          else if e =? 98 then jcons 8 (js_sq_f f r')
          else if e =? 102 then jcons 12 (js_sq_f f r')
          else if e =? 110 then jcons 10 (js_sq_f f r')
          else if e =? 114 then jcons 13 (js_sq_f f r')
          else if e =? 116 then jcons 9 (js_sq_f f r')
          else if e =? 118 then jcons 11 (js_sq_f f r')
          else if e =? 48 then
            match r' with
            | d :: _ => if is_digit d then JErr 4 else jcons 0 (js_sq_f f r')
            | [] => jcons 0 (js_sq_f f r')
            end
          else if is_digit e then JErr 4
          else if e =? 120 then
            match r' with
            | h1 :: h2 :: r'' =>
                match hexval h1, hexval h2 with
                | Some a, Some b => jcons (a * 16 + b) (js_sq_f f r'')
                | _, _ => JErr 5
                end
            | _ => JErr 5
            end
          else if e =? 117 then
            match r' with
            | 123 :: r'' =>
                match hex_braced r'' 0 false with
                | Some (v, rest) => jcons v (js_sq_f f rest)
                | None => JErr 5
                end
            | h1 :: h2 :: h3 :: h4 :: r'' =>
                match hexval h1, hexval h2, hexval h3, hexval h4 with
                | Some a, Some b, Some c', Some d => jcons (((a * 16 + b) * 16 + c') * 16 + d) (js_sq_f f r'')
                | _, _, _, _ => JErr 5
                end
            | _ => JErr 5
            end
          else if (e =? 10) || (e =? 8232) || (e =? 8233) then js_sq_f f r'      (* line continuation *)
          else if e =? 13 then match r' with 10 :: r'' => js_sq_f f r'' | _ => js_sq_f f r' end
          else jcons e (js_sq_f f r')
        end
      else jcons c (js_sq_f f r)
    end
  end.
Definition js_sq (s : str) : jsres := js_sq_f (S (length s)) s.

(* decimal character reference after "&#": digits up to ';' *)
Fixpoint dec_ref (s : str) (acc : N) (any : bool) : option (N * str) :=
  match s with
  | [] => None
  | c :: r => if c =? 59 then (if any then Some (acc, r) else None)
              else if is_digit c then dec_ref r (acc * 10 + (c - 48)) true
              else None
  end.

Inductive rcres := ROk (v rest : str) | RErr (code : N).
Definition rcons (c : cp) (r : rcres) : rcres :=
  match r with ROk v rest => ROk (c :: v) rest | RErr e => RErr e end.
Definition tag_delim (s : str) : bool :=
  match s with
  | c :: _ => (c =? 62) || (c =? 47) || (c =? 32) || (c =? 9) || (c =? 10) || (c =? 12) || (c =? 13)
  | [] => false
  end.

(* HTML RCDATA (the content of <title>): text up to the appropriate end tag,
   with decimal character references decoded.  [rest] starts at the end tag.
   Errors: 1 no end tag, 2 a character reference form that is not modelled
   (named or hexadecimal; the escaper never produces one), 9 out of fuel. *)
Fixpoint rcdata_f (fuel : nat) (s : str) : rcres :=
  match fuel with
  | O => RErr 9
  | S f =>
    match s with
    | [] => RErr 1
    | c :: r =>
      if (c =? 60) && starts_ci P_TITLE_END r && tag_delim (skipn 6 r) then ROk [] s
      else if c =? 38 then
        match r with
        | 35 :: r' => match dec_ref r' 0 false with
                      | Some (v, rest) => rcons v (rcdata_f f rest)
                      | None => RErr 2
                      end
        | _ => RErr 2
        end
      else rcons c (rcdata_f f r)
    end
  end.
Definition rcdata (s : str) : rcres := rcdata_f (S (length s)) s.

(* -------------------- the page against the template, hole by hole ----------- *)
(* Literal segments must be there verbatim; at a '{{ v }}' hole the single-quoted
   literal that starts there must evaluate to the configured value and end at
   the template's closing quote; the title text must be the configured title
   and end at the template's </title>.  {{ version }} (not part of the
   property) is matched as rendered. *)
Fixpoint walk_node (cfg : config) (kv : str * str) (n : tnode) (page : str) {struct n} : option str :=
  let fix go (kv : str * str) (l : list tnode) (page : str) {struct l} : option str :=
      match l with
      | [] => Some page
      | x :: r => match walk_node cfg kv x page with
                  | Some p => go kv r p
                  | None => None
                  end
      end in
  match n with
  | TLit s => strip_prefix s page
  | TVar v CtxJsSq =>
      match js_sq page with
      | JOk val rest => if gstr_eqb val (var_str cfg kv v) then Some (39 :: rest) else None
      | JErr _ => None
      end
  | TVar v CtxTitle =>
      match rcdata page with
      | ROk val rest => if gstr_eqb val (var_str cfg kv v) then Some rest else None
      | RErr _ => None
      end
  | TVar v CtxJsonDq => strip_prefix (html_escape (var_str cfg kv v)) page
  | TIfSome v th el => if var_some cfg v then go kv th page else go kv el page
  | TFor v body =>
      fold_left (fun acc kv' => match acc with Some p => go kv' body p | None => None end)
                (var_map cfg v) (Some page)
  end.
Fixpoint walk_nodes (cfg : config) (kv : str * str) (l : list tnode) (page : str) : option str :=
  match l with
  | [] => Some page
  | x :: r => match walk_node cfg kv x page with
              | Some p => walk_nodes cfg kv r p
              | None => None
              end
  end.

(* the fetcher options object: a nested object value must be followed by ','
   or by the end of the enclosing object (otherwise the module does not parse) *)
Definition is_ws (c : cp) : bool := (c =? 32) || (c =? 10) || (c =? 13) || (c =? 9).
Fixpoint obj_scan (fuel : nat) (s : str) (d : N) (pend : bool) : bool :=
  match fuel with
  | O => false
  | S f =>
    match s with
    | [] => false
    | c :: r =>
      if is_ws c then obj_scan f r d pend
      else if pend then
        (if c =? 44 then obj_scan f r d false
         else if c =? 125 then (if d =? 1 then true else obj_scan f r (d - 1) (d - 1 =? 1))
         else false)
      else if c =? 39 then
        match js_sq_f (S (length r)) r with
        | JOk _ rest => obj_scan f rest d false
        | JErr _ => false
        end
      else if c =? 123 then obj_scan f r (d + 1) false
      else if c =? 125 then (if d =? 1 then true else obj_scan f r (d - 1) (d - 1 =? 1))
      else obj_scan f r d false
    end
  end.
Definition S_FETCHER : str :=
  [99;114;101;97;116;101;71;114;97;112;104;105;81;76;70;101;116;99;104;101;114;40;123]. (* createGraphiQLFetcher({ *)
Fixpoint find_after (fuel : nat) (pat s : str) : option str :=
  match fuel with
  | O => None
  | S f => match strip_prefix pat s with
           | Some r => Some r
           | None => match s with [] => None | _ :: r => find_after f pat r end
           end
  end.
Definition options_ok (page : str) : bool :=
  match find_after (S (length page)) S_FETCHER page with
  | Some r => obj_scan (S (length r)) r 1 false
  | None => false
  end.

Definition values_ok (cfg : config) (page : str) : bool :=
  match walk_nodes cfg ([], []) template_gen page with
  | Some [] => true
  | _ => false
  end.
Definition page_ok (cfg : config) (page : str) : bool := values_ok cfg page && options_ok page.

(* ----------------------- context safety, judged on pages alone (no template) -- *)
(* The lexical skeleton of a page: the text of <title> is dropped (RCDATA up to
   the end tag), everything up to and including <script type="module"> is kept,
   the module script is lexed as ECMAScript with every string literal collapsed
   to its two quotes and comments dropped, up to the </script that ends it, and
   the remainder of the page is kept.  A configured value that stays inside
   its string / title context leaves no trace in the skeleton, so the page of a
   configuration and the page of the NEUTRAL configuration of the same shape
   (every configured string replaced by x, map keys by k0, k1, ...) have the
   same skeleton.  A value that ends its string, its script or its title changes
   the skeleton (extra code characters, extra literals) or makes it undefined.
   Nothing here looks at template_gen: the judgement works on whatever the
   library rendered, also when the template has left the translated subset. *)
Definition ocons (c : cp) (o : option str) : option str :=
  match o with Some l => Some (c :: l) | None => None end.
Definition head_is (c : cp) (s : str) : bool := match s with x :: _ => x =? c | [] => false end.

(* states: 0 code, 1 '...', 2 "...", 3 `...`, 4 // comment, 5 /* comment.
   None: a literal is cut by a raw line terminator, contains </script or <!--
   (the HTML tokenizer decides the end of the script, not the JS lexer), the
   page ends inside the script, or a template literal has a ${ substitution
   (not modelled). *)
Fixpoint js_skel (st : N) (s : str) {struct s} : option str :=
  match s with
  | [] => None
  | c :: r =>
    if st =? 0 then
      if (c =? 60) && starts_ci P_SCRIPT_END r then Some s
      else if c =? 39 then ocons c (js_skel 1 r)
      else if c =? 34 then ocons c (js_skel 2 r)
      else if c =? 96 then ocons c (js_skel 3 r)
      else if (c =? 47) && head_is 47 r then js_skel 4 r
      else if (c =? 47) && head_is 42 r then match r with _ :: r' => js_skel 5 r' | [] => None end
      else ocons c (js_skel 0 r)
    else if st =? 4 then
      if (c =? 60) && starts_ci P_SCRIPT_END r then Some s
      else if (c =? 10) || (c =? 13) || (c =? 8232) || (c =? 8233) then ocons c (js_skel 0 r)
      else js_skel 4 r
    else if st =? 5 then
      if (c =? 60) && starts_ci P_SCRIPT_END r then Some s
      else if (c =? 42) && head_is 47 r then match r with _ :: r' => js_skel 0 r' | [] => None end
      else js_skel 5 r
    else
      let q := if st =? 1 then 39 else if st =? 2 then 34 else 96 in
      if c =? q then ocons c (js_skel 0 r)
      else if c =? 92 then
        match r with
        | [] => None
        | 13 :: 10 :: r'' => js_skel st r''
        | _ :: r' => js_skel st r'
        end
      else if negb (st =? 3) && ((c =? 10) || (c =? 13)) then None
      else if (c =? 60) && (starts_ci P_SCRIPT_END r || starts_ci P_COMMENT r) then None
      else if (st =? 3) && (c =? 36) && head_is 123 r then None
      else js_skel st r
  end.

(* (prefix up to and including the first [pat], what follows it) *)
Fixpoint split_after (pat s : str) {struct s} : option (str * str) :=
  match strip_prefix pat s with
  | Some r => Some (pat, r)
  | None => match s with
            | [] => None
            | c :: r => match split_after pat r with
                        | Some (p, q) => Some (c :: p, q)
                        | None => None
                        end
            end
  end.

Definition S_TITLE_OPEN : str := [60; 116; 105; 116; 108; 101; 62].                     (* <title> *)
Definition S_MODULE : str :=
  [60;115;99;114;105;112;116;32;116;121;112;101;61;34;109;111;100;117;108;101;34;62].   (* <script type="module"> *)

Definition page_skel (page : str) : option str :=
  let '(head, body) := match split_after S_TITLE_OPEN page with
                       | Some (p, q) => match rcdata q with
                                        | ROk _ rest => (Some p, rest)
                                        | RErr _ => (None, [])
                                        end
                       | None => (Some [], page)
                       end in
  match head, split_after S_MODULE body with
  | Some h, Some (p, q) => match js_skel 0 q with
                           | Some k => Some (h ++ p ++ k)
                           | None => None
                           end
  | _, _ => None
  end.

Definition skel_eqb (a b : option str) : bool :=
  match a, b with Some x, Some y => gstr_eqb x y | _, _ => false end.
(* [page]: what the library rendered for the configuration; [neutral]: what it
   rendered for the neutral configuration of the same shape *)
Definition ctx_safe (page neutral : str) : bool := skel_eqb (page_skel page) (page_skel neutral).

Definition NEUTRAL : str := [120].
Fixpoint neutral_list (i : N) (l : list (str * str)) : list (str * str) :=
  match l with
  | [] => []
  | _ :: r => ([107; 48 + i], NEUTRAL) :: neutral_list (i + 1) r
  end.
Definition neutral_cfg (cfg : config) : config :=
  {| c_endpoint := NEUTRAL;
     c_sub := match c_sub cfg with Some _ => Some NEUTRAL | None => None end;
     c_version := c_version cfg;
     c_headers := match c_headers cfg with Some l => Some (neutral_list 0 l) | None => None end;
     c_ws := match c_ws cfg with Some l => Some (neutral_list 0 l) | None => None end;
     c_title := match c_title cfg with Some _ => Some NEUTRAL | None => None end;
     c_cred := c_cred cfg |}.

(* ------------------------------------------------------- known classes ------ *)
(* class 1: characters the HTML escaper rewrites to &#NN; — the script sees the
   entity text, not the configured value, but the value stays in its literal *)
Definition ent_char (c : cp) : bool :=
  (c =? 38) || (c =? 60) || (c =? 62) || (c =? 34) || (c =? 39).
(* class 3: characters the escaper passes through although they are not plain in
   a JS string literal: backslash (escape sequences; before the closing quote
   it swallows it) and the raw line terminators LF CR (the literal is cut) *)
Definition bs_char (c : cp) : bool := (c =? 92) || (c =? 10) || (c =? 13).
(* characters that do not survive HTML-escaping + JS string evaluation *)
Definition kc_char (c : cp) : bool := ent_char c || bs_char c.
Definition kc (s : str) : bool := existsb kc_char s.
Definition cfg_any (f : str -> bool) (cfg : config) : bool :=
  let pairs o := match o with Some l => existsb (fun p : str * str => f (fst p) || f (snd p)) l | None => false end in
  f (c_endpoint cfg) || (match c_sub cfg with Some s => f s | None => false end) ||
  pairs (c_headers cfg) || pairs (c_ws cfg).
Definition cfg_ent (cfg : config) : bool := cfg_any (existsb ent_char) cfg.
Definition cfg_bs (cfg : config) : bool := cfg_any (existsb bs_char) cfg.
(* both option blocks present: the template puts no comma between them *)
Definition cfg_both (cfg : config) : bool := is_some (c_headers cfg) && is_some (c_ws cfg).

Definition known_class (cfg : config) : N :=
  if cfg_bs cfg then 3 else if cfg_ent cfg then 1 else if cfg_both cfg then 2 else 0.

(* per-case verdict: [page] is what GraphiQLSource::finish returned for the
   configuration, [neutral] what it returned for the neutral configuration of
   the same shape.  Two judgements: every value verbatim (page_ok, walks the
   translated template) and every value inside its context (ctx_safe, pages
   only).  A context break on the REAL page outside class 3 is never excused
   by a known class: a configuration full of quotes is in class 1 because its
   values arrive entity-escaped, not because they may leave their literal. *)
Definition check_case (c : config * str * str) : N :=
  let '(cfg, page, neutral) := c in
  let m := render cfg in
  let eqm := gstr_eqb page m in
  let sp := page_skel page in
  let sn := page_skel neutral in
  let safe_impl := skel_eqb sp sn in
  let safe_model :=
      let nm := render (neutral_cfg cfg) in
      skel_eqb (if eqm then sp else page_skel m) (if gstr_eqb neutral nm then sn else page_skel nm) in
  if negb safe_impl && negb (cfg_bs cfg) then (if eqm then V_THEOREM_GAP else V_VIOLATION)
  else verdict eqm (page_ok cfg m && safe_model) (page_ok cfg page && safe_impl) (known_class cfg).

(* SYN: node --check on the real page's module script vs options_ok *)
Definition check_syn (c : str * bool) : N :=
  let '(page, node_ok) := c in
  if Bool.eqb (options_ok page) node_ok then 0 else 3.

(* ESC: a string through a one-hole askama template with the same escaper,
   i.e. the title hole of the real page *)
Definition check_esc (c : str * str) : N :=
  let '(s, impl) := c in
  let m := html_escape s in
  let ok x := match rcdata (x ++ S_TITLE_END) with ROk v rest => gstr_eqb v s && gstr_eqb rest S_TITLE_END | RErr _ => false end in
  verdict (gstr_eqb impl m) (ok m) (ok impl) 0.

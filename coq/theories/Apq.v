(* Apq.v — C31: model of ApolloPersistedQueriesExtension::prepare_request
   (src/extensions/apollo_persisted_queries.rs:84-133) over a cache that is an
   arbitrary partial map with an eviction oracle, the deserialisation of the
   "persistedQuery" payload (serde derive over value/src/deserializer.rs), an
   independent trace specification taken from the property text, and the
   per-case verdict function.  No proofs here (ApqProofs.v). *)
From AG Require Export Base.

(* Strings travel as interned numbers (equal strings <=> equal numbers); three
   are fixed by the harness interner. *)
Definition S_EMPTY : name := 0%N.     (* ""            *)
Definition S_VERSION : name := 1%N.   (* "version"     *)
Definition S_HASH : name := 2%N.      (* "sha256Hash"  *)

(* JSON-shaped ConstValue of request.extensions["persistedQuery"] *)
Inductive jv :=
| JNull
| JBool (b : bool)
| JInt (z : Z)          (* serde_json::Number PosInt / NegInt *)
| JFloat                (* serde_json::Number Float: never an i32 *)
| JStr (s : name)
| JList (l : list jv)
| JObj (l : list (name * jv)).   (* IndexMap: keys distinct *)

Definition in_i32 (z : Z) : bool := ((-2147483648 <=? z) && (z <=? 2147483647))%Z.

(* from_value::<PersistedQuery>: the derived visitor accepts a map (unknown
   keys ignored, both fields required) or a sequence of exactly two elements
   (visit_array rejects left-over elements); version through the i32
   primitive visitor (visit_u64 / visit_i64 range-checked, floats rejected),
   sha256Hash through the String visitor. *)
Definition decode_pq (v : jv) : option (Z * name) :=
  match v with
  | JObj l =>
      match assoc S_VERSION l, assoc S_HASH l with
      | Some (JInt z), Some (JStr h) => if in_i32 z then Some (z, h) else None
      | _, _ => None
      end
  | JList [JInt z; JStr h] => if in_i32 z then Some (z, h) else None
  | _ => None
  end.

Record request := { rq_query : name; rq_ext : option jv }.

Inductive ekind := EMalformed | EVersion | ENotFound | EMismatch.

Definition ekind_eqb (a b : ekind) : bool :=
  match a, b with
  | EMalformed, EMalformed | EVersion, EVersion | ENotFound, ENotFound | EMismatch, EMismatch => true
  | _, _ => false
  end.

Section Apq.
  Variable doc : Type.
  Variable doc_eqb : doc -> doc -> bool.
  Variable H : name -> name.             (* format!("{:x}", Sha256::digest(query)) *)
  Variable parse : name -> option doc.   (* async_graphql_parser::parse_query; None = error *)
  Variable keep_old : bool.              (* storage.set on a present key keeps the old entry
                                            (scc HashCache::put) or replaces it *)

  (* what the request goes on to do after prepare_request *)
  Inductive result :=
  | RExec (d : doc)        (* next.run with parsed_query = Some d: d is validated and executed *)
  | RParseErr              (* the request's own text does not parse; nothing runs *)
  | RErr (k : ekind).      (* the extension refused; nothing runs *)

  Definition result_eqb (a b : result) : bool :=
    match a, b with
    | RExec x, RExec y => doc_eqb x y
    | RParseErr, RParseErr => true
    | RErr x, RErr y => ekind_eqb x y
    | _, _ => false
    end.

  (* the cache: an arbitrary partial map, first match wins *)
  Definition cache := list (name * doc).

  Fixpoint evict (ev : list name) (c : cache) : cache :=
    match c with
    | [] => []
    | (k, d) :: c' => if mem k ev then evict ev c' else (k, d) :: evict ev c'
    end.

  Definition cache_put (c : cache) (h : name) (d : doc) : cache :=
    if keep_old then match assoc h c with Some _ => c | None => (h, d) :: c end
    else (h, d) :: evict [h] c.

  Definition exec_text (q : name) : result :=
    match parse q with Some d => RExec d | None => RParseErr end.

  (* one request.  [ev] is the eviction oracle: the entries that disappeared
     from the storage since the previous request (an eviction during a [set]
     is an eviction before the next request). *)
  Definition step (c0 : cache) (ev : list name) (r : request) : cache * result :=
    let c := evict ev c0 in
    match rq_ext r with
    | None => (c, exec_text (rq_query r))                    (* Ok(request) *)
    | Some v =>
      match decode_pq v with
      | None => (c, RErr EMalformed)
      | Some (ver, h) =>
        if negb (ver =? 1)%Z then (c, RErr EVersion)
        else if name_eqb (rq_query r) S_EMPTY then
          (c, match assoc h c with Some d => RExec d | None => RErr ENotFound end)
        else if negb (name_eqb h (H (rq_query r))) then (c, RErr EMismatch)
        else match parse (rq_query r) with
             | None => (c, RParseErr)
             | Some d => (cache_put c (H (rq_query r)) d, RExec d)
             end
      end
    end.

  Fixpoint run (c : cache) (hist : list (list name * request)) : cache * list result :=
    match hist with
    | [] => (c, [])
    | (ev, r) :: hist' =>
        let '(c1, res) := step c ev r in
        let '(c2, rs) := run c1 hist' in
        (c2, res :: rs)
    end.

  (* ---------------------------------------------------------------- spec -- *)
  (* Written from the property text, over the observable trace only.  A
     request *registers* (h, d) when it supplies version 1, the hash h, a
     non-empty query text whose SHA-256 is h, and the text parses to d. *)
  Definition supplied (r : request) : option (Z * name) :=
    match rq_ext r with Some v => decode_pq v | None => None end.

  Definition registers (r : request) : option (name * doc) :=
    match supplied r with
    | Some (ver, h) =>
        if (ver =? 1)%Z && negb (name_eqb (rq_query r) S_EMPTY) && name_eqb h (H (rq_query r))
        then match parse (rq_query r) with Some d => Some (h, d) | None => None end
        else None
    | None => None
    end.

  Definition log := list (name * doc).

  Definition registered (lg : log) (h : name) (d : doc) : bool :=
    existsb (fun e => name_eqb (fst e) h && doc_eqb (snd e) d) lg.

  Definition any_registered (lg : log) (h : name) : bool :=
    existsb (fun e => name_eqb (fst e) h) lg.

  Definition drop_evicted (ev : list name) (lg : log) : log :=
    filter (fun e => negb (mem (fst e) ev)) lg.

  (* [lossy]: the storage may drop entries without telling (LRU); otherwise
     the only losses are the announced evictions. *)
  Definition spec_step (lossy : bool) (lg : log) (r : request) (res : result) : bool :=
    match rq_ext r with
    | None => result_eqb res (exec_text (rq_query r))
    | Some v =>
      match decode_pq v with
      | None => result_eqb res (RErr EMalformed)
      | Some (ver, h) =>
        if negb (ver =? 1)%Z then result_eqb res (RErr EVersion)
        else if name_eqb (rq_query r) S_EMPTY then
          match res with
          | RExec d => registered lg h d
          | RErr ENotFound => lossy || negb (any_registered lg h)
          | _ => false
          end
        else if negb (name_eqb h (H (rq_query r))) then result_eqb res (RErr EMismatch)
        else result_eqb res (exec_text (rq_query r))
      end
    end.

  Fixpoint spec_trace (lossy : bool) (lg : log) (tr : list (list name * request * result)) : bool :=
    match tr with
    | [] => true
    | (ev, r, res) :: tr' =>
        let lg1 := drop_evicted ev lg in
        spec_step lossy lg1 r res &&
        spec_trace lossy (match registers r with Some e => e :: lg1 | None => lg1 end) tr'
    end.

  Fixpoint zip_trace (hist : list (list name * request)) (rs : list result)
    : list (list name * request * result) :=
    match hist, rs with
    | (ev, r) :: hist', res :: rs' => (ev, r, res) :: zip_trace hist' rs'
    | _, _ => []
    end.

  (* ------------------------------------------ vocabulary of the theorems -- *)
  (* Every cached pair satisfies any predicate that holds of what the cache
     started with and of every registration of the history. *)
  Definition cache_sat (Q : name -> doc -> Prop) (c : cache) : Prop :=
    forall h d, assoc h c = Some d -> Q h d.

  (* the hash is the SHA-256 of a text that parses to the document *)
  Definition hashed (h : name) (d : doc) : Prop := exists q, H q = h /\ parse q = Some d.

  (* what a result may be, given the predicate on the cache *)
  Definition result_sat (Q : name -> doc -> Prop) (r : request) (res : result) : Prop :=
    match res with
    | RExec d =>
        match supplied r with
        | Some (ver, h) => ver = 1%Z /\ Q h d
        | None => rq_ext r = None /\ parse (rq_query r) = Some d
        end
    | _ => True
    end.

  (* requests the extension must refuse *)
  Definition refused (r : request) (k : ekind) : Prop :=
    match k with
    | EMalformed => exists v, rq_ext r = Some v /\ decode_pq v = None
    | EVersion => exists ver h, supplied r = Some (ver, h) /\ ver <> 1%Z
    | EMismatch => exists h, supplied r = Some (1%Z, h) /\ rq_query r <> S_EMPTY /\ h <> H (rq_query r)
    | ENotFound => False
    end.
End Apq.

Arguments RExec {doc} d.
Arguments RParseErr {doc}.
Arguments RErr {doc} k.

(* ------------------------------------------------- correspondence cases -- *)
(* A case: the real SHA-256 and parse result of every text used (computed by
   the harness with its own SHA-256 / the parser directly), the storage back end, and the
   history with what the real extension answered.  Documents are identified by
   the outcome of executing them on a schema without the extension. *)
Definition table := list (name * (name * option N)).

Definition tbl_H (t : table) (q : name) : name :=
  match assoc q t with Some (h, _) => h | None => 3%N (* never a hash *) end.
Definition tbl_parse (t : table) (q : name) : option N :=
  match assoc q t with Some (_, p) => p | None => None end.

Inductive backend := BLru | BCustom (keep_old : bool).

Definition backend_keep (b : backend) : bool :=
  match b with BLru => true | BCustom k => k end.
Definition backend_lossy (b : backend) : bool :=
  match b with BLru => true | BCustom _ => false end.

Definition istep := (list name * request * result N)%type.

(* LruCacheStorage does not announce its evictions: a PersistedQueryNotFound
   answer is read as "the entry was evicted before this request". *)
Definition infer_ev (b : backend) (s : istep) : list name :=
  let '(ev, r, res) := s in
  match b, res, supplied r with
  | BLru, RErr ENotFound, Some (_, h) => h :: ev
  | _, _, _ => ev
  end.

Definition model_results (t : table) (b : backend) (steps : list istep) : list (result N) :=
  snd (run N (tbl_H t) (tbl_parse t) (backend_keep b) []
           (map (fun s => (infer_ev b s, snd (fst s))) steps)).

Definition check_case (t : table) (b : backend) (steps : list istep) : N :=
  let hist := map (fun s => (fst (fst s), snd (fst s))) steps in
  let impl := map (fun s => snd s) steps in
  let model := model_results t b steps in
  let sp rs := spec_trace N N.eqb (tbl_H t) (tbl_parse t) (backend_lossy b) [] (zip_trace N hist rs) in
  verdict (list_eqb (result_eqb N N.eqb) impl model) (sp model) (sp impl) 0%N.

(* payload decoding alone: [got] = the real extension accepted the payload
   (it answered something other than the "Invalid PersistedQuery" error) *)
Definition check_decode (v : jv) (got : bool) : N :=
  if Bool.eqb got (match decode_pq v with Some _ => true | None => false end) then 0%N else 4%N.

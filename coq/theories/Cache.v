(* Cache.v — C20: model of CacheControl::merge (generated, CacheGen.v), of the
   CacheControlCalculate visitor running inside validation::visitor::visit in
   Inline mode, and the specification "never looser than the data". *)
From AG Require Export Base Doc.
From AGgen Require Export CacheGen.
Open Scope Z_scope.

Record cc := { cc_pub : bool; cc_age : Z }.
Definition cc_default : cc := {| cc_pub := true; cc_age := 0 |}.

(* CacheControl::merge — both components come from the translated source. *)
Definition merge (a b : cc) : cc :=
  {| cc_pub := merge_public_gen (cc_pub a) (cc_pub b);
     cc_age := merge_age_gen (cc_age a) (cc_age b) |}.

Definition cc_eqb (a b : cc) : bool :=
  Bool.eqb (cc_pub a) (cc_pub b) && (cc_age a =? cc_age b).

Definition policy (l : list cc) : cc := fold_left merge l cc_default.

(* Registry subset seen by the visitor. *)
Record mfield := { mf_ty : name (* concrete (unwrapped) type name *); mf_cc : cc }.

Inductive mtype :=
| MObject (c : cc) (fields : list (name * mfield))
| MInterface (fields : list (name * mfield)) (possible : list name)
| MUnion (possible : list name)
| MOther.

Record schema := {
  s_types : list (name * mtype);
  s_query : name;
  s_mutation : option name;
  s_subscription : option name }.

Definition fields_of (t : mtype) : option (list (name * mfield)) :=
  match t with
  | MObject _ f => Some f
  | MInterface f _ => Some f
  | _ => None
  end.

Definition field_by_name (t : mtype) (n : name) : option mfield :=
  match fields_of t with Some f => assoc n f | None => None end.

(* ------------------------------------------------------------------ impl -- *)
(* VisitorContext.type_stack : Vec<Option<&MetaType>> (head = top). *)
Definition tstack := list (option mtype).
Definition cur (st : tstack) : option mtype := match st with x :: _ => x | [] => None end.
Definition par (st : tstack) : option mtype := match st with _ :: y :: _ => y | _ => None end.

Section Walk.
  Variable S : schema.
  Variable frags : list (name * fragment).

  (* CacheControlCalculate::enter_selection_set *)
  Definition enter_set (st : tstack) : list cc :=
    match cur st with Some (MObject c _) => [c] | _ => [] end.

  (* CacheControlCalculate::enter_field (runs with the field's type pushed) *)
  Definition enter_field (st : tstack) (nm : name) : list cc :=
    match par st with
    | Some p => match field_by_name p nm with Some f => [mf_cc f] | None => [] end
    | None => []
    end.

  (* visit_selection / visit_selection_set / visit_field / visit_fragment_spread
     (Inline mode) / visit_inline_fragment.  Returns the policies merged, in
     visit order.  Every call consumes one unit of fuel. *)
  Fixpoint walk_sel (n : nat) (st : tstack) (s : selection) {struct n} : outcome (list cc) :=
    match n with
    | O => OutOfFuel
    | Datatypes.S n' =>
      match s with
      | SField _ nm _ _ sub =>
          if name_eqb nm N_typename then Ok []
          else
            let fty := match cur st with
                       | Some t => match field_by_name t nm with
                                   | Some f => assoc (mf_ty f) (s_types S)
                                   | None => None
                                   end
                       | None => None
                       end in
            let st' := fty :: st in
            bindo (walk_set n' st' sub) (fun r => Ok (enter_field st' nm ++ r))
      | SSpread nm _ =>
          match assoc nm frags with
          | Some fr => walk_set n' st (fr_sels fr)
          | None => Ok []
          end
      | SInline cond _ sub =>
          let st' := match cond with
                     | Some c => assoc c (s_types S) :: st
                     | None => st
                     end in
          walk_set n' st' sub
      end
    end
  with walk_set (n : nat) (st : tstack) (sels : list selection) {struct n} : outcome (list cc) :=
    match sels with
    | [] => Ok []   (* visit_selection_set does nothing on an empty set *)
    | _ =>
      match n with
      | O => OutOfFuel
      | Datatypes.S n' => bindo (walk_list n' st sels) (fun r => Ok (enter_set st ++ r))
      end
    end
  with walk_list (n : nat) (st : tstack) (sels : list selection) {struct n} : outcome (list cc) :=
    match sels with
    | [] => Ok []
    | x :: l =>
      match n with
      | O => OutOfFuel
      | Datatypes.S n' => bindo (walk_sel n' st x) (fun a =>
                          bindo (walk_list n' st l) (fun b => Ok (a ++ b)))
      end
    end.

  Definition root_of (t : optype) : option name :=
    match t with
    | OpQuery => Some (s_query S)
    | OpMutation => s_mutation S
    | OpSubscription => s_subscription S
    end.

  (* visit_operation_definition: the root type is pushed; operations whose
     root type is not configured contribute nothing (and produce an error). *)
  Definition walk_op (n : nat) (o : operation) : outcome (list cc) :=
    match root_of (op_ty o) with
    | Some r => walk_set n [assoc r (s_types S)] (op_sels o)
    | None => Ok []
    end.

  Fixpoint walk_ops (n : nat) (ops : list operation) : outcome (list cc) :=
    match ops with
    | [] => Ok []
    | o :: l => bindo (walk_op n o) (fun a => bindo (walk_ops n l) (fun b => Ok (a ++ b)))
    end.

  (* ---------------------------------------------------------------- spec -- *)
  (* Object types whose data a value of the named type can be. *)
  Definition possible_objects (ty : name) : list name :=
    match assoc ty (s_types S) with
    | Some (MObject _ _) => [ty]
    | Some (MInterface _ p) => p
    | Some (MUnion p) => p
    | _ => []
    end.

  (* DoesFragmentTypeApply (spec 6.3.2) for a runtime object type [rt]. *)
  Definition applies (cond rt : name) : bool :=
    name_eqb cond rt ||
    match assoc cond (s_types S) with
    | Some (MInterface _ p) => mem rt p
    | Some (MUnion p) => mem rt p
    | _ => false
    end.

  Definition obj_cc (rt : name) : list cc :=
    match assoc rt (s_types S) with Some (MObject c _) => [c] | _ => [] end.

  Definition obj_field (rt nm : name) : option mfield :=
    match assoc rt (s_types S) with
    | Some (MObject c f) => assoc nm f
    | _ => None
    end.

  (* The policies of every object type and field whose data the response to
     [sels], evaluated on an object of runtime type [rt], can contain. *)
  Fixpoint reach_sel (n : nat) (rt : name) (s : selection) {struct n} : outcome (list cc) :=
    match n with
    | O => OutOfFuel
    | Datatypes.S n' =>
      match s with
      | SField _ nm _ _ sub =>
          if name_eqb nm N_typename then Ok []
          else match obj_field rt nm with
               | None => Ok []
               | Some f =>
                   bindo ((fix objs (rts : list name) : outcome (list cc) :=
                             match rts with
                             | [] => Ok []
                             | rt' :: l => bindo (reach_set n' rt' sub) (fun a =>
                                           bindo (objs l) (fun b => Ok (a ++ b)))
                             end) (possible_objects (mf_ty f)))
                         (fun r => Ok (mf_cc f :: r))
               end
      | SSpread nm _ =>
          match assoc nm frags with
          | Some fr => if applies (fr_cond fr) rt then reach_set n' rt (fr_sels fr) else Ok []
          | None => Ok []
          end
      | SInline (Some c) _ sub => if applies c rt then reach_set n' rt sub else Ok []
      | SInline None _ sub => reach_set n' rt sub
      end
    end
  with reach_set (n : nat) (rt : name) (sels : list selection) {struct n} : outcome (list cc) :=
    match sels with
    | [] => Ok []
    | _ =>
      match n with
      | O => OutOfFuel
      | Datatypes.S n' => bindo (reach_list n' rt sels) (fun r => Ok (obj_cc rt ++ r))
      end
    end
  with reach_list (n : nat) (rt : name) (sels : list selection) {struct n} : outcome (list cc) :=
    match sels with
    | [] => Ok []
    | x :: l =>
      match n with
      | O => OutOfFuel
      | Datatypes.S n' => bindo (reach_sel n' rt x) (fun a =>
                          bindo (reach_list n' rt l) (fun b => Ok (a ++ b)))
      end
    end.

  Definition reach_op (n : nat) (o : operation) : outcome (list cc) :=
    match root_of (op_ty o) with
    | Some r => reach_set n r (op_sels o)
    | None => Ok []
    end.

  Fixpoint reach_ops (n : nat) (ops : list operation) : outcome (list cc) :=
    match ops with
    | [] => Ok []
    | o :: l => bindo (reach_op n o) (fun a => bindo (reach_ops n l) (fun b => Ok (a ++ b)))
    end.

  (* "Selections made only on object types": every selection set is evaluated
     on a known object type, every selected field exists, composite field
     types are object types, fragments are conditioned on the enclosing
     object type itself.  [rt] is the enclosing object type. *)
  Fixpoint oo_sel (n : nat) (rt : name) (s : selection) {struct n} : bool :=
    match n with
    | O => false
    | Datatypes.S n' =>
      match s with
      | SField _ nm _ _ sub =>
          name_eqb nm N_typename ||
          match obj_field rt nm with
          | None => false
          | Some f =>
              match assoc (mf_ty f) (s_types S) with
              | Some (MObject _ _) => oo_set n' (mf_ty f) sub
              | Some MOther => match sub with [] => true | _ => false end
              | _ => false
              end
          end
      | SSpread nm _ =>
          match assoc nm frags with
          | Some fr => name_eqb (fr_cond fr) rt && oo_set n' rt (fr_sels fr)
          | None => false
          end
      | SInline (Some c) _ sub => name_eqb c rt && oo_set n' rt sub
      | SInline None _ sub => oo_set n' rt sub
      end
    end
  with oo_set (n : nat) (rt : name) (sels : list selection) {struct n} : bool :=
    match sels with
    | [] => true
    | _ => match n with O => false | Datatypes.S n' => oo_list n' rt sels end
    end
  with oo_list (n : nat) (rt : name) (sels : list selection) {struct n} : bool :=
    match sels with
    | [] => true
    | x :: l => match n with O => false | Datatypes.S n' => oo_sel n' rt x && oo_list n' rt l end
    end.

  Definition is_object (rt : name) : bool :=
    match assoc rt (s_types S) with Some (MObject _ _) => true | _ => false end.

  Definition oo_op (n : nat) (o : operation) : bool :=
    match root_of (op_ty o) with
    | Some r => is_object r && oo_set n r (op_sels o)
    | None => true
    end.
End Walk.

(* p is at least as restrictive as x. *)
Definition lower (p x : cc) : bool :=
  (cc_pub x || negb (cc_pub p)) &&
  (negb (cc_age x =? -1) || (cc_age p =? -1)) &&
  (negb (cc_age x >? 0) || (cc_age p =? -1) || ((cc_age p >? 0) && (cc_age p <=? cc_age x))).

Definition wf_cc (c : cc) : bool := cc_age c >=? -1.

(* What the harness checks per case. *)
Definition impl_policy (S : schema) (d : document) (n : nat) : outcome cc :=
  bindo (walk_ops S (doc_frags d) n (doc_ops d)) (fun l => Ok (policy l)).

Definition spec_ok (S : schema) (d : document) (n : nat) (p : cc) : outcome bool :=
  bindo (reach_ops S (doc_frags d) n (doc_ops d)) (fun l =>
    Ok (forallb (lower p) l &&
        (if forallb (oo_op S (doc_frags d) n) (doc_ops d) then cc_eqb p (policy l) else true))).

Definition known_class (S : schema) (d : document) (n : nat) : bool :=
  negb (forallb (oo_op S (doc_frags d) n) (doc_ops d)).

Definition outcome_cc_eqb (a b : outcome cc) : bool :=
  match a, b with
  | Ok x, Ok y => cc_eqb x y
  | Err _, Err _ => true
  | _, _ => false
  end.

(* verdict for one case: [impl] is what the real library answered. *)
Definition check_case (S : schema) (d : document) (n : nat) (impl : outcome cc) : N :=
  let m := impl_policy S d n in
  let ok_of p := match p with
                 | Ok p => match spec_ok S d n p with Ok b => b | _ => false end
                 | _ => true (* rejected documents carry no data *)
                 end in
  verdict (outcome_cc_eqb impl m) (ok_of m) (ok_of impl) (if known_class S d n then 1%N else 0%N).

(* BatchResponse::cache_control folds merge; CacheControl::value renders it *)
Definition check_law (l : list cc) (r : cc) (h : Z * bool) : N :=
  if cc_eqb (fold_left merge (tl l) (hd cc_default l)) r &&
     (let v := value_gen (cc_pub r) (cc_age r) in (fst v =? fst h) && Bool.eqb (snd v) (snd h))
  then 0%N else 4%N.

(* ExecCheck.v — per-case verdicts for the executor properties (C01, C03, C04). *)
From AG Require Export Exec.
Open Scope N_scope.

Definition quirks_none : quirks :=
  {| q_skip_no_default := false; q_union_cond := false; q_nan_null := false; q_field_err_parent := false;
     q_list_path := false; q_iface_no_path := false; q_per_occurrence := false |}.

(* today's quirks with flag [k] switched off *)
Definition without (k : N) : quirks :=
  {| q_skip_no_default := negb (k =? 1); q_union_cond := negb (k =? 2); q_nan_null := negb (k =? 3);
     q_field_err_parent := negb (k =? 4); q_list_path := negb (k =? 5); q_iface_no_path := negb (k =? 6);
     q_per_occurrence := negb (k =? 7) |}.

Fixpoint value_eqb (a b : value) {struct a} : bool :=
  match a, b with
  | VNull, VNull => true
  | VInt x, VInt y => Z.eqb x y
  | VFloat x, VFloat y => N.eqb x y
  | VStr x, VStr y => list_eqb N.eqb x y
  | VBool x, VBool y => Bool.eqb x y
  | VEnum x, VEnum y => name_eqb x y
  | VVar x, VVar y => name_eqb x y
  | VList x, VList y =>
      (fix go (x y : list value) : bool :=
         match x, y with
         | [], [] => true
         | a :: x', b :: y' => value_eqb a b && go x' y'
         | _, _ => false
         end) x y
  | VObj x, VObj y =>
      (fix go (x y : list (name * value)) : bool :=
         match x, y with
         | [], [] => true
         | (k, a) :: x', (k', b) :: y' => name_eqb k k' && value_eqb a b && go x' y'
         | _, _ => false
         end) x y
  | _, _ => false
  end.

Definition count_path (p : path) (l : list path) : N :=
  fold_right (fun x acc => if path_eqb x p then 1 + acc else acc) 0 l.
Definition paths_sub (a b : list path) : bool :=
  forallb (fun p => count_path p a <=? count_path p b) a.
Definition paths_same (a b : list path) : bool := paths_sub a b && paths_sub b a.

Definition inv_eqb (a b : N * name) : bool := (fst a =? fst b) && name_eqb (snd a) (snd b).
Definition count_inv (x : N * name) (l : list (N * name)) : N :=
  fold_right (fun y acc => if inv_eqb x y then 1 + acc else acc) 0 l.
Definition trace_sub (a b : list (N * name)) : bool :=
  forallb (fun x => count_inv x a <=? count_inv x b) a.

Definition same_data (a b : response) : bool := value_eqb (rs_data a) (rs_data b).
Definition same_all (a b : response) : bool :=
  same_data a b && paths_same (rs_errors a) (rs_errors b) && list_eqb inv_eqb (rs_trace a) (rs_trace b).

Section Case.
  Variable S : schema.
  Variable w : world.
  Variable d : document.
  Variable opname : option name.
  Variable vars : list (name * value).
  Variable n : nat.

  Definition model (q : quirks) : outcome response := impl_exec q S w d opname vars n.
  Definition spec : outcome response := spec_exec S w d opname vars n.

  (* first quirk whose removal alone changes what [obs] looks at; 8 = only several jointly *)
  Definition exercised_in (order : list N) (same : response -> response -> bool) (today : response) : N :=
    let try k := match model (without k) with Ok r => negb (same r today) | _ => true end in
    (fix go (l : list N) : N := match l with [] => 0 | k :: r => if try k then k else go r end) order.
  Definition exercised (same : response -> response -> bool) (today : response) : N :=
    match exercised_in [1; 2; 3; 4; 5; 6; 7] same today with 0 => 8 | k => k end.

  (* C01: response data equals the specification's *)
  Definition check_c01 (impl : response) : N :=
    match model quirks_today, model quirks_none, spec with
    | Ok m, Ok m0, Ok s =>
        if negb (same_data m0 s) then 2      (* contradicts C01_corrected_refines_spec *)
        else if same_all impl m && same_data m s then 0   (* common case, avoids the extra model runs *)
        else verdict (same_all impl m) (same_data m s) (same_data impl s)
                     (if same_data m s then 0 else exercised same_data m)
    | _, _, _ => 9
    end.

  (* C03: data as specified; every reported error is one the specification
     reports (path included), and something is reported iff something failed *)
  Definition errs_ok (r s : response) : bool :=
    same_data r s && paths_sub (rs_errors r) (rs_errors s) &&
    Bool.eqb (match rs_errors r with [] => true | _ => false end)
             (match rs_errors s with [] => true | _ => false end) &&
    (* a single failure is reported exactly once *)
    (match rs_errors s with [_] => paths_same (rs_errors r) (rs_errors s) | _ => true end).

  Definition check_c03 (impl : response) : N :=
    match model quirks_today, model quirks_none, spec with
    | Ok m, Ok m0, Ok s =>
        if negb (errs_ok m0 s) then 2
        else if same_all impl m && errs_ok m s then 0
        else
          let same a b := same_data a b && paths_same (rs_errors a) (rs_errors b) in
          (* deviations 1-3 (directive defaults, union conditions, non-finite floats) change
             values independently of failures: they are C01's subject, not C03's *)
          if errs_ok m s then verdict (same_all impl m) true (errs_ok impl s) 0
          else
          match exercised_in [4; 5; 6; 7] same m with
          | 0 => if same_all impl m then
                   (if N.eqb (exercised_in [1; 2; 3] same m) 0 then verdict true false false 8 else 0)
                 else if N.eqb (exercised_in [1; 2; 3] same m) 0 then verdict false false (errs_ok impl s) 8
                 else verdict false false (errs_ok impl s) 0   (* model differs from the spec only by 1-3: judge the implementation on its own *)
          | k => verdict (same_all impl m) false (errs_ok impl s) k
          end
    | _, _, _ => 9
    end.

  (* C04 (first half): no resolver runs more often than once per collected response key *)
  Definition check_c04 (impl : response) : N :=
    match model quirks_today, model quirks_none, spec with
    | Ok m, Ok m0, Ok s =>
        if negb (trace_sub (rs_trace m0) (rs_trace s)) then 2
        else verdict (same_all impl m) (trace_sub (rs_trace m) (rs_trace s)) (trace_sub (rs_trace impl) (rs_trace s))
                     (if trace_sub (rs_trace m) (rs_trace s) then 0 else 7)
    | _, _, _ => 9
    end.
End Case.
